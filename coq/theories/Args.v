(* Args.v — model of argument validation and of how the frontend records variable types.
   Model file: definitions only, no proofs (proofs are in ArgsProofs.v).

   Transcribed code
   * trustfall_core/src/interpreter/mod.rs   InterpretedQuery::from_query_and_arguments,
                                             validate_argument_type
   * trustfall_core/src/interpreter/error.rs QueryArgumentsError, From<Vec<QueryArgumentsError>>
   * trustfall_core/src/frontend/mod.rs      fill_in_query_variables
   `Type::is_valid_value` / `Type::intersect` / `Display for Type` are `ty_valid` / `ty_intersect` /
   `ty_display` of Ty.v.

   Conventions
   * both `IRQuery.variables : BTreeMap<Arc<str>, Type>` and the argument map
     `BTreeMap<Arc<str>, FieldValue>` are key-sorted association lists; `sorted_keys` says the keys
     are strictly increasing in Rust's `str` order (byte-wise lexicographic = String.compare);
   * `BTreeMap::get` / `contains_key` are `lookup_str` (IR.v) / `has_key`: on key-sorted lists keys
     are unique, so "first match" is "the match";
   * `unimplemented!` in `is_valid_value` (a FieldValue::Enum is reached, defect F6) surfaces as
     `Panic site_enum` through `ty_valid`. *)
From TF Require Import Values Show Ty IR.
Local Open Scope list_scope.
Local Open Scope string_scope.

(* ---------- key-sorted association lists (BTreeMap<Arc<str>, _>) ---------- *)
Fixpoint sorted_keys {A} (l : list (string * A)) : bool :=
  match l with
  | [] => true
  | (k, _) :: r =>
      match r with
      | [] => true
      | (k', _) :: _ => String.ltb k k' && sorted_keys r
      end
  end.

(* BTreeMap::contains_key *)
Definition has_key {A} (k : string) (l : list (string * A)) : bool :=
  match lookup_str k l with Some _ => true | None => false end.

(* BTreeMap::insert (also the write through `entry(k).or_insert_with(..)` / `*existing = ..`):
   replaces the value at an existing key, otherwise inserts at the key's place *)
Fixpoint set_key {A} (k : string) (a : A) (l : list (string * A)) : list (string * A) :=
  match l with
  | [] => [(k, a)]
  | (k', a') :: r =>
      match String.compare k k' with
      | Lt => (k, a) :: l
      | Eq => (k, a) :: r
      | Gt => (k', a') :: set_key k a r
      end
  end.

(* ---------- QueryArgumentsError ---------- *)
(* ArgumentTypeError(name, variable_type.to_string(), value) | MissingArguments(names) |
   UnusedArguments(names).  The fourth variant, MultipleErrors(DisplayVec(v)), only ever wraps a
   vector of two or more of the other three (From<Vec<..>> below), so a refusal is represented by
   the vector itself: `VErr [e]` is the error `e`, `VErr (e1 :: e2 :: _)` is MultipleErrors. *)
Inductive arg_error :=
| TypeErr (name : string) (type_text : string) (value : fv)
| Missing (names : list string)
| Unused (names : list string).

Inductive validation := VOk | VErr (errs : list arg_error).

Definition site_from_vec : string := "interpreter/error.rs:25 assert!(!v.is_empty())".

(* impl From<Vec<QueryArgumentsError>> for QueryArgumentsError *)
Definition error_from_vec (v : list arg_error) : res validation :=
  match v with
  | [] => Panic site_from_vec
  | _ => Ok (VErr v)          (* len == 1: the element itself; otherwise MultipleErrors(v) *)
  end.

(* validate_argument_type: Ok(()) = None, Err(ArgumentTypeError(..)) = Some *)
Definition validate_argument_type (name : string) (t : ty) (v : fv) : res (option arg_error) :=
  do b <- ty_valid t v;
  Ok (if b then None else Some (TypeErr name (ty_display t) v)).

(* the `for (variable_name, variable_type) in &indexed_query.ir_query.variables` loop;
   returns (errors, missing_arguments) *)
Fixpoint check_vars (vars : list (string * ty)) (args : list (string * fv))
  : res (list arg_error * list string) :=
  match vars with
  | [] => Ok ([], [])
  | (x, t) :: r =>
      match lookup_str x args with
      | Some v =>
          do e <- validate_argument_type x t v;
          do p <- check_vars r args;
          Ok (match e with Some e' => e' :: fst p | None => fst p end, snd p)
      | None =>
          do p <- check_vars r args;
          Ok (fst p, x :: snd p)
      end
  end.

Definition is_nil {A} (l : list A) : bool := match l with [] => true | _ => false end.

(* InterpretedQuery::from_query_and_arguments (the Ok value carries nothing new: VOk) *)
Definition validate (vars : list (string * ty)) (args : list (string * fv)) : res validation :=
  do p <- check_vars vars args;
  let errors := fst p in
  let missing_arguments := snd p in
  let errors :=
    if negb (is_nil missing_arguments) then (errors ++ [Missing missing_arguments])%list else errors in
  let unused_arguments := filter (fun arg => negb (has_key arg vars)) (map fst args) in
  let errors :=
    if negb (is_nil unused_arguments) then (errors ++ [Unused unused_arguments])%list else errors in
  if is_nil errors then Ok VOk else error_from_vec errors.

(* ---------- fill_in_query_variables ---------- *)
(* `filter.right()` kept only when it is Some(Argument::Variable(vref)) *)
Definition var_of_arg (a : option argument) : list (string * ty) :=
  match a with Some (AVar x t) => [(x, t)] | _ => [] end.

Definition vertex_uses (v : ir_vertex) : list (string * ty) :=
  flat_map (fun f => var_of_arg (vf_arg f)) (v_filters v).
Definition post_filter_uses (f : raw_fold) : list (string * ty) :=
  match f with RFold h _ => flat_map (fun pf => var_of_arg (pf_arg pf)) (fo_post h) end.

(* the order in which fill_in_query_variables meets the variable uses: this component's vertex
   filters (vertices in Vid order), then its folds' post-filters (folds in Eid order), then,
   recursively, each fold's component.  The `variables` map is threaded through all of it, so the
   recursion is a single left fold over this list. *)
Fixpoint uses_of_comp (c : raw_comp) : list (string * ty) :=
  match c with
  | RComp _ vs _ fs _ =>
     (flat_map vertex_uses vs
      ++ flat_map post_filter_uses fs
      ++ (fix go (l : list raw_fold) : list (string * ty) :=
            match l with
            | [] => []
            | RFold _ sub :: r => uses_of_comp sub ++ go r
            end) fs)%list
  end.

(* one iteration of `for vref in all_variable_uses`; state = (variables, errors.is_empty()) *)
Definition use_step (st : list (string * ty) * bool) (u : string * ty)
  : res (list (string * ty) * bool) :=
  let (vars, ok) := st in
  let (x, t) := u in
  (* variables.entry(name).or_insert_with(|| vref.variable_type.clone()) *)
  let existing := match lookup_str x vars with Some e => e | None => t end in
  do o <- ty_intersect existing t;
  match o with
  | Some intersection => Ok (set_key x intersection vars, ok)
  | None => Ok (set_key x existing vars, false)   (* IncompatibleVariableTypeRequirements pushed *)
  end.

Fixpoint uses_fold (st : list (string * ty) * bool) (uses : list (string * ty))
  : res (list (string * ty) * bool) :=
  match uses with
  | [] => Ok st
  | u :: r => do st' <- use_step st u; uses_fold st' r
  end.

(* Ok (Some vars): accepted with these recorded types; Ok None: Err(errors) *)
Definition variables_of_uses (uses : list (string * ty)) : res (option (list (string * ty))) :=
  do st <- uses_fold ([], true) uses;
  Ok (if snd st then Some (fst st) else None).

Definition variables_of_query (q : raw_query) : res (option (list (string * ty))) :=
  variables_of_uses (uses_of_comp (rq_comp q)).

(* ---------- rendering for the correspondence check (mirrored in harness/src/bin/tfh_c12.rs) ---------- *)
Definition show_names (l : list string) : string := String.concat "," (map hex l).
Definition show_arg_error (e : arg_error) : string :=
  match e with
  | TypeErr x s v => "TypeErr(" ++ hex x ++ "," ++ hex s ++ "," ++ show_fv v ++ ")"
  | Missing ns => "Missing(" ++ show_names ns ++ ")"
  | Unused ns => "Unused(" ++ show_names ns ++ ")"
  end.
Definition show_validation (v : validation) : string :=
  match v with
  | VOk => "OK"
  | VErr [e] => "ERR:" ++ show_arg_error e
  | VErr es => "ERR:Multiple[" ++ String.concat "|" (map show_arg_error es) ++ "]"
  end.
Definition show_vars (l : list (string * ty)) : string :=
  String.concat ";" (map (fun p => hex (fst p) ++ ":" ++ show_ty_hex (snd p)) l).
