(* ArgsProofs.v — lemmas about Args.v (C12): argument validation accepts exactly the well-typed,
   complete argument maps; the recorded variable types are the meets of the use-site types. *)
From Coq Require Import Lia Sorted.
From TF Require Import Values ValuesProofs Show Ty TyProofs IR Args.
Local Open Scope list_scope.

(* ================================================================== *)
(* 1. string order, association lists                                 *)
(* ================================================================== *)
Definition str_lt (a b : string) : Prop := String.ltb a b = true.

Lemma str_lt_irrefl a : ~ str_lt a a.
Proof.
  unfold str_lt, String.ltb. destruct (string_good a) as (Hr & _). unfold c_refl in Hr.
  now rewrite Hr.
Qed.

Lemma str_lt_trans a b c : str_lt a b -> str_lt b c -> str_lt a c.
Proof.
  unfold str_lt, String.ltb. destruct (string_good a) as (_ & _ & Ht & _).
  destruct (String.compare a b) eqn:E1; try discriminate.
  destruct (String.compare b c) eqn:E2; try discriminate.
  intros _ _. now rewrite (Ht b c E1 E2).
Qed.

Lemma str_cmp_gt_lt a b : String.compare a b = Gt -> str_lt b a.
Proof. intros H. unfold str_lt, String.ltb. rewrite String.compare_antisym, H. reflexivity. Qed.

Lemma str_cmp_lt a b : String.compare a b = Lt -> str_lt a b.
Proof. intros H. unfold str_lt, String.ltb. now rewrite H. Qed.

Lemma lookup_in {A} k (l : list (string * A)) a : lookup_str k l = Some a -> In (k, a) l.
Proof.
  induction l as [|[k' a'] r IH]; cbn; [discriminate|].
  destruct (String.eqb_spec k k') as [->|N]; [intros [= ->]; now left | intros H; right; auto].
Qed.

Lemma has_key_in {A} k (l : list (string * A)) : has_key k l = true <-> In k (map fst l).
Proof.
  unfold has_key. induction l as [|[k' a'] r IH]; cbn.
  - split; [discriminate | tauto].
  - destruct (String.eqb_spec k k') as [->|N]; [split; auto|].
    rewrite IH. split; [auto | intros [E|H]; [congruence | exact H]].
Qed.

Lemma has_key_false {A} k (l : list (string * A)) : has_key k l = false <-> lookup_str k l = None.
Proof. unfold has_key. destruct (lookup_str k l); split; congruence. Qed.

Lemma in_lookup_some {A} k (a : A) l : In (k, a) l -> exists a', lookup_str k l = Some a'.
Proof.
  intros H. destruct (lookup_str k l) eqn:E; [eauto|].
  apply has_key_false in E. assert (T : has_key k l = true).
  { apply has_key_in. apply (in_map fst) in H. exact H. }
  congruence.
Qed.

(* key-sortedness as StronglySorted on the keys *)
Lemma sorted_keys_strong {A} (l : list (string * A)) :
  sorted_keys l = true <-> StronglySorted str_lt (map fst l).
Proof.
  induction l as [|[k a] r IH]; cbn [sorted_keys map fst].
  - split; [constructor | reflexivity].
  - destruct r as [|[k' a'] r'].
    + split; [repeat constructor | reflexivity].
    + rewrite andb_true_iff, IH. cbn [map fst]. split.
      * intros [L S]. constructor; [exact S|]. constructor; [exact L|].
        apply StronglySorted_inv in S. destruct S as [_ F].
        eapply Forall_impl; [|exact F]. intros z Hz. eapply str_lt_trans; eassumption.
      * intros S. apply StronglySorted_inv in S. destruct S as [S F]. split; [|exact S].
        now inversion F.
Qed.

Lemma strong_filter (f : string -> bool) l :
  StronglySorted str_lt l -> StronglySorted str_lt (filter f l).
Proof.
  induction 1 as [|x l S IH F]; cbn; [constructor|].
  destruct (f x); [|exact IH]. constructor; [exact IH|].
  apply Forall_forall. intros y Hy. apply filter_In in Hy. destruct Hy as [Hy _].
  rewrite Forall_forall in F. auto.
Qed.

Lemma strong_nodup l : StronglySorted str_lt l -> NoDup l.
Proof.
  induction 1 as [|x l S IH F]; constructor; [|exact IH].
  intros Hx. rewrite Forall_forall in F. exact (str_lt_irrefl x (F x Hx)).
Qed.

(* on a key-sorted list, membership determines lookup *)
Lemma sorted_in_lookup {A} (l : list (string * A)) k a :
  sorted_keys l = true -> In (k, a) l -> lookup_str k l = Some a.
Proof.
  rewrite sorted_keys_strong. induction l as [|[k' a'] r IH]; cbn [map fst]; [intros _ []|].
  intros S H. apply StronglySorted_inv in S. destruct S as [S F]. cbn [lookup_str].
  destruct H as [[= -> ->]|H].
  - now rewrite String.eqb_refl.
  - destruct (String.eqb_spec k k') as [->|N]; [|auto].
    exfalso. rewrite Forall_forall in F. apply (str_lt_irrefl k'). apply F.
    apply (in_map fst) in H. exact H.
Qed.

(* ---------- set_key ---------- *)
Lemma lookup_set_same {A} k (a : A) l : lookup_str k (set_key k a l) = Some a.
Proof.
  induction l as [|[k' a'] r IH]; cbn [set_key lookup_str].
  - now rewrite String.eqb_refl.
  - destruct (String.compare k k') eqn:E; cbn [lookup_str].
    + now rewrite String.eqb_refl.
    + now rewrite String.eqb_refl.
    + destruct (String.eqb_spec k k') as [->|N]; [|exact IH].
      destruct (string_good k') as (Hr & _). unfold c_refl in Hr. congruence.
Qed.

Lemma lookup_set_other {A} k k2 (a : A) l : k2 <> k -> lookup_str k2 (set_key k a l) = lookup_str k2 l.
Proof.
  intros N. induction l as [|[k' a'] r IH]; cbn [set_key lookup_str].
  - destruct (String.eqb_spec k2 k); [contradiction | reflexivity].
  - destruct (String.compare k k') eqn:E; cbn [lookup_str].
    + apply String.compare_eq_iff in E. subst k'.
      destruct (String.eqb_spec k2 k); [contradiction | reflexivity].
    + destruct (String.eqb_spec k2 k); [contradiction | reflexivity].
    + now rewrite IH.
Qed.

Lemma set_key_keys {A} k (a : A) l z : In z (map fst (set_key k a l)) -> z = k \/ In z (map fst l).
Proof.
  induction l as [|[k' a'] r IH]; cbn [set_key map fst In].
  - intros [<-|[]]. now left.
  - destruct (String.compare k k') eqn:E; cbn [map fst In].
    + intros [<-|H]; [now left | right; now right].
    + intros [<-|H]; [now left | right; exact H].
    + intros [<-|H]; [right; now left|]. destruct (IH H) as [->|H']; [now left | right; now right].
Qed.

Lemma set_key_sorted {A} k (a : A) l : sorted_keys l = true -> sorted_keys (set_key k a l) = true.
Proof.
  rewrite !sorted_keys_strong. induction l as [|[k' a'] r IH]; cbn [set_key map fst].
  - intros _. repeat constructor.
  - intros S. pose proof S as S0. apply StronglySorted_inv in S. destruct S as [S F].
    destruct (String.compare k k') eqn:E; cbn [map fst].
    + apply String.compare_eq_iff in E. subst k'. exact S0.
    + apply str_cmp_lt in E. constructor; [exact S0|]. constructor; [exact E|].
      eapply Forall_impl; [|exact F]. intros z Hz. eapply str_lt_trans; [exact E | exact Hz].
    + constructor; [auto|]. apply Forall_forall. intros z Hz.
      destruct (set_key_keys _ _ _ _ Hz) as [->|Hz'].
      * now apply str_cmp_gt_lt.
      * rewrite Forall_forall in F. auto.
Qed.

(* ================================================================== *)
(* 2. validate                                                        *)
(* ================================================================== *)
(* the specification-side description of the three kinds of offending names *)
Definition ill_typed (args : list (string * fv)) (p : string * ty) : list arg_error :=
  match lookup_str (fst p) args with
  | Some v => match ty_valid (snd p) v with
              | Ok false => [TypeErr (fst p) (ty_display (snd p)) v]
              | _ => []
              end
  | None => []
  end.
Definition type_errs (vars : list (string * ty)) (args : list (string * fv)) : list arg_error :=
  flat_map (ill_typed args) vars.
Definition missing_names (vars : list (string * ty)) (args : list (string * fv)) : list string :=
  filter (fun x => negb (has_key x args)) (map fst vars).
Definition unused_names (vars : list (string * ty)) (args : list (string * fv)) : list string :=
  filter (fun x => negb (has_key x vars)) (map fst args).
Definition opt_err (mk : list string -> arg_error) (names : list string) : list arg_error :=
  match names with [] => [] | _ => [mk names] end.
Definition spec_errors vars args : list arg_error :=
  type_errs vars args ++ opt_err Missing (missing_names vars args) ++ opt_err Unused (unused_names vars args).

(* no type check of a supplied argument panics *)
Definition no_panic (vars : list (string * ty)) (args : list (string * fv)) : Prop :=
  forall x t v, In (x, t) vars -> lookup_str x args = Some v -> exists b, ty_valid t v = Ok b.

(* the property's acceptance condition *)
Definition acceptable (vars : list (string * ty)) (args : list (string * fv)) : Prop :=
  (forall x t, In (x, t) vars -> exists v, lookup_str x args = Some v /\ ty_valid t v = Ok true) /\
  (forall x, In x (map fst args) -> In x (map fst vars)).

Definition args_enum_free (args : list (string * fv)) : bool :=
  forallb (fun p => enum_free (snd p)) args.

Lemma ill_typed_eq args x t :
  ill_typed args (x, t) =
  match lookup_str x args with
  | Some v => match ty_valid t v with Ok false => [TypeErr x (ty_display t) v] | _ => [] end
  | None => []
  end.
Proof. reflexivity. Qed.

Lemma check_vars_ok vars args :
  no_panic vars args -> check_vars vars args = Ok (type_errs vars args, missing_names vars args).
Proof.
  unfold type_errs, missing_names.
  induction vars as [|[x t] r IH]; intros NP; cbn [check_vars flat_map map fst filter]; [reflexivity|].
  assert (NPr : no_panic r args) by (intros y u w Hy; apply NP; now right).
  rewrite (IH NPr). destruct (lookup_str x args) as [v|] eqn:L; cbn [bind negb fst snd].
  - destruct (NP x t v (or_introl eq_refl) L) as [b Hb]. unfold validate_argument_type.
    rewrite Hb. cbn [bind]. rewrite ill_typed_eq, L, Hb.
    replace (has_key x args) with true by (unfold has_key; now rewrite L).
    destruct b; reflexivity.
  - rewrite ill_typed_eq, L.
    replace (has_key x args) with false by (unfold has_key; now rewrite L). reflexivity.
Qed.

Lemma check_vars_ok_inv vars args p : check_vars vars args = Ok p -> no_panic vars args.
Proof.
  revert p. induction vars as [|[x t] r IH]; intros p H; [intros y u w []|].
  cbn [check_vars] in H.
  assert (K : (forall v, lookup_str x args = Some v -> exists b, ty_valid t v = Ok b) /\
              exists q, check_vars r args = Ok q).
  { destruct (lookup_str x args) as [v|].
    - unfold validate_argument_type in H. destruct (ty_valid t v) as [b|s] eqn:Ev; [|discriminate].
      cbn [bind] in H. destruct (check_vars r args) as [q|s]; [|discriminate].
      split; [intros v' [= <-]; eauto | eauto].
    - destruct (check_vars r args) as [q|s]; [|discriminate]. split; [discriminate | eauto]. }
  destruct K as [K1 [q K2]]. intros y u w [[= -> ->]|Hy] L; [now apply K1|].
  exact (IH q K2 y u w Hy L).
Qed.

Lemma check_vars_panic_iff vars args :
  (exists s, check_vars vars args = Panic s) <->
  (exists x t v s, In (x, t) vars /\ lookup_str x args = Some v /\ ty_valid t v = Panic s).
Proof.
  split.
  - induction vars as [|[x t] r IH]; intros [s H]; cbn [check_vars] in H; [discriminate|].
    destruct (lookup_str x args) as [v|] eqn:L.
    + unfold validate_argument_type in H. destruct (ty_valid t v) as [b|s'] eqn:Ev.
      * cbn [bind] in H. destruct (check_vars r args) as [q|s'] eqn:Er; [discriminate|].
        destruct IH as (y & u & w & s2 & Hy & Hl & Hv); [eauto|].
        exists y, u, w, s2. split; [now right | auto].
      * exists x, t, v, s'. split; [now left | auto].
    + destruct (check_vars r args) as [q|s'] eqn:Er; [discriminate|].
      destruct IH as (y & u & w & s2 & Hy & Hl & Hv); [eauto|].
      exists y, u, w, s2. split; [now right | auto].
  - intros (x & t & v & s & Hx & L & Hv).
    destruct (check_vars vars args) as [p|s'] eqn:E; [|eauto].
    destruct (check_vars_ok_inv _ _ _ E x t v Hx L) as [b Hb]. congruence.
Qed.

(* validate, when no type check panics, is the specification-side error list *)
Lemma validate_spec vars args :
  no_panic vars args ->
  validate vars args = Ok (match spec_errors vars args with [] => VOk | errs => VErr errs end).
Proof.
  intros NP. unfold validate. rewrite (check_vars_ok _ _ NP). cbn [bind fst snd].
  fold (unused_names vars args). unfold spec_errors, opt_err.
  destruct (missing_names vars args) as [|m ms]; destruct (unused_names vars args) as [|u us];
    cbn [is_nil negb]; rewrite ?app_nil_r.
  - destruct (type_errs vars args); reflexivity.
  - destruct (type_errs vars args); reflexivity.
  - destruct (type_errs vars args); reflexivity.
  - rewrite <- app_assoc. destruct (type_errs vars args); reflexivity.
Qed.

Lemma validate_ok_no_panic vars args r : validate vars args = Ok r -> no_panic vars args.
Proof.
  unfold validate. destruct (check_vars vars args) as [p|s] eqn:E; [|discriminate].
  intros _. eapply check_vars_ok_inv; eassumption.
Qed.

Lemma validate_panic_iff vars args :
  (exists s, validate vars args = Panic s) <->
  (exists x t v s, In (x, t) vars /\ lookup_str x args = Some v /\ ty_valid t v = Panic s).
Proof.
  rewrite <- check_vars_panic_iff. split.
  - intros [s H]. destruct (check_vars vars args) as [p|s'] eqn:E; [|eauto].
    pose proof (check_vars_ok_inv _ _ _ E) as NP. rewrite (validate_spec _ _ NP) in H. discriminate.
  - intros [s H]. unfold validate. rewrite H. cbn [bind]. eauto.
Qed.

Lemma args_enum_free_lookup args x v :
  args_enum_free args = true -> lookup_str x args = Some v -> enum_free v = true.
Proof.
  unfold args_enum_free. rewrite forallb_forall. intros F L. apply lookup_in in L.
  exact (F _ L).
Qed.

Lemma enum_free_no_panic vars args : args_enum_free args = true -> no_panic vars args.
Proof.
  intros EF x t v _ L. apply ty_valid_enum_free_ok. eapply args_enum_free_lookup; eassumption.
Qed.

Lemma validate_never_panics_enum_free vars args :
  args_enum_free args = true -> exists r, validate vars args = Ok r.
Proof. intros EF. rewrite (validate_spec _ _ (enum_free_no_panic vars _ EF)). eauto. Qed.

(* ---------- emptiness of the three parts ---------- *)
Lemma type_errs_nil vars args :
  type_errs vars args = [] <->
  (forall x t v, In (x, t) vars -> lookup_str x args = Some v -> ty_valid t v <> Ok false).
Proof.
  unfold type_errs. induction vars as [|[x t] r IH]; cbn [flat_map].
  - split; [intros _ y u w [] | reflexivity].
  - split.
    + intros H. apply app_eq_nil in H. destruct H as [H1 H2]. rewrite IH in H2.
      intros y u w [[= -> ->]|Hy] L; [|eauto]. unfold ill_typed in H1. cbn [fst snd] in H1.
      rewrite L in H1. intros Hv. rewrite Hv in H1. discriminate.
    + intros H. assert (E1 : ill_typed args (x, t) = []).
      { unfold ill_typed. cbn [fst snd]. destruct (lookup_str x args) as [v|] eqn:L; [|reflexivity].
        pose proof (H x t v (or_introl eq_refl) L) as Hv.
        destruct (ty_valid t v) as [[|]|s]; congruence. }
      rewrite E1. cbn [app]. apply IH. intros y u w Hy. apply H. now right.
Qed.

Lemma missing_nil vars args :
  missing_names vars args = [] <-> (forall x, In x (map fst vars) -> has_key x args = true).
Proof.
  unfold missing_names. induction (map fst vars) as [|x r IH]; cbn [filter].
  - split; [intros _ y [] | reflexivity].
  - destruct (has_key x args) eqn:E; cbn [negb].
    + rewrite IH. split; [intros H y [<-|Hy]; auto | intros H y Hy; apply H; now right].
    + split; [discriminate|]. intros H. specialize (H x (or_introl eq_refl)). congruence.
Qed.

Lemma unused_nil vars args :
  unused_names vars args = [] <-> (forall x, In x (map fst args) -> In x (map fst vars)).
Proof.
  unfold unused_names. induction (map fst args) as [|x r IH]; cbn [filter].
  - split; [intros _ y [] | reflexivity].
  - destruct (has_key x vars) eqn:E; cbn [negb].
    + apply has_key_in in E. rewrite IH.
      split; [intros H y [<-|Hy]; auto | intros H y Hy; apply H; now right].
    + split; [discriminate|]. intros H. specialize (H x (or_introl eq_refl)).
      apply has_key_in in H. congruence.
Qed.

Lemma spec_errors_nil_acceptable vars args :
  no_panic vars args -> (spec_errors vars args = [] <-> acceptable vars args).
Proof.
  intros NP. unfold spec_errors, acceptable. split.
  - intros H. apply app_eq_nil in H. destruct H as [H1 H2]. apply app_eq_nil in H2.
    destruct H2 as [H2 H3].
    assert (M : missing_names vars args = []) by (destruct (missing_names vars args); [reflexivity | discriminate]).
    assert (U : unused_names vars args = []) by (destruct (unused_names vars args); [reflexivity | discriminate]).
    rewrite type_errs_nil in H1. rewrite missing_nil in M. rewrite unused_nil in U.
    split; [|exact U]. intros x t Hx.
    assert (K : has_key x args = true) by (apply M; apply (in_map fst) in Hx; exact Hx).
    unfold has_key in K. destruct (lookup_str x args) as [v|] eqn:L; [|discriminate].
    exists v. split; [reflexivity|]. destruct (NP x t v Hx L) as [[|] Hb]; [exact Hb|].
    exfalso. exact (H1 x t v Hx L Hb).
  - intros [A1 A2].
    assert (H1 : type_errs vars args = []).
    { apply type_errs_nil. intros x t v Hx L. destruct (A1 x t Hx) as (v' & L' & Hv). congruence. }
    assert (M : missing_names vars args = []).
    { apply missing_nil. intros x Hx. apply in_map_iff in Hx. destruct Hx as [[y t] [<- Hx]].
      destruct (A1 y t Hx) as (v & L & _). unfold has_key. cbn [fst]. now rewrite L. }
    assert (U : unused_names vars args = []) by (now apply unused_nil).
    now rewrite H1, M, U.
Qed.

(* accepted  <->  every variable has a valid argument and every argument is a variable.
   Holds for ALL argument maps (an Enum reached by a type check makes both sides false). *)
Lemma validate_ok_iff vars args : validate vars args = Ok VOk <-> acceptable vars args.
Proof.
  split.
  - intros H. pose proof (validate_ok_no_panic _ _ _ H) as NP.
    rewrite (validate_spec _ _ NP) in H. apply spec_errors_nil_acceptable; [exact NP|].
    destruct (spec_errors vars args); [reflexivity | discriminate].
  - intros A. assert (NP : no_panic vars args).
    { intros x t v Hx L. exists true. destruct A as [A1 _].
      destruct (A1 x t Hx) as (v' & L' & Hv). congruence. }
    rewrite (validate_spec _ _ NP). apply (spec_errors_nil_acceptable _ _ NP) in A. now rewrite A.
Qed.

(* refused <-> not acceptable, on enum-free argument maps *)
Lemma validate_refused_iff vars args : args_enum_free args = true ->
  ((exists errs, validate vars args = Ok (VErr errs)) <-> ~ acceptable vars args).
Proof.
  intros EF. pose proof (enum_free_no_panic vars _ EF) as NP. rewrite (validate_spec _ _ NP).
  rewrite <- (spec_errors_nil_acceptable _ _ NP).
  destruct (spec_errors vars args) as [|e es]; split.
  - intros [errs H]. discriminate.
  - intros H. now contradiction H.
  - intros _. discriminate.
  - intros _. eauto.
Qed.

(* ---------- the contents of a refusal ---------- *)
Definition err_name (e : arg_error) : list string :=
  match e with TypeErr x _ _ => [x] | _ => [] end.
Definition type_err_names (errs : list arg_error) : list string := flat_map err_name errs.

Lemma validate_err_spec vars args errs :
  validate vars args = Ok (VErr errs) -> errs = spec_errors vars args /\ errs <> [].
Proof.
  intros H. pose proof (validate_ok_no_panic _ _ _ H) as NP. rewrite (validate_spec _ _ NP) in H.
  destruct (spec_errors vars args) as [|e es]; [discriminate|]. injection H as <-. split; [reflexivity | discriminate].
Qed.

Lemma in_type_errs vars args e :
  In e (type_errs vars args) <->
  exists x t v, e = TypeErr x (ty_display t) v /\ In (x, t) vars /\ lookup_str x args = Some v /\ ty_valid t v = Ok false.
Proof.
  unfold type_errs. rewrite in_flat_map. split.
  - intros [[x t] [Hx He]]. unfold ill_typed in He. cbn [fst snd] in He.
    destruct (lookup_str x args) as [v|] eqn:L; [|destruct He].
    destruct (ty_valid t v) as [[|]|s] eqn:Ev; try destruct He as [<-|[]]; try destruct He.
    exists x, t, v. auto.
  - intros (x & t & v & -> & Hx & L & Hv). exists (x, t). split; [exact Hx|].
    unfold ill_typed. cbn [fst snd]. rewrite L, Hv. now left.
Qed.

Lemma in_opt_err mk names e : In e (opt_err mk names) <-> e = mk names /\ names <> [].
Proof.
  unfold opt_err. destruct names as [|n ns]; cbn [In].
  - split; [tauto | intros [_ H]; now contradiction H].
  - split; [intros [<-|[]]; split; [reflexivity | discriminate] | intros [-> _]; now left].
Qed.

Lemma type_errs_not_missing vars args ns : ~ In (Missing ns) (type_errs vars args).
Proof. rewrite in_type_errs. intros (x & t & v & H & _). discriminate. Qed.
Lemma type_errs_not_unused vars args ns : ~ In (Unused ns) (type_errs vars args).
Proof. rewrite in_type_errs. intros (x & t & v & H & _). discriminate. Qed.

Lemma type_err_names_spec vars args :
  type_err_names (spec_errors vars args) =
  map fst (filter (fun p => match ill_typed args p with [] => false | _ => true end) vars).
Proof.
  unfold spec_errors, type_err_names. rewrite !flat_map_app.
  assert (E1 : forall mk names, (forall l, err_name (mk l) = []) -> flat_map err_name (opt_err mk names) = []).
  { intros mk names H. unfold opt_err. destruct names; cbn; [reflexivity | now rewrite H]. }
  rewrite (E1 Missing), (E1 Unused) by reflexivity. rewrite !app_nil_r.
  unfold type_errs. induction vars as [|[x t] r IH]; cbn [flat_map filter map]; [reflexivity|].
  rewrite flat_map_app, IH. unfold ill_typed at 1 3. cbn [fst snd].
  destruct (lookup_str x args) as [v|]; [|reflexivity].
  destruct (ty_valid t v) as [[|]|s]; reflexivity.
Qed.

Lemma strong_map_filter {A} (f : string * A -> bool) (l : list (string * A)) :
  StronglySorted str_lt (map fst l) -> StronglySorted str_lt (map fst (filter f l)).
Proof.
  induction l as [|[k a] r IH]; cbn [map fst filter]; [constructor|].
  intros S. apply StronglySorted_inv in S. destruct S as [S F].
  destruct (f (k, a)); [|auto]. cbn [map fst]. constructor; [auto|].
  apply Forall_forall. intros z Hz. rewrite Forall_forall in F. apply F.
  apply in_map_iff in Hz. destruct Hz as [p [<- Hp]]. apply filter_In in Hp. apply in_map. tauto.
Qed.

(* the full description of a refusal *)
Lemma validate_errors_exact vars args errs :
  validate vars args = Ok (VErr errs) ->
  (* the shape: type errors, then at most one Missing, then at most one Unused; never empty *)
  errs = type_errs vars args ++ opt_err Missing (missing_names vars args)
                             ++ opt_err Unused (unused_names vars args) /\
  errs <> [] /\
  (* exactly the ill-typed variables, with the type's text and the offending value *)
  (forall x s v, In (TypeErr x s v) errs <->
     exists t, In (x, t) vars /\ s = ty_display t /\ lookup_str x args = Some v /\ ty_valid t v = Ok false) /\
  (* exactly the missing names, exactly the unused names; present iff non-empty *)
  (forall ns, In (Missing ns) errs <-> ns = missing_names vars args /\ ns <> []) /\
  (forall ns, In (Unused ns) errs <-> ns = unused_names vars args /\ ns <> []) /\
  (forall x, In x (missing_names vars args) <-> In x (map fst vars) /\ lookup_str x args = None) /\
  (forall x, In x (unused_names vars args) <-> In x (map fst args) /\ ~ In x (map fst vars)) /\
  (* each once, in key order *)
  (sorted_keys vars = true ->
     StronglySorted str_lt (type_err_names errs) /\ NoDup (type_err_names errs) /\
     StronglySorted str_lt (missing_names vars args) /\ NoDup (missing_names vars args)) /\
  (sorted_keys args = true ->
     StronglySorted str_lt (unused_names vars args) /\ NoDup (unused_names vars args)).
Proof.
  intros H. destruct (validate_err_spec _ _ _ H) as [E NE]. split; [exact E|]. split; [exact NE|].
  unfold spec_errors in E.
  split; [|split; [|split; [|split; [|split; [|split]]]]].
  - intros x s v. rewrite E, !in_app_iff, in_type_errs, !in_opt_err. split.
    + intros [(y & t & w & [= -> -> ->] & Hy & L & Hv)|[[K _]|[K _]]]; try discriminate. eauto.
    + intros (t & Hx & -> & L & Hv). left. exists x, t, v. auto.
  - intros ns. rewrite E, !in_app_iff, !in_opt_err. split.
    + intros [K|[[[= ->] K]|[K _]]]; [now apply type_errs_not_missing in K | auto | discriminate].
    + intros [-> K]. right. left. auto.
  - intros ns. rewrite E, !in_app_iff, !in_opt_err. split.
    + intros [K|[[K _]|[[= ->] K]]]; [now apply type_errs_not_unused in K | discriminate | auto].
    + intros [-> K]. right. right. auto.
  - intros x. unfold missing_names. rewrite filter_In, negb_true_iff, has_key_false. reflexivity.
  - intros x. unfold unused_names. rewrite filter_In, negb_true_iff. split.
    + intros [K1 K2]. split; [exact K1|]. intros I. apply has_key_in in I. congruence.
    + intros [K1 K2]. split; [exact K1|]. destruct (has_key x vars) eqn:E0; [|reflexivity].
      apply has_key_in in E0. contradiction.
  - intros SV. apply sorted_keys_strong in SV.
    assert (S1 : StronglySorted str_lt (type_err_names errs)).
    { rewrite E. fold (spec_errors vars args). rewrite type_err_names_spec. now apply strong_map_filter. }
    assert (S2 : StronglySorted str_lt (missing_names vars args)) by (now apply strong_filter).
    repeat split; auto using strong_nodup.
  - intros SA. apply sorted_keys_strong in SA.
    assert (S3 : StronglySorted str_lt (unused_names vars args)) by (now apply strong_filter).
    split; auto using strong_nodup.
Qed.

(* ================================================================== *)
(* 3. recorded variable types are meets of the use-site types         *)
(* ================================================================== *)
Definition uses_for (x : string) (uses : list (string * ty)) : list ty :=
  map snd (filter (fun u => String.eqb (fst u) x) uses).

(* the meet of t :: ts, left to right *)
Fixpoint meet_from (acc : ty) (ts : list ty) : option ty :=
  match ts with
  | [] => Some acc
  | t :: r => match ty_meet acc t with Some m => meet_from m r | None => None end
  end.

Lemma uses_for_app x a b : uses_for x (a ++ b) = uses_for x a ++ uses_for x b.
Proof. unfold uses_for. now rewrite filter_app, map_app. Qed.

Lemma meet_from_app t r r' :
  meet_from t (r ++ r') = match meet_from t r with Some m => meet_from m r' | None => None end.
Proof.
  revert t. induction r as [|u r IH]; intros t; cbn [app meet_from]; [reflexivity|].
  destruct (ty_meet t u); [apply IH | reflexivity].
Qed.

Lemma meet_from_wf t r m : wf_ty t = true -> Forall (fun u => wf_ty u = true) r ->
  meet_from t r = Some m -> wf_ty m = true.
Proof.
  intros Wt F. revert t Wt. induction F as [|u r Wu F IH]; intros t Wt; cbn [meet_from].
  - now intros [= <-].
  - destruct (ty_meet t u) as [k|] eqn:E; [|discriminate].
    apply IH. now destruct (ty_meet_wf _ _ _ Wt Wu E).
Qed.

(* valid for the meet <-> valid for every member (enum-free values) *)
Lemma meet_from_valid t r m v : wf_ty t = true -> Forall (fun u => wf_ty u = true) r ->
  enum_free v = true -> meet_from t r = Some m ->
  (ty_valid m v = Ok true <-> forall u, In u (t :: r) -> ty_valid u v = Ok true).
Proof.
  intros Wt F EF. revert t Wt. induction F as [|u r Wu F IH]; intros t Wt; cbn [meet_from].
  - intros [= <-]. split; [intros H u [<-|[]]; exact H | intros H; apply H; now left].
  - destruct (ty_meet t u) as [k|] eqn:E; [|discriminate]. intros H.
    destruct (ty_meet_wf _ _ _ Wt Wu E) as [Wk _].
    rewrite (IH k Wk H). pose proof (ty_valid_meet _ _ _ v Wt Wu EF E) as VM. split.
    + intros K w [<-|[<-|Hw]].
      * apply VM. apply K. now left.
      * apply VM. apply K. now left.
      * apply K. now right.
    + intros K w [<-|Hw].
      * apply VM. split; apply K; [now left | right; now left].
      * apply K. right. now right.
Qed.

(* the meet is the greatest lower bound of the members in the subtype order *)
Lemma meet_from_glb t r m : wf_ty t = true -> Forall (fun u => wf_ty u = true) r ->
  meet_from t r = Some m ->
  (forall u, In u (t :: r) -> ty_sub u m = true) /\
  (forall d, wf_ty d = true -> (forall u, In u (t :: r) -> ty_sub u d = true) -> ty_sub m d = true).
Proof.
  intros Wt F. revert t Wt. induction F as [|u r Wu F IH]; intros t Wt; cbn [meet_from].
  - intros [= <-]. split.
    + intros u [<-|[]]. now apply ty_sub_refl.
    + intros d _ K. apply K. now left.
  - destruct (ty_meet t u) as [k|] eqn:E; [|discriminate]. intros H.
    destruct (ty_meet_wf _ _ _ Wt Wu E) as [Wk _].
    destruct (IH k Wk H) as [L G]. destruct (ty_meet_lower _ _ _ Wt Wu E) as [Lt Lu].
    pose proof (meet_from_wf _ _ _ Wk F H) as Wm.
    assert (Lk : ty_sub k m = true) by (apply L; now left). split.
    + intros w [<-|[<-|Hw]].
      * eapply ty_sub_trans; [| | |exact Lt|exact Lk]; assumption.
      * eapply ty_sub_trans; [| | |exact Lu|exact Lk]; assumption.
      * apply L. now right.
    + intros d Wd K. apply G; [exact Wd|]. intros w [<-|Hw].
      * destruct (ty_meet_greatest t u d Wt Wu Wd) as (c & Ec & Sc).
        -- apply K. now left.
        -- apply K. right. now left.
        -- congruence.
      * apply K. right. now right.
Qed.

(* invariant of the loop after the uses `pre` have been processed *)
Definition uses_inv (pre : list (string * ty)) (st : list (string * ty) * bool) : Prop :=
  let (vars, ok) := st in
  sorted_keys vars = true /\
  (forall x t, lookup_str x vars = Some t -> wf_ty t = true) /\
  (forall x, uses_for x pre = [] -> lookup_str x vars = None) /\
  (ok = true -> forall x t r, uses_for x pre = t :: r ->
                 exists m, meet_from t r = Some m /\ lookup_str x vars = Some m) /\
  (ok = false -> exists x t r, uses_for x pre = t :: r /\ meet_from t r = None).

Lemma uses_for_snoc x pre y t :
  uses_for x (pre ++ [(y, t)]) = uses_for x pre ++ (if String.eqb y x then [t] else []).
Proof. rewrite uses_for_app. unfold uses_for at 2. cbn. now destruct (String.eqb y x). Qed.

Lemma use_step_inv pre vars ok y t :
  uses_inv pre (vars, ok) -> wf_ty t = true -> Forall (fun u => wf_ty (snd u) = true) pre ->
  exists st', use_step (vars, ok) (y, t) = Ok st' /\ uses_inv (pre ++ [(y, t)]) st'.
Proof.
  intros (S & W & Z & IT & IF) Wt Wpre. unfold use_step.
  set (existing := match lookup_str y vars with Some e => e | None => t end).
  assert (We : wf_ty existing = true).
  { unfold existing. destruct (lookup_str y vars) as [e|] eqn:L; [eapply W; eassumption | exact Wt]. }
  rewrite (ty_intersect_ok _ _ We Wt). cbn [bind].
  assert (Wuses : forall x, Forall (fun u => wf_ty u = true) (uses_for x pre)).
  { intros x. unfold uses_for. apply Forall_forall. intros u Hu. apply in_map_iff in Hu.
    destruct Hu as [p [<- Hp]]. apply filter_In in Hp. rewrite Forall_forall in Wpre. apply Wpre. tauto. }
  (* what `existing` is, when no error has been recorded so far *)
  assert (EX : ok = true ->
               (uses_for y pre = [] /\ existing = t) \/
               (exists t0 r, uses_for y pre = t0 :: r /\ meet_from t0 r = Some existing)).
  { intros Hok. destruct (uses_for y pre) as [|t0 r] eqn:U.
    - left. split; [reflexivity|]. unfold existing. now rewrite (Z y U).
    - right. exists t0, r. split; [reflexivity|]. destruct (IT Hok y t0 r U) as (m & Hm & L).
      unfold existing. now rewrite L. }
  (* an already recorded failure persists *)
  assert (PF : ok = false -> exists x t0 r, uses_for x (pre ++ [(y, t)]) = t0 :: r /\ meet_from t0 r = None).
  { intros Hok. destruct (IF Hok) as (x & t0 & r & U & M). exists x, t0.
    rewrite uses_for_snoc, U. eexists. split; [reflexivity|]. now rewrite meet_from_app, M. }
  (* facts common to both branches *)
  assert (Z' : forall v x, uses_for x (pre ++ [(y, t)]) = [] -> lookup_str x (set_key y v vars) = None).
  { intros v x U. rewrite uses_for_snoc in U. apply app_eq_nil in U. destruct U as [U1 U2].
    destruct (String.eqb_spec y x) as [->|N]; [discriminate|].
    rewrite lookup_set_other by congruence. auto. }
  destruct (ty_meet existing t) as [i|] eqn:EM.
  - eexists. split; [reflexivity|]. cbn [uses_inv].
    destruct (ty_meet_wf _ _ _ We Wt EM) as [Wi _].
    split; [now apply set_key_sorted|]. split; [|split; [apply Z'|split; [|exact PF]]].
    + intros x u. destruct (String.eqb_spec x y) as [->|N].
      * rewrite lookup_set_same. now intros [= <-].
      * rewrite lookup_set_other by exact N. apply W.
    + intros Hok x t0 r U. rewrite uses_for_snoc in U.
      destruct (String.eqb_spec y x) as [<-|N].
      * rewrite lookup_set_same. exists i. split; [|reflexivity].
        destruct (EX Hok) as [[U0 Ee]|(t1 & r1 & U1 & M1)].
        -- rewrite U0 in U. cbn [app] in U. injection U as <- <-. cbn [meet_from].
           rewrite Ee in EM. rewrite (ty_meet_idem _ Wt) in EM. exact EM.
        -- rewrite U1 in U. cbn [app] in U. injection U as <- <-.
           rewrite meet_from_app, M1. cbn [meet_from]. now rewrite EM.
      * rewrite app_nil_r in U. rewrite lookup_set_other by congruence. exact (IT Hok x t0 r U).
  - eexists. split; [reflexivity|]. cbn [uses_inv].
    split; [now apply set_key_sorted|]. split; [|split; [apply Z'|split; [discriminate|]]].
    + intros x u. destruct (String.eqb_spec x y) as [->|N].
      * rewrite lookup_set_same. now intros [= <-].
      * rewrite lookup_set_other by exact N. apply W.
    + intros _. destruct ok; [|now apply PF].
      destruct (EX eq_refl) as [[U0 Ee]|(t1 & r1 & U1 & M1)].
      * rewrite Ee, (ty_meet_idem _ Wt) in EM. discriminate.
      * exists y, t1. rewrite uses_for_snoc, U1, String.eqb_refl. eexists. split; [reflexivity|].
        rewrite meet_from_app, M1. cbn [meet_from]. now rewrite EM.
Qed.

Lemma uses_fold_inv rest : forall pre st,
  uses_inv pre st -> Forall (fun u => wf_ty (snd u) = true) pre ->
  Forall (fun u => wf_ty (snd u) = true) rest ->
  exists st', uses_fold st rest = Ok st' /\ uses_inv (pre ++ rest) st'.
Proof.
  induction rest as [|[y t] r IH]; intros pre st I Wp Wr; cbn [uses_fold].
  - exists st. now rewrite app_nil_r.
  - apply Forall_cons_iff in Wr. destruct Wr as [Wt Wr]. cbn [snd] in Wt. destruct st as [vars ok].
    destruct (use_step_inv pre vars ok y t I Wt Wp) as (st1 & E1 & I1). rewrite E1. cbn [bind].
    destruct (IH (pre ++ [(y, t)]) st1 I1) as (st2 & E2 & I2).
    + apply Forall_app. split; [exact Wp | repeat constructor; exact Wt].
    + exact Wr.
    + exists st2. split; [exact E2|]. now rewrite <- app_assoc in I2.
Qed.

Definition uses_wf (uses : list (string * ty)) : Prop := Forall (fun u => wf_ty (snd u) = true) uses.

Lemma variables_of_uses_spec uses : uses_wf uses ->
  exists r, variables_of_uses uses = Ok r /\
  match r with
  | Some vars =>
      sorted_keys vars = true /\
      (forall x, uses_for x uses = [] -> lookup_str x vars = None) /\
      (forall x t ts, uses_for x uses = t :: ts ->
         exists m, meet_from t ts = Some m /\ lookup_str x vars = Some m)
  | None => exists x t ts, uses_for x uses = t :: ts /\ meet_from t ts = None
  end.
Proof.
  intros Wu. unfold variables_of_uses.
  destruct (uses_fold_inv uses [] ([], true)) as ([vars ok] & E & I).
  - cbn [uses_inv]. split; [reflexivity|]. split; [intros x t; discriminate|].
    split; [reflexivity|]. split; [intros _ x t r U; discriminate | discriminate].
  - constructor.
  - exact Wu.
  - rewrite E. cbn [bind snd fst app] in *. eexists. split; [reflexivity|].
    destruct I as (S & W & Z & IT & IF). destruct ok; [|now apply IF].
    split; [exact S|]. split; [exact Z | exact (IT eq_refl)].
Qed.

(* the statement used by C12: recorded type = meet of all use-site types, hence
   "valid for the recorded type" = "valid for every use site" *)
Lemma variables_are_meets uses vars : uses_wf uses ->
  variables_of_uses uses = Ok (Some vars) ->
  sorted_keys vars = true /\
  (forall x, In x (map fst vars) <-> In x (map fst uses)) /\
  (forall x T, lookup_str x vars = Some T ->
     exists t ts, uses_for x uses = t :: ts /\ meet_from t ts = Some T /\
       (forall u, In u (t :: ts) -> ty_sub u T = true) /\
       (forall d, wf_ty d = true -> (forall u, In u (t :: ts) -> ty_sub u d = true) -> ty_sub T d = true) /\
       (forall v, enum_free v = true ->
          (ty_valid T v = Ok true <-> forall u, In u (t :: ts) -> ty_valid u v = Ok true))).
Proof.
  intros Wu H. destruct (variables_of_uses_spec uses Wu) as (r & E & Sp). rewrite H in E.
  injection E as <-. destruct Sp as (S & Z & M). split; [exact S|].
  assert (Wx : forall x, Forall (fun u => wf_ty u = true) (uses_for x uses)).
  { intros x. unfold uses_for. apply Forall_forall. intros u Hu. apply in_map_iff in Hu.
    destruct Hu as [p [<- Hp]]. apply filter_In in Hp. unfold uses_wf in Wu. rewrite Forall_forall in Wu.
    apply Wu. tauto. }
  assert (UF : forall x, uses_for x uses = [] <-> ~ In x (map fst uses)).
  { intros x. unfold uses_for. split.
    - intros U Hx. apply in_map_iff in Hx. destruct Hx as [[y t] [Ex Hy]]. cbn [fst] in Ex. subst y.
      assert (K : In t (map snd (filter (fun u => String.eqb (fst u) x) uses))).
      { apply in_map_iff. exists (x, t). split; [reflexivity|]. apply filter_In. split; [exact Hy|].
        cbn. apply String.eqb_refl. }
      rewrite U in K. destruct K.
    - intros N. destruct (map snd (filter (fun u => String.eqb (fst u) x) uses)) as [|t ts] eqn:U; [reflexivity|].
      exfalso. apply N. assert (K : In t (map snd (filter (fun u => String.eqb (fst u) x) uses))) by (rewrite U; now left).
      apply in_map_iff in K. destruct K as [[y t'] [_ Hp]]. apply filter_In in Hp. destruct Hp as [Hp Ey].
      cbn in Ey. apply String.eqb_eq in Ey. subst y. apply in_map_iff. exists (x, t'). auto. }
  split.
  - intros x. rewrite <- has_key_in. unfold has_key. split.
    + intros K. destruct (uses_for x uses) as [|t ts] eqn:U.
      * rewrite (Z x U) in K. discriminate.
      * destruct (in_dec string_dec x (map fst uses)) as [I|N]; [exact I|].
        apply UF in N. congruence.
    + intros K. destruct (uses_for x uses) as [|t ts] eqn:U.
      * apply UF in U. contradiction.
      * destruct (M x t ts U) as (m & _ & L). now rewrite L.
  - intros x T L. destruct (uses_for x uses) as [|t ts] eqn:U.
    + rewrite (Z x U) in L. discriminate.
    + destruct (M x t ts U) as (m & Hm & L'). rewrite L in L'. injection L' as <-.
      exists t, ts. split; [reflexivity|]. split; [exact Hm|].
      specialize (Wx x). rewrite U in Wx. apply Forall_cons_iff in Wx. destruct Wx as [Wt Wts].
      destruct (meet_from_glb _ _ _ Wt Wts Hm) as [G1 G2].
      split; [exact G1|]. split; [exact G2|]. intros v EF. now apply meet_from_valid.
Qed.

(* the frontend refuses the query exactly when some variable's use-site types have no meet *)
Lemma variables_rejected_iff uses : uses_wf uses ->
  (variables_of_uses uses = Ok None <->
   exists x t ts, uses_for x uses = t :: ts /\ meet_from t ts = None).
Proof.
  intros Wu. destruct (variables_of_uses_spec uses Wu) as (r & E & Sp). rewrite E. split.
  - intros [= ->]. exact Sp.
  - intros (x & t & ts & U & Mn). destruct r as [vars|]; [|reflexivity].
    destruct Sp as (_ & _ & M). destruct (M x t ts U) as (m & Hm & _). congruence.
Qed.

Lemma variables_never_panic uses : uses_wf uses -> exists r, variables_of_uses uses = Ok r.
Proof. intros Wu. destruct (variables_of_uses_spec uses Wu) as (r & E & _). eauto. Qed.

Lemma in_uses_for x u uses : In u (uses_for x uses) <-> In (x, u) uses.
Proof.
  unfold uses_for. rewrite in_map_iff. split.
  - intros [[y t] [E H]]. cbn [snd] in E. subst t. apply filter_In in H. destruct H as [H Ey].
    cbn [fst] in Ey. apply String.eqb_eq in Ey. now subst y.
  - intros H. exists (x, u). split; [reflexivity|]. apply filter_In. split; [exact H|].
    cbn [fst]. apply String.eqb_refl.
Qed.

(* "fits the type the query implies" = fits every use site: acceptance of an (enum-free) argument
   map, stated directly on the use sites of the query *)
Lemma validate_ok_iff_uses uses vars args : uses_wf uses ->
  variables_of_uses uses = Ok (Some vars) -> args_enum_free args = true ->
  (validate vars args = Ok VOk <->
   (forall x t, In (x, t) uses -> exists v, lookup_str x args = Some v /\ ty_valid t v = Ok true) /\
   (forall x, In x (map fst args) -> In x (map fst uses))).
Proof.
  intros Wu H EF. destruct (variables_are_meets _ _ Wu H) as (S & Keys & M).
  rewrite validate_ok_iff. unfold acceptable. split.
  - intros [A1 A2]. split.
    + intros x t Hx.
      assert (Kx : In x (map fst vars)) by (apply Keys; apply (in_map fst) in Hx; exact Hx).
      apply in_map_iff in Kx. destruct Kx as [[x' T] [Ex HT]]. cbn [fst] in Ex. subst x'.
      destruct (A1 x T HT) as (v & L & Hv). exists v. split; [exact L|].
      destruct (M x T (sorted_in_lookup _ _ _ S HT)) as (t0 & ts & U & _ & _ & _ & V).
      apply (V v (args_enum_free_lookup _ _ _ EF L)); [exact Hv|]. rewrite <- U. now apply in_uses_for.
    + intros x Hx. apply Keys. now apply A2.
  - intros [B1 B2]. split.
    + intros x T HT. destruct (M x T (sorted_in_lookup _ _ _ S HT)) as (t0 & ts & U & _ & _ & _ & V).
      assert (H0 : In (x, t0) uses) by (apply in_uses_for; rewrite U; now left).
      destruct (B1 x t0 H0) as (v & L & Hv). exists v. split; [exact L|].
      apply (V v (args_enum_free_lookup _ _ _ EF L)). intros u Hu. rewrite <- U in Hu.
      apply in_uses_for in Hu. destruct (B1 x u Hu) as (v' & L' & Hv'). congruence.
    + intros x Hx. apply Keys. now apply B2.
Qed.
