(* Calls.v — C21 (adapter-call contract), definitions only.
   * `call`: one invocation of an Adapter method, with the arguments the contract speaks about.
   * `calls_of_query`: every adapter call the Exec.v model can make for a query, read off Exec.v stage
     by stage (every occurrence of resolve_prop / resolve_nbrs / resolve_coerce / g_prop / g_starts
     in Exec.v is one entry here).  `deep = false` keeps only the calls made while the iterator
     pipeline of the root component is being BUILT (execution.rs makes them before any row is
     requested); the calls inside a fold's sub-component and for its outputs are made per context at
     run time (`deep = true` adds them).
   * `schema`: the part of a Trustfall schema the contract refers to.
   * `typed_query S q`: the typing discipline the frontend establishes for an IR query.
   * `contract_ok S c`: the static clauses of the adapter contract for one call. *)
From TF Require Export Exec Run Ty.
Local Open Scope string_scope.
Local Open Scope N_scope.
Local Open Scope list_scope.

Inductive call_kind := KStarting | KProperty | KNeighbors | KCoercion.

Record call := mkCall {
  k_kind : call_kind;
  k_type : string;        (* type_name (empty for resolve_starting_vertices, which has none) *)
  k_field : string;       (* property / edge / entry-point name (empty for coercions) *)
  k_target : string;      (* coerce_to_type (empty otherwise) *)
  k_params : params;      (* edge parameters (empty for properties and coercions) *)
  k_vid : N;              (* ResolveInfo::vid() / ResolveEdgeInfo::origin_vid() *)
  k_eid : N               (* ResolveEdgeInfo::eid(); 0 when the call is not about an edge *)
}.

Definition start_call (name : string) (ps : params) (vid : N) : call := mkCall KStarting "" name "" ps vid 0.
Definition prop_call (ty field : string) (vid : N) : call := mkCall KProperty ty field "" [] vid 0.
Definition nbr_call (ty edge : string) (ps : params) (vid eid : N) : call := mkCall KNeighbors ty edge "" ps vid eid.
Definition coerce_call (from to : string) (vid : N) : call := mkCall KCoercion from "" to [] vid 0.

Definition endpoint_type (to : ir_vertex) : string := match v_from to with Some t => t | None => v_type to end.

(* ---------- the calls of each stage ---------- *)

(* filtering.rs::apply_filter: the right-hand side of a non-unary filter that is a tag on a vertex
   of this component costs one resolve_property (the current vertex' type when the tag is local,
   the tag's vertex' type otherwise); imported tags, fold counts and variables cost nothing *)
Definition tag_calls (vs : list ir_vertex) (cur : N) (cur_ty : string) (op : opk) (arg : option argument) : list call :=
  if opk_unary op then []
  else match arg with
       | Some (ATag (FRContext cf)) =>
           if N.eqb (cf_vid cf) cur then [prop_call cur_ty (cf_name cf) cur]
           else match find_vertex vs (cf_vid cf) with
                | Some vtx => [prop_call (v_type vtx) (cf_name cf) (cf_vid cf)]
                | None => []
                end
       | _ => []
       end.

(* apply_local_field_filter *)
Definition filter_calls (vs : list ir_vertex) (v : ir_vertex) (f : vfilter) : list call :=
  prop_call (v_type v) (vf_field f) (v_vid v) :: tag_calls vs (v_vid v) (v_type v) (vf_op f) (vf_arg f).

(* perform_entry_into_new_vertex / the root prologue of compute_component *)
Definition enter_calls (vs : list ir_vertex) (v : ir_vertex) : list call :=
  (match v_from v with Some from => [coerce_call from (v_type v) (v_vid v)] | None => [] end)
  ++ flat_map (filter_calls vs v) (v_filters v).

(* expand_edge: first hop at the origin's type; for @recurse(depth >= 2) the implicit coercion
   (endpoint type -> coerce_to) and the later hops at `recursing_from` *)
Definition edge_calls (vs : list ir_vertex) (e : ir_edge) : list call :=
  match find_vertex vs (e_from e), find_vertex vs (e_to e) with
  | Some from, Some to =>
      nbr_call (v_type from) (e_name e) (e_params e) (v_vid from) (e_eid e)
      :: (match e_rec e with
          | Some r =>
              if N.leb 2 (r_depth r) then
                let endpoint := endpoint_type to in
                let recursing_from := match r_coerce r with Some t => t | None => endpoint end in
                (match r_coerce r with Some t => [coerce_call endpoint t (v_vid from)] | None => [] end)
                ++ [nbr_call recursing_from (e_name e) (e_params e) (v_vid from) (e_eid e)]
              else []
          | None => []
          end)
      ++ enter_calls vs to
  | _, _ => []
  end.

(* outputs of a component (construct_outputs for the root, compute_fold's output loop for a fold) *)
Definition output_calls (c : ir_component) : list call :=
  flat_map (fun o => let cf := snd o in
                     match find_vertex (c_vertices c) (cf_vid cf) with
                     | Some vtx => [prop_call (v_type vtx) (cf_name cf) (cf_vid cf)]
                     | None => []
                     end) (c_outputs c).

(* compute_fold: imported tags, the fold's neighbours, post-fold filters; at run time (per context)
   the sub-component and the fold's outputs *)
Definition import_calls (vs : list ir_vertex) (t : fieldref) : list call :=
  match t with
  | FRContext cf => match find_vertex vs (cf_vid cf) with
                    | Some fvtx => [prop_call (v_type fvtx) (cf_name cf) (cf_vid cf)]
                    | None => []
                    end
  | FRFold _ => []
  end.

Definition fold_calls (deep : bool) (vs : list ir_vertex) (h : fold_hdr) (sub : ir_component)
           (sub_calls : list call) : list call :=
  match find_vertex vs (fo_from h) with
  | Some from =>
      flat_map (import_calls vs) (fo_imported h)
      ++ [nbr_call (v_type from) (fo_name h) (fo_params h) (fo_from h) (fo_eid h)]
      ++ flat_map (fun pf => tag_calls vs (fo_from h) (v_type from) (pf_op pf) (pf_arg pf)) (fo_post h)
      ++ (if deep then sub_calls ++ output_calls sub else [])
  | None => []
  end.

Fixpoint comp_calls (deep : bool) (c : ir_component) {struct c} : list call :=
  match c with
  | mkComp root vs ss outs =>
      (match find_vertex vs root with Some rv => enter_calls vs rv | None => [] end)
      ++ (fix go (ss : list step) : list call :=
            match ss with
            | [] => []
            | SEdge e :: r => edge_calls vs e ++ go r
            | SFold h sub :: r => fold_calls deep vs h sub (comp_calls deep sub) ++ go r
            end) ss
  end.

(* the step loop on its own (definitionally the inner loop of comp_calls) *)
Fixpoint steps_calls (deep : bool) (vs : list ir_vertex) (ss : list step) : list call :=
  match ss with
  | [] => []
  | SEdge e :: r => edge_calls vs e ++ steps_calls deep vs r
  | SFold h sub :: r => fold_calls deep vs h sub (comp_calls deep sub) ++ steps_calls deep vs r
  end.

Definition calls_of_query_at (deep : bool) (q : ir_query) : list call :=
  start_call (q_root_name q) (q_root_params q) (c_root (q_comp q))
  :: comp_calls deep (q_comp q) ++ output_calls (q_comp q).

(* every adapter call the Exec model can make *)
Definition calls_of_query (q : ir_query) : list call := calls_of_query_at true q.
(* the calls made while interpret_ir builds the pipeline, before the first row is requested *)
Definition static_calls_of_query (q : ir_query) : list call := calls_of_query_at false q.

(* ---------- schema-lite ---------- *)
Record edge_decl := mkED { ed_name : string; ed_target : string; ed_params : list (string * ty) }.

Record schema := mkSchema {
  s_types : list string;                              (* vertex types (objects and interfaces) *)
  s_subs : list (string * list string);               (* type -> all its subtypes, itself included *)
  s_props : list (string * list (string * ty));       (* type -> its properties *)
  s_edges : list (string * list edge_decl);           (* type -> its edges: name, destination, parameters *)
  s_entries : list edge_decl                          (* entry points of the root query type *)
}.

Definition has_key_str {A} (k : string) (l : list (string * A)) : bool :=
  match lookup_str k l with Some _ => true | None => false end.

Definition type_ok (S : schema) (t : string) : bool := mem_str t (s_types S).
(* sub is a (not necessarily proper) subtype of sup *)
Definition subtype_of (S : schema) (sub sup : string) : bool :=
  match lookup_str sup (s_subs S) with Some l => mem_str sub l | None => false end.
Definition prop_ok (S : schema) (t field : string) : bool :=
  String.eqb field typename_field ||
  match lookup_str t (s_props S) with Some ps => has_key_str field ps | None => false end.
Fixpoint find_decl (name : string) (l : list edge_decl) : option edge_decl :=
  match l with
  | [] => None
  | d :: r => if String.eqb name (ed_name d) then Some d else find_decl name r
  end.
Definition find_edge (S : schema) (t name : string) : option edge_decl :=
  match lookup_str t (s_edges S) with Some es => find_decl name es | None => None end.

Definition value_valid (t : ty) (v : fv) : bool := match ty_valid t v with Ok b => b | Panic _ => false end.
(* exactly the declared parameters, each with a value valid for its declared type *)
Definition params_ok (decl : list (string * ty)) (ps : params) : bool :=
  forallb (fun p => match lookup_str (fst p) decl with Some t => value_valid t (snd p) | None => false end) ps
  && forallb (fun d => has_key_str (fst d) ps) decl.

(* ---------- the adapter contract, static clauses ---------- *)
Definition contract_ok (S : schema) (c : call) : bool :=
  match k_kind c with
  | KStarting =>
      match find_decl (k_field c) (s_entries S) with
      | Some d => params_ok (ed_params d) (k_params c)
      | None => false
      end
  | KProperty => type_ok S (k_type c) && prop_ok S (k_type c) (k_field c)
  | KNeighbors =>
      type_ok S (k_type c) &&
      match find_edge S (k_type c) (k_field c) with
      | Some d => params_ok (ed_params d) (k_params c)
      | None => false
      end
  | KCoercion => type_ok S (k_type c) && type_ok S (k_target c) && subtype_of S (k_target c) (k_type c)
  end.

(* ---------- typing of IR queries against the schema (what the frontend establishes) ---------- *)

(* a tag operand names a property of its vertex' type (or __typename); tags that are not on a vertex
   of this component are imported and were typed where they were defined *)
Definition typed_tag (S : schema) (vs : list ir_vertex) (cur : N) (cur_ty : string) (arg : option argument) : bool :=
  match arg with
  | Some (ATag (FRContext cf)) =>
      if N.eqb (cf_vid cf) cur then prop_ok S cur_ty (cf_name cf)
      else match find_vertex vs (cf_vid cf) with
           | Some vtx => type_ok S (v_type vtx) && prop_ok S (v_type vtx) (cf_name cf)
           | None => true
           end
  | _ => true
  end.

(* the vertex' type exists; a coercion narrows `coerced_from` to a subtype; filters name properties *)
Definition typed_vertex (S : schema) (vs : list ir_vertex) (v : ir_vertex) : bool :=
  type_ok S (v_type v)
  && (match v_from v with
      | Some from => type_ok S from && subtype_of S (v_type v) from
      | None => true
      end)
  && forallb (fun f => prop_ok S (v_type v) (vf_field f)
                       && typed_tag S vs (v_vid v) (v_type v) (vf_arg f)) (v_filters v).

(* an edge is a field of the origin's type whose declared destination is the destination vertex'
   `coerced_from`-or-type, with exactly the declared parameters; for @recurse the origin's type is a
   subtype of the destination, and the later hops start from `coerce_to` (a subtype of the
   destination that has the same edge to the same destination) or, without one, from the
   destination type itself (which then has the same edge) *)
Definition typed_recursion (S : schema) (from to : ir_vertex) (e : ir_edge) (d : edge_decl) (r : recursive) : bool :=
  subtype_of S (v_type from) (ed_target d)
  && match r_coerce r with
     | Some x =>
         type_ok S x && type_ok S (endpoint_type to) && subtype_of S x (endpoint_type to) &&
         subtype_of S (v_type from) x &&
         match find_edge S x (e_name e) with
         | Some dx => String.eqb (ed_target dx) (ed_target d) && params_ok (ed_params dx) (e_params e)
         | None => false
         end
     | None =>
         type_ok S (endpoint_type to) &&
         match find_edge S (endpoint_type to) (e_name e) with
         | Some dd => String.eqb (ed_target dd) (ed_target d) && params_ok (ed_params dd) (e_params e)
         | None => false
         end
     end.

Definition typed_edge (S : schema) (vs : list ir_vertex) (e : ir_edge) : bool :=
  match find_vertex vs (e_from e), find_vertex vs (e_to e) with
  | Some from, Some to =>
      type_ok S (v_type from) &&
      match find_edge S (v_type from) (e_name e) with
      | Some d =>
          String.eqb (endpoint_type to) (ed_target d)
          && params_ok (ed_params d) (e_params e)
          && typed_vertex S vs to
          && match e_rec e with Some r => typed_recursion S from to e d r | None => true end
      | None => false
      end
  | _, _ => false
  end.

Definition typed_outputs (S : schema) (c : ir_component) : bool :=
  forallb (fun o => let cf := snd o in
                    match find_vertex (c_vertices c) (cf_vid cf) with
                    | Some vtx => type_ok S (v_type vtx) && prop_ok S (v_type vtx) (cf_name cf)
                    | None => false
                    end) (c_outputs c).

Definition typed_import (S : schema) (vs : list ir_vertex) (t : fieldref) : bool :=
  match t with
  | FRContext cf => match find_vertex vs (cf_vid cf) with
                    | Some fvtx => type_ok S (v_type fvtx) && prop_ok S (v_type fvtx) (cf_name cf)
                    | None => true     (* re-imported from an enclosing fold: compute_fold panics (C09), no call *)
                    end
  | FRFold _ => true
  end.

(* the fold header against its parent component; `sub_ok` is the typing of the sub-component with
   the declared destination expected at its root *)
Definition typed_fold (S : schema) (vs : list ir_vertex) (h : fold_hdr) (sub : ir_component)
           (sub_ok : string -> bool) : bool :=
  match find_vertex vs (fo_from h) with
  | Some from =>
      type_ok S (v_type from) &&
      match find_edge S (v_type from) (fo_name h) with
      | Some d =>
          params_ok (ed_params d) (fo_params h)
          && forallb (typed_import S vs) (fo_imported h)
          && forallb (fun pf => typed_tag S vs (fo_from h) (v_type from) (pf_arg pf)) (fo_post h)
          && sub_ok (ed_target d)
          && typed_outputs S sub
      | None => false
      end
  | None => false
  end.

(* a component whose root vertex is reached through an edge / entry point of declared destination `dest` *)
Fixpoint typed_comp (S : schema) (c : ir_component) (dest : string) {struct c} : bool :=
  match c with
  | mkComp root vs ss outs =>
      (match find_vertex vs root with
       | Some rv => String.eqb (endpoint_type rv) dest && typed_vertex S vs rv
       | None => false
       end)
      && (fix go (ss : list step) : bool :=
            match ss with
            | [] => true
            | SEdge e :: r => typed_edge S vs e && go r
            | SFold h sub :: r => typed_fold S vs h sub (typed_comp S sub) && go r
            end) ss
  end.

Fixpoint typed_steps (S : schema) (vs : list ir_vertex) (ss : list step) : bool :=
  match ss with
  | [] => true
  | SEdge e :: r => typed_edge S vs e && typed_steps S vs r
  | SFold h sub :: r => typed_fold S vs h sub (typed_comp S sub) && typed_steps S vs r
  end.

Definition typed_query (S : schema) (q : ir_query) : bool :=
  match find_decl (q_root_name q) (s_entries S) with
  | Some d =>
      params_ok (ed_params d) (q_root_params q)
      && typed_comp S (q_comp q) (ed_target d)
      && typed_outputs S (q_comp q)
  | None => false
  end.

(* ---------- two graphs that answer alike on a set of calls ---------- *)
Definition agree_call (g g' : graph) (c : call) : Prop :=
  match k_kind c with
  | KStarting => g_starts g (k_field c) (k_params c) = g_starts g' (k_field c) (k_params c)
  | KProperty => forall v, g_prop g (k_type c) (k_field c) v = g_prop g' (k_type c) (k_field c) v
  | KNeighbors => forall v, g_nbrs g (k_type c) (k_field c) (k_params c) v = g_nbrs g' (k_type c) (k_field c) (k_params c) v
  | KCoercion => forall v, g_coerce g (k_type c) (k_target c) v = g_coerce g' (k_type c) (k_target c) v
  end.
Definition agree_on (cl : list call) (g g' : graph) : Prop := forall c, In c cl -> agree_call g g' c.

(* ---------- the dynamic clause: vertices are instances of the types they are passed under ---------- *)
(* `inst v t`: the vertex v is an instance of the schema type t (abstract: a dataset decides it) *)
Record conforms (S : schema) (inst : vertex -> string -> Prop) (g : graph) : Prop := mkConforms {
  cf_up : forall v t t', inst v t -> subtype_of S t t' = true -> inst v t';
  cf_starts : forall d ps v, In d (s_entries S) -> In v (g_starts g (ed_name d) ps) -> inst v (ed_target d);
  cf_nbrs : forall t e d ps v n, find_edge S t e = Some d -> inst v t -> In n (g_nbrs g t e ps v) -> inst n (ed_target d);
  cf_coerce : forall from to v, g_coerce g from to v = true -> inst v to
}.

(* finite datasets: v is an instance of t when its concrete type is listed under t in d_subs (this is
   what GraphAdapter / ds_coerce answer); `dataset_conforms` is a decidable sufficient condition for
   `conforms S (inst_of d) (graph_of_dataset d)` *)
Definition in_type (d : dataset) (t : string) (v : vertex) : bool := ds_coerce d "" t v.
Definition inst_of (d : dataset) (v : vertex) (t : string) : Prop := in_type d t v = true.

Definition dataset_conforms (S : schema) (d : dataset) : bool :=
  (* the instance lists are upward closed along the schema's subtype table *)
  forallb (fun sup =>
             forallb (fun sub =>
                        match lookup_str sub (d_subs d) with
                        | Some l => forallb (fun ct => match lookup_str (fst sup) (d_subs d) with
                                                       | Some l' => mem_str ct l'
                                                       | None => false
                                                       end) l
                        | None => true
                        end) (snd sup)) (s_subs S)
  (* entry points list instances of their declared target *)
  && forallb (fun en => match lookup_str (ed_name en) (d_starts d) with
                        | Some ns => forallb (in_type d (ed_target en)) ns
                        | None => true
                        end) (s_entries S)
  (* an edge declared on a type leads, from every instance of that type, to instances of its target *)
  && forallb (fun te =>
                forallb (fun decl =>
                           forallb (fun ve => if in_type d (fst te) (fst ve)
                                              then match lookup_str (ed_name decl) (snd ve) with
                                                   | Some ns => forallb (in_type d (ed_target decl)) ns
                                                   | None => true
                                                   end
                                              else true) (d_edges d)) (snd te)) (s_edges S).

(* every vertex bound by an assignment / recorded in a context is an instance of its IR vertex' type *)
Definition asg_typed (inst : vertex -> string -> Prop) (vs : list ir_vertex) (a : asg) : Prop :=
  forall vid v vtx, In (vid, Some v) (a_v a) -> find_vertex vs vid = Some vtx -> inst v (v_type vtx).
Definition ctx_typed (inst : vertex -> string -> Prop) (vs : list ir_vertex) (c : ctx) : Prop :=
  forall vid v vtx, In (vid, Some v) (vertices c) -> find_vertex vs vid = Some vtx -> inst v (v_type vtx).

(* ---------- canonical rendering (mirrored by harness/src/bin/tfh_calls.rs) ---------- *)
Local Open Scope string_scope.
Definition show_params (ps : params) : string :=
  String.concat "," (map (fun p => fst p ++ "=" ++ show_fv (snd p)) ps).

Definition show_call (c : call) : string :=
  match k_kind c with
  | KStarting => "S@" ++ dn (k_vid c) ++ ":" ++ k_field c ++ "(" ++ show_params (k_params c) ++ ")"
  | KProperty => "P@" ++ dn (k_vid c) ++ ":" ++ k_type c ++ "." ++ k_field c
  | KNeighbors => "N@" ++ dn (k_vid c) ++ "/" ++ dn (k_eid c) ++ ":" ++ k_type c ++ "." ++ k_field c
                  ++ "(" ++ show_params (k_params c) ++ ")"
  | KCoercion => "C@" ++ dn (k_vid c) ++ ":" ++ k_type c ++ ">" ++ k_target c
  end.

Fixpoint dedup_sorted (l : list string) : list string :=
  match l with
  | [] => []
  | x :: r => match r with
              | y :: _ => if String.eqb x y then dedup_sorted r else x :: dedup_sorted r
              | [] => [x]
              end
  end.

Definition show_call_set (l : list call) : string :=
  String.concat ";" (dedup_sorted (sort_names (map show_call l))).

(* TYPED:    does the query satisfy the typing hypothesis of calls_respect_contract?
   CONTRACT: do all calls of the model satisfy the contract (computed, not assumed)?
   STATIC:   the calls made while the pipeline is built.
   OBSERVED: those of the calls observed on the real engine that the model predicts (the harness
             renders ALL observed calls: equal strings iff observed is a subset of the model). *)
Definition run_c21 (S : schema) (rq : raw_query) (observed : list call) : string :=
  match lower_query rq with
  | Panic _ => "PANIC"
  | Ok q =>
      let model := map show_call (calls_of_query q) in
      "TYPED:" ++ show_bool (typed_query S q)
      ++ "|CONTRACT:" ++ show_bool (forallb (contract_ok S) (calls_of_query q))
      ++ "|STATIC:" ++ show_call_set (static_calls_of_query q)
      ++ "|OBSERVED:" ++ show_call_set (filter (fun c => mem_str (show_call c) model) observed)
  end.

(* same, for a world with a finite dataset: CONFORMS = the dataset meets the hypothesis of the dynamic
   theorem (dataset_conforms, sufficient for `conforms`) *)
Definition run_c21d (S : schema) (d : dataset) (rq : raw_query) (observed : list call) : string :=
  "CONFORMS:" ++ show_bool (dataset_conforms S d) ++ "|" ++ run_c21 S rq observed.
