(* CallsProofs.v — C21: typed queries only make contract-abiding adapter calls; calls_of_query is
   justified against Exec.v (the model's result depends on the graph only through the listed calls);
   the dynamic clause for fold-free queries. *)
From Coq Require Import Lia.
From TF Require Import Exec Sem ExecLemmas Sim SimRec SimComp Calls.
Local Open Scope string_scope.
Local Open Scope N_scope.
Local Open Scope list_scope.

(* ---------- structural induction through the nested step lists ---------- *)
Definition step_P (P : ir_component -> Prop) (s : step) : Prop :=
  match s with SFold _ sub => P sub | SEdge _ => True end.

Section CompInd.
  Variable P : ir_component -> Prop.
  Hypothesis H : forall root vs ss outs, Forall (step_P P) ss -> P (mkComp root vs ss outs).
  Fixpoint comp_ind' (c : ir_component) : P c :=
    match c with
    | mkComp root vs ss outs =>
        H root vs ss outs
          ((fix go (ss : list step) : Forall (step_P P) ss :=
              match ss with
              | [] => Forall_nil _
              | s :: r => Forall_cons s (match s as s0 return step_P P s0 with
                                         | SEdge _ => I
                                         | SFold _ sub => comp_ind' sub
                                         end) (go r)
              end) ss)
    end.
End CompInd.

Ltac bsplit :=
  repeat match goal with
         | H : _ && _ = true |- _ => apply andb_prop in H; destruct H
         end.

Lemma comp_calls_eq deep root vs ss outs :
  comp_calls deep (mkComp root vs ss outs) =
  (match find_vertex vs root with Some rv => enter_calls vs rv | None => [] end) ++ steps_calls deep vs ss.
Proof.
  cbn [comp_calls]. f_equal. induction ss as [|[e|h sub] r IH]; cbn [steps_calls]; [reflexivity| |]; now rewrite IH.
Qed.

Lemma typed_comp_eq S root vs ss outs dest :
  typed_comp S (mkComp root vs ss outs) dest =
  (match find_vertex vs root with
   | Some rv => String.eqb (endpoint_type rv) dest && typed_vertex S vs rv
   | None => false
   end) && typed_steps S vs ss.
Proof.
  cbn [typed_comp]. f_equal. induction ss as [|[e|h sub] r IH]; cbn [typed_steps]; [reflexivity| |]; now rewrite IH.
Qed.

(* ================= the static clauses ================= *)
Section Static.
  Variable S : schema.
  Definition okc (c : call) : Prop := contract_ok S c = true.

  Lemma okc_prop t f vid : type_ok S t = true -> prop_ok S t f = true -> okc (prop_call t f vid).
  Proof. intros H1 H2. unfold okc, contract_ok. cbn. now rewrite H1, H2. Qed.

  Lemma okc_nbr t e ps vid eid d :
    type_ok S t = true -> find_edge S t e = Some d -> params_ok (ed_params d) ps = true -> okc (nbr_call t e ps vid eid).
  Proof. intros H1 H2 H3. unfold okc, contract_ok. cbn. now rewrite H1, H2, H3. Qed.

  Lemma okc_coerce from to vid :
    type_ok S from = true -> type_ok S to = true -> subtype_of S to from = true -> okc (coerce_call from to vid).
  Proof. intros H1 H2 H3. unfold okc, contract_ok. cbn. now rewrite H1, H2, H3. Qed.

  Lemma tag_calls_ok vs cur cur_ty op arg :
    type_ok S cur_ty = true -> typed_tag S vs cur cur_ty arg = true -> Forall okc (tag_calls vs cur cur_ty op arg).
  Proof.
    intros Ht H. unfold tag_calls. destruct (opk_unary op); [constructor|].
    destruct arg as [[[cf|ff]|x t]|]; try constructor. unfold typed_tag in H.
    destruct (N.eqb (cf_vid cf) cur).
    - constructor; [|constructor]. now apply okc_prop.
    - destruct (find_vertex vs (cf_vid cf)) as [vtx|]; [|constructor]. bsplit.
      constructor; [|constructor]. now apply okc_prop.
  Qed.

  Lemma enter_calls_ok vs v : typed_vertex S vs v = true -> Forall okc (enter_calls vs v).
  Proof.
    intros H. unfold typed_vertex in H. bsplit. unfold enter_calls. apply Forall_app. split.
    - destruct (v_from v) as [from|]; [|constructor]. bsplit. constructor; [|constructor]. now apply okc_coerce.
    - apply Forall_forall. intros c Hc. apply in_flat_map in Hc. destruct Hc as (f & Hf & Hc).
      match goal with Hall : forallb _ (v_filters v) = true |- _ => rewrite forallb_forall in Hall; specialize (Hall _ Hf) end.
      bsplit. unfold filter_calls in Hc. destruct Hc as [<-|Hc].
      + now apply okc_prop.
      + assert (HF : Forall okc (tag_calls vs (v_vid v) (v_type v) (vf_op f) (vf_arg f))) by (apply tag_calls_ok; assumption).
        rewrite Forall_forall in HF. auto.
  Qed.

  Lemma edge_calls_ok vs e : typed_edge S vs e = true -> Forall okc (edge_calls vs e).
  Proof.
    intros H. unfold typed_edge in H. unfold edge_calls.
    destruct (find_vertex vs (e_from e)) as [from|]; [|constructor].
    destruct (find_vertex vs (e_to e)) as [to|]; [|constructor].
    bsplit. destruct (find_edge S (v_type from) (e_name e)) as [d|] eqn:Ed; [|discriminate]. bsplit.
    constructor; [now apply (okc_nbr _ _ _ _ _ d)|]. apply Forall_app. split; [|now apply enter_calls_ok].
    destruct (e_rec e) as [r|]; [|constructor]. destruct (N.leb 2 (r_depth r)); [|constructor].
    match goal with Hr : typed_recursion _ _ _ _ _ _ = true |- _ => unfold typed_recursion in Hr end.
    bsplit. cbv zeta. destruct (r_coerce r) as [x|].
    - bsplit. destruct (find_edge S x (e_name e)) as [dx|] eqn:Edx; [|discriminate]. bsplit.
      cbn [app]. constructor; [now apply okc_coerce|]. constructor; [|constructor].
      now apply (okc_nbr _ _ _ _ _ dx).
    - bsplit. destruct (find_edge S (endpoint_type to) (e_name e)) as [dd|] eqn:Edd; [|discriminate]. bsplit.
      cbn [app]. constructor; [|constructor]. now apply (okc_nbr _ _ _ _ _ dd).
  Qed.

  Lemma output_calls_ok c : typed_outputs S c = true -> Forall okc (output_calls c).
  Proof.
    intros H. unfold typed_outputs in H. rewrite forallb_forall in H. unfold output_calls.
    apply Forall_forall. intros x Hx. apply in_flat_map in Hx. destruct Hx as (o & Ho & Hx).
    specialize (H _ Ho). cbv zeta in *. destruct (find_vertex (c_vertices c) (cf_vid (snd o))) as [vtx|]; [|destruct Hx].
    bsplit. destruct Hx as [<-|[]]. now apply okc_prop.
  Qed.

  Lemma fold_calls_ok deep vs h sub sub_ok sub_calls :
    typed_fold S vs h sub sub_ok = true ->
    (forall dest, sub_ok dest = true -> Forall okc sub_calls) ->
    Forall okc (fold_calls deep vs h sub sub_calls).
  Proof.
    intros H Hsub. unfold typed_fold in H. unfold fold_calls.
    destruct (find_vertex vs (fo_from h)) as [from|]; [|constructor]. bsplit.
    destruct (find_edge S (v_type from) (fo_name h)) as [d|] eqn:Ed; [|discriminate]. bsplit.
    apply Forall_app. split; [|apply Forall_app; split; [|apply Forall_app; split]].
    - apply Forall_forall. intros c Hc. apply in_flat_map in Hc. destruct Hc as (t & Ht & Hc).
      match goal with Hall : forallb (typed_import _ _) _ = true |- _ =>
        rewrite forallb_forall in Hall; specialize (Hall _ Ht); unfold typed_import in Hall end.
      unfold import_calls in Hc.
      destruct t as [cf|ff]; [|destruct Hc]. destruct (find_vertex vs (cf_vid cf)) as [fvtx|]; [|destruct Hc].
      bsplit. destruct Hc as [<-|[]]. now apply okc_prop.
    - constructor; [|constructor]. now apply (okc_nbr _ _ _ _ _ d).
    - apply Forall_forall. intros c Hc. apply in_flat_map in Hc. destruct Hc as (pf & Hpf & Hc).
      match goal with Hall : forallb _ (fo_post h) = true |- _ => rewrite forallb_forall in Hall; specialize (Hall _ Hpf) end.
      assert (HF : Forall okc (tag_calls vs (fo_from h) (v_type from) (pf_op pf) (pf_arg pf))) by (apply tag_calls_ok; assumption).
      rewrite Forall_forall in HF. auto.
    - destruct deep; [|constructor]. apply Forall_app. split; [eapply Hsub; eassumption|now apply output_calls_ok].
  Qed.

  Lemma steps_calls_ok deep vs ss :
    Forall (step_P (fun sub => forall dest, typed_comp S sub dest = true -> Forall okc (comp_calls deep sub))) ss ->
    typed_steps S vs ss = true -> Forall okc (steps_calls deep vs ss).
  Proof.
    induction 1 as [|s r Hs _ IH]; intros Ht; [constructor|].
    destruct s as [e|h sub]; cbn [typed_steps steps_calls] in *; bsplit; apply Forall_app; split; auto.
    - now apply edge_calls_ok.
    - eapply fold_calls_ok; [eassumption|]. exact Hs.
  Qed.

  Lemma comp_calls_ok deep : forall c dest, typed_comp S c dest = true -> Forall okc (comp_calls deep c).
  Proof.
    induction c as [root vs ss outs IH] using comp_ind'. intros dest H.
    rewrite typed_comp_eq in H. rewrite comp_calls_eq. bsplit. apply Forall_app. split.
    - destruct (find_vertex vs root) as [rv|]; [|constructor]. bsplit. now apply enter_calls_ok.
    - now apply steps_calls_ok.
  Qed.

  Theorem calls_respect_contract_at deep q :
    typed_query S q = true -> Forall okc (calls_of_query_at deep q).
  Proof.
    intros H. unfold typed_query in H. destruct (find_decl (q_root_name q) (s_entries S)) as [d|] eqn:Ed; [|discriminate].
    bsplit. unfold calls_of_query_at. constructor.
    - unfold okc, contract_ok. cbn. now rewrite Ed.
    - apply Forall_app. split; [now apply (comp_calls_ok deep _ (ed_target d))|now apply output_calls_ok].
  Qed.

  Theorem calls_respect_contract q :
    typed_query S q = true -> Forall (fun c => contract_ok S c = true) (calls_of_query q).
  Proof. apply calls_respect_contract_at. Qed.
End Static.

(* the calls made while the pipeline is built are among the calls of the query *)
Lemma fold_calls_static_incl vs h sub l1 l2 :
  incl (fold_calls false vs h sub l1) (fold_calls true vs h sub l2).
Proof.
  unfold fold_calls. destruct (find_vertex vs (fo_from h)); [|apply incl_refl].
  cbv iota. rewrite !app_assoc. apply incl_app; [apply incl_appl, incl_appl, incl_refl|intros c []].
Qed.

Lemma static_calls_incl q : incl (static_calls_of_query q) (calls_of_query q).
Proof.
  unfold static_calls_of_query, calls_of_query, calls_of_query_at. apply incl_cons; [now left|].
  apply incl_tl. apply incl_app; [|apply incl_appr, incl_refl]. apply incl_appl.
  destruct (q_comp q) as [root vs ss outs]. rewrite !comp_calls_eq. apply incl_app; [apply incl_appl, incl_refl|].
  apply incl_appr. induction ss as [|[e|h sub] r IH]; cbn [steps_calls]; [apply incl_refl| |].
  - apply incl_app; [apply incl_appl, incl_refl|apply incl_appr, IH].
  - apply incl_app; [apply incl_appl, fold_calls_static_incl|apply incl_appr, IH].
Qed.

(* ================= calls_of_query against Exec.v =================
   Exec.v has no call log: a stage "makes a call" when its result depends on the graph's answer to
   it.  The lemmas below say that each stage depends on the graph ONLY through the calls listed for
   it in Calls.v: two graphs that answer alike on those calls give the same result (including the
   same panics). *)
Lemma bind_ext {A B} (r : res A) (f f' : A -> res B) : (forall x, f x = f' x) -> bind r f = bind r f'.
Proof. intros H. destruct r; cbn; auto. Qed.

Lemma mapM_ext_in {A B} (f f' : A -> res B) l : (forall x, In x l -> f x = f' x) -> mapM f l = mapM f' l.
Proof.
  induction l as [|x l IH]; intros H; [reflexivity|]. cbn [mapM]. rewrite (H x) by now left.
  apply bind_ext. intros y. rewrite IH; [reflexivity|]. intros; apply H; now right.
Qed.

Lemma filter_mapM_ext_in {A B} (f f' : A -> res (option B)) l :
  (forall x, In x l -> f x = f' x) -> filter_mapM f l = filter_mapM f' l.
Proof.
  induction l as [|x l IH]; intros H; [reflexivity|]. cbn [filter_mapM]. rewrite (H x) by now left.
  apply bind_ext. intros y. rewrite IH; [reflexivity|]. intros; apply H; now right.
Qed.

Lemma foldM_ext_in {A St} (f f' : St -> A -> res St) l :
  (forall a s, In a l -> f s a = f' s a) -> forall s, foldM f l s = foldM f' l s.
Proof.
  induction l as [|a l IH]; intros H s; [reflexivity|]. cbn [foldM]. rewrite (H a s) by now left.
  apply bind_ext. intros s'. apply IH. intros; apply H; now right.
Qed.

Lemma agree_on_app l1 l2 g g' : agree_on (l1 ++ l2) g g' <-> agree_on l1 g g' /\ agree_on l2 g g'.
Proof.
  unfold agree_on. split.
  - intros H. split; intros c Hc; apply H; apply in_or_app; auto.
  - intros [H1 H2] c Hc. apply in_app_or in Hc. destruct Hc; auto.
Qed.

Lemma agree_on_cons c l g g' : agree_on (c :: l) g g' <-> agree_call g g' c /\ agree_on l g g'.
Proof.
  unfold agree_on. split.
  - intros H. split; [apply H; now left|intros x Hx; apply H; now right].
  - intros [H1 H2] x [<-|Hx]; auto.
Qed.

Lemma agree_on_nil g g' : agree_on [] g g'.
Proof. intros c []. Qed.

Lemma agree_on_incl l1 l2 g g' : incl l1 l2 -> agree_on l2 g g' -> agree_on l1 g g'.
Proof. intros Hi H c Hc. apply H, Hi, Hc. Qed.

Lemma apply_unary_none op l a : opk_unary op = false -> apply_unary op l a = None.
Proof. destruct op; cbn; intros; congruence. Qed.
Lemma apply_unary_some op l a : opk_unary op = true -> exists b, apply_unary op l a = Some b.
Proof. destruct op; cbn; intros; try discriminate; eauto. Qed.

Section Agree.
  Variable re_match : string -> string -> option bool.
  Variable args : list (string * fv).
  Variables g g' : graph.

  Lemma resolve_prop_agree ty f vid : agree_call g g' (prop_call ty f vid) ->
    forall c, resolve_prop g ty f c = resolve_prop g' ty f c.
  Proof. intros H c. unfold resolve_prop. destruct (active c); [apply H|reflexivity]. Qed.

  Lemma resolve_nbrs_agree ty e ps vid eid : agree_call g g' (nbr_call ty e ps vid eid) ->
    forall c, resolve_nbrs g ty e ps c = resolve_nbrs g' ty e ps c.
  Proof. intros H c. unfold resolve_nbrs. destruct (active c); [apply H|reflexivity]. Qed.

  Lemma resolve_coerce_agree from to vid : agree_call g g' (coerce_call from to vid) ->
    forall c, resolve_coerce g from to c = resolve_coerce g' from to c.
  Proof. intros H c. unfold resolve_coerce. destruct (active c); [apply H|reflexivity]. Qed.

  Lemma filter_one_agree vs ss cur cur_ty op arg sr c0 :
    agree_on (tag_calls vs cur cur_ty op arg) g g' ->
    filter_one re_match g vs ss cur cur_ty op arg sr c0 = filter_one re_match g' vs ss cur cur_ty op arg sr c0.
  Proof.
    intros H. unfold filter_one. apply bind_ext. intros lc. cbv zeta.
    destruct (opk_unary op) eqn:Eu.
    - destruct (apply_unary_some op (fst lc) (match active (snd lc) with Some _ => true | None => false end) Eu) as (b & ->).
      reflexivity.
    - rewrite (apply_unary_none _ _ _ Eu). unfold tag_calls in H. rewrite Eu in H.
      destruct arg as [[[cf|ff]|x t]|]; try reflexivity.
      destruct (N.eqb (cf_vid cf) cur).
      + apply agree_on_cons in H. destruct H as (H & _). rewrite (resolve_prop_agree _ _ _ H). reflexivity.
      + unfold context_field_value. destruct (find_vertex vs (cf_vid cf)) as [vtx|]; [|reflexivity].
        apply agree_on_cons in H. destruct H as (H & _).
        f_equal. apply bind_ext. intros ov. destruct ov as [v|]; [|reflexivity].
        cbn in H. now rewrite H.
  Qed.

  Lemma filter_stage_agree vs ss cur cur_ty op arg cs :
    agree_on (tag_calls vs cur cur_ty op arg) g g' ->
    filter_stage re_match g args vs ss cur cur_ty op arg cs = filter_stage re_match g' args vs ss cur cur_ty op arg cs.
  Proof.
    intros H. unfold filter_stage. apply bind_ext. intros sr. apply filter_mapM_ext_in. intros c _.
    now apply filter_one_agree.
  Qed.

  Lemma local_filter_stage_agree vs ss v f cs :
    agree_on (filter_calls vs v f) g g' ->
    local_filter_stage re_match g args vs ss v f cs = local_filter_stage re_match g' args vs ss v f cs.
  Proof.
    intros H. unfold filter_calls in H. apply agree_on_cons in H. destruct H as (Hp & Ht).
    unfold local_filter_stage. cbv zeta.
    rewrite (map_ext _ (fun c => push_value c (resolve_prop g' (v_type v) (vf_field f) c)))
      by (intros c; now rewrite (resolve_prop_agree _ _ _ Hp)).
    now apply filter_stage_agree.
  Qed.

  Lemma coerce_if_needed_agree v cs :
    agree_on (match v_from v with Some from => [coerce_call from (v_type v) (v_vid v)] | None => [] end) g g' ->
    coerce_if_needed g v cs = coerce_if_needed g' v cs.
  Proof.
    intros H. unfold coerce_if_needed, perform_coercion. destruct (v_from v) as [from|]; [|reflexivity].
    apply agree_on_cons in H. destruct H as (H & _). apply filter_ext. intros c.
    now rewrite (resolve_coerce_agree _ _ _ H).
  Qed.

  Theorem enter_vertex_agree vs ss v cs :
    agree_on (enter_calls vs v) g g' ->
    enter_vertex re_match g args vs ss v cs = enter_vertex re_match g' args vs ss v cs.
  Proof.
    intros H. unfold enter_calls in H. apply agree_on_app in H. destruct H as (Hc & Hf).
    unfold enter_vertex. rewrite (coerce_if_needed_agree _ _ Hc). f_equal.
    apply foldM_ext_in. intros f cs' Hin. apply local_filter_stage_agree.
    eapply agree_on_incl; [|exact Hf]. intros c Hc'. apply in_flat_map. eauto.
  Qed.

  Lemma one_recursive_expansion_agree ty e vid eid cs :
    agree_call g g' (nbr_call ty (e_name e) (e_params e) vid eid) ->
    one_recursive_expansion g ty e cs = one_recursive_expansion g' ty e cs.
  Proof.
    intros H. unfold one_recursive_expansion. apply flat_map_ext. intros c.
    now rewrite (resolve_nbrs_agree _ _ _ _ _ H).
  Qed.

  Lemma recursion_rounds_agree k endpoint coerce rfrom e vid eid :
    agree_call g g' (nbr_call rfrom (e_name e) (e_params e) vid eid) ->
    (forall to, coerce = Some to -> agree_call g g' (coerce_call endpoint to vid)) ->
    forall cs, recursion_rounds g k endpoint coerce rfrom e cs = recursion_rounds g' k endpoint coerce rfrom e cs.
  Proof.
    intros Hn Hc. induction k as [|k IH]; intros cs; [reflexivity|]. cbn [recursion_rounds].
    rewrite IH. f_equal. rewrite (one_recursive_expansion_agree _ _ _ _ _ Hn). f_equal.
    destruct coerce as [to|]; [|reflexivity]. apply map_ext. intros c.
    now rewrite (resolve_coerce_agree _ _ _ (Hc to eq_refl)).
  Qed.

  Theorem expand_edge_agree vs ss e cs :
    agree_on (edge_calls vs e) g g' ->
    expand_edge re_match g args vs ss e cs = expand_edge re_match g' args vs ss e cs.
  Proof.
    intros H. unfold expand_edge, vertex_of, expect_some. unfold edge_calls in H.
    destruct (find_vertex vs (e_from e)) as [from|]; [|reflexivity].
    destruct (find_vertex vs (e_to e)) as [to|]; [|reflexivity]. cbn [bind].
    apply agree_on_cons in H. destruct H as (Hn & H). apply agree_on_app in H. destruct H as (Hr & He).
    assert (E : (match e_rec e with
                 | Some r => expand_recursive_edge g from to e r cs
                 | None => expand_non_recursive_edge g from e cs
                 end) =
                (match e_rec e with
                 | Some r => expand_recursive_edge g' from to e r cs
                 | None => expand_non_recursive_edge g' from e cs
                 end)).
    { destruct (e_rec e) as [r|].
      - unfold expand_recursive_edge. apply bind_ext. intros cs0. cbv zeta.
        rewrite (one_recursive_expansion_agree _ _ _ _ _ Hn). f_equal.
        destruct (N.leb 2 (r_depth r)) eqn:Ed.
        + cbv zeta in Hr. apply agree_on_app in Hr. destruct Hr as (Hco & Hn2).
          apply agree_on_cons in Hn2. destruct Hn2 as (Hn2 & _).
          eapply recursion_rounds_agree; [exact Hn2|].
          intros t Et. fold (endpoint_type to). rewrite Et in Hco. apply agree_on_cons in Hco. exact (proj1 Hco).
        + apply N.leb_gt in Ed. replace (N.to_nat (r_depth r) - 1)%nat with O by lia. reflexivity.
      - unfold expand_non_recursive_edge. apply bind_ext. intros cs1. f_equal. apply flat_map_ext. intros c.
        now rewrite (resolve_nbrs_agree _ _ _ _ _ Hn). }
    rewrite E. apply bind_ext. intros cs1. now apply enter_vertex_agree.
  Qed.
End Agree.

Lemma bind_congr {A B} (r r' : res A) (f f' : A -> res B) :
  r = r' -> (forall x, f x = f' x) -> bind r f = bind r' f'.
Proof. intros -> H. now apply bind_ext. Qed.

Lemma lookup_str_in {A} k (l : list (string * A)) a : lookup_str k l = Some a -> exists k', In (k', a) l.
Proof.
  induction l as [|[k' a'] l IH]; cbn; [discriminate|]. destruct (String.eqb k k').
  - intros [= ->]. exists k'. now left.
  - intros H. destruct (IH H) as (k2 & Hk). exists k2. now right.
Qed.

Section AgreeFold.
  Variable re_match : string -> string -> option bool.
  Variable args : list (string * fv).
  Variables g g' : graph.

  (* one output value (shared by construct_outputs and compute_fold's output loop) *)
  Lemma output_value_agree c site cx name :
    agree_on (output_calls c) g g' ->
    (do cf <- expect_some site (lookup_str name (c_outputs c));
     do ov <- vertex_at cx (cf_vid cf);
     do vtx <- vertex_of (c_vertices c) (cf_vid cf);
     Ok (match ov with Some v => g_prop g (v_type vtx) (cf_name cf) v | None => Null end)) =
    (do cf <- expect_some site (lookup_str name (c_outputs c));
     do ov <- vertex_at cx (cf_vid cf);
     do vtx <- vertex_of (c_vertices c) (cf_vid cf);
     Ok (match ov with Some v => g_prop g' (v_type vtx) (cf_name cf) v | None => Null end)).
  Proof.
    intros H. destruct (lookup_str name (c_outputs c)) as [cf|] eqn:El; [|reflexivity].
    cbn [expect_some bind]. apply bind_ext. intros ov. unfold vertex_of, expect_some.
    destruct (find_vertex (c_vertices c) (cf_vid cf)) as [vtx|] eqn:Ev; [|reflexivity]. cbn [bind].
    destruct ov as [v|]; [|reflexivity]. f_equal.
    destruct (lookup_str_in _ _ _ El) as (k' & Hin).
    assert (Hc : In (prop_call (v_type vtx) (cf_name cf) (cf_vid cf)) (output_calls c)).
    { unfold output_calls. apply in_flat_map. exists (k', cf). split; [assumption|]. cbn [snd]. rewrite Ev. now left. }
    exact (H _ Hc v).
  Qed.

  Lemma construct_output_one_agree c names cx :
    agree_on (output_calls c) g g' -> construct_output_one g c names cx = construct_output_one g' c names cx.
  Proof.
    intros H. unfold construct_output_one. apply bind_congr; [|reflexivity].
    apply mapM_ext_in. intros name _. now apply output_value_agree.
  Qed.

  Lemma element_output_values_agree sub names el :
    agree_on (output_calls sub) g g' -> element_output_values g sub names el = element_output_values g' sub names el.
  Proof. intros H. unfold element_output_values. apply mapM_ext_in. intros name _. now apply output_value_agree. Qed.

  Lemma fold_outputs_one_agree h sub c :
    agree_on (output_calls sub) g g' -> fold_outputs_one g h sub c = fold_outputs_one g' h sub c.
  Proof.
    intros H. unfold fold_outputs_one. cbv zeta. apply bind_ext. intros fe. apply bind_ext. intros fvals1.
    apply bind_congr; [|reflexivity].
    destruct fe as [[|el0 els]|]; try reflexivity.
    apply foldM_ext_in. intros el m _. apply bind_congr; [|reflexivity]. now apply element_output_values_agree.
  Qed.

  Theorem fold_step_agree vs ss h sub sub_calls sc sc' cs :
    agree_on (fold_calls true vs h sub sub_calls) g g' -> (agree_on sub_calls g g' -> forall l, sc l = sc' l) ->
    fold_step re_match g args vs ss h sub sc cs = fold_step re_match g' args vs ss h sub sc' cs.
  Proof.
    intros H Hsc0. unfold fold_step, vertex_of. unfold fold_calls in H.
    destruct (find_vertex vs (fo_from h)) as [from|]; [|reflexivity]. cbn [expect_some bind].
    apply agree_on_app in H. destruct H as (Hi & H). apply agree_on_cons in H. destruct H as (Hn & H).
    apply agree_on_app in H. destruct H as (Hp & H). apply agree_on_app in H. destruct H as (Hs & Ho).
    pose proof (Hsc0 Hs) as Hsc.
    apply bind_congr.
    { apply foldM_ext_in. intros t cs0 Ht.
      assert (Hit : agree_on (import_calls vs t) g g').
      { eapply agree_on_incl; [|exact Hi]. intros c Hc. apply in_flat_map. eauto. }
      destruct t as [cf|ff]; [|reflexivity]. unfold import_calls in Hit.
      destruct (find_vertex vs (cf_vid cf)) as [fvtx|]; [|reflexivity]. cbn [expect_some bind].
      apply agree_on_cons in Hit. destruct Hit as (Hit & _).
      apply mapM_ext_in. intros c _. apply bind_ext. intros c1. cbv zeta.
      now rewrite (resolve_prop_agree _ _ _ _ _ Hit). }
    intros cs1. apply bind_ext. intros cs2. apply bind_ext. intros maxl. apply bind_ext. intros minl0. cbv zeta.
    apply bind_congr.
    { apply filter_mapM_ext_in. intros c _. rewrite (resolve_nbrs_agree _ _ _ _ _ _ _ Hn). now rewrite Hsc. }
    intros cs3. apply bind_congr.
    { apply foldM_ext_in. intros pf cs0 Hpf. apply bind_ext. intros cs0'. apply filter_stage_agree.
      eapply agree_on_incl; [|exact Hp]. intros c Hc. apply in_flat_map. eauto. }
    intros cs4. apply mapM_ext_in. intros c _. now apply fold_outputs_one_agree.
  Qed.

  Lemma exec_steps_agree vs ss todo :
    Forall (step_P (fun sub => agree_on (comp_calls true sub) g g' ->
                               forall cs, compute_component re_match g args sub cs = compute_component re_match g' args sub cs)) todo ->
    agree_on (steps_calls true vs todo) g g' ->
    forall cs, exec_steps re_match g args vs ss todo cs = exec_steps re_match g' args vs ss todo cs.
  Proof.
    induction 1 as [|s r Hs _ IH]; intros Ha cs; [reflexivity|].
    destruct s as [e|h sub]; cbn [steps_calls exec_steps] in *; apply agree_on_app in Ha; destruct Ha as (Ha1 & Ha2).
    - apply bind_congr; [now apply expand_edge_agree|]. intros cs'. now apply IH.
    - apply bind_congr; [|intros cs'; now apply IH].
      eapply fold_step_agree; [exact Ha1|]. intros Hsub l. now apply Hs.
  Qed.

  Theorem compute_component_agree : forall c,
    agree_on (comp_calls true c) g g' ->
    forall cs, compute_component re_match g args c cs = compute_component re_match g' args c cs.
  Proof.
    induction c as [root vs ss outs IH] using comp_ind'. intros Ha cs.
    rewrite !compute_component_eq. rewrite comp_calls_eq in Ha. apply agree_on_app in Ha. destruct Ha as (He & Hs).
    unfold vertex_of. destruct (find_vertex vs root) as [rv|]; [|reflexivity]. cbn [expect_some bind].
    apply bind_congr; [now apply enter_vertex_agree|]. intros cs0. now apply exec_steps_agree.
  Qed.

  (* the whole interpreter depends on the graph only through calls_of_query *)
  Theorem interpret_agree q :
    agree_on (calls_of_query q) g g' -> interpret re_match g args q = interpret re_match g' args q.
  Proof.
    intros H. unfold calls_of_query, calls_of_query_at in H. apply agree_on_cons in H. destruct H as (Hst & H).
    apply agree_on_app in H. destruct H as (Hc & Ho). unfold interpret. cbv zeta.
    cbn in Hst. rewrite Hst. apply bind_congr; [now apply compute_component_agree|].
    intros cs. apply mapM_ext_in. intros cx _. now apply construct_output_one_agree.
  Qed.
End AgreeFold.
