(* CallsProofs.v — C21: typed queries only make contract-abiding adapter calls; calls_of_query is
   justified against Exec.v (the model's result depends on the graph only through the listed calls);
   the dynamic clause for fold-free queries. *)
From Coq Require Import Lia.
From TF Require Import Exec Sem ExecLemmas Sim SimRec SimComp Calls.
Local Open Scope string_scope.
Local Open Scope N_scope.
Local Open Scope list_scope.

(* ---------- structural induction through the nested step lists ---------- *)
Definition step_P (P : ir_component -> Prop) (s : step) : Prop :=
  match s with SFold _ sub => P sub | SEdge _ => True end.

Section CompInd.
  Variable P : ir_component -> Prop.
  Hypothesis H : forall root vs ss outs, Forall (step_P P) ss -> P (mkComp root vs ss outs).
  Fixpoint comp_ind' (c : ir_component) : P c :=
    match c with
    | mkComp root vs ss outs =>
        H root vs ss outs
          ((fix go (ss : list step) : Forall (step_P P) ss :=
              match ss with
              | [] => Forall_nil _
              | s :: r => Forall_cons s (match s as s0 return step_P P s0 with
                                         | SEdge _ => I
                                         | SFold _ sub => comp_ind' sub
                                         end) (go r)
              end) ss)
    end.
End CompInd.

Ltac bsplit :=
  repeat match goal with
         | H : _ && _ = true |- _ => apply andb_prop in H; destruct H
         end.

Lemma comp_calls_eq deep root vs ss outs :
  comp_calls deep (mkComp root vs ss outs) =
  (match find_vertex vs root with Some rv => enter_calls vs rv | None => [] end) ++ steps_calls deep vs ss.
Proof.
  cbn [comp_calls]. f_equal. induction ss as [|[e|h sub] r IH]; cbn [steps_calls]; [reflexivity| |]; now rewrite IH.
Qed.

Lemma typed_comp_eq S root vs ss outs dest :
  typed_comp S (mkComp root vs ss outs) dest =
  (match find_vertex vs root with
   | Some rv => String.eqb (endpoint_type rv) dest && typed_vertex S vs rv
   | None => false
   end) && typed_steps S vs ss.
Proof.
  cbn [typed_comp]. f_equal. induction ss as [|[e|h sub] r IH]; cbn [typed_steps]; [reflexivity| |]; now rewrite IH.
Qed.

(* ================= the static clauses ================= *)
Section Static.
  Variable S : schema.
  Definition okc (c : call) : Prop := contract_ok S c = true.

  Lemma okc_prop t f vid : type_ok S t = true -> prop_ok S t f = true -> okc (prop_call t f vid).
  Proof. intros H1 H2. unfold okc, contract_ok. cbn. now rewrite H1, H2. Qed.

  Lemma okc_nbr t e ps vid eid d :
    type_ok S t = true -> find_edge S t e = Some d -> params_ok (ed_params d) ps = true -> okc (nbr_call t e ps vid eid).
  Proof. intros H1 H2 H3. unfold okc, contract_ok. cbn. now rewrite H1, H2, H3. Qed.

  Lemma okc_coerce from to vid :
    type_ok S from = true -> type_ok S to = true -> subtype_of S to from = true -> okc (coerce_call from to vid).
  Proof. intros H1 H2 H3. unfold okc, contract_ok. cbn. now rewrite H1, H2, H3. Qed.

  Lemma tag_calls_ok vs cur cur_ty op arg :
    type_ok S cur_ty = true -> typed_tag S vs cur cur_ty arg = true -> Forall okc (tag_calls vs cur cur_ty op arg).
  Proof.
    intros Ht H. unfold tag_calls. destruct (opk_unary op); [constructor|].
    destruct arg as [[[cf|ff]|x t]|]; try constructor. unfold typed_tag in H.
    destruct (N.eqb (cf_vid cf) cur).
    - constructor; [|constructor]. now apply okc_prop.
    - destruct (find_vertex vs (cf_vid cf)) as [vtx|]; [|constructor]. bsplit.
      constructor; [|constructor]. now apply okc_prop.
  Qed.

  Lemma enter_calls_ok vs v : typed_vertex S vs v = true -> Forall okc (enter_calls vs v).
  Proof.
    intros H. unfold typed_vertex in H. bsplit. unfold enter_calls. apply Forall_app. split.
    - destruct (v_from v) as [from|]; [|constructor]. bsplit. constructor; [|constructor]. now apply okc_coerce.
    - apply Forall_forall. intros c Hc. apply in_flat_map in Hc. destruct Hc as (f & Hf & Hc).
      match goal with Hall : forallb _ (v_filters v) = true |- _ => rewrite forallb_forall in Hall; specialize (Hall _ Hf) end.
      bsplit. unfold filter_calls in Hc. destruct Hc as [<-|Hc].
      + now apply okc_prop.
      + assert (HF : Forall okc (tag_calls vs (v_vid v) (v_type v) (vf_op f) (vf_arg f))) by (apply tag_calls_ok; assumption).
        rewrite Forall_forall in HF. auto.
  Qed.

  Lemma edge_calls_ok vs e : typed_edge S vs e = true -> Forall okc (edge_calls vs e).
  Proof.
    intros H. unfold typed_edge in H. unfold edge_calls.
    destruct (find_vertex vs (e_from e)) as [from|]; [|constructor].
    destruct (find_vertex vs (e_to e)) as [to|]; [|constructor].
    bsplit. destruct (find_edge S (v_type from) (e_name e)) as [d|] eqn:Ed; [|discriminate]. bsplit.
    constructor; [now apply (okc_nbr _ _ _ _ _ d)|]. apply Forall_app. split; [|now apply enter_calls_ok].
    destruct (e_rec e) as [r|]; [|constructor]. destruct (N.leb 2 (r_depth r)); [|constructor].
    match goal with Hr : typed_recursion _ _ _ _ _ _ = true |- _ => unfold typed_recursion in Hr end.
    bsplit. cbv zeta. destruct (r_coerce r) as [x|].
    - bsplit. destruct (find_edge S x (e_name e)) as [dx|] eqn:Edx; [|discriminate]. bsplit.
      cbn [app]. constructor; [now apply okc_coerce|]. constructor; [|constructor].
      now apply (okc_nbr _ _ _ _ _ dx).
    - bsplit. destruct (find_edge S (endpoint_type to) (e_name e)) as [dd|] eqn:Edd; [|discriminate]. bsplit.
      cbn [app]. constructor; [|constructor]. now apply (okc_nbr _ _ _ _ _ dd).
  Qed.

  Lemma output_calls_ok c : typed_outputs S c = true -> Forall okc (output_calls c).
  Proof.
    intros H. unfold typed_outputs in H. rewrite forallb_forall in H. unfold output_calls.
    apply Forall_forall. intros x Hx. apply in_flat_map in Hx. destruct Hx as (o & Ho & Hx).
    specialize (H _ Ho). cbv zeta in *. destruct (find_vertex (c_vertices c) (cf_vid (snd o))) as [vtx|]; [|destruct Hx].
    bsplit. destruct Hx as [<-|[]]. now apply okc_prop.
  Qed.

  Lemma fold_calls_ok deep vs h sub sub_ok sub_calls :
    typed_fold S vs h sub sub_ok = true ->
    (forall dest, sub_ok dest = true -> Forall okc sub_calls) ->
    Forall okc (fold_calls deep vs h sub sub_calls).
  Proof.
    intros H Hsub. unfold typed_fold in H. unfold fold_calls.
    destruct (find_vertex vs (fo_from h)) as [from|]; [|constructor]. bsplit.
    destruct (find_edge S (v_type from) (fo_name h)) as [d|] eqn:Ed; [|discriminate]. bsplit.
    apply Forall_app. split; [|apply Forall_app; split; [|apply Forall_app; split]].
    - apply Forall_forall. intros c Hc. apply in_flat_map in Hc. destruct Hc as (t & Ht & Hc).
      match goal with Hall : forallb (typed_import _ _) _ = true |- _ =>
        rewrite forallb_forall in Hall; specialize (Hall _ Ht); unfold typed_import in Hall end.
      unfold import_calls in Hc.
      destruct t as [cf|ff]; [|destruct Hc]. destruct (find_vertex vs (cf_vid cf)) as [fvtx|]; [|destruct Hc].
      bsplit. destruct Hc as [<-|[]]. now apply okc_prop.
    - constructor; [|constructor]. now apply (okc_nbr _ _ _ _ _ d).
    - apply Forall_forall. intros c Hc. apply in_flat_map in Hc. destruct Hc as (pf & Hpf & Hc).
      match goal with Hall : forallb _ (fo_post h) = true |- _ => rewrite forallb_forall in Hall; specialize (Hall _ Hpf) end.
      assert (HF : Forall okc (tag_calls vs (fo_from h) (v_type from) (pf_op pf) (pf_arg pf))) by (apply tag_calls_ok; assumption).
      rewrite Forall_forall in HF. auto.
    - destruct deep; [|constructor]. apply Forall_app. split; [eapply Hsub; eassumption|now apply output_calls_ok].
  Qed.

  Lemma steps_calls_ok deep vs ss :
    Forall (step_P (fun sub => forall dest, typed_comp S sub dest = true -> Forall okc (comp_calls deep sub))) ss ->
    typed_steps S vs ss = true -> Forall okc (steps_calls deep vs ss).
  Proof.
    induction 1 as [|s r Hs _ IH]; intros Ht; [constructor|].
    destruct s as [e|h sub]; cbn [typed_steps steps_calls] in *; bsplit; apply Forall_app; split; auto.
    - now apply edge_calls_ok.
    - eapply fold_calls_ok; [eassumption|]. exact Hs.
  Qed.

  Lemma comp_calls_ok deep : forall c dest, typed_comp S c dest = true -> Forall okc (comp_calls deep c).
  Proof.
    induction c as [root vs ss outs IH] using comp_ind'. intros dest H.
    rewrite typed_comp_eq in H. rewrite comp_calls_eq. bsplit. apply Forall_app. split.
    - destruct (find_vertex vs root) as [rv|]; [|constructor]. bsplit. now apply enter_calls_ok.
    - now apply steps_calls_ok.
  Qed.

  Theorem calls_respect_contract_at deep q :
    typed_query S q = true -> Forall okc (calls_of_query_at deep q).
  Proof.
    intros H. unfold typed_query in H. destruct (find_decl (q_root_name q) (s_entries S)) as [d|] eqn:Ed; [|discriminate].
    bsplit. unfold calls_of_query_at. constructor.
    - unfold okc, contract_ok. cbn. now rewrite Ed.
    - apply Forall_app. split; [now apply (comp_calls_ok deep _ (ed_target d))|now apply output_calls_ok].
  Qed.

  Theorem calls_respect_contract q :
    typed_query S q = true -> Forall (fun c => contract_ok S c = true) (calls_of_query q).
  Proof. apply calls_respect_contract_at. Qed.
End Static.

(* the calls made while the pipeline is built are among the calls of the query *)
Lemma fold_calls_static_incl vs h sub l1 l2 :
  incl (fold_calls false vs h sub l1) (fold_calls true vs h sub l2).
Proof.
  unfold fold_calls. destruct (find_vertex vs (fo_from h)); [|apply incl_refl].
  cbv iota. rewrite !app_assoc. apply incl_app; [apply incl_appl, incl_appl, incl_refl|intros c []].
Qed.

Lemma static_calls_incl q : incl (static_calls_of_query q) (calls_of_query q).
Proof.
  unfold static_calls_of_query, calls_of_query, calls_of_query_at. apply incl_cons; [now left|].
  apply incl_tl. apply incl_app; [|apply incl_appr, incl_refl]. apply incl_appl.
  destruct (q_comp q) as [root vs ss outs]. rewrite !comp_calls_eq. apply incl_app; [apply incl_appl, incl_refl|].
  apply incl_appr. induction ss as [|[e|h sub] r IH]; cbn [steps_calls]; [apply incl_refl| |].
  - apply incl_app; [apply incl_appl, incl_refl|apply incl_appr, IH].
  - apply incl_app; [apply incl_appl, fold_calls_static_incl|apply incl_appr, IH].
Qed.

(* ================= calls_of_query against Exec.v =================
   Exec.v has no call log: a stage "makes a call" when its result depends on the graph's answer to
   it.  The lemmas below say that each stage depends on the graph ONLY through the calls listed for
   it in Calls.v: two graphs that answer alike on those calls give the same result (including the
   same panics). *)
Lemma bind_ext {A B} (r : res A) (f f' : A -> res B) : (forall x, f x = f' x) -> bind r f = bind r f'.
Proof. intros H. destruct r; cbn; auto. Qed.

Lemma mapM_ext_in {A B} (f f' : A -> res B) l : (forall x, In x l -> f x = f' x) -> mapM f l = mapM f' l.
Proof.
  induction l as [|x l IH]; intros H; [reflexivity|]. cbn [mapM]. rewrite (H x) by now left.
  apply bind_ext. intros y. rewrite IH; [reflexivity|]. intros; apply H; now right.
Qed.

Lemma filter_mapM_ext_in {A B} (f f' : A -> res (option B)) l :
  (forall x, In x l -> f x = f' x) -> filter_mapM f l = filter_mapM f' l.
Proof.
  induction l as [|x l IH]; intros H; [reflexivity|]. cbn [filter_mapM]. rewrite (H x) by now left.
  apply bind_ext. intros y. rewrite IH; [reflexivity|]. intros; apply H; now right.
Qed.

Lemma foldM_ext_in {A St} (f f' : St -> A -> res St) l :
  (forall a s, In a l -> f s a = f' s a) -> forall s, foldM f l s = foldM f' l s.
Proof.
  induction l as [|a l IH]; intros H s; [reflexivity|]. cbn [foldM]. rewrite (H a s) by now left.
  apply bind_ext. intros s'. apply IH. intros; apply H; now right.
Qed.

Lemma agree_on_app l1 l2 g g' : agree_on (l1 ++ l2) g g' <-> agree_on l1 g g' /\ agree_on l2 g g'.
Proof.
  unfold agree_on. split.
  - intros H. split; intros c Hc; apply H; apply in_or_app; auto.
  - intros [H1 H2] c Hc. apply in_app_or in Hc. destruct Hc; auto.
Qed.

Lemma agree_on_cons c l g g' : agree_on (c :: l) g g' <-> agree_call g g' c /\ agree_on l g g'.
Proof.
  unfold agree_on. split.
  - intros H. split; [apply H; now left|intros x Hx; apply H; now right].
  - intros [H1 H2] x [<-|Hx]; auto.
Qed.

Lemma agree_on_nil g g' : agree_on [] g g'.
Proof. intros c []. Qed.

Lemma agree_on_incl l1 l2 g g' : incl l1 l2 -> agree_on l2 g g' -> agree_on l1 g g'.
Proof. intros Hi H c Hc. apply H, Hi, Hc. Qed.

Lemma apply_unary_not_unary op l a : opk_unary op = false -> apply_unary op l a = None.
Proof. destruct op; cbn; intros; congruence. Qed.
Lemma apply_unary_is_unary op l a : opk_unary op = true -> exists b, apply_unary op l a = Some b.
Proof. destruct op; cbn; intros; try discriminate; eauto. Qed.

Section Agree.
  Variable re_match : string -> string -> option bool.
  Variable args : list (string * fv).
  Variables g g' : graph.

  Lemma resolve_prop_agree ty f vid : agree_call g g' (prop_call ty f vid) ->
    forall c, resolve_prop g ty f c = resolve_prop g' ty f c.
  Proof. intros H c. unfold resolve_prop. destruct (active c); [apply H|reflexivity]. Qed.

  Lemma resolve_nbrs_agree ty e ps vid eid : agree_call g g' (nbr_call ty e ps vid eid) ->
    forall c, resolve_nbrs g ty e ps c = resolve_nbrs g' ty e ps c.
  Proof. intros H c. unfold resolve_nbrs. destruct (active c); [apply H|reflexivity]. Qed.

  Lemma resolve_coerce_agree from to vid : agree_call g g' (coerce_call from to vid) ->
    forall c, resolve_coerce g from to c = resolve_coerce g' from to c.
  Proof. intros H c. unfold resolve_coerce. destruct (active c); [apply H|reflexivity]. Qed.

  Lemma filter_one_agree vs ss cur cur_ty op arg sr c0 :
    agree_on (tag_calls vs cur cur_ty op arg) g g' ->
    filter_one re_match g vs ss cur cur_ty op arg sr c0 = filter_one re_match g' vs ss cur cur_ty op arg sr c0.
  Proof.
    intros H. unfold filter_one. apply bind_ext. intros lc. cbv zeta.
    destruct (opk_unary op) eqn:Eu.
    - destruct (apply_unary_is_unary op (fst lc) (match active (snd lc) with Some _ => true | None => false end) Eu) as (b & ->).
      reflexivity.
    - rewrite (apply_unary_not_unary _ _ _ Eu). unfold tag_calls in H. rewrite Eu in H.
      destruct arg as [[[cf|ff]|x t]|]; try reflexivity.
      destruct (N.eqb (cf_vid cf) cur).
      + apply agree_on_cons in H. destruct H as (H & _). rewrite (resolve_prop_agree _ _ _ H). reflexivity.
      + unfold context_field_value. destruct (find_vertex vs (cf_vid cf)) as [vtx|]; [|reflexivity].
        apply agree_on_cons in H. destruct H as (H & _).
        f_equal. apply bind_ext. intros ov. destruct ov as [v|]; [|reflexivity].
        cbn in H. now rewrite H.
  Qed.

  Lemma filter_stage_agree vs ss cur cur_ty op arg cs :
    agree_on (tag_calls vs cur cur_ty op arg) g g' ->
    filter_stage re_match g args vs ss cur cur_ty op arg cs = filter_stage re_match g' args vs ss cur cur_ty op arg cs.
  Proof.
    intros H. unfold filter_stage. apply bind_ext. intros sr. apply filter_mapM_ext_in. intros c _.
    now apply filter_one_agree.
  Qed.

  Lemma local_filter_stage_agree vs ss v f cs :
    agree_on (filter_calls vs v f) g g' ->
    local_filter_stage re_match g args vs ss v f cs = local_filter_stage re_match g' args vs ss v f cs.
  Proof.
    intros H. unfold filter_calls in H. apply agree_on_cons in H. destruct H as (Hp & Ht).
    unfold local_filter_stage. cbv zeta.
    rewrite (map_ext _ (fun c => push_value c (resolve_prop g' (v_type v) (vf_field f) c)))
      by (intros c; now rewrite (resolve_prop_agree _ _ _ Hp)).
    now apply filter_stage_agree.
  Qed.

  Lemma coerce_if_needed_agree v cs :
    agree_on (match v_from v with Some from => [coerce_call from (v_type v) (v_vid v)] | None => [] end) g g' ->
    coerce_if_needed g v cs = coerce_if_needed g' v cs.
  Proof.
    intros H. unfold coerce_if_needed, perform_coercion. destruct (v_from v) as [from|]; [|reflexivity].
    apply agree_on_cons in H. destruct H as (H & _). apply filter_ext. intros c.
    now rewrite (resolve_coerce_agree _ _ _ H).
  Qed.

  Theorem enter_vertex_agree vs ss v cs :
    agree_on (enter_calls vs v) g g' ->
    enter_vertex re_match g args vs ss v cs = enter_vertex re_match g' args vs ss v cs.
  Proof.
    intros H. unfold enter_calls in H. apply agree_on_app in H. destruct H as (Hc & Hf).
    unfold enter_vertex. rewrite (coerce_if_needed_agree _ _ Hc). f_equal.
    apply foldM_ext_in. intros f cs' Hin. apply local_filter_stage_agree.
    eapply agree_on_incl; [|exact Hf]. intros c Hc'. apply in_flat_map. eauto.
  Qed.

  Lemma one_recursive_expansion_agree ty e vid eid cs :
    agree_call g g' (nbr_call ty (e_name e) (e_params e) vid eid) ->
    one_recursive_expansion g ty e cs = one_recursive_expansion g' ty e cs.
  Proof.
    intros H. unfold one_recursive_expansion. apply flat_map_ext. intros c.
    now rewrite (resolve_nbrs_agree _ _ _ _ _ H).
  Qed.

  Lemma recursion_rounds_agree k endpoint coerce rfrom e vid eid :
    agree_call g g' (nbr_call rfrom (e_name e) (e_params e) vid eid) ->
    (forall to, coerce = Some to -> agree_call g g' (coerce_call endpoint to vid)) ->
    forall cs, recursion_rounds g k endpoint coerce rfrom e cs = recursion_rounds g' k endpoint coerce rfrom e cs.
  Proof.
    intros Hn Hc. induction k as [|k IH]; intros cs; [reflexivity|]. cbn [recursion_rounds].
    rewrite IH. f_equal. rewrite (one_recursive_expansion_agree _ _ _ _ _ Hn). f_equal.
    destruct coerce as [to|]; [|reflexivity]. apply map_ext. intros c.
    now rewrite (resolve_coerce_agree _ _ _ (Hc to eq_refl)).
  Qed.

  Theorem expand_edge_agree vs ss e cs :
    agree_on (edge_calls vs e) g g' ->
    expand_edge re_match g args vs ss e cs = expand_edge re_match g' args vs ss e cs.
  Proof.
    intros H. unfold expand_edge, vertex_of, expect_some. unfold edge_calls in H.
    destruct (find_vertex vs (e_from e)) as [from|]; [|reflexivity].
    destruct (find_vertex vs (e_to e)) as [to|]; [|reflexivity]. cbn [bind].
    apply agree_on_cons in H. destruct H as (Hn & H). apply agree_on_app in H. destruct H as (Hr & He).
    assert (E : (match e_rec e with
                 | Some r => expand_recursive_edge g from to e r cs
                 | None => expand_non_recursive_edge g from e cs
                 end) =
                (match e_rec e with
                 | Some r => expand_recursive_edge g' from to e r cs
                 | None => expand_non_recursive_edge g' from e cs
                 end)).
    { destruct (e_rec e) as [r|].
      - unfold expand_recursive_edge. apply bind_ext. intros cs0. cbv zeta.
        rewrite (one_recursive_expansion_agree _ _ _ _ _ Hn). f_equal.
        destruct (N.leb 2 (r_depth r)) eqn:Ed.
        + cbv zeta in Hr. apply agree_on_app in Hr. destruct Hr as (Hco & Hn2).
          apply agree_on_cons in Hn2. destruct Hn2 as (Hn2 & _).
          eapply recursion_rounds_agree; [exact Hn2|].
          intros t Et. fold (endpoint_type to). rewrite Et in Hco. apply agree_on_cons in Hco. exact (proj1 Hco).
        + apply N.leb_gt in Ed. replace (N.to_nat (r_depth r) - 1)%nat with O by lia. reflexivity.
      - unfold expand_non_recursive_edge. apply bind_ext. intros cs1. f_equal. apply flat_map_ext. intros c.
        now rewrite (resolve_nbrs_agree _ _ _ _ _ Hn). }
    rewrite E. apply bind_ext. intros cs1. now apply enter_vertex_agree.
  Qed.
End Agree.

Lemma bind_congr {A B} (r r' : res A) (f f' : A -> res B) :
  r = r' -> (forall x, f x = f' x) -> bind r f = bind r' f'.
Proof. intros -> H. now apply bind_ext. Qed.

Lemma lookup_str_in {A} k (l : list (string * A)) a : lookup_str k l = Some a -> exists k', In (k', a) l.
Proof.
  induction l as [|[k' a'] l IH]; cbn; [discriminate|]. destruct (String.eqb k k').
  - intros [= ->]. exists k'. now left.
  - intros H. destruct (IH H) as (k2 & Hk). exists k2. now right.
Qed.

Section AgreeFold.
  Variable re_match : string -> string -> option bool.
  Variable args : list (string * fv).
  Variables g g' : graph.

  (* one output value (shared by construct_outputs and compute_fold's output loop) *)
  Lemma output_value_agree c site cx name :
    agree_on (output_calls c) g g' ->
    (do cf <- expect_some site (lookup_str name (c_outputs c));
     do ov <- vertex_at cx (cf_vid cf);
     do vtx <- vertex_of (c_vertices c) (cf_vid cf);
     Ok (match ov with Some v => g_prop g (v_type vtx) (cf_name cf) v | None => Null end)) =
    (do cf <- expect_some site (lookup_str name (c_outputs c));
     do ov <- vertex_at cx (cf_vid cf);
     do vtx <- vertex_of (c_vertices c) (cf_vid cf);
     Ok (match ov with Some v => g_prop g' (v_type vtx) (cf_name cf) v | None => Null end)).
  Proof.
    intros H. destruct (lookup_str name (c_outputs c)) as [cf|] eqn:El; [|reflexivity].
    cbn [expect_some bind]. apply bind_ext. intros ov. unfold vertex_of, expect_some.
    destruct (find_vertex (c_vertices c) (cf_vid cf)) as [vtx|] eqn:Ev; [|reflexivity]. cbn [bind].
    destruct ov as [v|]; [|reflexivity]. f_equal.
    destruct (lookup_str_in _ _ _ El) as (k' & Hin).
    assert (Hc : In (prop_call (v_type vtx) (cf_name cf) (cf_vid cf)) (output_calls c)).
    { unfold output_calls. apply in_flat_map. exists (k', cf). split; [assumption|]. cbn [snd]. rewrite Ev. now left. }
    exact (H _ Hc v).
  Qed.

  Lemma construct_output_one_agree c names cx :
    agree_on (output_calls c) g g' -> construct_output_one g c names cx = construct_output_one g' c names cx.
  Proof.
    intros H. unfold construct_output_one. apply bind_congr; [|reflexivity].
    apply mapM_ext_in. intros name _. now apply output_value_agree.
  Qed.

  Lemma element_output_values_agree sub names el :
    agree_on (output_calls sub) g g' -> element_output_values g sub names el = element_output_values g' sub names el.
  Proof. intros H. unfold element_output_values. apply mapM_ext_in. intros name _. now apply output_value_agree. Qed.

  Lemma fold_outputs_one_agree h sub c :
    agree_on (output_calls sub) g g' -> fold_outputs_one g h sub c = fold_outputs_one g' h sub c.
  Proof.
    intros H. unfold fold_outputs_one. cbv zeta. apply bind_ext. intros fe. apply bind_ext. intros fvals1.
    apply bind_congr; [|reflexivity].
    destruct fe as [[|el0 els]|]; try reflexivity.
    apply foldM_ext_in. intros el m _. apply bind_congr; [|reflexivity]. now apply element_output_values_agree.
  Qed.

  Theorem fold_step_agree vs ss h sub sub_calls sc sc' cs :
    agree_on (fold_calls true vs h sub sub_calls) g g' -> (agree_on sub_calls g g' -> forall l, sc l = sc' l) ->
    fold_step re_match g args vs ss h sub sc cs = fold_step re_match g' args vs ss h sub sc' cs.
  Proof.
    intros H Hsc0. unfold fold_step, vertex_of. unfold fold_calls in H.
    destruct (find_vertex vs (fo_from h)) as [from|]; [|reflexivity]. cbn [expect_some bind].
    apply agree_on_app in H. destruct H as (Hi & H). apply agree_on_cons in H. destruct H as (Hn & H).
    apply agree_on_app in H. destruct H as (Hp & H). apply agree_on_app in H. destruct H as (Hs & Ho).
    pose proof (Hsc0 Hs) as Hsc.
    apply bind_congr.
    { apply foldM_ext_in. intros t cs0 Ht.
      assert (Hit : agree_on (import_calls vs t) g g').
      { eapply agree_on_incl; [|exact Hi]. intros c Hc. apply in_flat_map. eauto. }
      destruct t as [cf|ff]; [|reflexivity]. unfold import_calls in Hit.
      destruct (find_vertex vs (cf_vid cf)) as [fvtx|]; [|reflexivity]. cbn [expect_some bind].
      apply agree_on_cons in Hit. destruct Hit as (Hit & _).
      apply mapM_ext_in. intros c _. apply bind_ext. intros c1. cbv zeta.
      now rewrite (resolve_prop_agree _ _ _ _ _ Hit). }
    intros cs1. apply bind_ext. intros cs2. apply bind_ext. intros maxl. apply bind_ext. intros minl0. cbv zeta.
    apply bind_congr.
    { apply filter_mapM_ext_in. intros c _. rewrite (resolve_nbrs_agree _ _ _ _ _ _ _ Hn). now rewrite Hsc. }
    intros cs3. apply bind_congr.
    { apply foldM_ext_in. intros pf cs0 Hpf. apply bind_ext. intros cs0'. apply filter_stage_agree.
      eapply agree_on_incl; [|exact Hp]. intros c Hc. apply in_flat_map. eauto. }
    intros cs4. apply mapM_ext_in. intros c _. now apply fold_outputs_one_agree.
  Qed.

  Lemma exec_steps_agree vs ss todo :
    Forall (step_P (fun sub => agree_on (comp_calls true sub) g g' ->
                               forall cs, compute_component re_match g args sub cs = compute_component re_match g' args sub cs)) todo ->
    agree_on (steps_calls true vs todo) g g' ->
    forall cs, exec_steps re_match g args vs ss todo cs = exec_steps re_match g' args vs ss todo cs.
  Proof.
    induction 1 as [|s r Hs _ IH]; intros Ha cs; [reflexivity|].
    destruct s as [e|h sub]; cbn [steps_calls exec_steps] in *; apply agree_on_app in Ha; destruct Ha as (Ha1 & Ha2).
    - apply bind_congr; [now apply expand_edge_agree|]. intros cs'. now apply IH.
    - apply bind_congr; [|intros cs'; now apply IH].
      eapply fold_step_agree; [exact Ha1|]. intros Hsub l. now apply Hs.
  Qed.

  Theorem compute_component_agree : forall c,
    agree_on (comp_calls true c) g g' ->
    forall cs, compute_component re_match g args c cs = compute_component re_match g' args c cs.
  Proof.
    induction c as [root vs ss outs IH] using comp_ind'. intros Ha cs.
    rewrite !compute_component_eq. rewrite comp_calls_eq in Ha. apply agree_on_app in Ha. destruct Ha as (He & Hs).
    unfold vertex_of. destruct (find_vertex vs root) as [rv|]; [|reflexivity]. cbn [expect_some bind].
    apply bind_congr; [now apply enter_vertex_agree|]. intros cs0. now apply exec_steps_agree.
  Qed.

  (* the whole interpreter depends on the graph only through calls_of_query *)
  Theorem interpret_agree q :
    agree_on (calls_of_query q) g g' -> interpret re_match g args q = interpret re_match g' args q.
  Proof.
    intros H. unfold calls_of_query, calls_of_query_at in H. apply agree_on_cons in H. destruct H as (Hst & H).
    apply agree_on_app in H. destruct H as (Hc & Ho). unfold interpret. cbv zeta.
    cbn in Hst. rewrite Hst. apply bind_congr; [now apply compute_component_agree|].
    intros cs. apply mapM_ext_in. intros cx _. now apply construct_output_one_agree.
  Qed.
End AgreeFold.

(* ================= the dynamic clause, fold-free queries =================
   "every non-null active vertex passed to the adapter is an instance of the named type".
   Proved at the level of the specification (Sem.v) for edge steps — vertices only come from
   g_starts / g_nbrs at the declared destination, narrowed by coercions — and transported to the
   contexts of Exec.v through the C01 simulation, at every stage boundary. *)
Lemma lookup_N_in {A} k (l : list (N * A)) x : lookup_N k l = Some x -> In (k, x) l.
Proof.
  induction l as [|[k' a] l IH]; cbn; [discriminate|]. destruct (N.eqb_spec k k') as [->|_].
  - intros [= ->]. now left.
  - intros H. right. auto.
Qed.

Lemma edges_only_app l1 l2 : edges_only (l1 ++ l2) = true -> edges_only l1 = true.
Proof.
  induction l1 as [|[e|h sub] r IH]; cbn [app edges_only]; [reflexivity| |discriminate].
  intros H. apply andb_prop in H. destruct H as (H1 & H2). rewrite H1. cbn. auto.
Qed.

Lemma typed_steps_app S vs l1 l2 : typed_steps S vs (l1 ++ l2) = true -> typed_steps S vs l1 = true.
Proof.
  induction l1 as [|[e|h sub] r IH]; cbn [app typed_steps]; [reflexivity| |];
    intros H; apply andb_prop in H; destruct H as (H1 & H2); rewrite H1; cbn; auto.
Qed.

Lemma find_decl_in name l d : find_decl name l = Some d -> In d l /\ ed_name d = name.
Proof.
  induction l as [|x l IH]; cbn; [discriminate|]. destruct (String.eqb_spec name (ed_name x)) as [->|_].
  - intros [= ->]. split; [now left|reflexivity].
  - intros H. destruct (IH H). split; [now right|assumption].
Qed.

Section Dynamic.
  Variable S : schema.
  Variable inst : vertex -> string -> Prop.
  Variable re_match : string -> string -> option bool.
  Variable g : graph.
  Variable args : list (string * fv).
  Hypothesis Hconf : conforms S inst g.

  Lemma enter_typed vs ss imp a tov x :
    inst x (endpoint_type tov) -> enter re_match g args vs ss imp a tov (Some x) = true -> inst x (v_type tov).
  Proof.
    unfold enter, endpoint_type. destruct (v_from tov) as [from|]; [|auto].
    intros _ H. apply andb_prop in H. destruct H as (H & _). eapply (cf_coerce _ _ _ Hconf). exact H.
  Qed.

  (* every vertex listed by the recursion is an instance of the edge's destination D *)
  Lemma rec_from_typed origin_ty rfrom D coerce_to edge ps d0 dr :
    subtype_of S origin_ty D = true ->
    find_edge S origin_ty edge = Some d0 -> ed_target d0 = D ->
    rfrom = match coerce_to with Some x => x | None => D end ->
    find_edge S rfrom edge = Some dr -> ed_target dr = D ->
    forall (k : nat) (first : bool) (v : vertex), (if first then inst v origin_ty else inst v D) ->
    forall x, In x (rec_from g k first origin_ty rfrom D coerce_to edge ps v) -> inst x D.
  Proof.
    intros Hsub E0 T0 Erf Er Tr. induction k as [|k IH]; intros first v Hv x Hx; cbn [rec_from] in Hx.
    - destruct Hx as [<-|[]]. destruct first; [eapply (cf_up _ _ _ Hconf); eassumption|assumption].
    - destruct Hx as [<-|Hx]; [destruct first; [eapply (cf_up _ _ _ Hconf); eassumption|assumption]|].
      destruct (first || match coerce_to with Some to => g_coerce g D to v | None => true end) eqn:Eg; [|destruct Hx].
      apply in_flat_map in Hx. destruct Hx as (n & Hn & Hx). apply (IH false n); [|exact Hx]. cbn.
      destruct first.
      + rewrite <- T0. eapply (cf_nbrs _ _ _ Hconf); eassumption.
      + cbn in Eg. rewrite <- Tr. eapply (cf_nbrs _ _ _ Hconf); [exact Er| |exact Hn].
        rewrite Erf. destruct coerce_to as [to|]; [|exact Hv]. eapply (cf_coerce _ _ _ Hconf). exact Eg.
  Qed.

  Lemma asg_typed_set_av vs a vid c vtx :
    asg_typed inst vs a -> find_vertex vs vid = Some vtx ->
    (forall x, c = Some x -> inst x (v_type vtx)) -> asg_typed inst vs (set_av a vid c).
  Proof.
    intros Ha Ev Hc vid' v vtx' Hin Ev'. unfold set_av in Hin. cbn [a_v] in Hin. apply in_app_or in Hin.
    destruct Hin as [Hin|[Hin|[]]]; [eapply Ha; eassumption|]. injection Hin as <- ->.
    rewrite Ev in Ev'. injection Ev' as <-. now apply Hc.
  Qed.

  Lemma step_edge_typed vs ss imp e a :
    typed_edge S vs e = true -> asg_typed inst vs a ->
    Forall (asg_typed inst vs) (step_edge re_match g args vs ss imp e a).
  Proof.
    intros Ht Ha. unfold step_edge. unfold typed_edge in Ht.
    destruct (find_vertex vs (e_from e)) as [fromv|] eqn:Ef; [|constructor].
    destruct (find_vertex vs (e_to e)) as [tov|] eqn:Et; [|constructor].
    bsplit. destruct (find_edge S (v_type fromv) (e_name e)) as [d|] eqn:Ed; [|discriminate]. bsplit.
    match goal with Hq : String.eqb (endpoint_type tov) (ed_target d) = true |- _ => apply String.eqb_eq in Hq; rename Hq into HD end.
    apply Forall_forall. intros a' Ha'. apply in_flat_map in Ha'. destruct Ha' as (c & Hc & Ha').
    destruct (enter re_match g args vs ss imp a tov c) eqn:Ee; [|destruct Ha']. destruct Ha' as [<-|[]].
    eapply asg_typed_set_av; [exact Ha|exact Et|]. intros x ->.
    eapply enter_typed; [|exact Ee]. rewrite HD.
    (* where do candidates come from? *)
    destruct (lookup_N (e_from e) (a_v a)) as [[v|]|] eqn:El; [|destruct Hc as [Hc|[]]; discriminate|destruct Hc as [Hc|[]]; discriminate].
    assert (Hv : inst v (v_type fromv)) by (eapply Ha; [apply lookup_N_in; exact El|exact Ef]).
    destruct (e_rec e) as [r|].
    - apply in_map_iff in Hc. destruct Hc as (y & [= ->] & Hy).
      match goal with Hr : typed_recursion _ _ _ _ _ _ = true |- _ => unfold typed_recursion in Hr end. bsplit.
      fold (endpoint_type tov) in Hy. rewrite HD in Hy.
      destruct (r_coerce r) as [xco|] eqn:Eco.
      + bsplit. destruct (find_edge S xco (e_name e)) as [dx|] eqn:Edx; [|discriminate]. bsplit.
        match goal with Hq : String.eqb (ed_target dx) (ed_target d) = true |- _ => apply String.eqb_eq in Hq; rename Hq into HT end.
        eapply (rec_from_typed (v_type fromv) xco (ed_target d) (Some xco) (e_name e) (e_params e) d dx);
          try eassumption; try reflexivity. exact Hv.
      + bsplit. rewrite HD in *. destruct (find_edge S (ed_target d) (e_name e)) as [dd|] eqn:Edd; [|discriminate]. bsplit.
        match goal with Hq : String.eqb (ed_target dd) (ed_target d) = true |- _ => apply String.eqb_eq in Hq; rename Hq into HT end.
        eapply (rec_from_typed (v_type fromv) (ed_target d) (ed_target d) None (e_name e) (e_params e) d dd);
          try eassumption; try reflexivity. exact Hv.
    - assert (Hn : In x (g_nbrs g (v_type fromv) (e_name e) (e_params e) v)).
      { destruct (g_nbrs g (v_type fromv) (e_name e) (e_params e) v) as [|n ns].
        - destruct (e_optional e); [destruct Hc as [Hc|[]]; discriminate|destruct Hc].
        - apply in_map_iff in Hc. destruct Hc as (y & [= ->] & Hy). exact Hy. }
      eapply (cf_nbrs _ _ _ Hconf); eassumption.
  Qed.

  Lemma sem_steps_typed vs ss imp todo : forall rows,
    edges_only todo = true -> typed_steps S vs todo = true -> Forall (asg_typed inst vs) rows ->
    Forall (asg_typed inst vs) (sem_steps re_match g args vs ss imp todo rows).
  Proof.
    induction todo as [|[e|h sub] todo IH]; intros rows Ho Ht Hr; cbn [sem_steps edges_only typed_steps] in *;
      [assumption| |discriminate].
    apply andb_prop in Ho. destruct Ho as (_ & Ho). apply andb_prop in Ht. destruct Ht as (Ht1 & Ht2).
    apply IH; [assumption|assumption|]. apply Forall_forall. intros a' Ha'. apply in_flat_map in Ha'.
    destruct Ha' as (a & Ha & Ha'). rewrite Forall_forall in Hr.
    pose proof (step_edge_typed vs ss imp e a Ht1 (Hr _ Ha)) as HF. rewrite Forall_forall in HF. auto.
  Qed.

  (* Transport to Exec.v: after ANY prefix of the edge steps of a fold-free, typed root component,
     every vertex recorded in every context is an instance of its IR vertex' type.  These are the
     vertices that `activate_vertex` / `move_to_vertex` make active for the next neighbour call, for
     tag computations and for the output calls. *)
  Theorem recorded_vertices_typed_partial :
    ty_indep g ->
    forall q d root vs ss outs rv pre post cs0 cs,
      q_comp q = mkComp root vs ss outs ->
      find_decl (q_root_name q) (s_entries S) = Some d ->
      typed_query S q = true ->
      edges_only ss = true -> ss = pre ++ post ->
      find_vertex vs root = Some rv ->
      enter_vertex re_match g args vs ss rv
        (map (fun v => ctx_new (Some v)) (g_starts g (q_root_name q) (q_root_params q))) = Ok cs0 ->
      exec_steps re_match g args vs ss pre cs0 = Ok cs ->
      Forall (ctx_typed inst vs) cs.
  Proof.
    intros Hind q d root vs ss outs rv pre post cs0 cs Eq Ed Ht Ho Ess Erv He Hx.
    destruct (find_decl_in _ _ _ Ed) as (Hd & Hname).
    unfold typed_query in Ht. rewrite Ed, Eq in Ht. bsplit.
    match goal with Hc : typed_comp _ _ _ = true |- _ => rewrite typed_comp_eq in Hc; rewrite Erv in Hc end. bsplit.
    match goal with Hq : String.eqb (endpoint_type rv) (ed_target d) = true |- _ => apply String.eqb_eq in Hq; rename Hq into HD end.
    set (starts := g_starts g (q_root_name q) (q_root_params q)) in *.
    assert (Hcl : Forall (clean []) (map (fun v => ctx_new (Some v)) starts)).
    { apply Forall_forall. intros y Hy. apply in_map_iff in Hy. destruct Hy as (v & <- & _). repeat split; constructor. }
    destruct (enter_vertex_spec re_match g args vs ss [] rv _ _ Hcl He) as (-> & Hcl0).
    subst ss.
    destruct (exec_steps_edges_spec re_match g args Hind vs (pre ++ post) [] pre _ _ (edges_only_app _ _ Ho) Hcl0 Hx) as (E & _ & _).
    assert (Hrows : Forall (asg_typed inst vs) (sem_steps re_match g args vs (pre ++ post) [] pre
              (map asg_of (map (recorded (v_vid rv))
                 (filter (fun c => enter re_match g args vs (pre ++ post) [] (asg_of c) rv (active c))
                         (map (fun v => ctx_new (Some v)) starts)))))).
    { apply sem_steps_typed; [eapply edges_only_app; eassumption|eapply typed_steps_app; eassumption|].
      apply Forall_forall. intros a Ha. apply in_map_iff in Ha. destruct Ha as (c1 & <- & Hc1).
      apply in_map_iff in Hc1. destruct Hc1 as (c & <- & Hc). apply filter_In in Hc. destruct Hc as (Hc & Hen).
      apply in_map_iff in Hc. destruct Hc as (s & <- & Hs). rewrite asg_of_recorded.
      pose proof (find_vertex_vid _ _ _ Erv) as Hvid. rewrite Hvid.
      eapply asg_typed_set_av; [|exact Erv|].
      - intros vid v vtx Hin. rewrite asg_of_eq in Hin. destruct Hin.
      - cbn [active ctx_new]. intros x [= <-]. cbn [active ctx_new] in Hen.
        eapply enter_typed; [|exact Hen]. rewrite HD. eapply (cf_starts _ _ _ Hconf); [exact Hd|].
        rewrite Hname. exact Hs. }
    rewrite <- E in Hrows. apply Forall_forall. intros c Hc. rewrite Forall_forall in Hrows.
    specialize (Hrows (asg_of c) (in_map asg_of _ _ Hc)).
    intros vid v vtx Hin. apply Hrows. now rewrite a_v_asg_of.
  Qed.

  (* ... in particular the contexts handed to the neighbour call of the next edge: every non-null
     active vertex is an instance of the type the call names (the origin vertex' type) *)
  Corollary neighbor_call_active_vertices_typed_partial :
    ty_indep g ->
    forall q d root vs ss outs rv pre e post from cs0 cs cs1,
      q_comp q = mkComp root vs ss outs ->
      find_decl (q_root_name q) (s_entries S) = Some d ->
      typed_query S q = true ->
      edges_only ss = true -> ss = pre ++ SEdge e :: post ->
      find_vertex vs root = Some rv ->
      find_vertex vs (e_from e) = Some from ->
      enter_vertex re_match g args vs ss rv
        (map (fun v => ctx_new (Some v)) (g_starts g (q_root_name q) (q_root_params q))) = Ok cs0 ->
      exec_steps re_match g args vs ss pre cs0 = Ok cs ->
      mapM (fun c => activate_vertex c (e_from e)) cs = Ok cs1 ->
      Forall (fun c => forall v, active c = Some v -> inst v (v_type from)) cs1.
  Proof.
    intros Hind q d root vs ss outs rv pre e post from cs0 cs cs1 Eq Ed Ht Ho Ess Erv Ef He Hx Ha.
    pose proof (recorded_vertices_typed_partial Hind q d root vs ss outs rv pre (SEdge e :: post) cs0 cs
                  Eq Ed Ht Ho Ess Erv He Hx) as HF.
    apply mapM_ok in Ha. clear - Ha HF Ef. induction Ha as [|c y cs cs1 Hy _ IH]; [constructor|].
    inversion HF as [|? ? Hc HF']; subst. constructor; [|now apply IH].
    apply activate_vertex_ok in Hy. subst y. intros v Hv. destruct c as [a vsx vals susp fcs fvs pb imp].
    cbn in Hv. unfold act_at in Hv. cbn [vertices] in Hv.
    destruct (lookup_N (e_from e) vsx) as [ov|] eqn:El; [|discriminate]. subst ov.
    eapply Hc; [|exact Ef]. cbn [vertices]. apply lookup_N_in. exact El.
  Qed.
End Dynamic.

(* ================= finite datasets conform ================= *)
Lemma lookup_str_in_key {A} k (l : list (string * A)) a : lookup_str k l = Some a -> In (k, a) l.
Proof.
  induction l as [|[k' a'] l IH]; cbn; [discriminate|]. destruct (String.eqb_spec k k') as [->|_].
  - intros [= ->]. now left.
  - intros H. right. auto.
Qed.

Lemma mem_str_in s l : mem_str s l = true -> In s l.
Proof.
  unfold mem_str. intros H. apply existsb_exists in H. destruct H as (x & Hx & E).
  apply String.eqb_eq in E. now subst.
Qed.

Theorem dataset_conforms_sound S d :
  dataset_conforms S d = true -> conforms S (inst_of d) (graph_of_dataset d).
Proof.
  intros H. unfold dataset_conforms in H. bsplit.
  match goal with Hu : forallb _ (s_subs S) = true |- _ => rename Hu into Hup end.
  match goal with Hs : forallb _ (s_entries S) = true |- _ => rename Hs into Hst end.
  match goal with Hn : forallb _ (s_edges S) = true |- _ => rename Hn into Hnb end.
  rewrite forallb_forall in Hup, Hst, Hnb. constructor.
  - (* upward closure *)
    intros v t t' Hi Hs. unfold subtype_of in Hs. destruct (lookup_str t' (s_subs S)) as [l|] eqn:El; [|discriminate].
    apply lookup_str_in_key in El. specialize (Hup _ El). cbn [fst snd] in Hup. rewrite forallb_forall in Hup.
    specialize (Hup _ (mem_str_in _ _ Hs)).
    unfold inst_of, in_type, ds_coerce in *. destruct (lookup_str t (d_subs d)) as [l0|]; [|discriminate].
    rewrite forallb_forall in Hup. specialize (Hup _ (mem_str_in _ _ Hi)). exact Hup.
  - (* starting vertices *)
    intros en ps v Hen Hv. specialize (Hst _ Hen). cbn [graph_of_dataset g_starts] in Hv. unfold ds_starts in Hv.
    destruct (lookup_str (ed_name en) (d_starts d)) as [ns|]; [|destruct Hv].
    apply filter_In in Hv. destruct Hv as (Hv & _). rewrite forallb_forall in Hst. exact (Hst _ Hv).
  - (* neighbours *)
    intros t e decl ps v n Ef Hi Hn. unfold find_edge in Ef.
    destruct (lookup_str t (s_edges S)) as [es|] eqn:Ees; [|discriminate].
    apply lookup_str_in_key in Ees. specialize (Hnb _ Ees). cbn [fst snd] in Hnb. rewrite forallb_forall in Hnb.
    destruct (find_decl_in _ _ _ Ef) as (Hdecl & Hname). specialize (Hnb _ Hdecl). rewrite forallb_forall in Hnb.
    cbn [graph_of_dataset g_nbrs] in Hn. unfold ds_nbrs in Hn.
    destruct (lookup_N v (d_edges d)) as [em|] eqn:Ev; [|destruct Hn].
    apply lookup_N_in in Ev. specialize (Hnb _ Ev). cbn [fst snd] in Hnb.
    unfold inst_of in Hi. rewrite Hi in Hnb. rewrite Hname in Hnb.
    unfold vertex in *.
    destruct (lookup_str e em) as [ns|] eqn:Ens; [|destruct Hn].
    apply filter_In in Hn. destruct Hn as (Hn & _). rewrite forallb_forall in Hnb. exact (Hnb _ Hn).
  - (* coercion *)
    intros from to v Hc. exact Hc.
Qed.
