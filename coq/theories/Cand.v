(* Cand.v — model of trustfall_core/src/interpreter/hints/candidates.rs
   (CandidateValue::{intersect, exclude_single_value, normalize},
    Range::{new, with_start, with_end, intersect, degenerate, null_only, contains}).
   Model file: definitions only, no proofs (proofs are in CandProofs.v).

   The code is generic in the value type `T: PartialEq + Eq + PartialOrd + NullableValue + Default`;
   so is the model: a Section over a carrier `T` with
     eqb      = `==`            (PartialEq::eq;  `!=` is the default `!(a == b)`),
     cmp      = `partial_cmp`   (total here: FieldValue::partial_cmp always returns Some),
     is_null  = NullableValue::is_null,
     null     = T::default().
   Rust's comparison operators on PartialOrd are the default methods:
     a <  b  = matches!(a.partial_cmp(b), Some(Less))
     a <= b  = matches!(a.partial_cmp(b), Some(Less | Equal))
     a >  b  = matches!(a.partial_cmp(b), Some(Greater))
     a >= b  = matches!(a.partial_cmp(b), Some(Greater | Equal))
   (FieldValue overrides none of them, nor `ne`).

   Panic sites: the `assert!`s of Range::new / with_start / with_end, the `debug_assert!`s of
   Range::intersect (debug-build semantics; on well-formed ranges they are proved unreachable, so
   debug and release builds coincide there), the `unreachable!` of CandidateValue::intersect and the
   `expect` of normalize are explicit `Panic` outcomes.  The operand swap of
   CandidateValue::intersect (`other.intersect(placeholder)`) is a recursive call; the model uses
   explicit fuel (2 is enough: the callee's `self` is never a Range). *)
From TF Require Import Values Show.

Inductive bound (T : Type) : Type := Incl (x : T) | Excl (x : T) | Unb.
Arguments Incl {T} x.
Arguments Excl {T} x.
Arguments Unb {T}.

Record range (T : Type) : Type := mkRange { rstart : bound T; rend : bound T; rnull : bool }.
Arguments mkRange {T} rstart rend rnull.
Arguments rstart {T} r.
Arguments rend {T} r.
Arguments rnull {T} r.

Inductive cand (T : Type) : Type :=
| Impossible
| Single (x : T)
| Multiple (l : list T)
| CRange (r : range T)
| All.
Arguments Impossible {T}.
Arguments Single {T} x.
Arguments Multiple {T} l.
Arguments CRange {T} r.
Arguments All {T}.

Section Cand.
  Variable T : Type.
  Variable eqb : T -> T -> bool.
  Variable cmp : T -> T -> comparison.
  Variable is_null : T -> bool.
  Variable null : T.

  (* ---- PartialOrd operators (default methods over partial_cmp) ---- *)
  Definition t_lt (a b : T) : bool := match cmp a b with Lt => true | _ => false end.
  Definition t_le (a b : T) : bool := match cmp a b with Lt | Eq => true | Gt => false end.
  Definition t_gt (a b : T) : bool := match cmp a b with Gt => true | _ => false end.
  Definition t_ge (a b : T) : bool := match cmp a b with Gt | Eq => true | Lt => false end.

  (* derived PartialEq on Bound<&T>: same constructor and `==` on the payloads *)
  Definition bound_eq (a b : bound T) : bool :=
    match a, b with
    | Incl x, Incl y => eqb x y
    | Excl x, Excl y => eqb x y
    | Unb, Unb => true
    | _, _ => false
    end.

  (* derived PartialEq on Range<T>: field by field *)
  Definition range_eq (a b : range T) : bool :=
    bound_eq (rstart a) (rstart b) && bound_eq (rend a) (rend b) && Bool.eqb (rnull a) (rnull b).

  (* Range::full / Range::full_non_null *)
  Definition range_full : range T := mkRange Unb Unb true.
  Definition range_full_non_null : range T := mkRange Unb Unb false.

  (* the `match &bound { Included(v) | Excluded(v) => assert!(!v.is_null(), ..), Unbounded => {} }`
     block of Range::new / with_start / with_end *)
  Definition assert_bound_not_null (b : bound T) : res unit :=
    match b with
    | Incl v | Excl v =>
        if is_null v then Panic "candidates.rs:assert cannot bound range with null value" else Ok tt
    | Unb => Ok tt
    end.

  (* Range::new *)
  Definition range_new (start end_ : bound T) (null_included : bool) : res (range T) :=
    do u1 <- assert_bound_not_null start;
    do u2 <- assert_bound_not_null end_;
    Ok (mkRange start end_ null_included).

  (* Range::with_start *)
  Definition range_with_start (start : bound T) (null_included : bool) : res (range T) :=
    do u1 <- assert_bound_not_null start;
    Ok (mkRange start Unb null_included).

  (* Range::with_end *)
  Definition range_with_end (end_ : bound T) (null_included : bool) : res (range T) :=
    do u1 <- assert_bound_not_null end_;
    Ok (mkRange Unb end_ null_included).

  (* debug_assert!(!v.is_null()) *)
  Definition dbg_not_null {A} (v : T) (k : res A) : res A :=
    if is_null v then Panic "candidates.rs:debug_assert !is_null in Range::intersect" else k.

  (* Range::intersect, first statement: `match &mut self.start { .. }` (reads other.start only).
     The result is the new value of self.start. *)
  Definition isect_start (self_start other_start : bound T) : res (bound T) :=
    match self_start with
    | Incl start =>
        dbg_not_null start
          match other_start with
          | Incl o => dbg_not_null o (Ok (if t_lt start o then other_start else self_start))
          | Excl o => dbg_not_null o (Ok (if t_le start o then other_start else self_start))
          | Unb => Ok self_start
          end
    | Excl start =>
        dbg_not_null start
          match other_start with
          | Incl o | Excl o => dbg_not_null o (Ok (if t_lt start o then other_start else self_start))
          | Unb => Ok self_start
          end
    | Unb => Ok other_start
    end.

  (* Range::intersect, second statement: `match &mut self.end { .. }` (reads other.end only) *)
  Definition isect_end (self_end other_end : bound T) : res (bound T) :=
    match self_end with
    | Incl e =>
        dbg_not_null e
          match other_end with
          | Incl o => dbg_not_null o (Ok (if t_gt e o then other_end else self_end))
          | Excl o => dbg_not_null o (Ok (if t_ge e o then other_end else self_end))
          | Unb => Ok self_end
          end
    | Excl e =>
        dbg_not_null e
          match other_end with
          | Incl o | Excl o => dbg_not_null o (Ok (if t_gt e o then other_end else self_end))
          | Unb => Ok self_end
          end
    | Unb => Ok other_end
    end.

  (* Range::intersect (returns the updated self); third statement: null_included &= other.null_included *)
  Definition range_intersect (self other : range T) : res (range T) :=
    do s <- isect_start (rstart self) (rstart other);
    do e <- isect_end (rend self) (rend other);
    Ok (mkRange s e (rnull self && rnull other)).

  (* Range::degenerate *)
  Definition degenerate (r : range T) : bool :=
    match rstart r, rend r with
    | Incl l, Incl r' => t_gt l r'
    | Incl l, Excl r' | Excl l, Incl r' | Excl l, Excl r' => t_ge l r'
    | _, Unb | Unb, _ => false
    end.

  (* Range::null_only *)
  Definition null_only (r : range T) : bool := rnull r && degenerate r.

  (* Range::contains *)
  Definition contains (r : range T) (item : T) : bool :=
    if is_null item then rnull r
    else
      (match rstart r with
       | Incl start => t_le start item
       | Excl start => t_lt start item
       | Unb => true
       end)
      &&
      (match rend r with
       | Incl e => t_le item e
       | Excl e => t_lt item e
       | Unb => true
       end).

  (* <[T]>::contains(&self, x) = self.iter().any(|e| *e == *x) *)
  Definition vec_contains (l : list T) (x : T) : bool := existsb (fun e => eqb e x) l.

  (* Vec::pop *)
  Definition vec_pop (l : list T) : option T :=
    match rev l with [] => None | x :: _ => Some x end.

  (* CandidateValue::normalize (returns the updated self) *)
  Definition normalize (self : cand T) : res (cand T) :=
    match self with
    | CRange range =>
        if null_only range then Ok (Single null)
        else if degenerate range then Ok Impossible
        else if bound_eq (rstart range) (rend range) then
          if range_eq range range_full then Ok All
          else
            match rstart range with
            | Incl b => if rnull range then Ok (Multiple [null; b]) else Ok (Single b)
            | _ => Ok self
            end
        else Ok self
    | Multiple values =>
        if Nat.eqb (List.length values) 0 then Ok Impossible        (* values.is_empty() *)
        else if Nat.eqb (List.length values) 1 then
          match vec_pop values with
          | Some v => Ok (Single v)
          | None => Panic "candidates.rs:expect no value present"
          end
        else Ok self
    | _ => Ok self
    end.

  (* CandidateValue::intersect (returns the updated self).  `fuel` bounds the depth of the
     operand-swapping recursive call. *)
  Fixpoint intersect_fuel (fuel : nat) (self other : cand T) {struct fuel} : res (cand T) :=
    match fuel with
    | O => Panic "model:intersect out of fuel"
    | S fuel' =>
        do s <-
          match self with
          | Impossible => Ok Impossible
          | Single val =>
              match other with
              | Impossible => Ok Impossible
              | Single o => Ok (if negb (eqb val o) then Impossible else self)
              | Multiple others => Ok (if negb (vec_contains others val) then Impossible else self)
              | CRange others => Ok (if negb (contains others val) then Impossible else self)
              | All => Ok self
              end
          | Multiple multiple =>
              match other with
              | Impossible => Ok Impossible
              | Single o => Ok (if vec_contains multiple o then Single o else Impossible)
              | Multiple _ | CRange _ =>
                  match other with
                  | Multiple others => Ok (Multiple (filter (fun v => vec_contains others v) multiple))
                  | CRange others => Ok (Multiple (filter (fun v => contains others v) multiple))
                  | _ => Panic "candidates.rs:unreachable expected only Multiple or Range"
                  end
              | All => Ok self
              end
          | CRange range =>
              match other with
              | CRange o => do r <- range_intersect range o; Ok (CRange r)
              | _ =>
                  (* placeholder = mem::replace(self, All); other.intersect(placeholder); *self = other *)
                  intersect_fuel fuel' other self
              end
          | All => Ok other
          end;
        normalize s
    end.

  Definition intersect (self other : cand T) : res (cand T) := intersect_fuel 2 self other.

  (* CandidateValue::exclude_single_value (returns the updated self) *)
  Definition exclude (self : cand T) (value : T) : res (cand T) :=
    match self with
    | Impossible => Ok Impossible
    | Single s => Ok (if eqb s value then Impossible else self)
    | Multiple multiple => normalize (Multiple (filter (fun v => negb (eqb v value)) multiple))
    | CRange range =>
        let range' :=
          if is_null value then mkRange (rstart range) (rend range) false
          else
            let start' :=
              match rstart range with
              | Incl incl => if eqb incl value then Excl incl else rstart range
              | _ => rstart range
              end in
            let end' :=
              match rend range with
              | Incl incl => if eqb incl value then Excl incl else rend range
              | _ => rend range
              end in
            mkRange start' end' (rnull range) in
        normalize (CRange range')
    | All => Ok (if is_null value then CRange range_full_non_null else All)
    end.

  (* ---- set denotation of a candidate (specification side) ---- *)
  Definition mem (c : cand T) (x : T) : bool :=
    match c with
    | Impossible => false
    | Single v => eqb x v
    | Multiple l => vec_contains l x
    | CRange r => contains r x
    | All => true
    end.

  (* well-formedness: range bounds are not null — exactly what Range::new asserts *)
  Definition bound_not_null (b : bound T) : bool :=
    match b with Incl v | Excl v => negb (is_null v) | Unb => true end.
  Definition wf_range (r : range T) : bool := bound_not_null (rstart r) && bound_not_null (rend r).
  Definition wf_cand (c : cand T) : bool :=
    match c with CRange r => wf_range r | _ => true end.
End Cand.

Arguments t_lt {T} cmp a b.
Arguments t_le {T} cmp a b.
Arguments t_gt {T} cmp a b.
Arguments t_ge {T} cmp a b.
Arguments bound_eq {T} eqb a b.
Arguments range_eq {T} eqb a b.
Arguments range_full {T}.
Arguments range_full_non_null {T}.
Arguments assert_bound_not_null {T} is_null b.
Arguments range_new {T} is_null start end_ null_included.
Arguments range_with_start {T} is_null start null_included.
Arguments range_with_end {T} is_null end_ null_included.
Arguments dbg_not_null {T} is_null {A} v k.
Arguments isect_start {T} cmp is_null self_start other_start.
Arguments isect_end {T} cmp is_null self_end other_end.
Arguments range_intersect {T} cmp is_null self other.
Arguments degenerate {T} cmp r.
Arguments null_only {T} cmp r.
Arguments contains {T} cmp is_null r item.
Arguments vec_contains {T} eqb l x.
Arguments vec_pop {T} l.
Arguments normalize {T} eqb cmp null self.
Arguments intersect_fuel {T} eqb cmp is_null null fuel self other.
Arguments intersect {T} eqb cmp is_null null self other.
Arguments exclude {T} eqb cmp is_null null self value.
Arguments mem {T} eqb cmp is_null c x.
Arguments bound_not_null {T} is_null b.
Arguments wf_range {T} is_null r.
Arguments wf_cand {T} is_null c.

(* ---- instantiation for FieldValue: `==` and `partial_cmp` are the transcribed fv_eq / fv_cmp
   (Values.v) through their panic-free projections eq_t / cmp_t; is_null = matches!(v, Null);
   T::default() = Null (#[default]). ---- *)
Definition fv_is_null (v : fv) : bool := match v with Null => true | _ => false end.

Definition f_range_new := range_new fv_is_null.
Definition f_range_with_start := range_with_start fv_is_null.
Definition f_range_with_end := range_with_end fv_is_null.
Definition f_range_intersect := range_intersect cmp_t fv_is_null.
Definition f_degenerate := degenerate cmp_t.
Definition f_contains := contains cmp_t fv_is_null.
Definition f_normalize := normalize eq_t cmp_t Null.
Definition f_intersect := intersect eq_t cmp_t fv_is_null Null.
Definition f_exclude := exclude eq_t cmp_t fv_is_null Null.
Definition f_mem := mem eq_t cmp_t fv_is_null.
Definition f_wf_cand := wf_cand fv_is_null.

(* every value occurring in a candidate is a well-formed FieldValue (Values.wf) *)
Definition bound_vals_wf (b : bound fv) : bool := match b with Incl v | Excl v => wf v | Unb => true end.
Definition cand_vals_wf (c : cand fv) : bool :=
  match c with
  | Single v => wf v
  | Multiple l => forallb wf l
  | CRange r => bound_vals_wf (rstart r) && bound_vals_wf (rend r)
  | _ => true
  end.
(* what a CandidateValue<FieldValue> built through Range::new can hold *)
Definition f_cand_ok (c : cand fv) : bool := f_wf_cand c && cand_vals_wf c.

(* ---- canonical rendering (mirrored by harness/src/c06.rs) ---- *)
Open Scope string_scope.
Definition show_bound (b : bound fv) : string :=
  match b with
  | Incl v => "I(" ++ show_fv v ++ ")"
  | Excl v => "E(" ++ show_fv v ++ ")"
  | Unb => "U"
  end.
Definition show_range (r : range fv) : string :=
  "R[" ++ show_bound (rstart r) ++ "," ++ show_bound (rend r) ++ "," ++ show_bool (rnull r) ++ "]".
Definition show_cand (c : cand fv) : string :=
  match c with
  | Impossible => "Imp"
  | Single v => "S(" ++ show_fv v ++ ")"
  | Multiple l => "M[" ++ String.concat "," (map show_fv l) ++ "]"
  | CRange r => show_range r
  | All => "All"
  end.
