(* CandProofs.v — proofs about the candidate-value model Cand.v (C06).
   Part 1: total (panic-free) versions of the transcribed functions, "never panics" lemmas, and
           preservation of per-value invariants (well-formedness);
   Part 2: the functions only look at their values through eqb/cmp (extensionality);
   Part 3: set-theoretic exactness over any carrier whose cmp is a total preorder comparator
           consistent with eqb and whose null test is equality with null;
   Part 4: the FieldValue instance, discharged with the C08 lemmas of ValuesProofs.v. *)
From Coq Require Import Lia.
From TF Require Import Values ValuesProofs Cand.

(* ====================================================================================== *)
(* Part 1: total versions                                                                   *)
(* ====================================================================================== *)
Section Total.
  Variable T : Type.
  Variable eqb : T -> T -> bool.
  Variable cmp : T -> T -> comparison.
  Variable is_null : T -> bool.
  Variable null : T.

  Definition isect_startT (s os : bound T) : bound T :=
    match s with
    | Incl a =>
        match os with
        | Incl o => if t_lt cmp a o then os else s
        | Excl o => if t_le cmp a o then os else s
        | Unb => s
        end
    | Excl a =>
        match os with
        | Incl o | Excl o => if t_lt cmp a o then os else s
        | Unb => s
        end
    | Unb => os
    end.

  Definition isect_endT (e oe : bound T) : bound T :=
    match e with
    | Incl a =>
        match oe with
        | Incl o => if t_gt cmp a o then oe else e
        | Excl o => if t_ge cmp a o then oe else e
        | Unb => e
        end
    | Excl a =>
        match oe with
        | Incl o | Excl o => if t_gt cmp a o then oe else e
        | Unb => e
        end
    | Unb => oe
    end.

  Definition range_intersectT (a b : range T) : range T :=
    mkRange (isect_startT (rstart a) (rstart b)) (isect_endT (rend a) (rend b)) (rnull a && rnull b).

  Definition normalizeT (c : cand T) : cand T :=
    match c with
    | CRange range =>
        if null_only cmp range then Single null
        else if degenerate cmp range then Impossible
        else if bound_eq eqb (rstart range) (rend range) then
          if range_eq eqb range range_full then All
          else
            match rstart range with
            | Incl b => if rnull range then Multiple [null; b] else Single b
            | _ => c
            end
        else c
    | Multiple [] => Impossible
    | Multiple [x] => Single x
    | _ => c
    end.

  (* the big `match self` of CandidateValue::intersect, for the arms that do not swap operands *)
  Definition stepT (self other : cand T) : cand T :=
    match self with
    | Impossible => Impossible
    | Single val =>
        match other with
        | Impossible => Impossible
        | Single o => if negb (eqb val o) then Impossible else self
        | Multiple others => if negb (vec_contains eqb others val) then Impossible else self
        | CRange others => if negb (contains cmp is_null others val) then Impossible else self
        | All => self
        end
    | Multiple multiple =>
        match other with
        | Impossible => Impossible
        | Single o => if vec_contains eqb multiple o then Single o else Impossible
        | Multiple others => Multiple (filter (fun v => vec_contains eqb others v) multiple)
        | CRange others => Multiple (filter (fun v => contains cmp is_null others v) multiple)
        | All => self
        end
    | CRange range =>
        match other with
        | CRange o => CRange (range_intersectT range o)
        | _ => self  (* not used: these arms swap the operands *)
        end
    | All => other
    end.

  Definition is_range (c : cand T) : bool := match c with CRange _ => true | _ => false end.

  Definition intersectT (self other : cand T) : cand T :=
    if is_range self && negb (is_range other)
    then normalizeT (normalizeT (stepT other self))
    else normalizeT (stepT self other).

  Definition exclude_rangeT (rg : range T) (value : T) : range T :=
    if is_null value then mkRange (rstart rg) (rend rg) false
    else
      mkRange
        (match rstart rg with
         | Incl incl => if eqb incl value then Excl incl else rstart rg
         | _ => rstart rg
         end)
        (match rend rg with
         | Incl incl => if eqb incl value then Excl incl else rend rg
         | _ => rend rg
         end)
        (rnull rg).

  Definition excludeT (self : cand T) (value : T) : cand T :=
    match self with
    | Impossible => Impossible
    | Single s => if eqb s value then Impossible else self
    | Multiple multiple => normalizeT (Multiple (filter (fun v => negb (eqb v value)) multiple))
    | CRange rg => normalizeT (CRange (exclude_rangeT rg value))
    | All => if is_null value then CRange range_full_non_null else All
    end.

  (* ---- the transcribed functions never panic (on well-formed ranges where debug_assert! is
     involved) and equal the total versions ---- *)
  Lemma isect_start_ok s os :
    bound_not_null is_null s = true -> bound_not_null is_null os = true ->
    isect_start cmp is_null s os = Ok (isect_startT s os).
  Proof.
    destruct s as [a|a|], os as [o|o|]; cbn; unfold dbg_not_null; intros Hs Ho;
      try (apply negb_true_iff in Hs; rewrite Hs); try (apply negb_true_iff in Ho; rewrite Ho);
      reflexivity.
  Qed.

  Lemma isect_end_ok e oe :
    bound_not_null is_null e = true -> bound_not_null is_null oe = true ->
    isect_end cmp is_null e oe = Ok (isect_endT e oe).
  Proof.
    destruct e as [a|a|], oe as [o|o|]; cbn; unfold dbg_not_null; intros Hs Ho;
      try (apply negb_true_iff in Hs; rewrite Hs); try (apply negb_true_iff in Ho; rewrite Ho);
      reflexivity.
  Qed.

  Lemma range_intersect_ok a b :
    wf_range is_null a = true -> wf_range is_null b = true ->
    range_intersect cmp is_null a b = Ok (range_intersectT a b).
  Proof.
    unfold wf_range, range_intersect. intros Ha Hb.
    apply andb_prop in Ha, Hb. destruct Ha as [Ha1 Ha2], Hb as [Hb1 Hb2].
    rewrite isect_start_ok, isect_end_ok by assumption. reflexivity.
  Qed.

  Lemma normalize_ok c : normalize eqb cmp null c = Ok (normalizeT c).
  Proof.
    destruct c as [|x|l|r|]; try reflexivity.
    - destruct l as [|x [|y l]]; reflexivity.
    - unfold normalize, normalizeT.
      destruct (null_only cmp r); [reflexivity|].
      destruct (degenerate cmp r); [reflexivity|].
      destruct (bound_eq eqb (rstart r) (rend r)); [|reflexivity].
      destruct (range_eq eqb r range_full); [reflexivity|].
      destruct (rstart r); try reflexivity. destruct (rnull r); reflexivity.
  Qed.

  Lemma intersect_ok a b :
    wf_cand is_null a = true -> wf_cand is_null b = true ->
    intersect eqb cmp is_null null a b = Ok (intersectT a b).
  Proof.
    intros Wa Wb. unfold intersect, intersectT.
    destruct a as [|x|l|r|], b as [|y|m|s|]; cbn -[normalize normalizeT];
      rewrite ?range_intersect_ok by assumption; cbn -[normalize normalizeT];
      rewrite ?normalize_ok; cbn -[normalize normalizeT]; rewrite ?normalize_ok; reflexivity.
  Qed.

  Lemma exclude_ok a v : exclude eqb cmp is_null null a v = Ok (excludeT a v).
  Proof.
    destruct a as [|x|l|r|]; cbn -[normalize normalizeT]; rewrite ?normalize_ok; try reflexivity.
  Qed.

  (* ---- constructors: panic exactly on a null bound value ---- *)
  Lemma range_new_spec s e n :
    range_new is_null s e n =
      if bound_not_null is_null s && bound_not_null is_null e
      then Ok (mkRange s e n) else Panic "candidates.rs:assert cannot bound range with null value".
  Proof.
    unfold range_new, assert_bound_not_null.
    destruct s as [a|a|], e as [b|b|]; cbn; try destruct (is_null a); try destruct (is_null b); reflexivity.
  Qed.

  Lemma range_with_start_spec s n :
    range_with_start is_null s n =
      if bound_not_null is_null s
      then Ok (mkRange s Unb n) else Panic "candidates.rs:assert cannot bound range with null value".
  Proof. unfold range_with_start, assert_bound_not_null. destruct s as [a|a|]; cbn; try destruct (is_null a); reflexivity. Qed.

  Lemma range_with_end_spec e n :
    range_with_end is_null e n =
      if bound_not_null is_null e
      then Ok (mkRange Unb e n) else Panic "candidates.rs:assert cannot bound range with null value".
  Proof. unfold range_with_end, assert_bound_not_null. destruct e as [a|a|]; cbn; try destruct (is_null a); reflexivity. Qed.

  Lemma range_new_wf s e n r : range_new is_null s e n = Ok r -> wf_range is_null r = true.
  Proof.
    rewrite range_new_spec. unfold wf_range.
    destruct (bound_not_null is_null s && bound_not_null is_null e) eqn:E; [|discriminate].
    intros H. injection H as <-. exact E.
  Qed.

  (* ---- per-value invariants are preserved: Qb on range bounds, Qv on discrete values ---- *)
  Section Inv.
    Variable Qb Qv : T -> bool.
    Hypothesis Qb_Qv : forall x, Qb x = true -> Qv x = true.
    Hypothesis Qv_null : Qv null = true.

    Definition bound_all (b : bound T) : bool := match b with Incl v | Excl v => Qb v | Unb => true end.
    Definition cand_all (c : cand T) : bool :=
      match c with
      | Single v => Qv v
      | Multiple l => forallb Qv l
      | CRange r => bound_all (rstart r) && bound_all (rend r)
      | _ => true
      end.

    Lemma bound_all_isect_start s os :
      bound_all s = true -> bound_all os = true -> bound_all (isect_startT s os) = true.
    Proof.
      destruct s as [a|a|], os as [o|o|]; cbn; intros Hs Ho; try assumption;
        match goal with |- context [if ?c then _ else _] => destruct c end; assumption.
    Qed.

    Lemma bound_all_isect_end s os :
      bound_all s = true -> bound_all os = true -> bound_all (isect_endT s os) = true.
    Proof.
      destruct s as [a|a|], os as [o|o|]; cbn; intros Hs Ho; try assumption;
        match goal with |- context [if ?c then _ else _] => destruct c end; assumption.
    Qed.

    Lemma forallb_filter (f : T -> bool) l : forallb Qv l = true -> forallb Qv (filter f l) = true.
    Proof.
      induction l as [|a l IH]; cbn; [auto|]. intros H. apply andb_prop in H. destruct H as [Ha Hl].
      destruct (f a); cbn; [rewrite Ha|]; auto.
    Qed.

    Lemma cand_all_normalizeT c : cand_all c = true -> cand_all (normalizeT c) = true.
    Proof.
      destruct c as [|x|l|r|]; cbn [normalizeT]; try (intros H; exact H).
      - destruct l as [|x [|y l]]; cbn; try reflexivity; try (intros H; exact H).
        rewrite andb_true_r. auto.
      - intros H. destruct r as [s e n]. cbn in H. cbn [rstart rend rnull].
        destruct (null_only cmp _); [exact Qv_null|].
        destruct (degenerate cmp _); [reflexivity|].
        destruct (bound_eq eqb s e); [|exact H].
        destruct (range_eq eqb _ range_full); [reflexivity|].
        destruct s as [b|b|]; try exact H.
        cbn in H. apply andb_prop in H. destruct H as [Hb _].
        destruct n; cbn; rewrite ?Qv_null, ?(Qb_Qv b Hb); reflexivity.
    Qed.

    Lemma cand_all_stepT a b : cand_all a = true -> cand_all b = true -> cand_all (stepT a b) = true.
    Proof.
      destruct a as [|x|l|r|], b as [|y|m|s|]; cbn [stepT]; intros Ha Hb; try assumption; try reflexivity;
        try (match goal with |- context [if ?c then _ else _] => destruct c end; assumption || reflexivity).
      - cbn. now apply forallb_filter.
      - cbn. now apply forallb_filter.
      - cbn in *. apply andb_prop in Ha, Hb. destruct Ha as [Ha1 Ha2], Hb as [Hb1 Hb2].
        rewrite bound_all_isect_start, bound_all_isect_end by assumption. reflexivity.
    Qed.

    Lemma cand_all_intersectT a b :
      cand_all a = true -> cand_all b = true -> cand_all (intersectT a b) = true.
    Proof.
      intros Ha Hb. unfold intersectT.
      destruct (is_range a && negb (is_range b)); repeat apply cand_all_normalizeT;
        now apply cand_all_stepT.
    Qed.

    Lemma cand_all_excludeT a v : cand_all a = true -> cand_all (excludeT a v) = true.
    Proof.
      destruct a as [|x|l|r|]; cbn [excludeT]; intros Ha; try reflexivity.
      - destruct (eqb x v); [reflexivity|exact Ha].
      - apply cand_all_normalizeT. cbn. now apply forallb_filter.
      - apply cand_all_normalizeT. cbn in *. unfold exclude_rangeT.
        apply andb_prop in Ha. destruct Ha as [H1 H2].
        destruct (is_null v); cbn; [now rewrite H1, H2|].
        destruct (rstart r) as [p|p|], (rend r) as [q|q|]; cbn in *;
          try destruct (eqb p v); try destruct (eqb q v); cbn; rewrite ?H1, ?H2; reflexivity.
      - destruct (is_null v); reflexivity.
    Qed.
  End Inv.

  (* well-formedness is the instance Qb = not null, Qv = anything *)
  Lemma wf_cand_all c : wf_cand is_null c = cand_all (fun v => negb (is_null v)) (fun _ => true) c.
  Proof.
    destruct c as [|x|l|r|]; try reflexivity.
    cbn. induction l as [|a l IH]; cbn; auto.
  Qed.

  Lemma wf_normalizeT c : wf_cand is_null c = true -> wf_cand is_null (normalizeT c) = true.
  Proof. rewrite !wf_cand_all. apply cand_all_normalizeT; auto. Qed.

  Lemma wf_stepT a b :
    wf_cand is_null a = true -> wf_cand is_null b = true -> wf_cand is_null (stepT a b) = true.
  Proof. rewrite !wf_cand_all. apply cand_all_stepT. Qed.

  Lemma wf_intersectT a b :
    wf_cand is_null a = true -> wf_cand is_null b = true -> wf_cand is_null (intersectT a b) = true.
  Proof. rewrite !wf_cand_all. apply cand_all_intersectT; auto. Qed.

  Lemma wf_excludeT a v : wf_cand is_null a = true -> wf_cand is_null (excludeT a v) = true.
  Proof. rewrite !wf_cand_all. apply cand_all_excludeT; auto. Qed.
End Total.

Arguments isect_startT {T} cmp s os.
Arguments isect_endT {T} cmp e oe.
Arguments range_intersectT {T} cmp a b.
Arguments normalizeT {T} eqb cmp null c.
Arguments stepT {T} eqb cmp is_null self other.
Arguments is_range {T} c.
Arguments intersectT {T} eqb cmp is_null null self other.
Arguments exclude_rangeT {T} eqb is_null rg value.
Arguments excludeT {T} eqb cmp is_null null self value.
Arguments bound_all {T} Qb b.
Arguments cand_all {T} Qb Qv c.

(* ====================================================================================== *)
(* Part 3: set-theoretic exactness over any lawful carrier                                 *)
(* ====================================================================================== *)
Section Laws.
  Variable T : Type.
  Variable eqb : T -> T -> bool.
  Variable cmp : T -> T -> comparison.
  Variable is_null : T -> bool.
  Variable null : T.
  (* `==` is "partial_cmp = Equal"; partial_cmp is a total preorder comparator; is_null is `== null` *)
  Hypothesis H_eqb : forall x y, eqb x y = true <-> cmp x y = Eq.
  Hypothesis H_anti : forall x y, cmp y x = CompOpp (cmp x y).
  Hypothesis H_trans : forall x y z, cmp x y = Lt -> cmp y z = Lt -> cmp x z = Lt.
  Hypothesis H_eql : forall x y z, cmp x y = Eq -> cmp x z = cmp y z.
  Hypothesis H_eqr : forall x y z, cmp y z = Eq -> cmp x y = cmp x z.
  Hypothesis H_null : forall x, is_null x = true <-> eqb x null = true.

  Local Notation memL := (mem eqb cmp is_null).
  Local Notation containsL := (contains cmp is_null).
  Local Notation vc := (vec_contains eqb).
  Local Notation normalizeL := (normalizeT eqb cmp null).
  Local Notation stepL := (stepT eqb cmp is_null).
  Local Notation intersectL := (intersectT eqb cmp is_null null).
  Local Notation excludeL := (excludeT eqb cmp is_null null).
  Local Notation wfL := (wf_cand is_null).

  Lemma cmp_refl x : cmp x x = Eq.
  Proof. pose proof (H_anti x x) as H. destruct (cmp x x); cbn in H; congruence. Qed.

  Lemma cmp_gt_lt x y : cmp x y = Gt -> cmp y x = Lt.
  Proof. intros H. rewrite H_anti, H. reflexivity. Qed.

  Lemma eqb_cmp x y : eqb x y = match cmp x y with Eq => true | _ => false end.
  Proof.
    destruct (H_eqb x y) as [A B].
    destruct (eqb x y), (cmp x y); try reflexivity;
      try discriminate (A eq_refl); discriminate (B eq_refl).
  Qed.

  Lemma is_null_eqb x : is_null x = eqb x null.
  Proof.
    destruct (H_null x) as [A B].
    destruct (is_null x), (eqb x null); try reflexivity;
      try discriminate (A eq_refl); discriminate (B eq_refl).
  Qed.

  Lemma is_null_cmp x : is_null x = match cmp x null with Eq => true | _ => false end.
  Proof. rewrite is_null_eqb. apply eqb_cmp. Qed.

  Definition lowerb (s : bound T) (x : T) : bool :=
    match s with Incl a => t_le cmp a x | Excl a => t_lt cmp a x | Unb => true end.
  Definition upperb (e : bound T) (x : T) : bool :=
    match e with Incl a => t_le cmp x a | Excl a => t_lt cmp x a | Unb => true end.

  (* ---- a small decision procedure for facts about cmp ---- *)
  Ltac cmp_destruct :=
    repeat match goal with
    | |- context [cmp ?a ?b] => let E := fresh "E" in destruct (cmp a b) eqn:E
    end.

  Ltac ord_norm :=
    repeat match goal with
    | H : cmp ?a ?b = Gt |- _ => apply cmp_gt_lt in H
    | H : cmp ?a ?a = Eq |- _ => clear H
    | H : cmp ?a ?b = Eq |- _ =>
        let R1 := fresh "R" in let R2 := fresh "R" in
        pose proof (fun z => H_eql a b z H) as R1;
        pose proof (fun z => H_eqr z a b H) as R2;
        clear H; rewrite ?R1, ?R2 in *; clear R1 R2
    end.

  Ltac ord_sat :=
    repeat match goal with
    | H1 : cmp ?a ?b = Lt, H2 : cmp ?b ?c = Lt |- _ =>
        lazymatch goal with
        | _ : cmp a c = Lt |- _ => fail
        | _ => pose proof (H_trans a b c H1 H2)
        end
    end.

  Ltac ord_contra :=
    ord_norm; ord_sat;
    match goal with
    | H : cmp ?a ?a = Lt |- _ => rewrite cmp_refl in H; discriminate H
    end.

  Ltac ord :=
    repeat (progress (unfold t_lt, t_le, t_gt, t_ge, lowerb, upperb in *; cmp_destruct; cbn));
    intros; try reflexivity; try congruence; exfalso; ord_contra.

  Ltac to_cmp :=
    unfold containsL, degenerate, t_lt, t_le, t_gt, t_ge, vec_contains, wf_range, bound_not_null in *;
    cbn in *; rewrite ?eqb_cmp, ?is_null_cmp in *.

  (* ---- equality ---- *)
  Lemma eqb_refl x : eqb x x = true.
  Proof. rewrite eqb_cmp, cmp_refl. reflexivity. Qed.
  Lemma eqb_sym x y : eqb x y = eqb y x.
  Proof. rewrite !eqb_cmp, (H_anti x y). destruct (cmp x y); reflexivity. Qed.
  Lemma eqb_compat_l x y z : eqb x y = true -> eqb x z = eqb y z.
  Proof. rewrite !eqb_cmp. ord. Qed.
  Lemma eqb_compat_r x y z : eqb y z = true -> eqb x y = eqb x z.
  Proof. rewrite !eqb_cmp. ord. Qed.
  Lemma null_eqb x v : is_null x = true -> is_null v = true -> eqb x v = true.
  Proof. rewrite !is_null_cmp, eqb_cmp. ord. Qed.
  Lemma is_null_compat x y : eqb x y = true -> is_null x = is_null y.
  Proof. rewrite !is_null_cmp, eqb_cmp. ord. Qed.

  (* ---- ranges ---- *)

  Lemma contains_lu r x :
    containsL r x = if is_null x then rnull r else lowerb (rstart r) x && upperb (rend r) x.
  Proof. reflexivity. Qed.

  Lemma lower_isect s os x : lowerb (isect_startT cmp s os) x = lowerb s x && lowerb os x.
  Proof. destruct s as [a|a|], os as [o|o|]; cbn; unfold t_lt, t_le; ord. Qed.

  Lemma upper_isect e oe x : upperb (isect_endT cmp e oe) x = upperb e x && upperb oe x.
  Proof. destruct e as [a|a|], oe as [o|o|]; cbn; unfold t_lt, t_le, t_gt, t_ge; ord. Qed.

  Lemma contains_range_intersect a b x :
    containsL (range_intersectT cmp a b) x = containsL a x && containsL b x.
  Proof.
    rewrite !contains_lu. cbn [range_intersectT rstart rend rnull].
    destruct (is_null x); [reflexivity|].
    rewrite lower_isect, upper_isect.
    destruct (lowerb (rstart a) x), (lowerb (rstart b) x), (upperb (rend a) x), (upperb (rend b) x); reflexivity.
  Qed.

  Lemma degenerate_empty r x :
    degenerate cmp r = true -> lowerb (rstart r) x && upperb (rend r) x = false.
  Proof.
    destruct r as [[a|a|] [b|b|] n]; unfold degenerate, lowerb, upperb, t_lt, t_le, t_gt, t_ge; cbn; ord.
  Qed.

  Lemma contains_compat r x y : eqb x y = true -> containsL r x = containsL r y.
  Proof.
    intros E. rewrite !contains_lu, (is_null_compat x y E).
    destruct (is_null y); [reflexivity|].
    revert E. rewrite eqb_cmp.
    destruct r as [[a|a|] [b|b|] n]; unfold lowerb, upperb, t_lt, t_le; cbn; ord.
  Qed.

  (* ---- discrete sets ---- *)
  Lemma vc_compat l x y : eqb x y = true -> vc l x = vc l y.
  Proof.
    intros E. unfold vec_contains. induction l as [|a l IH]; cbn; [reflexivity|].
    now rewrite IH, (eqb_compat_r a x y E).
  Qed.

  Lemma vc_filter (f : T -> bool) l x :
    (forall e, eqb e x = true -> f e = f x) -> vc (filter f l) x = vc l x && f x.
  Proof.
    intros Hf. unfold vec_contains. induction l as [|a l IH]; cbn; [reflexivity|].
    destruct (eqb a x) eqn:E.
    - rewrite (Hf a E). destruct (f x); cbn; [now rewrite E|].
      rewrite IH. now rewrite andb_false_r.
    - destruct (f a); cbn; [rewrite E|]; exact IH.
  Qed.

  (* ---- normalize does not change the denoted set ---- *)
  Lemma mem_normalizeL c x : wfL c = true -> memL (normalizeL c) x = memL c x.
  Proof.
    intros W. destruct c as [|y|l|r|]; try reflexivity.
    - destruct l as [|y [|z l]]; try reflexivity.
      cbn. rewrite orb_false_r. apply eqb_sym.
    - cbn [normalizeT]. unfold null_only.
      destruct (degenerate cmp r) eqn:D.
      + rewrite andb_true_r. cbn [mem]. rewrite contains_lu, (degenerate_empty r x D).
        destruct (rnull r); cbn [mem].
        * rewrite is_null_eqb. destruct (eqb x null); reflexivity.
        * destruct (is_null x); reflexivity.
      + rewrite andb_false_r.
        destruct (bound_eq eqb (rstart r) (rend r)) eqn:B; [|reflexivity].
        destruct r as [[a|a|] [b|b|] n]; cbn in B; try discriminate B.
        * (* Included(a)..=Included(b) with a == b *)
          cbn in W. revert W B D.
          destruct n; cbn; to_cmp; ord.
        * (* Excluded(a)..Excluded(b) with a == b is degenerate *)
          revert B D. to_cmp. ord.
        * (* unbounded on both sides *)
          destruct n; cbn; [|reflexivity]. unfold contains. cbn. destruct (is_null x); reflexivity.
  Qed.

  (* ---- the non-swapping arms of intersect compute the intersection ---- *)
  Lemma mem_stepL a b x :
    is_range a = false \/ is_range b = true -> memL (stepL a b) x = memL a x && memL b x.
  Proof.
    intros HR. destruct a as [|v|l|r|]; cbn [stepT].
    - reflexivity.
    - destruct b as [|o|others|others|]; cbn [mem].
      + now rewrite andb_false_r.
      + rewrite !eqb_cmp. cmp_destruct; cbn; rewrite ?eqb_cmp; ord.
      + destruct (eqb x v) eqn:E.
        * rewrite (vc_compat others x v E). destruct (vc others v); cbn; [exact E|reflexivity].
        * destruct (vc others v); cbn; [exact E|reflexivity].
      + destruct (eqb x v) eqn:E.
        * rewrite (contains_compat others x v E). destruct (containsL others v); cbn; [exact E|reflexivity].
        * destruct (containsL others v); cbn; [exact E|reflexivity].
      + now rewrite andb_true_r.
    - destruct b as [|o|others|others|]; cbn [mem].
      + now rewrite andb_false_r.
      + destruct (eqb x o) eqn:E.
        * rewrite (vc_compat l x o E). destruct (vc l o); cbn; [exact E|reflexivity].
        * rewrite andb_false_r. destruct (vc l o); cbn; [exact E|reflexivity].
      + apply vc_filter. intros e E. apply vc_compat, E.
      + apply vc_filter. intros e E. apply contains_compat, E.
      + now rewrite andb_true_r.
    - destruct b as [|o|others|others|]; try (destruct HR; discriminate).
      cbn [mem]. apply contains_range_intersect.
    - reflexivity.
  Qed.

  Lemma mem_intersectL a b x :
    wfL a = true -> wfL b = true -> memL (intersectL a b) x = memL a x && memL b x.
  Proof.
    intros Wa Wb. unfold intersectT.
    destruct (is_range a && negb (is_range b)) eqn:E.
    - apply andb_prop in E. destruct E as [_ E]. apply negb_true_iff in E.
      rewrite !mem_normalizeL, mem_stepL, andb_comm; auto.
      + now apply wf_stepT.
      + now apply wf_normalizeT, wf_stepT.
    - rewrite mem_normalizeL, mem_stepL; auto.
      + destruct (is_range a), (is_range b); cbn in E; auto; discriminate.
      + now apply wf_stepT.
  Qed.

  (* ---- exclusion ---- *)
  Definition excl_bound (s : bound T) (v : T) : bound T :=
    match s with Incl i => if eqb i v then Excl i else s | _ => s end.

  Lemma lower_excl_sub s v x : lowerb (excl_bound s v) x = true -> lowerb s x = true.
  Proof. destruct s as [a|a|]; cbn; auto. rewrite eqb_cmp. unfold t_lt, t_le. ord. Qed.
  Lemma upper_excl_sub s v x : upperb (excl_bound s v) x = true -> upperb s x = true.
  Proof. destruct s as [a|a|]; cbn; auto. rewrite eqb_cmp. unfold t_lt, t_le. ord. Qed.
  Lemma lower_excl_sup s v x : lowerb s x = true -> eqb x v = false -> lowerb (excl_bound s v) x = true.
  Proof. destruct s as [a|a|]; cbn; auto. rewrite !eqb_cmp. unfold t_lt, t_le. ord. Qed.
  Lemma upper_excl_sup s v x : upperb s x = true -> eqb x v = false -> upperb (excl_bound s v) x = true.
  Proof. destruct s as [a|a|]; cbn; auto. rewrite !eqb_cmp. unfold t_lt, t_le. ord. Qed.

  Lemma exclude_rangeT_eq r v :
    exclude_rangeT eqb is_null r v =
      if is_null v then mkRange (rstart r) (rend r) false
      else mkRange (excl_bound (rstart r) v) (excl_bound (rend r) v) (rnull r).
  Proof. reflexivity. Qed.

  Lemma wf_exclude_rangeT r v :
    wf_range is_null r = true -> wf_range is_null (exclude_rangeT eqb is_null r v) = true.
  Proof.
    rewrite exclude_rangeT_eq. unfold wf_range.
    destruct (is_null v); cbn; [auto|].
    destruct r as [[a|a|] [b|b|] n]; cbn; try destruct (eqb a v); try destruct (eqb b v); cbn; auto.
  Qed.

  Lemma contains_exclude_sub r v x :
    containsL (exclude_rangeT eqb is_null r v) x = true -> containsL r x = true.
  Proof.
    rewrite exclude_rangeT_eq, !contains_lu.
    destruct (is_null v); cbn [rstart rend rnull].
    - destruct (is_null x); [discriminate|auto].
    - destruct (is_null x); [auto|].
      intros H. apply andb_prop in H. destruct H as [H1 H2].
      now rewrite (lower_excl_sub _ _ _ H1), (upper_excl_sub _ _ _ H2).
  Qed.

  Lemma contains_exclude_sup r v x :
    containsL r x = true -> eqb x v = false -> containsL (exclude_rangeT eqb is_null r v) x = true.
  Proof.
    rewrite exclude_rangeT_eq, !contains_lu. intros H NE.
    destruct (is_null v) eqn:Nv; cbn [rstart rend rnull].
    - destruct (is_null x) eqn:Nx; [|exact H].
      rewrite (null_eqb x v Nx Nv) in NE. discriminate.
    - destruct (is_null x); [exact H|].
      apply andb_prop in H. destruct H as [H1 H2].
      now rewrite (lower_excl_sup _ _ _ H1 NE), (upper_excl_sup _ _ _ H2 NE).
  Qed.

  Lemma excludeL_sub a v x : wfL a = true -> memL (excludeL a v) x = true -> memL a x = true.
  Proof.
    intros W. destruct a as [|s|l|r|]; cbn [excludeT].
    - auto.
    - destruct (eqb s v); cbn; auto; discriminate.
    - rewrite mem_normalizeL by reflexivity. cbn [mem].
      rewrite vc_filter.
      + intros H. apply andb_prop in H. tauto.
      + intros e E. now rewrite (eqb_compat_l e x v E).
    - rewrite mem_normalizeL by (apply wf_exclude_rangeT, W). cbn [mem]. apply contains_exclude_sub.
    - reflexivity.
  Qed.

  Lemma excludeL_sup a v x :
    wfL a = true -> memL a x = true -> eqb x v = false -> memL (excludeL a v) x = true.
  Proof.
    intros W. destruct a as [|s|l|r|]; cbn [excludeT].
    - auto.
    - cbn [mem]. intros E NE. rewrite <- (eqb_compat_l x s v E), NE. exact E.
    - rewrite mem_normalizeL by reflexivity. cbn [mem]. intros H NE.
      rewrite vc_filter.
      + now rewrite H, NE.
      + intros e E. now rewrite (eqb_compat_l e x v E).
    - rewrite mem_normalizeL by (apply wf_exclude_rangeT, W). cbn [mem]. apply contains_exclude_sup.
    - intros _ NE. destruct (is_null v) eqn:Nv; [|reflexivity].
      cbn. unfold contains. cbn. destruct (is_null x) eqn:Nx; [|reflexivity].
      rewrite (null_eqb x v Nx Nv) in NE. discriminate.
  Qed.

  (* ---- the same statements on the transcribed (res-valued) functions ---- *)
  Lemma mem_intersect a b c x :
    wfL a = true -> wfL b = true -> intersect eqb cmp is_null null a b = Ok c ->
    memL c x = memL a x && memL b x.
  Proof.
    intros Wa Wb H. rewrite intersect_ok in H by assumption. injection H as <-.
    now apply mem_intersectL.
  Qed.

  Lemma mem_normalize a c x :
    wfL a = true -> normalize eqb cmp null a = Ok c -> memL c x = memL a x.
  Proof. intros Wa H. rewrite normalize_ok in H. injection H as <-. now apply mem_normalizeL. Qed.

  Lemma exclude_sub a v c x :
    wfL a = true -> exclude eqb cmp is_null null a v = Ok c -> memL c x = true -> memL a x = true.
  Proof. intros Wa H. rewrite exclude_ok in H. injection H as <-. now apply excludeL_sub. Qed.

  Lemma exclude_sup a v c x :
    wfL a = true -> exclude eqb cmp is_null null a v = Ok c ->
    memL a x = true -> eqb x v = false -> memL c x = true.
  Proof. intros Wa H. rewrite exclude_ok in H. injection H as <-. now apply excludeL_sup. Qed.

  Lemma range_intersect_exact a b r x :
    wf_range is_null a = true -> wf_range is_null b = true ->
    range_intersect cmp is_null a b = Ok r -> containsL r x = containsL a x && containsL b x.
  Proof.
    intros Wa Wb H. rewrite range_intersect_ok in H by assumption. injection H as <-.
    apply contains_range_intersect.
  Qed.

  Lemma degenerate_no_non_null r x :
    degenerate cmp r = true -> is_null x = false -> containsL r x = false.
  Proof. intros D N. rewrite contains_lu, N. now apply degenerate_empty. Qed.
End Laws.

(* ====================================================================================== *)
(* Part 2: the functions only observe values through eqb / cmp                              *)
(* (two comparators that agree on a set P of values closed under `null` give the same        *)
(*  results on candidates whose values are in P)                                             *)
(* ====================================================================================== *)
Section Ext.
  Variable T : Type.
  Variables eqb1 eqb2 : T -> T -> bool.
  Variables cmp1 cmp2 : T -> T -> comparison.
  Variable is_null : T -> bool.
  Variable null : T.
  Variable P : T -> bool.
  Hypothesis P_eqb : forall x y, P x = true -> P y = true -> eqb1 x y = eqb2 x y.
  Hypothesis P_cmp : forall x y, P x = true -> P y = true -> cmp1 x y = cmp2 x y.
  Hypothesis P_null : P null = true.

  Local Notation okc := (cand_all P P).
  Local Notation okb := (bound_all P).

  Ltac ext_cmp := unfold t_lt, t_le, t_gt, t_ge; rewrite ?P_cmp by assumption; reflexivity.

  Lemma ext_isect_start s os :
    okb s = true -> okb os = true -> isect_startT cmp1 s os = isect_startT cmp2 s os.
  Proof. destruct s as [a|a|], os as [o|o|]; cbn; intros Ha Ho; try reflexivity; ext_cmp. Qed.

  Lemma ext_isect_end s os :
    okb s = true -> okb os = true -> isect_endT cmp1 s os = isect_endT cmp2 s os.
  Proof. destruct s as [a|a|], os as [o|o|]; cbn; intros Ha Ho; try reflexivity; ext_cmp. Qed.

  Lemma ext_degenerate r :
    okb (rstart r) = true -> okb (rend r) = true -> degenerate cmp1 r = degenerate cmp2 r.
  Proof. destruct r as [[a|a|] [b|b|] n]; cbn; intros Ha Hb; try reflexivity; unfold degenerate; cbn; ext_cmp. Qed.

  Lemma ext_contains r x :
    okb (rstart r) = true -> okb (rend r) = true -> P x = true ->
    contains cmp1 is_null r x = contains cmp2 is_null r x.
  Proof.
    destruct r as [[a|a|] [b|b|] n]; cbn; intros Ha Hb Hx; unfold contains; cbn;
      destruct (is_null x); try reflexivity; ext_cmp.
  Qed.

  Lemma ext_vc l x : forallb P l = true -> P x = true -> vec_contains eqb1 l x = vec_contains eqb2 l x.
  Proof.
    intros Hl Hx. unfold vec_contains. induction l as [|a l IH]; cbn in *; [reflexivity|].
    apply andb_prop in Hl. destruct Hl as [Ha Hl]. now rewrite IH, P_eqb.
  Qed.

  Lemma ext_bound_eq a b : okb a = true -> okb b = true -> bound_eq eqb1 a b = bound_eq eqb2 a b.
  Proof. destruct a as [x|x|], b as [y|y|]; cbn; intros; try reflexivity; now apply P_eqb. Qed.

  Lemma ext_filter (f g : T -> bool) l :
    forallb P l = true -> (forall x, P x = true -> f x = g x) -> filter f l = filter g l.
  Proof.
    intros Hl Hfg. induction l as [|a l IH]; cbn in *; [reflexivity|].
    apply andb_prop in Hl. destruct Hl as [Ha Hl]. now rewrite IH, Hfg.
  Qed.

  Lemma ext_normalizeT c : okc c = true -> normalizeT eqb1 cmp1 null c = normalizeT eqb2 cmp2 null c.
  Proof.
    destruct c as [|x|l|r|]; try reflexivity.
    cbn [cand_all normalizeT]. intros H. apply andb_prop in H. destruct H as [H1 H2].
    unfold null_only, range_eq. rewrite (ext_degenerate r H1 H2), (ext_bound_eq _ _ H1 H2).
    destruct r as [s e n]. cbn [rstart rend rnull range_full] in *.
    rewrite (ext_bound_eq s Unb H1 eq_refl), (ext_bound_eq e Unb H2 eq_refl). reflexivity.
  Qed.

  Lemma ext_stepT a b :
    okc a = true -> okc b = true -> stepT eqb1 cmp1 is_null a b = stepT eqb2 cmp2 is_null a b.
  Proof.
    destruct a as [|x|l|r|], b as [|y|m|s|]; cbn [stepT cand_all]; intros Ha Hb; try reflexivity.
    - now rewrite P_eqb.
    - now rewrite ext_vc.
    - apply andb_prop in Hb. destruct Hb. now rewrite ext_contains.
    - now rewrite ext_vc.
    - f_equal. apply ext_filter; [assumption|]. intros v Hv. now apply ext_vc.
    - f_equal. apply andb_prop in Hb. destruct Hb. apply ext_filter; [assumption|].
      intros v Hv. now apply ext_contains.
    - apply andb_prop in Ha, Hb. destruct Ha, Hb. unfold range_intersectT.
      now rewrite ext_isect_start, ext_isect_end.
  Qed.

  Lemma ext_intersectT a b :
    okc a = true -> okc b = true ->
    intersectT eqb1 cmp1 is_null null a b = intersectT eqb2 cmp2 is_null null a b.
  Proof.
    intros Ha Hb. unfold intersectT.
    destruct (is_range a && negb (is_range b)).
    - rewrite (ext_stepT b a Hb Ha).
      assert (H1 : okc (stepT eqb2 cmp2 is_null b a) = true) by (apply cand_all_stepT; auto).
      rewrite (ext_normalizeT _ H1).
      apply ext_normalizeT. apply cand_all_normalizeT; auto.
    - rewrite (ext_stepT a b Ha Hb). apply ext_normalizeT. apply cand_all_stepT; auto.
  Qed.

  Lemma ext_excludeT a v :
    okc a = true -> P v = true ->
    excludeT eqb1 cmp1 is_null null a v = excludeT eqb2 cmp2 is_null null a v.
  Proof.
    destruct a as [|x|l|r|]; cbn [excludeT cand_all]; intros Ha Hv; try reflexivity.
    - now rewrite P_eqb.
    - rewrite (ext_filter (fun x => negb (eqb1 x v)) (fun x => negb (eqb2 x v)) l Ha).
      + apply ext_normalizeT. cbn. now apply forallb_filter.
      + intros x Hx. now rewrite P_eqb.
    - apply andb_prop in Ha. destruct Ha as [H1 H2].
      assert (E : exclude_rangeT eqb1 is_null r v = exclude_rangeT eqb2 is_null r v).
      { unfold exclude_rangeT. destruct (is_null v); [reflexivity|].
        destruct r as [[a|a|] [b|b|] n]; cbn in *; rewrite ?(P_eqb a v), ?(P_eqb b v) by assumption; reflexivity. }
      rewrite E. apply ext_normalizeT. cbn [cand_all].
      unfold exclude_rangeT. destruct (is_null v); cbn; [now rewrite H1, H2|].
      destruct r as [[a|a|] [b|b|] n]; cbn in *;
        try destruct (eqb2 a v); try destruct (eqb2 b v); cbn; rewrite ?H1, ?H2; reflexivity.
  Qed.

  Lemma ext_mem c x :
    okc c = true -> P x = true -> mem eqb1 cmp1 is_null c x = mem eqb2 cmp2 is_null c x.
  Proof.
    destruct c as [|y|l|r|]; cbn [mem cand_all]; intros Hc Hx; try reflexivity.
    - now apply P_eqb.
    - now apply ext_vc.
    - apply andb_prop in Hc. destruct Hc. now apply ext_contains.
  Qed.
End Ext.

(* ====================================================================================== *)
(* Totality / preservation on the transcribed functions (no order laws needed)              *)
(* ====================================================================================== *)
Section TotalRes.
  Variable T : Type.
  Variable eqb : T -> T -> bool.
  Variable cmp : T -> T -> comparison.
  Variable is_null : T -> bool.
  Variable null : T.
  Variable P : T -> bool.       (* any per-value invariant that null satisfies *)
  Hypothesis P_null : P null = true.

  Lemma intersect_total a b :
    wf_cand is_null a = true -> wf_cand is_null b = true ->
    exists c, intersect eqb cmp is_null null a b = Ok c /\ wf_cand is_null c = true /\
              (cand_all P P a = true -> cand_all P P b = true -> cand_all P P c = true).
  Proof.
    intros Wa Wb. exists (intersectT eqb cmp is_null null a b). split; [|split].
    - now apply intersect_ok.
    - now apply wf_intersectT.
    - intros. apply cand_all_intersectT; auto.
  Qed.

  Lemma normalize_total a :
    exists c, normalize eqb cmp null a = Ok c /\
              (wf_cand is_null a = true -> wf_cand is_null c = true) /\
              (cand_all P P a = true -> cand_all P P c = true).
  Proof.
    exists (normalizeT eqb cmp null a). split; [|split].
    - apply normalize_ok.
    - apply wf_normalizeT.
    - intros. apply cand_all_normalizeT; auto.
  Qed.

  Lemma exclude_total a v :
    exists c, exclude eqb cmp is_null null a v = Ok c /\
              (wf_cand is_null a = true -> wf_cand is_null c = true) /\
              (cand_all P P a = true -> cand_all P P c = true).
  Proof.
    exists (excludeT eqb cmp is_null null a v). split; [|split].
    - apply exclude_ok.
    - apply wf_excludeT.
    - intros. apply cand_all_excludeT; auto.
  Qed.
End TotalRes.

(* ====================================================================================== *)
(* The laws bundled, and the generic theorems restated over the bundle                      *)
(* ====================================================================================== *)
Definition carrier_laws {T} (eqb : T -> T -> bool) (cmp : T -> T -> comparison)
           (is_null : T -> bool) (null : T) : Prop :=
  (forall x y, eqb x y = true <-> cmp x y = Eq) /\
  (forall x y, cmp y x = CompOpp (cmp x y)) /\
  (forall x y z, cmp x y = Lt -> cmp y z = Lt -> cmp x z = Lt) /\
  (forall x y z, cmp x y = Eq -> cmp x z = cmp y z) /\
  (forall x y z, cmp y z = Eq -> cmp x y = cmp x z) /\
  (forall x, is_null x = true <-> eqb x null = true).

Lemma g_mem_intersect T eqb cmp is_null null :
  @carrier_laws T eqb cmp is_null null ->
  forall a b c x, wf_cand is_null a = true -> wf_cand is_null b = true ->
    intersect eqb cmp is_null null a b = Ok c ->
    mem eqb cmp is_null c x = mem eqb cmp is_null a x && mem eqb cmp is_null b x.
Proof. intros (H1 & H2 & H3 & H4 & H5 & H6) a b c x. now apply mem_intersect. Qed.

Lemma g_mem_normalize T eqb cmp is_null null :
  @carrier_laws T eqb cmp is_null null ->
  forall a c x, wf_cand is_null a = true -> normalize eqb cmp null a = Ok c ->
    mem eqb cmp is_null c x = mem eqb cmp is_null a x.
Proof. intros (H1 & H2 & H3 & H4 & H5 & H6) a c x. now apply mem_normalize. Qed.

Lemma g_exclude_sub T eqb cmp is_null null :
  @carrier_laws T eqb cmp is_null null ->
  forall a v c x, wf_cand is_null a = true -> exclude eqb cmp is_null null a v = Ok c ->
    mem eqb cmp is_null c x = true -> mem eqb cmp is_null a x = true.
Proof. intros (H1 & H2 & H3 & H4 & H5 & H6) a v c x. now apply exclude_sub. Qed.

Lemma g_exclude_sup T eqb cmp is_null null :
  @carrier_laws T eqb cmp is_null null ->
  forall a v c x, wf_cand is_null a = true -> exclude eqb cmp is_null null a v = Ok c ->
    mem eqb cmp is_null a x = true -> eqb x v = false -> mem eqb cmp is_null c x = true.
Proof. intros (H1 & H2 & H3 & H4 & H5 & H6) a v c x. now apply exclude_sup. Qed.

(* ====================================================================================== *)
(* Part 4: FieldValue                                                                       *)
(* ====================================================================================== *)
Lemma fv_laws : carrier_laws eqT cmpT fv_is_null Null.
Proof.
  repeat split.
  - unfold eqT. destruct (cmpT x y); congruence.
  - unfold eqT. intros ->. reflexivity.
  - intros x y. apply cmpT_antisym.
  - intros x y z. apply cmpT_trans.
  - intros x y z. apply cmpT_eq_l.
  - intros x y z. apply cmpT_eq_r.
  - destruct x; cbn; intros H; try discriminate H; reflexivity.
  - destruct x; cbn; intros H; try discriminate H; reflexivity.
Qed.

Lemma cmp_t_cmpT x y : wf x = true -> wf y = true -> cmp_t x y = cmpT x y.
Proof. intros Wx Wy. unfold cmp_t. now rewrite fv_cmp_ok. Qed.

Lemma eq_t_eqT x y : wf x = true -> wf y = true -> eq_t x y = eqT x y.
Proof. intros Wx Wy. unfold eq_t. now rewrite fv_eq_ok. Qed.

Lemma cand_vals_wf_all c : cand_vals_wf c = cand_all wf wf c.
Proof. destruct c as [|x|l|r|]; reflexivity. Qed.

Lemma f_cand_ok_split c : f_cand_ok c = true -> wf_cand fv_is_null c = true /\ cand_all wf wf c = true.
Proof. unfold f_cand_ok, f_wf_cand. rewrite cand_vals_wf_all. intros H. now apply andb_prop in H. Qed.

Lemma f_cand_ok_join c : wf_cand fv_is_null c = true -> cand_all wf wf c = true -> f_cand_ok c = true.
Proof. unfold f_cand_ok, f_wf_cand. intros H1 H2. rewrite H1. rewrite cand_vals_wf_all. exact H2. Qed.

(* the tied instance (eq_t / cmp_t) coincides with the lawful instance (eqT / cmpT) on wf values *)
Lemma f_mem_T c x : cand_all wf wf c = true -> wf x = true -> f_mem c x = mem eqT cmpT fv_is_null c x.
Proof. intros. apply (ext_mem fv eq_t eqT cmp_t cmpT fv_is_null wf eq_t_eqT cmp_t_cmpT); assumption. Qed.

Theorem f_intersect_total a b :
  f_cand_ok a = true -> f_cand_ok b = true -> exists c, f_intersect a b = Ok c /\ f_cand_ok c = true.
Proof.
  intros Ha Hb. apply f_cand_ok_split in Ha, Hb. destruct Ha as [Wa Va], Hb as [Wb Vb].
  destruct (intersect_total fv eq_t cmp_t fv_is_null Null wf eq_refl a b Wa Wb) as (c & E & Wc & Vc).
  exists c. split; [exact E|]. apply f_cand_ok_join; auto.
Qed.

Theorem f_normalize_total a :
  exists c, f_normalize a = Ok c /\ (f_cand_ok a = true -> f_cand_ok c = true).
Proof.
  destruct (normalize_total fv eq_t cmp_t fv_is_null Null wf eq_refl a) as (c & E & Wc & Vc).
  exists c. split; [exact E|]. intros Ha. apply f_cand_ok_split in Ha. destruct Ha as [Wa Va].
  apply f_cand_ok_join; auto.
Qed.

Theorem f_exclude_total a v :
  exists c, f_exclude a v = Ok c /\ (f_cand_ok a = true -> f_cand_ok c = true).
Proof.
  destruct (exclude_total fv eq_t cmp_t fv_is_null Null wf eq_refl a v) as (c & E & Wc & Vc).
  exists c. split; [exact E|]. intros Ha. apply f_cand_ok_split in Ha. destruct Ha as [Wa Va].
  apply f_cand_ok_join; auto.
Qed.

Theorem f_mem_intersect a b c x :
  f_cand_ok a = true -> f_cand_ok b = true -> wf x = true ->
  f_intersect a b = Ok c -> f_mem c x = f_mem a x && f_mem b x.
Proof.
  intros Ha Hb Wx E. apply f_cand_ok_split in Ha, Hb. destruct Ha as [Wa Va], Hb as [Wb Vb].
  unfold f_intersect in E. rewrite intersect_ok in E by assumption. injection E as <-.
  rewrite (ext_intersectT fv eq_t eqT cmp_t cmpT fv_is_null Null wf eq_t_eqT cmp_t_cmpT eq_refl a b Va Vb).
  rewrite !f_mem_T; auto.
  - destruct fv_laws as (H1 & H2 & H3 & H4 & H5 & H6). now apply mem_intersectL.
  - apply cand_all_intersectT; auto.
Qed.

Theorem f_mem_normalize a c x :
  f_cand_ok a = true -> wf x = true -> f_normalize a = Ok c -> f_mem c x = f_mem a x.
Proof.
  intros Ha Wx E. apply f_cand_ok_split in Ha. destruct Ha as [Wa Va].
  unfold f_normalize in E. rewrite normalize_ok in E. injection E as <-.
  rewrite (ext_normalizeT fv eq_t eqT cmp_t cmpT Null wf eq_t_eqT cmp_t_cmpT a Va).
  rewrite !f_mem_T; auto.
  - destruct fv_laws as (H1 & H2 & H3 & H4 & H5 & H6). now apply mem_normalizeL.
  - apply cand_all_normalizeT; auto.
Qed.

Theorem f_exclude_sub a v c x :
  f_cand_ok a = true -> wf v = true -> wf x = true ->
  f_exclude a v = Ok c -> f_mem c x = true -> f_mem a x = true.
Proof.
  intros Ha Wv Wx E. apply f_cand_ok_split in Ha. destruct Ha as [Wa Va].
  unfold f_exclude in E. rewrite exclude_ok in E. injection E as <-.
  rewrite (ext_excludeT fv eq_t eqT cmp_t cmpT fv_is_null Null wf eq_t_eqT cmp_t_cmpT a v Va Wv).
  rewrite !f_mem_T; auto.
  - destruct fv_laws as (H1 & H2 & H3 & H4 & H5 & H6). now apply excludeL_sub.
  - apply cand_all_excludeT; auto.
Qed.

Theorem f_exclude_sup a v c x :
  f_cand_ok a = true -> wf v = true -> wf x = true ->
  f_exclude a v = Ok c -> f_mem a x = true -> eq_t x v = false -> f_mem c x = true.
Proof.
  intros Ha Wv Wx E. apply f_cand_ok_split in Ha. destruct Ha as [Wa Va].
  unfold f_exclude in E. rewrite exclude_ok in E. injection E as <-.
  rewrite (ext_excludeT fv eq_t eqT cmp_t cmpT fv_is_null Null wf eq_t_eqT cmp_t_cmpT a v Va Wv).
  rewrite !f_mem_T, (eq_t_eqT x v Wx Wv); auto.
  - destruct fv_laws as (H1 & H2 & H3 & H4 & H5 & H6). now apply excludeL_sup.
  - apply cand_all_excludeT; auto.
Qed.

(* Range level *)
Definition range_vals_wf (r : range fv) : bool := bound_vals_wf (rstart r) && bound_vals_wf (rend r).

Theorem f_range_intersect_exact a b x :
  wf_range fv_is_null a = true -> wf_range fv_is_null b = true ->
  range_vals_wf a = true -> range_vals_wf b = true -> wf x = true ->
  exists r, f_range_intersect a b = Ok r /\ wf_range fv_is_null r = true /\ range_vals_wf r = true /\
            f_contains r x = f_contains a x && f_contains b x.
Proof.
  intros Wa Wb Va Vb Wx.
  change (cand_all wf wf (CRange a) = true) in Va.
  change (cand_all wf wf (CRange b) = true) in Vb.
  exists (range_intersectT cmp_t a b).
  assert (Vr : cand_all wf wf (CRange (range_intersectT cmp_t a b)) = true)
    by (apply (cand_all_stepT fv eq_t cmp_t fv_is_null wf wf (CRange a) (CRange b)); assumption).
  split; [|split; [|split]].
  - unfold f_range_intersect. now apply range_intersect_ok.
  - apply (wf_stepT fv eq_t cmp_t fv_is_null (CRange a) (CRange b)); assumption.
  - exact Vr.
  - change (f_mem (CRange (range_intersectT cmp_t a b)) x = f_mem (CRange a) x && f_mem (CRange b) x).
    rewrite !f_mem_T by assumption.
    assert (EQ : range_intersectT cmp_t a b = range_intersectT cmpT a b).
    { pose proof (ext_stepT fv eq_t eqT cmp_t cmpT fv_is_null wf eq_t_eqT cmp_t_cmpT
                    (CRange a) (CRange b) Va Vb) as H.
      cbn in H. injection H as H H'. unfold range_intersectT. now rewrite H, H'. }
    rewrite EQ. cbn [mem]. destruct fv_laws as (H1 & H2 & H3 & H4 & H5 & H6).
    now apply contains_range_intersect.
Qed.

Theorem f_degenerate_no_non_null r x :
  range_vals_wf r = true -> wf x = true ->
  f_degenerate r = true -> fv_is_null x = false -> f_contains r x = false.
Proof.
  intros Vr Wx D N. unfold range_vals_wf in Vr. apply andb_prop in Vr. destruct Vr as [V1 V2].
  unfold f_contains, f_degenerate in *.
  rewrite (ext_contains fv cmp_t cmpT fv_is_null wf cmp_t_cmpT r x V1 V2 Wx).
  rewrite (ext_degenerate fv cmp_t cmpT wf cmp_t_cmpT r V1 V2) in D.
  destruct fv_laws as (H1 & H2 & H3 & H4 & H5 & H6).
  eapply degenerate_no_non_null; eassumption.
Qed.

Theorem f_range_new_spec s e n :
  f_range_new s e n =
    if bound_not_null fv_is_null s && bound_not_null fv_is_null e
    then Ok (mkRange s e n) else Panic "candidates.rs:assert cannot bound range with null value".
Proof. apply range_new_spec. Qed.
