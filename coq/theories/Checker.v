(* Checker.v — model of trustfall_core/src/interpreter/helpers/correctness.rs: `check_adapter_invariants`.
   Model file: definitions only, no proofs (proofs are in CheckerProofs.v).

   `check S A : bool` — true = check_adapter_invariants(schema, adapter) returns normally,
   false = it panics (a failed assert!/assert_eq!/expect of the checker, or a panic of the adapter).

   What the checker does (transcribed below):
     * it introspects `schema` through SchemaAdapter (Introspect.v) with three fixed meta-queries and so
       obtains the resolver invocations it is going to make ("covered targets"):
         - check_properties_are_implemented: every visible vertex type x (each of its properties, then
           `__typename`);
         - check_edges_are_implemented: every visible vertex type x each of its edges, called with the
           DEFAULT value of every parameter (implicit `null` for nullable parameters); an edge having a
           parameter without default (non-nullable, no declared default) is SKIPPED (`continue`);
         - check_type_coercions_are_implemented: every visible vertex type V x every interface I it
           lists in `implements`: resolve_coercion(type_name = I, coerce_to = V);
       "visible" = enumerated by `VertexType`, i.e. every vertex type except the root query type;
     * for each it builds `make_contexts(8)`: NINE contexts (`for i in 0..=count`) without active vertex
       whose `values` stack is `[Int64(i)]`, feeds them to the resolver and asserts on the output:
       every value is Null / every neighbour iterator is empty on its first `next()` / every coercion is
       false; as many contexts come out as went in; the tags read in the same order.

   Abstractions: a context without active vertex is identified with its tag (the checker reads
   `values.last().as_i64()` and asserts the stack has length 1; nothing else of a context is observed).
   The adapter under test is represented by its behaviour on such contexts: for each resolver a function
   from the list of input tags to the list of (tag, outcome) it yields, or a panic.  A neighbour
   iterator is represented by its length (only emptiness is observed).  The believable ResolveInfo the
   checker fabricates is not modelled except for its `Type::parse(property_type).expect(..)`.
   The default values handed to resolve_neighbors are decoded from their JSON text by the untagged
   TransparentValue deserializer: modelled at the value level by `json_roundtrip`. *)
From TF Require Export Introspect.
From TF Require Import Show.
Local Open Scope list_scope.
Local Open Scope string_scope.

(* ---------- the adapter under test, on vertex-less contexts ---------- *)
Record adapter := mkAdapter {
  (* resolve_property(contexts, type_name, property_name, _) *)
  a_prop : string -> string -> list Z -> res (list (Z * fv));
  (* resolve_neighbors(contexts, type_name, edge_name, parameters, _): number of neighbours per context *)
  a_nbrs : string -> string -> list (string * fv) -> list Z -> res (list (Z * nat));
  (* resolve_coercion(contexts, type_name, coerce_to_type, _) *)
  a_coerce : string -> string -> list Z -> res (list (Z * bool))
}.

(* ---------- make_contexts / get_context_order_values ---------- *)
Definition sample_size : nat := 8.
(* `for i in 0..=count`: count + 1 contexts *)
Definition make_contexts (count : nat) : list Z := map Z.of_nat (seq 0 (S count)).
Definition initial_contexts : list Z := make_contexts sample_size.

Fixpoint zlist_eqb (a b : list Z) : bool :=
  match a, b with
  | [], [] => true
  | x :: a', y :: b' => Z.eqb x y && zlist_eqb a' b'
  | _, _ => false
  end.

Definition is_null (v : fv) : bool := match v with Null => true | _ => false end.

(* the loop over the resolver's output, then the two assert_eq! *)
Definition check_output {O} (neutral : O -> bool) (out : list (Z * O)) : bool :=
  forallb (fun o => neutral (snd o)) out                     (* assert per yielded item *)
  && Nat.eqb (List.length initial_contexts) (List.length out)     (* "adapter lost N contexts" *)
  && zlist_eqb initial_contexts (map fst out).               (* "adapter illegally reordered contexts" *)

Definition ok_of {A} (r : res A) (k : A -> bool) : bool :=
  match r with Ok a => k a | Panic _ => false end.

Definition probe_property (A : adapter) (tn pn : string) : bool :=
  ok_of (a_prop A tn pn initial_contexts) (check_output is_null).
Definition probe_edge (A : adapter) (tn en : string) (ps : list (string * fv)) : bool :=
  ok_of (a_nbrs A tn en ps initial_contexts) (check_output (fun n => Nat.eqb n 0)).
Definition probe_coercion (A : adapter) (tn to_ : string) : bool :=
  ok_of (a_coerce A tn to_ initial_contexts) (check_output negb).

(* ---------- decoding query rows: row.try_into_struct::<Output>().expect("incorrect result shape") ---------- *)
Definition site_shape : string := "correctness.rs:130 expect: incorrect result shape".
Definition site_bad_type : string := "correctness.rs:172 expect: not a valid type".
Definition as_str (v : fv) : res string := match v with Str x => Ok x | _ => Panic site_shape end.
Definition str_prop (tn pn : string) (v : svertex) : res string := do x <- prop_value tn pn v; as_str x.

(* ---------- check_properties_are_implemented ---------- *)
(* { VertexType { type_name: name @output  property @fold { property_names: name @output property_types: type @output } } } *)
Definition property_rows (s : schema) : res (list (string * list (string * string))) :=
  do vs <- starts s "VertexType" HNone;
  rmap (fun v =>
          do tn <- str_prop "VertexType" "name" v;
          do ps <- nbrs s "VertexType" "property" HNone v;
          do names <- rmap (str_prop "Property" "name") ps;
          do types <- rmap (str_prop "Property" "type") ps;
          Ok (tn, combine names types)) vs.                   (* property_names.zip(property_types) *)

(* make_resolve_info_for_property_check: Type::parse(property_type).expect("not a valid type") *)
Definition type_text_ok (text : string) : res unit :=
  match ty_parse_res text with
  | Ok (Some _) => Ok tt
  | Ok None => Panic site_bad_type
  | Panic p => Panic p
  end.

(* the (type, property) pairs probed, in the checker's order: the declared properties, then __typename *)
Definition property_targets (s : schema) : res (list (string * string)) :=
  do rows <- property_rows s;
  rflat (fun row =>
           rmap (fun pt => do _ <- type_text_ok (snd pt); Ok (fst row, fst pt))
                (app (snd row) [("__typename", "String!")])) rows.

Definition check_properties_are_implemented (s : schema) (A : adapter) : bool :=
  ok_of (property_targets s) (forallb (fun t => probe_property A (fst t) (snd t))).

(* ---------- check_edges_are_implemented ---------- *)
(* serde_json::from_str::<TransparentValue>(serde_json::to_string(&TransparentValue::from(v))) as a
   FieldValue: the untagged deserializer tries Null, Int64, Uint64, Float64, String, Boolean, Enum, List in
   this order, so an in-range Uint64 comes back as Int64 and an Enum as a String *)
Fixpoint json_roundtrip (v : fv) : fv :=
  match v with
  | Null => Null
  | I64 z => I64 z
  | U64 z => if Z.leb z i64_max then I64 z else U64 z
  | F64 b => if f64_finite b then F64 b else Null
  | Str x => Str x
  | Boolv b => Boolv b
  | Enum x => Str x
  | List l => List (map json_roundtrip l)
  end.

(* the folded `parameter_` part of one row: (name, decoded default) per parameter *)
Definition parameter_defaults (ps : list svertex) : res (list (string * option fv)) :=
  rmap (fun p => do a <- as_edge_parameter site_conv p;
                 do d <- param_default a;
                 Ok (a_name a, match d with Some v => Some (json_roundtrip v) | None => None end)) ps.

(* { VertexType { type_name: name  edge { edge_name: name  parameter_: parameter @fold { name type default }
                                          target { target_type: name } } } } *)
Definition edge_rows (s : schema) : res (list (string * string * list (string * option fv) * string)) :=
  do vs <- starts s "VertexType" HNone;
  rflat (fun v =>
           do tn <- str_prop "VertexType" "name" v;
           do es <- nbrs s "VertexType" "edge" HNone v;
           rflat (fun e =>
                    do en <- str_prop "Edge" "name" e;
                    do ps <- nbrs s "Edge" "parameter" HNone e;
                    do defaults <- parameter_defaults ps;
                    do ts <- nbrs s "Edge" "target" HNone e;
                    rmap (fun t => do target <- str_prop "VertexType" "name" t;
                                   Ok (tn, en, defaults, target)) ts) es) vs.

(* `if parameter_defaults.contains(&None) { continue; }` *)
Definition has_undefaulted (ds : list (string * option fv)) : bool :=
  existsb (fun d => match snd d with None => true | Some _ => false end) ds.
(* names.zip(defaults).collect::<BTreeMap<_, _>>(): key-sorted, a later duplicate replaces an earlier *)
Definition edge_parameters (ds : list (string * option fv)) : list (string * fv) :=
  fold_left (fun m d => match snd d with Some v => smap_insert (fst d) v m | None => m end) ds [].

(* the (type, edge, parameters) triples probed *)
Definition edge_targets (s : schema) : res (list (string * string * list (string * fv))) :=
  do rows <- edge_rows s;
  Ok (flat_map (fun row => let '(tn, en, ds, _) := row in
                           if has_undefaulted ds then [] else [(tn, en, edge_parameters ds)]) rows).

Definition check_edges_are_implemented (s : schema) (A : adapter) : bool :=
  ok_of (edge_targets s) (forallb (fun t => let '(tn, en, ps) := t in probe_edge A tn en ps)).

(* ---------- check_type_coercions_are_implemented ---------- *)
(* { VertexType { coerce_to: name @output  implements { type_name: name @output } } } *)
Definition coercion_targets (s : schema) : res (list (string * string)) :=   (* (type_name, coerce_to) *)
  do vs <- starts s "VertexType" HNone;
  rflat (fun v =>
           do coerce_to <- str_prop "VertexType" "name" v;
           do is <- nbrs s "VertexType" "implements" HNone v;
           rmap (fun i => do tn <- str_prop "VertexType" "name" i; Ok (tn, coerce_to)) is) vs.

Definition check_type_coercions_are_implemented (s : schema) (A : adapter) : bool :=
  ok_of (coercion_targets s) (forallb (fun t => probe_coercion A (fst t) (snd t))).

(* ---------- check_adapter_invariants ---------- *)
Definition check (s : schema) (A : adapter) : bool :=
  check_properties_are_implemented s A && check_edges_are_implemented s A
  && check_type_coercions_are_implemented s A.

(* ====================================================================================== *)
(* Coverage, written directly from the schema AST (proved equal to the *_targets above)     *)
(* ====================================================================================== *)
Definition spec_property_targets (s : schema) : list (string * string) :=
  flat_map (fun t => app (map (fun f => (t_name t, f_name f)) (type_properties t)) [(t_name t, "__typename")])
           (visible_types s).
(* the default the checker passes for a parameter: declared (after the JSON round trip), implicit null, or none *)
Definition decoded_default (a : arg) : option fv :=
  match a_default a with
  | Default v => Some (json_roundtrip v)
  | _ => if gnullable (a_ty a) then Some Null else None
  end.
Definition arg_defaults (args : list arg) : list (string * option fv) :=
  map (fun a => (a_name a, decoded_default a)) args.
(* an edge is probed iff every parameter has a default *)
Definition edge_checkable (f : fld) : bool := negb (has_undefaulted (arg_defaults (f_args f))).
Definition spec_edge_targets (s : schema) : list (string * string * list (string * fv)) :=
  flat_map (fun t => flat_map (fun f => if edge_checkable f
                                        then [(t_name t, f_name f, edge_parameters (arg_defaults (f_args f)))]
                                        else []) (type_edges t))
           (visible_types s).
Definition spec_coercion_targets (s : schema) : list (string * string) :=
  flat_map (fun t => map (fun i => (i, t_name t)) (t_impl t)) (visible_types s).

(* ====================================================================================== *)
(* The contract on vertex-less contexts, and fault injection                               *)
(* ====================================================================================== *)
(* what a contract-abiding adapter yields: every context once, in order, with the neutral outcome *)
Definition neutral_output {O} (neutral : O) (ids : list Z) : list (Z * O) := map (fun c => (c, neutral)) ids.

(* the adapter that honours the contract everywhere *)
Definition honest : adapter :=
  mkAdapter (fun _ _ ids => Ok (neutral_output Null ids))
            (fun _ _ _ ids => Ok (neutral_output O ids))
            (fun _ _ ids => Ok (neutral_output false ids)).

(* A honours the contract at the probes of ... *)
Definition honest_property (A : adapter) (tn pn : string) : Prop :=
  a_prop A tn pn initial_contexts = Ok (neutral_output Null initial_contexts).
Definition honest_edge (A : adapter) (tn en : string) (ps : list (string * fv)) : Prop :=
  a_nbrs A tn en ps initial_contexts = Ok (neutral_output O initial_contexts).
Definition honest_coercion (A : adapter) (tn to_ : string) : Prop :=
  a_coerce A tn to_ initial_contexts = Ok (neutral_output false initial_contexts).

(* SchemaAdapter itself as an adapter under test (its vertices never appear: all contexts are vertex-less) *)
Definition vertexless (ids : list Z) : list (ctx Z) := map (fun i => (i, @None svertex)) ids.
Definition strip {O P} (g : O -> P) (out : list (ctx Z * O)) : list (Z * P) :=
  map (fun o => (fst (fst o), g (snd o))) out.
Definition intro_adapter (s : schema) : adapter :=
  mkAdapter (fun tn pn ids => do out <- resolve_property tn pn (vertexless ids); Ok (strip (fun x => x) out))
            (fun tn en _ ids => do out <- resolve_neighbors s tn en HNone (vertexless ids);
                                Ok (strip (@List.length svertex) out))
            (fun tn to_ ids => do out <- resolve_coercion tn to_ (vertexless ids); Ok (strip (fun x => x) out)).

(* ---------- faults ---------- *)
Inductive fault :=
| FSwap (i j : nat)            (* exchange the outputs at positions i and j (reorder) *)
| FReverse                     (* yield the contexts in reverse order (reorder) *)
| FDrop (i : nat)              (* lose the context at position i *)
| FDup (i : nat)               (* yield the context at position i twice *)
| FBad (i : nat)               (* at position i: a non-null value / one neighbour / a true coercion *)
| FPanic.                      (* the resolver panics *)

Fixpoint set_nth {X} (i : nat) (x : X) (l : list X) : list X :=
  match l, i with
  | [], _ => []
  | _ :: r, O => x :: r
  | y :: r, S k => y :: set_nth k x r
  end.
Definition swap_nth {X} (i j : nat) (l : list X) : list X :=
  match nth_error l i, nth_error l j with
  | Some a, Some b => set_nth i b (set_nth j a l)
  | _, _ => l
  end.
Fixpoint drop_nth {X} (i : nat) (l : list X) : list X :=
  match l, i with
  | [], _ => []
  | _ :: r, O => r
  | y :: r, S k => y :: drop_nth k r
  end.
Fixpoint dup_nth {X} (i : nat) (l : list X) : list X :=
  match l, i with
  | [], _ => []
  | y :: r, O => y :: y :: r
  | y :: r, S k => y :: dup_nth k r
  end.

Definition apply_fault {O} (bad : O) (f : fault) (r : res (list (Z * O))) : res (list (Z * O)) :=
  match f with
  | FPanic => Panic "injected panic"
  | _ =>
      do out <- r;
      Ok (match f with
          | FSwap i j => swap_nth i j out
          | FReverse => rev out
          | FDrop i => drop_nth i out
          | FDup i => dup_nth i out
          | FBad i => match nth_error out i with Some o => set_nth i (fst o, bad) out | None => out end
          | FPanic => out
          end)
  end.

(* the faults that change the output of a contract-abiding resolver on the nine probe contexts *)
Definition fault_effective (f : fault) : Prop :=
  match f with
  | FSwap i j => (i < 9)%nat /\ (j < 9)%nat /\ i <> j
  | FReverse => True
  | FDrop i => (i < 9)%nat
  | FDup i => (i < 9)%nat
  | FBad i => (i < 9)%nat
  | FPanic => True
  end.

(* where a fault is injected: one resolver x (type, field) *)
Inductive target :=
| TProp (tn pn : string)
| TEdge (tn en : string)
| TCoerce (tn to_ : string).

Definition bad_value : fv := I64 1.
(* `base` with fault f injected at target t (and only there) *)
Definition inject (base : adapter) (t : target) (f : fault) : adapter :=
  mkAdapter
    (fun tn pn ids => let r := a_prop base tn pn ids in
                      match t with
                      | TProp tn' pn' => if String.eqb tn tn' && String.eqb pn pn' then apply_fault bad_value f r else r
                      | _ => r
                      end)
    (fun tn en ps ids => let r := a_nbrs base tn en ps ids in
                         match t with
                         | TEdge tn' en' => if String.eqb tn tn' && String.eqb en en' then apply_fault 1%nat f r else r
                         | _ => r
                         end)
    (fun tn to_ ids => let r := a_coerce base tn to_ ids in
                       match t with
                       | TCoerce tn' to' => if String.eqb tn tn' && String.eqb to_ to' then apply_fault true f r else r
                       | _ => r
                       end).

(* is target t probed by the checker on schema s *)
Definition covered (s : schema) (t : target) : bool :=
  match t with
  | TProp tn pn => ok_of (property_targets s)
                     (existsb (fun x => String.eqb (fst x) tn && String.eqb (snd x) pn))
  | TEdge tn en => ok_of (edge_targets s)
                     (existsb (fun x => String.eqb (fst (fst x)) tn && String.eqb (snd (fst x)) en))
  | TCoerce tn to_ => ok_of (coercion_targets s)
                        (existsb (fun x => String.eqb (fst x) tn && String.eqb (snd x) to_))
  end.

(* ---------- rendering for the correspondence check (mirrored by harness/src/bin/tfh_intro.rs) ---------- *)
Definition show_params (ps : list (string * fv)) : string :=
  "{" ++ String.concat ";" (map (fun p => hex (fst p) ++ "=" ++ show_fv (snd p)) ps) ++ "}".
Definition show_targets (s : schema) : string :=
  match property_targets s, edge_targets s, coercion_targets s with
  | Ok p, Ok e, Ok c =>
      String.concat "|" (ssort (app (map (fun x => "P:" ++ fst x ++ "." ++ snd x) p)
                               (app (map (fun x => "E:" ++ fst (fst x) ++ "." ++ snd (fst x) ++ show_params (snd x)) e)
                                    (map (fun x => "C:" ++ fst x ++ ">" ++ snd x) c))))
  | _, _, _ => "PANIC"
  end.
(* verdicts of the checker for a list of single-fault adapters: one character each, P = passes, F = fails *)
Definition verdicts (s : schema) (l : list (target * fault)) : string :=
  String.concat "" (map (fun tf => if check s (inject honest (fst tf) (snd tf)) then "P" else "F") l).
