(* CheckerProofs.v — proofs about the model of check_adapter_invariants (Checker.v), property C25. *)
From Coq Require Import Lia Permutation.
From TF Require Import Values Ty TyProofs SchemaAst SchemaNew SchemaSpec Introspect IntrospectProofs Checker.
From TF Require SchemaProofs.
Local Open Scope list_scope.
Local Open Scope string_scope.

(* ====================================================================================== *)
(* 1. The assertions on one resolver's output                                               *)
(* ====================================================================================== *)
Lemma zlist_eqb_eq a b : zlist_eqb a b = true <-> a = b.
Proof.
  revert b. induction a as [|x a IH]; intros [|y b]; cbn [zlist_eqb]; split; try discriminate; try reflexivity.
  - intros H. apply andb_prop in H. destruct H as [H1 H2]. apply Z.eqb_eq in H1. apply IH in H2. congruence.
  - intros [= -> ->]. rewrite Z.eqb_refl. now apply IH.
Qed.

Lemma neutral_rebuild {O} (nb : O -> bool) (nv : O) (out : list (Z * O)) :
  (forall o, nb o = true -> o = nv) ->
  forallb (fun o => nb (snd o)) out = true -> out = neutral_output nv (map fst out).
Proof.
  intros Hn. induction out as [|[c o] r IH]; cbn [forallb map neutral_output]; [reflexivity|].
  intros H. apply andb_prop in H. destruct H as [H1 H2]. cbn [snd fst] in *.
  rewrite (Hn o H1). f_equal. now apply IH.
Qed.

(* the three assertions hold exactly for the contract-abiding output *)
Theorem check_output_iff {O} (nb : O -> bool) (nv : O) (out : list (Z * O)) :
  (forall o, nb o = true <-> o = nv) ->
  check_output nb out = true <-> out = neutral_output nv initial_contexts.
Proof.
  intros Hn. unfold check_output. split.
  - intros H. apply andb_prop in H. destruct H as [H H3]. apply andb_prop in H. destruct H as [H1 _].
    apply zlist_eqb_eq in H3. rewrite H3. apply (neutral_rebuild nb nv); [intros o; apply Hn | exact H1].
  - intros ->. apply andb_true_intro. split; [apply andb_true_intro; split|].
    + apply forallb_forall. intros [c o] Hin. unfold neutral_output in Hin. apply in_map_iff in Hin.
      destruct Hin as (c' & [= _ <-] & _). cbn [snd]. now apply Hn.
    + unfold neutral_output. rewrite map_length. apply Nat.eqb_refl.
    + apply zlist_eqb_eq. unfold neutral_output. rewrite map_map. cbn [fst]. now rewrite map_id.
Qed.

Lemma is_null_iff v : is_null v = true <-> v = Null.
Proof. destruct v; cbn; split; congruence. Qed.
Lemma no_nbrs_iff n : Nat.eqb n 0 = true <-> n = O.
Proof. apply Nat.eqb_eq. Qed.
Lemma not_coerced_iff b : negb b = true <-> b = false.
Proof. destruct b; cbn; split; congruence. Qed.

Theorem probe_property_iff A tn pn : probe_property A tn pn = true <-> honest_property A tn pn.
Proof.
  unfold probe_property, honest_property, ok_of. destruct (a_prop A tn pn initial_contexts) as [out|site].
  - rewrite (check_output_iff is_null Null out is_null_iff). split; congruence.
  - split; discriminate.
Qed.
Theorem probe_edge_iff A tn en ps : probe_edge A tn en ps = true <-> honest_edge A tn en ps.
Proof.
  unfold probe_edge, honest_edge, ok_of. destruct (a_nbrs A tn en ps initial_contexts) as [out|site].
  - rewrite (check_output_iff (fun n => Nat.eqb n 0) O out no_nbrs_iff). split; congruence.
  - split; discriminate.
Qed.
Theorem probe_coercion_iff A tn to_ : probe_coercion A tn to_ = true <-> honest_coercion A tn to_.
Proof.
  unfold probe_coercion, honest_coercion, ok_of. destruct (a_coerce A tn to_ initial_contexts) as [out|site].
  - rewrite (check_output_iff negb false out not_coerced_iff). split; congruence.
  - split; discriminate.
Qed.

(* ====================================================================================== *)
(* 2. Which resolver invocations the checker makes                                           *)
(* ====================================================================================== *)
Lemma rmap_map_ok {A B C} (h : A -> B) (k : B -> res C) (g : A -> C) l :
  (forall x, In x l -> k (h x) = Ok (g x)) -> rmap k (map h l) = Ok (map g l).
Proof.
  intros H.
  induction l as [|x r IH]; cbn [map rmap]; [reflexivity|].
  rewrite (H x (or_introl eq_refl)). cbn [bind]. rewrite IH by (intros; apply H; now right). reflexivity.
Qed.

Lemma name_ok_builtin b : builtin_scalar b = true -> name_ok b = true.
Proof.
  intros H. destruct (builtin_cases b H) as [->|[->|[->|[->| ->]]]]; reflexivity.
Qed.

(* Type::parse accepts the type text of every property of a well-formed schema *)
Lemma property_type_parses g : builtin_scalar (gbase g) = true -> (gdepth g <= 30)%nat ->
  type_text_ok (gty_text g) = Ok tt.
Proof.
  intros Hb Hd. unfold type_text_ok.
  rewrite gty_text_render, g_render_render.
  rewrite parse_render by (rewrite g_name_gbase; now apply name_ok_builtin).
  rewrite adepth_gdepth. destruct (Nat.leb_spec (gdepth g) 30); [reflexivity | lia].
Qed.

Section Targets.
  Variable s : schema.
  Hypothesis W : wf_schema s.

  Lemma str_name t : str_prop "VertexType" "name" (SVType t) = Ok (t_name t).
  Proof. reflexivity. Qed.

  Lemma property_rows_eq :
    property_rows s = Ok (map (fun t => (t_name t, map (fun f => (f_name f, gty_text (f_ty f))) (type_properties t)))
                              (visible_types s)).
  Proof.
    unfold property_rows. rewrite starts_vertex_type. cbn [bind]. apply rmap_map_ok.
    intros t Ht. apply (visible_in s) in Ht. rewrite str_name. cbn [bind].
    rewrite (nbrs_property s W t Ht). cbn [bind].
    rewrite (rmap_map_ok _ _ f_name) by (intros; reflexivity). cbn [bind].
    rewrite (rmap_map_ok _ _ (fun f => gty_text (f_ty f))).
    - cbn [bind]. f_equal. f_equal. induction (type_properties t) as [|f r IH]; cbn [map combine]; [reflexivity|].
      now rewrite IH.
    - intros f Hf. unfold type_properties in Hf. apply filter_In in Hf. destruct Hf as [Hf _].
      change (str_prop "Property" "type" (SVProp t (f_name f) (T (gbase (f_ty f)) (g_aty (f_ty f)))))
        with (Ok (ty_display (T (gbase (f_ty f)) (g_aty (f_ty f)))) : res string).
      now rewrite display_converted by (apply (w_depth s W t f Ht Hf)).
  Qed.

  Theorem property_targets_eq : property_targets s = Ok (spec_property_targets s).
  Proof.
    unfold property_targets. rewrite property_rows_eq. cbn [bind].
    unfold spec_property_targets. apply rflat_map_ok. intros t Ht. apply (visible_in s) in Ht. cbn [fst snd].
    rewrite (rmap_ok _ (fun pt => (t_name t, fst pt))).
    - rewrite map_app, map_map. reflexivity.
    - intros pt Hpt. apply in_app_or in Hpt. destruct Hpt as [Hpt|[<-|[]]].
      + apply in_map_iff in Hpt. destruct Hpt as (f & <- & Hf). cbn [fst snd].
        unfold type_properties in Hf. apply filter_In in Hf. destruct Hf as [Hf Hp].
        rewrite (property_type_parses (f_ty f) Hp (w_depth s W t f Ht Hf)). reflexivity.
      + reflexivity.
  Qed.

  Lemma parameter_defaults_eq f : (forall a, In a (f_args f) -> a_default a <> BadDefault) ->
    parameter_defaults (map SVParam (f_args f)) = Ok (arg_defaults (f_args f)).
  Proof.
    intros H. unfold parameter_defaults, arg_defaults. apply rmap_map_ok. intros a Ha.
    cbn [as_edge_parameter bind]. unfold param_default, decoded_default.
    destruct (a_default a) as [| |v] eqn:E; [|exfalso; now apply (H a Ha)|]; cbn [bind].
    - destruct (gnullable (a_ty a)); reflexivity.
    - reflexivity.
  Qed.

  Lemma edge_rows_eq :
    edge_rows s = Ok (flat_map (fun t => map (fun f => (t_name t, f_name f, arg_defaults (f_args f), gbase (f_ty f)))
                                             (type_edges t)) (visible_types s)).
  Proof.
    unfold edge_rows. rewrite starts_vertex_type. cbn [bind]. apply rflat_map_ok.
    intros t Ht. apply (visible_in s) in Ht. rewrite str_name. cbn [bind].
    rewrite (nbrs_edge s W t Ht). cbn [bind].
    rewrite (rflat_map_ok _ _ (fun f => [(t_name t, f_name f, arg_defaults (f_args f), gbase (f_ty f))])).
    - now rewrite flat_map_single.
    - intros f Hf. pose proof (type_edge_schema_edge s t f Ht Hf) as SE.
      change (str_prop "Edge" "name" (SVEdge f)) with (Ok (f_name f) : res string). cbn [bind].
      change (nbrs s "Edge" "parameter" HNone (SVEdge f)) with (Ok (map SVParam (f_args f))). cbn [bind].
      rewrite (parameter_defaults_eq f (schema_edge_defaults s W f SE)). cbn [bind].
      destruct (nbrs_target s W f SE) as (d & -> & Hd). cbn [bind rmap]. rewrite str_name. cbn [bind].
      now rewrite Hd.
  Qed.

  Theorem edge_targets_eq : edge_targets s = Ok (spec_edge_targets s).
  Proof.
    unfold edge_targets. rewrite edge_rows_eq. cbn [bind]. f_equal.
    unfold spec_edge_targets. rewrite flat_map_flat_map. apply flat_map_ext_in. intros t _.
    rewrite flat_map_map. apply flat_map_ext_in. intros f _.
    unfold edge_checkable. now destruct (has_undefaulted (arg_defaults (f_args f))).
  Qed.

  Theorem coercion_targets_eq : coercion_targets s = Ok (spec_coercion_targets s).
  Proof.
    unfold coercion_targets. rewrite starts_vertex_type. cbn [bind]. unfold spec_coercion_targets.
    apply rflat_map_ok. intros t Ht. apply (visible_in s) in Ht. rewrite str_name. cbn [bind].
    change (nbrs s "VertexType" "implements" HNone (SVType t)) with (implements_edge s (SVType t)).
    unfold implements_edge. cbn [as_vertex_type bind].
    assert (E : flat_map (fun n => match sget s n with Some d => [SVType d] | None => [] end) (t_impl t)
                = map (fun i => SVType (match sget s i with Some d => d | None => t end)) (t_impl t)).
    { rewrite <- flat_map_single. apply flat_map_ext_in. intros i Hi.
      destruct (w_impl s W t i Ht Hi) as (it & Hit & Hn & _). rewrite <- Hn. now rewrite (sget_in s it W Hit). }
    rewrite E. apply rmap_map_ok. intros i Hi.
    destruct (w_impl s W t i Ht Hi) as (it & Hit & Hn & _). rewrite <- Hn. rewrite (sget_in s it W Hit).
    reflexivity.
  Qed.

  (* ---------- the characterisation ---------- *)
  Theorem check_characterisation A :
    check s A = true <->
    (forall tn pn, In (tn, pn) (spec_property_targets s) -> honest_property A tn pn) /\
    (forall tn en ps, In (tn, en, ps) (spec_edge_targets s) -> honest_edge A tn en ps) /\
    (forall tn to_, In (tn, to_) (spec_coercion_targets s) -> honest_coercion A tn to_).
  Proof.
    unfold check, check_properties_are_implemented, check_edges_are_implemented, check_type_coercions_are_implemented.
    rewrite property_targets_eq, edge_targets_eq, coercion_targets_eq. cbn [ok_of].
    rewrite !andb_true_iff, !forallb_forall. split.
    - intros [[H1 H2] H3]. repeat split.
      + intros tn pn Hin. apply probe_property_iff. exact (H1 (tn, pn) Hin).
      + intros tn en ps Hin. apply probe_edge_iff. exact (H2 (tn, en, ps) Hin).
      + intros tn to_ Hin. apply probe_coercion_iff. exact (H3 (tn, to_) Hin).
    - intros (H1 & H2 & H3). repeat split.
      + intros [tn pn] Hin. apply probe_property_iff. now apply H1.
      + intros [[tn en] ps] Hin. apply probe_edge_iff. now apply H2.
      + intros [tn to_] Hin. apply probe_coercion_iff. now apply H3.
  Qed.

  (* an adapter that honours the contract passes *)
  Theorem contract_abiding_passes A :
    (forall tn pn, honest_property A tn pn) -> (forall tn en ps, honest_edge A tn en ps) ->
    (forall tn to_, honest_coercion A tn to_) -> check s A = true.
  Proof. intros H1 H2 H3. apply check_characterisation. repeat split; intros; auto. Qed.

  Theorem honest_passes : check s honest = true.
  Proof. apply contract_abiding_passes; intros; reflexivity. Qed.

  (* ANY deviation from the contract-abiding output at a probed resolver makes the checker fail *)
  Theorem property_deviation_detected A tn pn :
    In (tn, pn) (spec_property_targets s) -> ~ honest_property A tn pn -> check s A = false.
  Proof.
    intros Hin Hd. destruct (check s A) eqn:E; [|reflexivity]. exfalso. apply Hd.
    apply check_characterisation in E. destruct E as (H1 & _ & _). now apply H1.
  Qed.
  Theorem edge_deviation_detected A tn en ps :
    In (tn, en, ps) (spec_edge_targets s) -> ~ honest_edge A tn en ps -> check s A = false.
  Proof.
    intros Hin Hd. destruct (check s A) eqn:E; [|reflexivity]. exfalso. apply Hd.
    apply check_characterisation in E. destruct E as (_ & H2 & _). now apply H2.
  Qed.
  Theorem coercion_deviation_detected A tn to_ :
    In (tn, to_) (spec_coercion_targets s) -> ~ honest_coercion A tn to_ -> check s A = false.
  Proof.
    intros Hin Hd. destruct (check s A) eqn:E; [|reflexivity]. exfalso. apply Hd.
    apply check_characterisation in E. destruct E as (_ & _ & H3). now apply H3.
  Qed.

  (* ---------- `covered` decides membership in the probe lists ---------- *)
  Lemma covered_prop_in tn pn : covered s (TProp tn pn) = true <-> In (tn, pn) (spec_property_targets s).
  Proof.
    unfold covered. rewrite property_targets_eq. cbn [ok_of]. rewrite existsb_exists. split.
    - intros ([a b] & Hin & H). cbn [fst snd] in H. apply andb_prop in H. destruct H as [H1 H2].
      apply String.eqb_eq in H1, H2. now subst.
    - intros Hin. exists (tn, pn). split; [exact Hin|]. cbn [fst snd]. now rewrite !String.eqb_refl.
  Qed.
  Lemma covered_edge_in tn en : covered s (TEdge tn en) = true <-> exists ps, In (tn, en, ps) (spec_edge_targets s).
  Proof.
    unfold covered. rewrite edge_targets_eq. cbn [ok_of]. rewrite existsb_exists. split.
    - intros ([[a b] ps] & Hin & H). cbn [fst snd] in H. apply andb_prop in H. destruct H as [H1 H2].
      apply String.eqb_eq in H1, H2. subst. now exists ps.
    - intros (ps & Hin). exists (tn, en, ps). split; [exact Hin|]. cbn [fst snd]. now rewrite !String.eqb_refl.
  Qed.
  Lemma covered_coerce_in tn to_ : covered s (TCoerce tn to_) = true <-> In (tn, to_) (spec_coercion_targets s).
  Proof.
    unfold covered. rewrite coercion_targets_eq. cbn [ok_of]. rewrite existsb_exists. split.
    - intros ([a b] & Hin & H). cbn [fst snd] in H. apply andb_prop in H. destruct H as [H1 H2].
      apply String.eqb_eq in H1, H2. now subst.
    - intros Hin. exists (tn, to_). split; [exact Hin|]. cbn [fst snd]. now rewrite !String.eqb_refl.
  Qed.

  (* ---------- coverage in terms of the schema ---------- *)
  Theorem covered_property_iff tn pn :
    covered s (TProp tn pn) = true <->
    exists t, In t (sc_types s) /\ t_name t = tn /\ tn <> sc_query s /\
              (pn = "__typename" \/ exists f, In f (t_fields t) /\ fld_is_property f = true /\ f_name f = pn).
  Proof.
    rewrite covered_prop_in. unfold spec_property_targets. rewrite in_flat_map. split.
    - intros (t & Ht & Hin). apply visible_iff in Ht. destruct Ht as [Ht Hr]. exists t.
      apply in_app_or in Hin. destruct Hin as [Hin|[[= <- <-]|[]]].
      + apply in_map_iff in Hin. destruct Hin as (f & [= <- <-] & Hf).
        unfold type_properties in Hf. apply filter_In in Hf. destruct Hf as [Hf Hp].
        repeat split; auto. right. now exists f.
      + repeat split; auto.
    - intros (t & Ht & <- & Hr & Hor). exists t. split; [now apply visible_iff|]. apply in_or_app.
      destruct Hor as [->|(f & Hf & Hp & <-)]; [right; now left|left].
      apply in_map_iff. exists f. split; [reflexivity|]. unfold type_properties. apply filter_In. now split.
  Qed.

  Theorem covered_edge_iff tn en :
    covered s (TEdge tn en) = true <->
    exists t f, In t (sc_types s) /\ t_name t = tn /\ tn <> sc_query s /\ In f (t_fields t) /\
                fld_is_property f = false /\ f_name f = en /\ edge_checkable f = true.
  Proof.
    rewrite covered_edge_in. unfold spec_edge_targets. split.
    - intros (ps & Hin). apply in_flat_map in Hin. destruct Hin as (t & Ht & Hin).
      apply in_flat_map in Hin. destruct Hin as (f & Hf & Hin).
      destruct (edge_checkable f) eqn:Ec; [|destruct Hin]. destruct Hin as [[= <- <- <-]|[]].
      apply visible_iff in Ht. destruct Ht as [Ht Hr].
      unfold type_edges in Hf. apply filter_In in Hf. destruct Hf as [Hf Hp].
      exists t, f. repeat split; auto. now destruct (fld_is_property f).
    - intros (t & f & Ht & <- & Hr & Hf & Hp & <- & Ec). exists (edge_parameters (arg_defaults (f_args f))).
      apply in_flat_map. exists t. split; [now apply visible_iff|].
      apply in_flat_map. exists f. split.
      + unfold type_edges. apply filter_In. split; [exact Hf | now rewrite Hp].
      + rewrite Ec. now left.
  Qed.

  Theorem covered_coercion_iff tn to_ :
    covered s (TCoerce tn to_) = true <->
    exists t, In t (sc_types s) /\ t_name t = to_ /\ to_ <> sc_query s /\ In tn (t_impl t).
  Proof.
    rewrite covered_coerce_in. unfold spec_coercion_targets. rewrite in_flat_map. split.
    - intros (t & Ht & Hin). apply in_map_iff in Hin. destruct Hin as (i & [= <- <-] & Hi).
      apply visible_iff in Ht. destruct Ht. exists t. repeat split; auto.
    - intros (t & Ht & <- & Hr & Hi). exists t. split; [now apply visible_iff|]. apply in_map_iff. now exists tn.
  Qed.

  (* the two uncovered classes *)
  (* (a) nothing is probed on the root query type (it is reachable as a vertex when it implements an interface) *)
  Theorem root_type_uncovered :
    (forall pn, covered s (TProp (sc_query s) pn) = false) /\
    (forall en, covered s (TEdge (sc_query s) en) = false) /\
    (forall tn, covered s (TCoerce tn (sc_query s)) = false).
  Proof.
    repeat split; intros x.
    - destruct (covered s (TProp (sc_query s) x)) eqn:E; [|reflexivity].
      apply covered_property_iff in E. destruct E as (t & _ & _ & Hr & _). now exfalso.
    - destruct (covered s (TEdge (sc_query s) x)) eqn:E; [|reflexivity].
      apply covered_edge_iff in E. destruct E as (t & f & _ & _ & Hr & _). now exfalso.
    - destruct (covered s (TCoerce x (sc_query s))) eqn:E; [|reflexivity].
      apply covered_coercion_iff in E. destruct E as (t & _ & _ & Hr & _). now exfalso.
  Qed.

  (* (b) an edge with a non-nullable parameter that has no default is skipped *)
  Definition required_parameter (a : arg) : Prop :=
    gnullable (a_ty a) = false /\ match a_default a with Default _ => False | _ => True end.

  Lemma required_not_checkable f a : In a (f_args f) -> required_parameter a -> edge_checkable f = false.
  Proof.
    intros Ha [Hn Hd]. unfold edge_checkable. apply Bool.negb_false_iff. unfold has_undefaulted.
    apply existsb_exists. exists (a_name a, decoded_default a). split.
    - unfold arg_defaults. apply in_map_iff. now exists a.
    - cbn [snd]. unfold decoded_default. rewrite Hn. now destruct (a_default a).
  Qed.

  Lemma field_by_name t f g : In t (sc_types s) -> In f (t_fields t) -> In g (t_fields t) -> f_name f = f_name g -> f = g.
  Proof.
    intros Ht Hf Hg E. pose proof (w_unique_fields s W t Ht) as N. revert N Hf Hg.
    induction (t_fields t) as [|x l IH]; intros N Hf Hg; [destruct Hf|].
    cbn [map] in N. inversion N as [|? ? Hx N']; subst.
    destruct Hf as [->|Hf], Hg as [->|Hg]; auto.
    - exfalso. apply Hx. rewrite E. now apply in_map.
    - exfalso. apply Hx. rewrite <- E. now apply in_map.
  Qed.

  Theorem required_parameter_edge_uncovered t f a :
    In t (sc_types s) -> In f (t_fields t) -> In a (f_args f) -> required_parameter a ->
    covered s (TEdge (t_name t) (f_name f)) = false.
  Proof.
    intros Ht Hf Ha Hr. destruct (covered s (TEdge (t_name t) (f_name f))) eqn:E; [|reflexivity]. exfalso.
    apply covered_edge_iff in E. destruct E as (t' & f' & Ht' & Hn & _ & Hf' & _ & Hfn & Ec).
    assert (t' = t) as ->.
    { pose proof (sget_in s t' W Ht') as E1. pose proof (sget_in s t W Ht) as E2. rewrite Hn in E1. congruence. }
    assert (f' = f) as -> by (now apply (field_by_name t)).
    rewrite (required_not_checkable f a Ha Hr) in Ec. discriminate.
  Qed.

  (* conversely every other resolver a query can reach is covered *)
  Theorem visible_edge_covered t f :
    In t (sc_types s) -> t_name t <> sc_query s -> In f (t_fields t) -> fld_is_property f = false ->
    (forall a, In a (f_args f) -> ~ required_parameter a) -> covered s (TEdge (t_name t) (f_name f)) = true.
  Proof.
    intros Ht Hr Hf Hp Hall. apply covered_edge_iff. exists t, f. repeat split; auto.
    unfold edge_checkable. apply Bool.negb_true_iff. destruct (has_undefaulted (arg_defaults (f_args f))) eqn:E; [|reflexivity].
    exfalso. unfold has_undefaulted in E. apply existsb_exists in E. destruct E as ([n d] & Hin & Hd).
    unfold arg_defaults in Hin. apply in_map_iff in Hin. destruct Hin as (a & [= <- <-] & Ha). cbn [snd] in Hd.
    apply (Hall a Ha). unfold required_parameter, decoded_default in *.
    destruct (a_default a); destruct (gnullable (a_ty a)); try discriminate; auto.
  Qed.
End Targets.

(* ====================================================================================== *)
(* 3. Injected faults                                                                       *)
(* ====================================================================================== *)
Lemma initial_contexts_val : initial_contexts = [0; 1; 2; 3; 4; 5; 6; 7; 8]%Z.
Proof. reflexivity. Qed.

Definition out_tags {O} (r : res (list (Z * O))) : list Z := match r with Ok l => map fst l | Panic _ => [] end.
Definition out_vals {O} (r : res (list (Z * O))) : list O := match r with Ok l => map snd l | Panic _ => [] end.

(* every effective fault changes the contract-abiding output *)
Theorem apply_fault_breaks {O} (nv bad : O) f : bad <> nv -> fault_effective f ->
  apply_fault bad f (Ok (neutral_output nv initial_contexts)) <> Ok (neutral_output nv initial_contexts).
Proof.
  intros Hb Hf E. destruct f as [i j| |i|i|i|]; cbn [fault_effective] in Hf.
  - destruct Hf as (Hi & Hj & Hne). apply (f_equal out_tags) in E.
    do 9 (destruct i as [|i]; [do 9 (destruct j as [|j]; [first [now exfalso; apply Hne | vm_compute in E; discriminate E]|]); exfalso; lia|]).
    exfalso; lia.
  - apply (f_equal out_tags) in E. vm_compute in E. discriminate E.
  - apply (f_equal out_tags) in E.
    do 9 (destruct i as [|i]; [vm_compute in E; discriminate E|]). exfalso; lia.
  - apply (f_equal out_tags) in E.
    do 9 (destruct i as [|i]; [vm_compute in E; discriminate E|]). exfalso; lia.
  - apply (f_equal out_vals) in E.
    do 9 (destruct i as [|i]; [cbv in E; apply Hb; congruence|]). exfalso; lia.
  - discriminate E.
Qed.

Section Faults.
  Variable s : schema.
  Hypothesis W : wf_schema s.

  Lemma bad_value_ne : bad_value <> Null. Proof. discriminate. Qed.

  (* an effective fault at a probed resolver is detected ... *)
  Theorem covered_faults_detected t f : covered s t = true -> fault_effective f -> check s (inject honest t f) = false.
  Proof.
    intros Hc Hf. destruct t as [tn pn|tn en|tn to_].
    - apply (covered_prop_in s W) in Hc. apply (property_deviation_detected s W _ tn pn Hc).
      unfold honest_property, inject. cbn [a_prop]. rewrite !String.eqb_refl. cbn [andb honest a_prop].
      now apply apply_fault_breaks; [apply bad_value_ne|].
    - apply (covered_edge_in s W) in Hc. destruct Hc as (ps & Hc). apply (edge_deviation_detected s W _ tn en ps Hc).
      unfold honest_edge, inject. cbn [a_nbrs]. rewrite !String.eqb_refl. cbn [andb honest a_nbrs].
      now apply apply_fault_breaks; [discriminate|].
    - apply (covered_coerce_in s W) in Hc. apply (coercion_deviation_detected s W _ tn to_ Hc).
      unfold honest_coercion, inject. cbn [a_coerce]. rewrite !String.eqb_refl. cbn [andb honest a_coerce].
      now apply apply_fault_breaks; [discriminate|].
  Qed.

  Lemma pair_eqb_false a b c d : (a, b) <> (c, d) -> String.eqb a c && String.eqb b d = false.
  Proof.
    intros H. destruct (String.eqb a c) eqn:E1; [|reflexivity]. destruct (String.eqb b d) eqn:E2; [|reflexivity].
    apply String.eqb_eq in E1, E2. exfalso. apply H. congruence.
  Qed.

  (* ... and ANY misbehaviour confined to an unprobed resolver is not *)
  Theorem uncovered_faults_not_detected t f : covered s t = false -> check s (inject honest t f) = true.
  Proof.
    intros Hc. apply (check_characterisation s W). repeat split.
    - intros tn pn Hin. unfold honest_property, inject. cbn [a_prop]. destruct t as [tn' pn'| |]; try reflexivity.
      rewrite pair_eqb_false; [reflexivity|]. intros [= -> ->].
      apply (covered_prop_in s W) in Hin. congruence.
    - intros tn en ps Hin. unfold honest_edge, inject. cbn [a_nbrs]. destruct t as [|tn' en'|]; try reflexivity.
      rewrite pair_eqb_false; [reflexivity|]. intros [= -> ->].
      assert (covered s (TEdge tn' en') = true) by (apply (covered_edge_in s W); now exists ps). congruence.
    - intros tn to_ Hin. unfold honest_coercion, inject. cbn [a_coerce]. destruct t as [| |tn' to']; try reflexivity.
      rewrite pair_eqb_false; [reflexivity|]. intros [= -> ->].
      apply (covered_coerce_in s W) in Hin. congruence.
  Qed.

  (* more generally: an adapter that is arbitrary outside the probed resolvers passes *)
  Theorem misbehaviour_elsewhere_passes A :
    (forall tn pn, In (tn, pn) (spec_property_targets s) -> honest_property A tn pn) ->
    (forall tn en ps, In (tn, en, ps) (spec_edge_targets s) -> honest_edge A tn en ps) ->
    (forall tn to_, In (tn, to_) (spec_coercion_targets s) -> honest_coercion A tn to_) ->
    check s A = true.
  Proof. intros. apply (check_characterisation s W). auto. Qed.
End Faults.

(* ---------- the documented fault kinds, for an arbitrary adapter ---------- *)
Lemma neutral_length {O} (nv : O) : List.length (neutral_output nv initial_contexts) = 9%nat.
Proof. reflexivity. Qed.

Lemma neutral_in {O} (nv : O) c v : In (c, v) (neutral_output nv initial_contexts) -> v = nv.
Proof. unfold neutral_output. intros H. apply in_map_iff in H. destruct H as (c' & [= _ <-] & _). reflexivity. Qed.

Section Kinds.
  Variable s : schema.
  Hypothesis W : wf_schema s.
  Variable A : adapter.

  (* a context is lost or duplicated *)
  Theorem property_count_detected tn pn out : In (tn, pn) (spec_property_targets s) ->
    a_prop A tn pn initial_contexts = Ok out -> List.length out <> 9%nat -> check s A = false.
  Proof.
    intros Hin E Hl. apply (property_deviation_detected s W A tn pn Hin). unfold honest_property. rewrite E.
    intros [= ->]. apply Hl. reflexivity.
  Qed.
  (* the contexts come back in another order *)
  Theorem property_reorder_detected tn pn out : In (tn, pn) (spec_property_targets s) ->
    a_prop A tn pn initial_contexts = Ok out -> map fst out <> initial_contexts -> check s A = false.
  Proof.
    intros Hin E Hl. apply (property_deviation_detected s W A tn pn Hin). unfold honest_property. rewrite E.
    intros [= ->]. apply Hl. reflexivity.
  Qed.
  (* a non-null property for a context without vertex *)
  Theorem property_non_null_detected tn pn out c v : In (tn, pn) (spec_property_targets s) ->
    a_prop A tn pn initial_contexts = Ok out -> In (c, v) out -> v <> Null -> check s A = false.
  Proof.
    intros Hin E Hi Hv. apply (property_deviation_detected s W A tn pn Hin). unfold honest_property. rewrite E.
    intros [= ->]. apply Hv. exact (neutral_in _ c _ Hi).
  Qed.
  Theorem property_panic_detected tn pn site : In (tn, pn) (spec_property_targets s) ->
    a_prop A tn pn initial_contexts = Panic site -> check s A = false.
  Proof.
    intros Hin E. apply (property_deviation_detected s W A tn pn Hin). unfold honest_property. rewrite E. discriminate.
  Qed.

  Theorem edge_count_detected tn en ps out : In (tn, en, ps) (spec_edge_targets s) ->
    a_nbrs A tn en ps initial_contexts = Ok out -> List.length out <> 9%nat -> check s A = false.
  Proof.
    intros Hin E Hl. apply (edge_deviation_detected s W A tn en ps Hin). unfold honest_edge. rewrite E.
    intros [= ->]. apply Hl. reflexivity.
  Qed.
  Theorem edge_reorder_detected tn en ps out : In (tn, en, ps) (spec_edge_targets s) ->
    a_nbrs A tn en ps initial_contexts = Ok out -> map fst out <> initial_contexts -> check s A = false.
  Proof.
    intros Hin E Hl. apply (edge_deviation_detected s W A tn en ps Hin). unfold honest_edge. rewrite E.
    intros [= ->]. apply Hl. reflexivity.
  Qed.
  (* any neighbour for a context without vertex *)
  Theorem edge_neighbor_detected tn en ps out c n : In (tn, en, ps) (spec_edge_targets s) ->
    a_nbrs A tn en ps initial_contexts = Ok out -> In (c, n) out -> n <> O -> check s A = false.
  Proof.
    intros Hin E Hi Hv. apply (edge_deviation_detected s W A tn en ps Hin). unfold honest_edge. rewrite E.
    intros [= ->]. apply Hv. exact (neutral_in _ c _ Hi).
  Qed.

  Theorem coercion_count_detected tn to_ out : In (tn, to_) (spec_coercion_targets s) ->
    a_coerce A tn to_ initial_contexts = Ok out -> List.length out <> 9%nat -> check s A = false.
  Proof.
    intros Hin E Hl. apply (coercion_deviation_detected s W A tn to_ Hin). unfold honest_coercion. rewrite E.
    intros [= ->]. apply Hl. reflexivity.
  Qed.
  Theorem coercion_reorder_detected tn to_ out : In (tn, to_) (spec_coercion_targets s) ->
    a_coerce A tn to_ initial_contexts = Ok out -> map fst out <> initial_contexts -> check s A = false.
  Proof.
    intros Hin E Hl. apply (coercion_deviation_detected s W A tn to_ Hin). unfold honest_coercion. rewrite E.
    intros [= ->]. apply Hl. reflexivity.
  Qed.
  (* a true coercion for a context without vertex *)
  Theorem coercion_true_detected tn to_ out c : In (tn, to_) (spec_coercion_targets s) ->
    a_coerce A tn to_ initial_contexts = Ok out -> In (c, true) out -> check s A = false.
  Proof.
    intros Hin E Hi. apply (coercion_deviation_detected s W A tn to_ Hin). unfold honest_coercion. rewrite E.
    intros [= ->]. pose proof (neutral_in false c true Hi). discriminate.
  Qed.
End Kinds.

(* ====================================================================================== *)
(* 4. SchemaAdapter passes its own checker (clause of C20)                                   *)
(* ====================================================================================== *)
Theorem intro_passes_checker : forall s, check (schema_of_doc meta_doc) (intro_adapter s) = true.
Proof. intros s. vm_compute. reflexivity. Qed.

(* ====================================================================================== *)
(* 5. Witnesses                                                                             *)
(* ====================================================================================== *)
(* schema { query: Root }  interface Named { self: [Named!] }
   type Thing implements Named { self: [Named!]  label: String  other(lo: Int!, hi: Int = 5): Thing }
   type Root implements Named { self: [Named!]  things(first: Int = 10): [Thing!]! } *)
Definition wit2_doc : doc :=
  [ DSchema (Some "Root");
    DType (mkT "Named" VInterface [] [mkFld "self" [] (GList (GNamed "Named" false) true)]);
    DType (mkT "Thing" VObject ["Named"]
             [mkFld "self" [] (GList (GNamed "Named" false) true);
              mkFld "label" [] (GNamed "String" true);
              mkFld "other" [mkArg "lo" (GNamed "Int" false) NoDefault; mkArg "hi" (GNamed "Int" true) (Default (I64 5))]
                    (GNamed "Thing" true)]);
    DType (mkT "Root" VObject ["Named"]
             [mkFld "self" [] (GList (GNamed "Named" false) true);
              mkFld "things" [mkArg "first" (GNamed "Int" true) (Default (I64 10))] (GList (GNamed "Thing" false) false)]) ].
Definition wit2 : schema := schema_of_doc wit2_doc.
Lemma wit2_not_known : ~ Known wit2_doc.
Proof. unfold Known. vm_compute. discriminate. Qed.
Lemma wit2_valid : valid_schema wit2_doc.
Proof. apply (SchemaProofs.schema_new_exact _ wit2_not_known). vm_compute. reflexivity. Qed.
Lemma wit2_wf : wf_schema wit2.
Proof. apply valid_wf; [exact wit2_valid | exact wit2_not_known]. Qed.

(* the full statement "every single injected violation on any resolver is caught" is false *)
Theorem every_fault_detected_refuted :
  (* an edge with a required parameter *)
  check wit2 (inject honest (TEdge "Thing" "other") (FBad 0)) = true /\
  (* the root query type, reachable here through `... on Root` below Thing.self *)
  check wit2 (inject honest (TProp "Root" "__typename") (FBad 0)) = true /\
  check wit2 (inject honest (TEdge "Root" "things") (FBad 0)) = true /\
  check wit2 (inject honest (TCoerce "Named" "Root") (FBad 0)) = true.
Proof. repeat split; vm_compute; reflexivity. Qed.

Lemma wit2_covered :
  covered wit2 (TProp "Thing" "label") = true /\ covered wit2 (TEdge "Thing" "self") = true /\
  covered wit2 (TCoerce "Named" "Thing") = true /\
  check wit2 (inject honest (TCoerce "Named" "Thing") (FSwap 3 7)) = false /\
  check wit2 honest = true.
Proof. repeat split; vm_compute; reflexivity. Qed.
