(* Decode.v — model of trustfall_core/src/serialization/{mod.rs,deserializers.rs}:
   `TryIntoStruct::try_into_struct` for result rows (BTreeMap<Arc<str>, FieldValue>) and for edge
   params (same deserializer over a clone of the contents map), i.e. QueryResultDeserializer,
   QueryResultMapDeserializer and FieldValueDeserializer, COMPOSED WITH the third-party behaviour of
   serde 1.0.229 (serde_core/src/de/impls.rs: `impl_deserialize_num!` visitors, BoolVisitor,
   StringVisitor, OptionVisitor, VecVisitor, TupleVisitor, UnitVisitor, IgnoredAny;
   serde/src/private/de.rs: `missing_field`; serde_derive's struct visitor).  The serde part is
   modelled, not verified: it is tied to the real crates only by the differential run.
   Model file: definitions only (proofs are in DecodeProofs.v). *)
From TF Require Import Values.
Open Scope Z_scope.

(* ------------------------------------------------------------------ targets and decoded values *)

(* Rust field types a row value can be decoded into.  `TTuple []` is the unit type `()`. *)
Inductive target :=
| TI8 | TI16 | TI32 | TI64 | TU8 | TU16 | TU32 | TU64
| TF32 | TF64 | TBool | TString
| TOption (t : target)
| TVec (t : target)
| TTuple (ts : list target).

(* Decoded Rust values.  Floats carry their IEEE-754 bit pattern (f64::to_bits / f32::to_bits). *)
Inductive tv :=
| VInt (z : Z)
| VF64 (bits : N)
| VF32 (bits : N)
| VBool (b : bool)
| VStr (s : string)
| VNone
| VSome (v : tv)
| VSeq (l : list tv).

(* serialization::deserializers::Error has the single variant Custom(String); the model keeps the
   reason so that the tie can compare it (classified from the message text by the harness). *)
Inductive derr :=
| ERange     (* TryFromIntError through Error::custom, or serde's `invalid value: integer ..` *)
| EType      (* serde's default visit_*: `invalid type: .., expected ..` *)
| ELen       (* deserialize_tuple's length check / serde's `invalid length` *)
| EMissing   (* serde's `missing field` *)
| EDup.      (* serde's `duplicate field` (unreachable from a BTreeMap) *)

(* Outcome of decoding: a value, a returned Err, or a panic at a named site. *)
Inductive dres (A : Type) := DOk (a : A) | DErr (e : derr) | DPanic (site : string).
Arguments DOk {A} a.
Arguments DErr {A} e.
Arguments DPanic {A} site.
Definition dbind {A B} (r : dres A) (f : A -> dres B) : dres B :=
  match r with DOk a => f a | DErr e => DErr e | DPanic s => DPanic s end.
Notation "'dlet' x <- r ; k" := (dbind r (fun x => k)) (at level 200, x name, r at level 100, k at level 200).
Definition dmap_res {A B} (f : A -> B) (r : dres A) : dres B := dlet a <- r; DOk (f a).

(* element-wise decoding of a sequence, left to right, stopping at the first Err / panic
   (SeqDeserializer::next_element_seed driven by VecVisitor's `while let Some(..) = ..?`) *)
Section DMap.
  Variable A B : Type.
  Variable f : A -> dres B.
  Fixpoint dmap (l : list A) : dres (list B) :=
    match l with
    | [] => DOk []
    | x :: r => dlet y <- f x; dlet ys <- dmap r; DOk (y :: ys)
    end.
End DMap.
Arguments dmap {A B} f l.

(* ------------------------------------------------------------------ integer targets *)

Definition trange (t : target) : option (Z * Z) :=
  match t with
  | TI8 => Some (-128, 127)
  | TI16 => Some (-32768, 32767)
  | TI32 => Some (-2147483648, 2147483647)
  | TI64 => Some (i64_min, i64_max)
  | TU8 => Some (0, 255)
  | TU16 => Some (0, 65535)
  | TU32 => Some (0, 4294967295)
  | TU64 => Some (0, u64_max)
  | _ => None
  end.

(* `T::try_from(x)` succeeds *)
Definition fits (t : target) (z : Z) : bool :=
  match trange t with Some (lo, hi) => (lo <=? z) && (z <=? hi) | None => false end.

(* ------------------------------------------------------------------ IEEE-754 conversions (`as`) *)

(* Round the positive dyadic number m * 2^e (m > 0) to the binary format with precision p (hidden
   bit included) whose least subnormal is 2^emin, round-to-nearest ties-to-even.  The result is the
   magnitude bit pattern with an unbounded exponent field: (biased exponent) * 2^(p-1) + fraction;
   a carry out of the significand lands in the exponent field by plain addition. *)
Definition round_mag (p emin m e : Z) : Z :=
  let k := Z.log2 m in
  let e' := Z.max (k + e - (p - 1)) emin in
  if e' <=? e then (e' - emin) * 2 ^ (p - 1) + m * 2 ^ (e - e')
  else
    let sh := e' - e in
    let q := m / 2 ^ sh in
    let r := m mod 2 ^ sh in
    let half := 2 ^ (sh - 1) in
    let q' := if (half <? r) || ((r =? half) && Z.odd q) then q + 1 else q in
    (e' - emin) * 2 ^ (p - 1) + q'.

(* overflow: everything at or above the infinity pattern is infinity *)
Definition clamp (inf x : Z) : Z := if inf <=? x then inf else x.

Definition f64_inf : Z := 2047 * 2 ^ 52.
Definition f32_inf : Z := 255 * 2 ^ 23.

(* `z as f64` / `z as f32` for an integer z (i64 or u64) *)
Definition int_to_f64 (z : Z) : Z :=
  if z =? 0 then 0
  else (if z <? 0 then 2 ^ 63 else 0) + clamp f64_inf (round_mag 53 (-1074) (Z.abs z) 0).
Definition int_to_f32 (z : Z) : Z :=
  if z =? 0 then 0
  else (if z <? 0 then 2 ^ 31 else 0) + clamp f32_inf (round_mag 24 (-149) (Z.abs z) 0).

(* magnitude bit pattern of a finite float -> (m, e) with |value| = m * 2^e *)
Definition mag_val (p emin B : Z) : Z * Z :=
  let E := B / 2 ^ (p - 1) in
  let f := B mod 2 ^ (p - 1) in
  if E =? 0 then (f, emin) else (2 ^ (p - 1) + f, E - 1 + emin).

Definition f64_neg (B : Z) : bool := 2 ^ 63 <=? B.
Definition f64_mag (B : Z) : Z := if f64_neg B then B - 2 ^ 63 else B.
Definition f32_neg (B : Z) : bool := 2 ^ 31 <=? B.
Definition f32_mag (B : Z) : Z := if f32_neg B then B - 2 ^ 31 else B.

(* `x as f32` for x : f64 given by its bits.  A NaN becomes the canonical quiet NaN (the payload
   is not modelled; the renderers print every f32 NaN the same way). *)
Definition f64_to_f32 (b : Z) : Z :=
  let sign := if f64_neg b then 2 ^ 31 else 0 in
  let mag := f64_mag b in
  if f64_inf <=? mag then (if mag =? f64_inf then sign + f32_inf else sign + f32_inf + 2 ^ 22)
  else
    let (m, e) := mag_val 53 (-1074) mag in
    if m =? 0 then sign else sign + clamp f32_inf (round_mag 24 (-149) m e).

(* ------------------------------------------------------------------ serde's primitive visitors *)

Definition todo_site : string := "deserializers.rs:deserialize_any FieldValue::Enum todo!()".

(* PrimitiveVisitor::visit_i64 for the target's `impl_deserialize_num!` instance
   (num_self / int_to_int / int_to_uint / num_as_self); every other visitor: default = invalid type *)
Definition visit_i64 (t : target) (z : Z) : dres tv :=
  match t with
  | TI64 => DOk (VInt z)                                                   (* num_self *)
  | TI8 | TI16 | TI32 => if fits t z then DOk (VInt z) else DErr ERange    (* int_to_int *)
  | TU8 | TU16 | TU32 | TU64 =>                                            (* int_to_uint *)
      if 0 <=? z then (if fits t z then DOk (VInt z) else DErr ERange) else DErr ERange
  | TF64 => DOk (VF64 (Z.to_N (int_to_f64 z)))                             (* num_as_self: v as f64 *)
  | TF32 => DOk (VF32 (Z.to_N (int_to_f32 z)))                             (* num_as_self: v as f32 *)
  | _ => DErr EType
  end.

Definition visit_u64 (t : target) (z : Z) : dres tv :=
  match t with
  | TU64 => DOk (VInt z)                                                   (* num_self *)
  | TI8 | TI16 | TI32 | TI64 | TU8 | TU16 | TU32 =>                        (* uint_to_self *)
      if fits t z then DOk (VInt z) else DErr ERange
  | TF64 => DOk (VF64 (Z.to_N (int_to_f64 z)))
  | TF32 => DOk (VF32 (Z.to_N (int_to_f32 z)))
  | _ => DErr EType
  end.

Definition visit_f64 (t : target) (b : N) : dres tv :=
  match t with
  | TF64 => DOk (VF64 b)                                                   (* num_self *)
  | TF32 => DOk (VF32 (Z.to_N (f64_to_f32 (Z.of_N b))))                    (* num_as_copysign_self *)
  | _ => DErr EType
  end.

Definition visit_str (t : target) (s : string) : dres tv :=
  match t with TString => DOk (VStr s) | _ => DErr EType end.

Definition visit_bool (t : target) (b : bool) : dres tv :=
  match t with TBool => DOk (VBool b) | _ => DErr EType end.

(* FieldValueDeserializer::deserialize_any with the primitive visitor of target t *)
Definition de_any_prim (t : target) (v : fv) : dres tv :=
  match v with
  | Null => DErr EType                       (* visit_none: not implemented by primitive visitors *)
  | I64 z => visit_i64 t z
  | U64 z => visit_u64 t z
  | F64 b => visit_f64 t b
  | Str s => visit_str t s
  | Boolv b => visit_bool t b
  | Enum _ => DPanic todo_site
  | List _ => DErr EType                     (* visit_seq: not implemented by primitive visitors *)
  end.

(* deserialize_any reaching a visit_* method that the (Vec / tuple / unit) visitor does not have *)
Definition de_any_other (v : fv) : dres tv :=
  match v with Enum _ => DPanic todo_site | _ => DErr EType end.

(* FieldValueDeserializer::deserialize_{i8,i16,i32,u8,u16,u32}: checked `try_into`, then the
   visitor's own visit_iN (num_self) *)
Definition de_small_int (t : target) (v : fv) : dres tv :=
  match v with
  | I64 z | U64 z => if fits t z then DOk (VInt z) else DErr ERange
  | _ => de_any_prim t v
  end.

(* FieldValueDeserializer::deserialize_f32: `visitor.visit_f32(v as f32)` for Float64 *)
Definition de_f32 (v : fv) : dres tv :=
  match v with
  | F64 b => DOk (VF32 (Z.to_N (f64_to_f32 (Z.of_N b))))
  | _ => de_any_prim TF32 v
  end.

(* `<T as Deserialize>::deserialize(FieldValueDeserializer { value })` *)
Fixpoint decode (t : target) (v : fv) {struct t} : dres tv :=
  match t with
  | TI8 | TI16 | TI32 | TU8 | TU16 | TU32 => de_small_int t v
  | TF32 => de_f32 v
  | TI64 | TU64 | TF64 | TBool | TString => de_any_prim t v     (* forward_to_deserialize_any! *)
  | TOption t' =>
      (* deserialize_option: Null => visit_none, _ => visit_some(self) *)
      match v with
      | Null => DOk VNone
      | _ => dmap_res VSome (decode t' v)
      end
  | TVec t' =>
      (* deserialize_seq -> deserialize_any; VecVisitor only has visit_seq *)
      match v with
      | List l => dmap_res VSeq (dmap (decode t') l)
      | _ => de_any_other v
      end
  | TTuple [] =>
      (* `()`: deserialize_unit -> deserialize_any; UnitVisitor only has visit_unit, never called *)
      de_any_other v
  | TTuple ts =>
      (* deserialize_tuple(len): length check on lists, then deserialize_any with TupleVisitor *)
      match v with
      | List l =>
          if negb (Nat.eqb (List.length ts) (List.length l)) then DErr ELen else
          dmap_res VSeq
            ((fix go (ts : list target) (l : list fv) {struct ts} : dres (list tv) :=
                match ts, l with
                | [], _ => DOk []                      (* visit_seq does not look at the rest *)
                | _ :: _, [] => DErr ELen              (* Error::invalid_length *)
                | t1 :: ts', x :: l' =>
                    dlet y <- decode t1 x; dlet ys <- go ts' l'; DOk (y :: ys)
                end) ts l)
      | _ => de_any_other v
      end
  end.

(* ------------------------------------------------------------------ rows into structs *)

(* a row / an edge-params map in BTreeMap iteration order; a struct as its fields in declaration
   order *)
Definition row := list (string * fv).
Definition sdef := list (string * target).

Fixpoint field_target (fields : sdef) (k : string) : option target :=
  match fields with
  | [] => None
  | (n, t) :: r => if String.eqb n k then Some t else field_target r k
  end.

Fixpoint slot {A} (acc : list (string * A)) (k : string) : option A :=
  match acc with
  | [] => None
  | (n, x) :: r => if String.eqb n k then Some x else slot r k
  end.

(* the derived visitor's visit_map loop: next_key::<__Field>() / next_value::<T>();
   unknown keys are `__ignore`d through IgnoredAny (deserialize_ignored_any => visit_none: the
   value is not inspected) *)
Fixpoint decode_entries (fields : sdef) (r : row) (acc : list (string * tv)) : dres (list (string * tv)) :=
  match r with
  | [] => DOk acc
  | (k, v) :: rest =>
      match field_target fields k with
      | Some t =>
          match slot acc k with
          | Some _ => DErr EDup
          | None => dlet x <- decode t v; decode_entries fields rest ((k, x) :: acc)
          end
      | None => decode_entries fields rest acc
      end
  end.

(* after the loop: `None => serde::__private::de::missing_field(name)`, which yields None for an
   Option field (MissingFieldDeserializer::deserialize_option => visit_none) and Err otherwise *)
Definition finish_field (acc : list (string * tv)) (f : string * target) : dres tv :=
  match slot acc (fst f) with
  | Some x => DOk x
  | None => match snd f with TOption _ => DOk VNone | _ => DErr EMissing end
  end.

(* TryIntoStruct::try_into_struct::<S>() for BTreeMap<Arc<str>, FieldValue>; the result lists the
   struct's fields in declaration order *)
Definition decode_row (fields : sdef) (r : row) : dres (list tv) :=
  dlet acc <- decode_entries fields r []; dmap (finish_field acc) fields.

(* TryIntoStruct for &Edge-params: a clone of `self.contents` fed to the same deserializer *)
Definition decode_params (fields : sdef) (contents : row) : dres (list tv) := decode_row fields contents.

(* ------------------------------------------------------------------ specification vocabulary *)

(* two dyadic numbers m1*2^e1 and m2*2^e2 are equal *)
Definition dy_eq (a b : Z * Z) : bool :=
  let (m1, e1) := a in let (m2, e2) := b in
  let lo := Z.min e1 e2 in
  m1 * 2 ^ (e1 - lo) =? m2 * 2 ^ (e2 - lo).

(* m*2^e (m > 0) needs no rounding in the format (p, emin): the bits below the format's last
   place are zero *)
Definition dy_exactb (p emin m e : Z) : bool :=
  let e' := Z.max (Z.log2 m + e - (p - 1)) emin in
  (e' <=? e) || (m mod 2 ^ (e' - e) =? 0).

(* the binary64 value with bits b is finite and equals the integer z *)
Definition f64_is_int (b : N) (z : Z) : bool :=
  let B := Z.of_N b in
  (B <? 2 ^ 64) && (f64_mag B <? f64_inf) && Bool.eqb (f64_neg B) (z <? 0)
  && dy_eq (mag_val 53 (-1074) (f64_mag B)) (Z.abs z, 0).
Definition f32_is_int (b : N) (z : Z) : bool :=
  let B := Z.of_N b in
  (B <? 2 ^ 32) && (f32_mag B <? f32_inf) && Bool.eqb (f32_neg B) (z <? 0)
  && dy_eq (mag_val 24 (-149) (f32_mag B)) (Z.abs z, 0).
(* the finite binary32 value with bits b32 equals the finite binary64 value with bits b (same sign,
   also for zeros) *)
Definition f32_eq_f64 (b32 b : N) : bool :=
  let B32 := Z.of_N b32 in let B := Z.of_N b in
  (B32 <? 2 ^ 32) && (f32_mag B32 <? f32_inf) && (B <? 2 ^ 64) && (f64_mag B <? f64_inf)
  && Bool.eqb (f32_neg B32) (f64_neg B)
  && dy_eq (mag_val 24 (-149) (f32_mag B32)) (mag_val 53 (-1074) (f64_mag B)).

(* integer z is exactly representable in binary64 / binary32: at most 53 / 24 significant bits *)
Definition f64_exactb (z : Z) : bool := (z =? 0) || dy_exactb 53 (-1074) (Z.abs z) 0.
Definition f32_exactb (z : Z) : bool := (z =? 0) || dy_exactb 24 (-149) (Z.abs z) 0.
(* the finite binary64 value with bits b is exactly representable in binary32: zero, or no bits
   below binary32's last place and magnitude below 2^128 *)
Definition f64_fits_f32 (b : N) : bool :=
  let (m, e) := mag_val 53 (-1074) (f64_mag (Z.of_N b)) in
  (m =? 0) || (dy_exactb 24 (-149) m e && (Z.log2 m + e <? 128)).

(* "the decoded value IS the row value" *)
Fixpoint denotes (x : tv) (v : fv) {struct x} : Prop :=
  match x with
  | VInt z => match v with I64 z' | U64 z' => z = z' | _ => False end
  | VF64 b =>
      match v with
      | F64 b' => b = b'
      | I64 z | U64 z => f64_is_int b z = true
      | _ => False
      end
  | VF32 b =>
      match v with
      | F64 b' => f32_eq_f64 b b' = true
      | I64 z | U64 z => f32_is_int b z = true
      | _ => False
      end
  | VBool b => match v with Boolv b' => b = b' | _ => False end
  | VStr s => match v with Str s' => s = s' | _ => False end
  | VNone => match v with Null => True | _ => False end
  | VSome y => v <> Null /\ denotes y v
  | VSeq xs =>
      match v with
      | List l =>
          (fix all2 (xs : list tv) (l : list fv) {struct xs} : Prop :=
             match xs, l with
             | [], [] => True
             | y :: xs', w :: l' => denotes y w /\ all2 xs' l'
             | _, _ => False
             end) xs l
      | _ => False
      end
  end.

(* integers inside the value are within what i64 / u64 can hold *)
Fixpoint ints_wf (v : fv) : bool :=
  match v with
  | I64 z => (i64_min <=? z) && (z <=? i64_max)
  | U64 z => (0 <=? z) && (z <=? u64_max)
  | List l => forallb ints_wf l
  | _ => true
  end.

(* the known-defect input classes (F16): a float target position fed by an integer that is not
   exactly representable (K-int-into-float), or an f32 position fed by a finite f64 that is not
   exactly representable in binary32 (K-float-narrowing) *)
Fixpoint lossy (t : target) (v : fv) {struct t} : bool :=
  match t, v with
  | TF64, I64 z | TF64, U64 z => negb (f64_exactb z)
  | TF32, I64 z | TF32, U64 z => negb (f32_exactb z)
  | TF32, F64 b => negb (f64_fits_f32 b)
  | TOption t', _ => lossy t' v
  | TVec t', List l => existsb (lossy t') l
  | TTuple ts, List l =>
      (fix go (ts : list target) (l : list fv) {struct ts} : bool :=
         match ts, l with
         | t1 :: ts', x :: l' => lossy t1 x || go ts' l'
         | _, _ => false
         end) ts l
  | _, _ => false
  end.

(* no Enum anywhere in the value *)
Fixpoint enum_free (v : fv) : bool :=
  match v with
  | Enum _ => false
  | List l => forallb enum_free l
  | _ => true
  end.

(* ------------------------------------------------------------------ canonical rendering (tie) *)
From Coq Require Import DecimalString.
Open Scope string_scope.

Definition dzs (z : Z) : string := NilZero.string_of_int (Z.to_int z).
Definition hexdig (n : N) : ascii := ascii_of_N (if N.ltb n 10 then 48 + n else 87 + n)%N.
Fixpoint hexs (s : string) : string :=
  match s with
  | EmptyString => EmptyString
  | String a r => let n := N_of_ascii a in
                  String (hexdig (N.div n 16)) (String (hexdig (N.modulo n 16)) (hexs r))
  end.

Definition f32_is_nan (b : N) : bool :=
  let m := f32_mag (Z.of_N b) in (f32_inf <? m)%Z.

Fixpoint show_tv (x : tv) : string :=
  match x with
  | VInt z => "i" ++ dzs z
  | VF64 b => "d" ++ dzs (Z.of_N b)
  | VF32 b => if f32_is_nan b then "gnan" else "g" ++ dzs (Z.of_N b)
  | VBool b => if b then "T" else "F"
  | VStr s => "s" ++ hexs s
  | VNone => "N"
  | VSome y => "S(" ++ show_tv y ++ ")"
  | VSeq l => "[" ++ String.concat "," (map show_tv l) ++ "]"
  end.

Definition show_derr (e : derr) : string :=
  match e with
  | ERange => "range" | EType => "type" | ELen => "len" | EMissing => "missing" | EDup => "dup"
  end.

Definition show_dres {A} (f : A -> string) (r : dres A) : string :=
  match r with
  | DOk a => "OK:" ++ f a
  | DErr e => "ERR:" ++ show_derr e
  | DPanic _ => "PANIC"
  end.

Definition show_fields (l : list tv) : string := String.concat ";" (map show_tv l).
