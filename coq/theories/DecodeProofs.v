(* DecodeProofs.v — lemmas about the Decode model (C18): IEEE rounding facts for the `as` casts,
   integer range exactness, faithfulness of decode outside the F16 classes, panic characterisation,
   structure lemmas, and the row / struct level. *)
From Coq Require Import Lia.
From TF Require Import Values Decode.
Open Scope Z_scope.

(* ================================================================== floats *)

Lemma pow2_pos n : 0 <= n -> 0 < 2 ^ n.
Proof. intros. apply Z.pow_pos_nonneg; lia. Qed.

Lemma pow2_split a b : 0 <= a -> 0 <= b -> 2 ^ (a + b) = 2 ^ a * 2 ^ b.
Proof. intros. apply Z.pow_add_r; lia. Qed.

Lemma pow2_le a b : 0 <= a <= b -> 2 ^ a <= 2 ^ b.
Proof. intros. apply Z.pow_le_mono_r; lia. Qed.

Lemma pow2_lt a b : 0 <= a < b -> 2 ^ a < 2 ^ b.
Proof. intros. apply Z.pow_lt_mono_r; lia. Qed.

Lemma log2_bounds m : 0 < m -> 0 <= Z.log2 m /\ 2 ^ Z.log2 m <= m < 2 ^ (Z.log2 m + 1).
Proof.
  intros Hm. split. apply Z.log2_nonneg.
  pose proof (Z.log2_spec m Hm) as H. rewrite <- Z.add_1_r in H. exact H.
Qed.

(* mag_val of a composed pattern *)
Lemma mag_val_compose p emin E0 q :
  1 <= p -> 0 <= E0 ->
  (E0 = 0 /\ 0 <= q < 2 ^ (p - 1)) \/ (2 ^ (p - 1) <= q < 2 * 2 ^ (p - 1)) ->
  mag_val p emin (E0 * 2 ^ (p - 1) + q) = (q, E0 + emin).
Proof.
  intros Hp HE Hq. unfold mag_val.
  pose proof (pow2_pos (p - 1) ltac:(lia)) as HP.
  set (P := 2 ^ (p - 1)) in *.
  destruct Hq as [[-> Hq] | Hq].
  - rewrite Z.mul_0_l, Z.add_0_l. rewrite Z.div_small, Z.mod_small by lia. reflexivity.
  - assert (Hd : (E0 * P + q) / P = E0 + 1).
    { symmetry. apply (Z.div_unique _ _ _ (q - P)); lia. }
    assert (Hm : (E0 * P + q) mod P = q - P).
    { symmetry. apply (Z.mod_unique _ _ (E0 + 1)); lia. }
    rewrite Hd, Hm. destruct (Z.eqb_spec (E0 + 1) 0) as [E|E]; [lia|].
    f_equal; lia.
Qed.

Lemma mag_val_carry p emin E0 :
  1 <= p -> 0 <= E0 ->
  mag_val p emin (E0 * 2 ^ (p - 1) + 2 * 2 ^ (p - 1)) = (2 ^ (p - 1), E0 + 1 + emin).
Proof.
  intros Hp HE.
  replace (E0 * 2 ^ (p - 1) + 2 * 2 ^ (p - 1)) with ((E0 + 1) * 2 ^ (p - 1) + 2 ^ (p - 1)) by lia.
  apply mag_val_compose; [lia|lia|]. right.
  pose proof (pow2_pos (p - 1) ltac:(lia)). lia.
Qed.

Lemma dy_eq_hi q e' m e : e <= e' -> dy_eq (q, e') (m, e) = (q * 2 ^ (e' - e) =? m).
Proof.
  intros H. unfold dy_eq. rewrite Z.min_r by lia. rewrite Z.sub_diag. cbn [Z.pow]. now rewrite Z.mul_1_r.
Qed.

Lemma dy_eq_lo q e' m e : e' <= e -> dy_eq (q, e') (m, e) = (q =? m * 2 ^ (e - e')).
Proof.
  intros H. unfold dy_eq. rewrite Z.min_l by lia. rewrite Z.sub_diag. cbn [Z.pow]. now rewrite Z.mul_1_r.
Qed.

(* the exponent chosen by round_mag *)
Definition rexp (p emin m e : Z) : Z := Z.max (Z.log2 m + e - (p - 1)) emin.

Lemma round_mag_props p emin m e :
  1 <= p -> 0 < m ->
  let R := round_mag p emin m e in
  let e' := rexp p emin m e in
  let P := 2 ^ (p - 1) in
  0 <= R /\
  R <= (e' - emin + 2) * P /\
  (dy_exactb p emin m e = true -> R < (e' - emin + 2) * P) /\
  (emin <= Z.log2 m + e - (p - 1) -> (e' - emin + 1) * P <= R) /\
  dy_eq (mag_val p emin R) (m, e) = dy_exactb p emin m e.
Proof.
  intros Hp Hm R e' P.
  destruct (log2_bounds m Hm) as [Hk0 Hk].
  pose proof (pow2_pos (p - 1) ltac:(lia)) as HP. fold P in HP.
  assert (He'min : emin <= e') by (unfold e', rexp; lia).
  unfold R, round_mag, dy_exactb. fold (rexp p emin m e). fold e'. fold P.
  set (k := Z.log2 m) in *.
  assert (He' : (e' = emin /\ k + e - (p - 1) < emin) \/ (e' = k + e - (p - 1) /\ emin <= k + e - (p - 1))).
  { unfold e', rexp. fold k. lia. }
  clearbody e'. clear R.
  destruct (Z.leb_spec e' e) as [Hle|Hlt].
  - (* exact path *)
    cbn [orb].
    set (q := m * 2 ^ (e - e')).
    assert (Hq0 : 0 < q).
    { unfold q. apply Z.mul_pos_pos; [lia | apply pow2_pos; lia]. }
    assert (Hcases : (e' - emin = 0 /\ 0 <= q < P) \/ (P <= q < 2 * P)).
    { destruct He' as [[Hmx Hc]|[Hmx Hc]]; subst e'.
      - (* e' = emin *) left. split; [lia|]. split; [lia|].
        unfold q, P.
        assert (2 ^ (k + 1) * 2 ^ (e - emin) <= 2 ^ (p - 1)).
        { rewrite <- pow2_split by lia. apply pow2_le. lia. }
        pose proof (pow2_pos (e - emin) ltac:(lia)). nia.
      - (* e' = k + e - (p-1) *) right.
        replace (e - (k + e - (p - 1))) with (p - 1 - k) in * by lia.
        unfold q. replace (e - (k + e - (p - 1))) with (p - 1 - k) by lia.
        assert (2 ^ k * 2 ^ (p - 1 - k) = P).
        { rewrite <- pow2_split by lia. unfold P. f_equal. lia. }
        assert (2 ^ (k + 1) * 2 ^ (p - 1 - k) = 2 * P).
        { rewrite <- pow2_split by lia. unfold P. replace (k + 1 + (p - 1 - k)) with (1 + (p - 1)) by lia.
          rewrite pow2_split by lia. reflexivity. }
        pose proof (pow2_pos (p - 1 - k) ltac:(lia)). nia. }
    repeat split.
    + nia.
    + destruct Hcases as [[? ?]|?]; nia.
    + intros _. destruct Hcases as [[? ?]|?]; nia.
    + intros Hn. destruct Hcases as [[Hz ?]|?]; [|nia].
      (* e' = emin and normal: q >= P anyway *)
      assert (e' = k + e - (p - 1)) by lia.
      assert (2 ^ k * 2 ^ (p - 1 - k) = P).
      { rewrite <- pow2_split by lia. unfold P. f_equal. lia. }
      unfold q in *. replace (e - e') with (p - 1 - k) in * by lia.
      pose proof (pow2_pos (p - 1 - k) ltac:(lia)). nia.
    + rewrite mag_val_compose; [ | lia | lia | destruct Hcases as [[? ?]|?]; [left|right]; lia].
      replace (e' - emin + emin) with e' by lia.
      rewrite dy_eq_lo by lia. apply Z.eqb_refl.
  - (* rounding path *)
    cbn [orb].
    set (sh := e' - e) in *.
    assert (Hsh : 1 <= sh) by (unfold sh; lia).
    pose proof (pow2_pos sh ltac:(lia)) as HS.
    pose proof (Z.div_mod m (2 ^ sh) ltac:(lia)) as Hdm.
    pose proof (Z.mod_pos_bound m (2 ^ sh) HS) as Hr.
    set (q := m / 2 ^ sh) in *. set (r := m mod 2 ^ sh) in *.
    assert (Hhalf : 1 <= 2 ^ (sh - 1)) by (pose proof (pow2_pos (sh - 1) ltac:(lia)); lia).
    assert (Hq0 : 0 <= q) by (unfold q; apply Z.div_pos; lia).
    assert (Hcases : (e' - emin = 0 /\ k + e - (p - 1) < emin /\ 0 <= q < P) \/ (e' = k + e - (p - 1) /\ P <= q < 2 * P)).
    { destruct He' as [[Hmx Hc]|[Hmx Hc]].
      - left. split; [lia|]. split; [lia|]. split; [lia|].
        (* m < 2^(k+1) <= 2^(sh + p - 1) *)
        assert (2 ^ (k + 1) <= 2 ^ sh * P).
        { unfold P. rewrite <- pow2_split by lia. apply pow2_le. lia. }
        nia.
      - right. split; [assumption|].
        assert (Hshk : sh = k - (p - 1)) by lia.
        assert (2 ^ k = 2 ^ sh * P).
        { unfold P. rewrite <- pow2_split by lia. f_equal. lia. }
        assert (2 ^ (k + 1) = 2 ^ sh * (2 * P)).
        { replace (k + 1) with (1 + k) by lia. rewrite pow2_split by lia. change (2 ^ 1) with 2. lia. }
        nia. }
    set (up := (2 ^ (sh - 1) <? r) || ((r =? 2 ^ (sh - 1)) && Z.odd q)).
    set (q' := if up then q + 1 else q).
    assert (Hq' : q <= q' <= q + 1) by (unfold q'; destruct up; lia).
    assert (Hex : (r =? 0) = true -> q' = q).
    { intros Hr0. apply Z.eqb_eq in Hr0. unfold q', up. rewrite Hr0.
      destruct (Z.ltb_spec (2 ^ (sh - 1)) 0); [lia|].
      destruct (Z.eqb_spec 0 (2 ^ (sh - 1))); [lia|]. reflexivity. }
    repeat split.
    + nia.
    + destruct Hcases as [[? [? ?]]|[? ?]]; nia.
    + intros Hr0. rewrite (Hex Hr0). destruct Hcases as [[? [? ?]]|[? ?]]; nia.
    + intros Hn. destruct Hcases as [[Hz [? ?]]|[? ?]]; [|nia].
      exfalso. lia.
    + (* value *)
      assert (Hval : dy_eq (mag_val p emin ((e' - emin) * P + q')) (m, e) = (q' * 2 ^ sh =? m)).
      { destruct (Z.eq_dec q' (2 * P)) as [Hc|Hc].
        - rewrite Hc. unfold P. rewrite mag_val_carry by lia. fold P.
          rewrite dy_eq_hi by lia.
          replace (e' - emin + 1 + emin - e) with (1 + sh) by (unfold sh; lia).
          rewrite pow2_split by lia. change (2 ^ 1) with 2.
          f_equal. lia.
        - unfold P. rewrite mag_val_compose; [ | lia | lia | ].
          + rewrite dy_eq_hi by lia. f_equal. f_equal. f_equal. unfold sh. lia.
          + fold P. destruct Hcases as [[? [? ?]]|[? ?]].
            * destruct (Z.eq_dec q' P); [right; lia | left; lia].
            * right. lia. }
      rewrite Hval.
      destruct (Z.eqb_spec r 0) as [Hr0|Hr0].
      * rewrite Hex by reflexivity. apply Z.eqb_eq. lia.
      * apply Z.eqb_neq. intros Heq. assert (q' = q \/ q' = q + 1) as [E|E] by lia; rewrite E in Heq; lia.
Qed.

Lemma log2_lt_64 m : 0 < m < 2 ^ 64 -> 0 <= Z.log2 m <= 63.
Proof.
  intros [H0 H1]. split. apply Z.log2_nonneg.
  apply (Z.log2_lt_pow2 m 64) in H1; lia.
Qed.

Lemma int_to_f64_spec z : - 2 ^ 64 < z < 2 ^ 64 ->
  f64_is_int (Z.to_N (int_to_f64 z)) z = f64_exactb z.
Proof.
  intros Hz. unfold int_to_f64, f64_exactb.
  destruct (Z.eqb_spec z 0) as [->|Hnz]; [reflexivity|].
  cbn [orb].
  set (m := Z.abs z). assert (Hm : 0 < m < 2 ^ 64) by (unfold m; lia).
  destruct (log2_lt_64 m Hm) as [Hk0 Hk].
  destruct (round_mag_props 53 (-1074) m 0 ltac:(lia) ltac:(lia)) as (HR0 & HR1 & _ & _ & HRv).
  unfold rexp in HR1. set (R := round_mag 53 (-1074) m 0) in *.
  change (53 - 1) with 52 in *.
  assert (HRlt : R < 1087 * 2 ^ 52 + 1).
  { assert (Z.max (Z.log2 m + 0 - 52) (-1074) - -1074 + 2 <= 1087) by lia.
    pose proof (pow2_pos 52 ltac:(lia)). nia. }
  assert (Hinf : R < f64_inf) by (unfold f64_inf; lia).
  unfold clamp. destruct (Z.leb_spec f64_inf R) as [?|_]; [lia|].
  unfold f64_inf in Hinf.
  set (s := if z <? 0 then 2 ^ 63 else 0).
  assert (Hs : s = 0 \/ s = 2 ^ 63) by (unfold s; destruct (z <? 0); auto).
  unfold f64_is_int. rewrite Z2N.id by lia.
  assert (Hneg : f64_neg (s + R) = (z <? 0)).
  { unfold f64_neg, s. destruct (z <? 0).
    - apply Z.leb_le. lia.
    - apply Z.leb_gt. lia. }
  assert (Hmag : f64_mag (s + R) = R).
  { unfold f64_mag. rewrite Hneg. unfold s. destruct (z <? 0); lia. }
  fold m. rewrite Hneg, Hmag, HRv, Bool.eqb_reflx.
  replace (s + R <? 2 ^ 64) with true by (symmetry; apply Z.ltb_lt; lia).
  replace (R <? f64_inf) with true by (symmetry; apply Z.ltb_lt; unfold f64_inf; lia).
  reflexivity.
Qed.

Lemma int_to_f32_spec z : - 2 ^ 64 < z < 2 ^ 64 ->
  f32_is_int (Z.to_N (int_to_f32 z)) z = f32_exactb z.
Proof.
  intros Hz. unfold int_to_f32, f32_exactb.
  destruct (Z.eqb_spec z 0) as [->|Hnz]; [reflexivity|].
  cbn [orb].
  set (m := Z.abs z). assert (Hm : 0 < m < 2 ^ 64) by (unfold m; lia).
  destruct (log2_lt_64 m Hm) as [Hk0 Hk].
  destruct (round_mag_props 24 (-149) m 0 ltac:(lia) ltac:(lia)) as (HR0 & HR1 & _ & _ & HRv).
  unfold rexp in HR1. set (R := round_mag 24 (-149) m 0) in *.
  change (24 - 1) with 23 in *.
  assert (HRlt : R < 191 * 2 ^ 23 + 1).
  { assert (Z.max (Z.log2 m + 0 - 23) (-149) - -149 + 2 <= 191) by lia.
    pose proof (pow2_pos 23 ltac:(lia)). nia. }
  assert (Hinf : R < f32_inf) by (unfold f32_inf; lia).
  unfold clamp. destruct (Z.leb_spec f32_inf R) as [?|_]; [lia|].
  unfold f32_inf in Hinf.
  set (s := if z <? 0 then 2 ^ 31 else 0).
  assert (Hs : s = 0 \/ s = 2 ^ 31) by (unfold s; destruct (z <? 0); auto).
  unfold f32_is_int. rewrite Z2N.id by lia.
  assert (Hneg : f32_neg (s + R) = (z <? 0)).
  { unfold f32_neg, s. destruct (z <? 0).
    - apply Z.leb_le. lia.
    - apply Z.leb_gt. lia. }
  assert (Hmag : f32_mag (s + R) = R).
  { unfold f32_mag. rewrite Hneg. unfold s. destruct (z <? 0); lia. }
  fold m. rewrite Hneg, Hmag, HRv, Bool.eqb_reflx.
  replace (s + R <? 2 ^ 32) with true by (symmetry; apply Z.ltb_lt; lia).
  replace (R <? f32_inf) with true by (symmetry; apply Z.ltb_lt; unfold f32_inf; lia).
  reflexivity.
Qed.

Lemma mag_val_fst_nonneg p emin B : 1 <= p -> 0 <= fst (mag_val p emin B).
Proof.
  intros Hp. unfold mag_val.
  pose proof (pow2_pos (p - 1) ltac:(lia)) as HP.
  pose proof (Z.mod_pos_bound B (2 ^ (p - 1)) HP).
  destruct (B / 2 ^ (p - 1) =? 0); cbn [fst]; lia.
Qed.

Lemma f64_to_f32_spec b :
  f32_eq_f64 (Z.to_N (f64_to_f32 (Z.of_N b))) b = f64_fits_f32 b.
Proof.
  unfold f64_to_f32, f64_fits_f32, f32_eq_f64.
  set (B := Z.of_N b). assert (HB : 0 <= B) by (unfold B; lia).
  set (sign := if f64_neg B then 2 ^ 31 else 0).
  assert (Hsign : (f64_neg B = true /\ sign = 2 ^ 31) \/ (f64_neg B = false /\ sign = 0)).
  { unfold sign. destruct (f64_neg B); auto. }
  set (mag := f64_mag B).
  assert (Hmag0 : 0 <= mag).
  { unfold mag, f64_mag. destruct (f64_neg B) eqn:E; [|lia]. unfold f64_neg in E. apply Z.leb_le in E. lia. }
  assert (HBmag : B <= mag + 2 ^ 63 /\ (f64_neg B = false -> B < 2 ^ 63)).
  { unfold mag, f64_mag. destruct (f64_neg B) eqn:E; split; try lia; intros; try discriminate.
    unfold f64_neg in E. apply Z.leb_gt in E. lia. }
  assert (Hnegs : forall Y, 0 <= Y < 2 ^ 31 -> f32_neg (sign + Y) = f64_neg B /\ f32_mag (sign + Y) = Y).
  { intros Y HY. unfold f32_mag, f32_neg.
    destruct Hsign as [[E ->]|[E ->]]; rewrite E.
    - replace (2 ^ 31 <=? 2 ^ 31 + Y) with true by (symmetry; apply Z.leb_le; lia). split; [reflexivity|lia].
    - replace (2 ^ 31 <=? 0 + Y) with false by (symmetry; apply Z.leb_gt; lia). split; [reflexivity|lia]. }
  assert (Hsign2 : 0 <= sign <= 2 ^ 31) by (destruct Hsign as [[_ ->]|[_ ->]]; lia).
  unfold f64_inf, f32_inf in *.
  destruct (Z.leb_spec (2047 * 2 ^ 52) mag) as [Hbig|Hfin].
  - (* infinity / NaN *)
    assert (Hrhs : (let (m, e) := mag_val 53 (-1074) mag in (m =? 0) || dy_exactb 24 (-149) m e && (Z.log2 m + e <? 128)) = false).
    { unfold mag_val. change (53 - 1) with 52.
      assert (HE : 2047 <= mag / 2 ^ 52) by (apply Z.div_le_lower_bound; lia).
      pose proof (Z.mod_pos_bound mag (2 ^ 52) ltac:(lia)) as Hf.
      destruct (Z.eqb_spec (mag / 2 ^ 52) 0) as [?|_]; [lia|].
      set (f := mag mod 2 ^ 52) in *.
      assert (Hl : 52 <= Z.log2 (2 ^ 52 + f)).
      { change 52 with (Z.log2 (2 ^ 52)) at 1. apply Z.log2_le_mono. lia. }
      destruct (Z.eqb_spec (2 ^ 52 + f) 0) as [?|_]; [lia|]. cbn [orb].
      replace (Z.log2 (2 ^ 52 + f) + (mag / 2 ^ 52 - 1 + -1074) <? 128) with false
        by (symmetry; apply Z.ltb_ge; lia).
      apply Bool.andb_false_r. }
    rewrite Hrhs.
    assert (Hl : forall Y, 255 * 2 ^ 23 <= Y < 2 ^ 31 ->
              (Z.of_N (Z.to_N (sign + Y)) <? 2 ^ 32) && (f32_mag (Z.of_N (Z.to_N (sign + Y))) <? 255 * 2 ^ 23) = false).
    { intros Y HY. rewrite Z2N.id by lia. destruct (Hnegs Y ltac:(lia)) as [_ ->].
      replace (Y <? 255 * 2 ^ 23) with false by (symmetry; apply Z.ltb_ge; lia). apply Bool.andb_false_r. }
    destruct (mag =? 2047 * 2 ^ 52).
    + rewrite Hl by lia. reflexivity.
    + rewrite <- Z.add_assoc. rewrite Hl by lia. reflexivity.
  - (* finite *)
    assert (HB64 : B < 2 ^ 64) by lia.
    pose proof (mag_val_fst_nonneg 53 (-1074) mag ltac:(lia)) as Hm0.
    destruct (mag_val 53 (-1074) mag) as [m e] eqn:Hmv. cbn [fst] in Hm0.
    replace (B <? 2 ^ 64) with true by (symmetry; apply Z.ltb_lt; lia).
    replace (mag <? 2047 * 2 ^ 52) with true by (symmetry; apply Z.ltb_lt; lia).
    destruct (Z.eqb_spec m 0) as [->|Hmnz].
    + (* zero *)
      replace sign with (sign + 0) by lia. rewrite Z2N.id by lia.
      destruct (Hnegs 0 ltac:(lia)) as [-> ->]. rewrite Bool.eqb_reflx.
      replace (sign + 0 <? 2 ^ 32) with true by (symmetry; apply Z.ltb_lt; lia).
      reflexivity.
    + cbn [orb].
      destruct (round_mag_props 24 (-149) m e ltac:(lia) ltac:(lia)) as (HR0 & HR1 & HR2 & HR3 & HRv).
      unfold rexp in *. change (24 - 1) with 23 in *.
      set (R := round_mag 24 (-149) m e) in *.
      set (k := Z.log2 m) in *.
      pose proof (pow2_pos 23 ltac:(lia)) as HP.
      unfold clamp.
      destruct (Z.leb_spec (255 * 2 ^ 23) R) as [Hov|Hok].
      * (* overflow to infinity *)
        rewrite Z2N.id by lia. destruct (Hnegs (255 * 2 ^ 23) ltac:(lia)) as [_ ->].
        rewrite Z.ltb_irrefl. rewrite Bool.andb_false_r. cbn [andb].
        symmetry. apply Bool.andb_false_iff.
        destruct (dy_exactb 24 (-149) m e) eqn:Hex; [right|left; reflexivity].
        apply Z.ltb_ge. specialize (HR2 eq_refl).
        destruct (Z.le_gt_cases 128 (k + e)) as [?|Hsm]; [assumption|exfalso].
        assert (Z.max (k + e - 23) (-149) - -149 + 2 <= 255) by lia. nia.
      * rewrite Z2N.id by lia. destruct (Hnegs R ltac:(lia)) as [-> ->].
        rewrite Bool.eqb_reflx, HRv.
        replace (sign + R <? 2 ^ 32) with true by (symmetry; apply Z.ltb_lt; lia).
        replace (R <? 255 * 2 ^ 23) with true by (symmetry; apply Z.ltb_lt; lia).
        cbn [andb].
        replace (k + e <? 128) with true; [now rewrite Bool.andb_true_r|].
        symmetry. apply Z.ltb_lt.
        destruct (Z.lt_ge_cases (k + e) 128) as [?|Hbig]; [assumption|exfalso].
        specialize (HR3 ltac:(lia)).
        assert (255 <= Z.max (k + e - 23) (-149) - -149 + 1) by lia. nia.
Qed.

(* integers: exactly representable = at most p significant bits *)
Lemma dy_exactb_int_spec p emin m :
  1 <= p -> emin <= - (p - 1) -> 0 < m ->
  (dy_exactb p emin m 0 = true <-> exists a e, 0 <= e /\ 0 < a < 2 ^ p /\ m = a * 2 ^ e).
Proof.
  intros Hp Hemin Hm.
  destruct (log2_bounds m Hm) as [Hk0 Hk].
  unfold dy_exactb. set (k := Z.log2 m) in *.
  rewrite Z.max_l by lia. replace (k + 0 - (p - 1)) with (k - (p - 1)) by lia.
  replace (k - (p - 1) - 0) with (k - (p - 1)) by lia.
  split.
  - intros H. apply Bool.orb_true_iff in H. destruct H as [H|H].
    + apply Z.leb_le in H. exists m, 0. split; [lia|]. split; [|cbn; lia].
      split; [lia|]. eapply Z.lt_le_trans; [apply Hk|]. apply pow2_le. lia.
    + apply Z.eqb_eq in H.
      destruct (Z.le_gt_cases (k - (p - 1)) 0) as [Hle|Hgt].
      * exists m, 0. split; [lia|]. split; [|cbn; lia].
        split; [lia|]. eapply Z.lt_le_trans; [apply Hk|]. apply pow2_le. lia.
      * set (sh := k - (p - 1)) in *.
        pose proof (pow2_pos sh ltac:(lia)) as HS.
        pose proof (Z.div_mod m (2 ^ sh) ltac:(lia)) as Hdm. rewrite H in Hdm.
        exists (m / 2 ^ sh), sh. split; [lia|]. split; [|lia].
        assert (2 ^ (k + 1) = 2 ^ sh * 2 ^ p).
        { rewrite <- pow2_split by lia. f_equal. unfold sh. lia. }
        split; nia.
  - intros (a & e & He & Ha & Hmae).
    destruct (Z.le_gt_cases (k - (p - 1)) 0) as [Hle|Hgt].
    + apply Bool.orb_true_iff. left. now apply Z.leb_le.
    + apply Bool.orb_true_iff. right. apply Z.eqb_eq.
      assert (Hka : k = e + Z.log2 a).
      { unfold k. rewrite Hmae. rewrite <- Z.shiftl_mul_pow2 by lia.
        rewrite Z.log2_shiftl by lia. lia. }
      assert (Z.log2 a < p) by (apply Z.log2_lt_pow2; lia).
      set (sh := k - (p - 1)) in *.
      assert (Hsh : 0 < sh <= e) by lia.
      rewrite Hmae. replace e with ((e - sh) + sh) by lia. rewrite pow2_split by lia.
      rewrite Z.mul_assoc. apply Z.mod_mul. pose proof (pow2_pos sh ltac:(lia)). lia.
Qed.

Lemma signed_repr z Q : z <> 0 ->
  (exists a e, 0 <= e /\ 0 < a < Q /\ Z.abs z = a * 2 ^ e) <->
  (exists a e, 0 <= e /\ Z.abs a < Q /\ z = a * 2 ^ e).
Proof.
  intros Hnz. split.
  - intros (a & e & He & Ha & Hz).
    destruct (Z.abs_spec z) as [[Hs Hab]|[Hs Hab]].
    + exists a, e. split; [lia|]. split; lia.
    + exists (- a), e. split; [lia|]. split; lia.
  - intros (a & e & He & Ha & Hz). exists (Z.abs a), e. split; [lia|]. split.
    + assert (a <> 0) by (intros ->; lia). lia.
    + rewrite Hz, Z.abs_mul. f_equal. apply Z.abs_eq. pose proof (pow2_pos e He). lia.
Qed.

Lemma f64_exactb_spec z :
  f64_exactb z = true <-> exists a e, 0 <= e /\ Z.abs a < 2 ^ 53 /\ z = a * 2 ^ e.
Proof.
  unfold f64_exactb. destruct (Z.eqb_spec z 0) as [->|Hnz]; cbn [orb].
  - split; [|reflexivity]. intros _. exists 0, 0. repeat split; cbn; lia.
  - rewrite (dy_exactb_int_spec 53 (-1074) (Z.abs z)) by lia. now apply signed_repr.
Qed.

Lemma f32_exactb_spec z :
  f32_exactb z = true <-> exists a e, 0 <= e /\ Z.abs a < 2 ^ 24 /\ z = a * 2 ^ e.
Proof.
  unfold f32_exactb. destruct (Z.eqb_spec z 0) as [->|Hnz]; cbn [orb].
  - split; [|reflexivity]. intros _. exists 0, 0. repeat split; cbn; lia.
  - rewrite (dy_exactb_int_spec 24 (-149) (Z.abs z)) by lia. now apply signed_repr.
Qed.

Lemma f64_exactb_small z : Z.abs z <= 2 ^ 53 -> f64_exactb z = true.
Proof.
  intros H. apply f64_exactb_spec.
  destruct (Z.eq_dec (Z.abs z) (2 ^ 53)) as [E|E].
  - exists (Z.sgn z), 53. split; [lia|]. split; [lia|].
    rewrite <- E. rewrite Z.mul_comm. symmetry. apply Z.abs_sgn.
  - exists z, 0. split; [lia|]. split; [lia|]. cbn. lia.
Qed.

Lemma f32_exactb_small z : Z.abs z <= 2 ^ 24 -> f32_exactb z = true.
Proof.
  intros H. apply f32_exactb_spec.
  destruct (Z.eq_dec (Z.abs z) (2 ^ 24)) as [E|E].
  - exists (Z.sgn z), 24. split; [lia|]. split; [lia|].
    rewrite <- E. rewrite Z.mul_comm. symmetry. apply Z.abs_sgn.
  - exists z, 0. split; [lia|]. split; [lia|]. cbn. lia.
Qed.

(* ================================================================== decode *)

(* ---------- nested induction principle for targets ---------- *)
Section TargetInd.
  Variable P : target -> Prop.
  Hypothesis HI8 : P TI8.
  Hypothesis HI16 : P TI16.
  Hypothesis HI32 : P TI32.
  Hypothesis HI64 : P TI64.
  Hypothesis HU8 : P TU8.
  Hypothesis HU16 : P TU16.
  Hypothesis HU32 : P TU32.
  Hypothesis HU64 : P TU64.
  Hypothesis HF32 : P TF32.
  Hypothesis HF64 : P TF64.
  Hypothesis HBool : P TBool.
  Hypothesis HString : P TString.
  Hypothesis HOpt : forall t, P t -> P (TOption t).
  Hypothesis HVec : forall t, P t -> P (TVec t).
  Hypothesis HTup : forall ts, Forall P ts -> P (TTuple ts).
  Fixpoint target_ind' (t : target) : P t :=
    match t with
    | TI8 => HI8 | TI16 => HI16 | TI32 => HI32 | TI64 => HI64
    | TU8 => HU8 | TU16 => HU16 | TU32 => HU32 | TU64 => HU64
    | TF32 => HF32 | TF64 => HF64 | TBool => HBool | TString => HString
    | TOption t' => HOpt t' (target_ind' t')
    | TVec t' => HVec t' (target_ind' t')
    | TTuple ts => HTup ts ((fix go (ts : list target) : Forall P ts :=
                               match ts with
                               | [] => Forall_nil _
                               | t1 :: r => Forall_cons _ (target_ind' t1) (go r)
                               end) ts)
    end.
End TargetInd.

(* ---------- the result monad ---------- *)
Lemma dbind_ok {A B} (r : dres A) (f : A -> dres B) y :
  dbind r f = DOk y -> exists a, r = DOk a /\ f a = DOk y.
Proof. destruct r; cbn; try discriminate. eauto. Qed.

Lemma dbind_panic {A B} (r : dres A) (f : A -> dres B) s :
  dbind r f = DPanic s -> r = DPanic s \/ exists a, r = DOk a /\ f a = DPanic s.
Proof. destruct r; cbn; try discriminate; eauto. intros H; left; congruence. Qed.

Lemma dmap_res_ok {A B} (f : A -> B) (r : dres A) y :
  dmap_res f r = DOk y -> exists a, r = DOk a /\ y = f a.
Proof. destruct r; cbn; try discriminate. intros H; injection H as <-. eauto. Qed.

Lemma dmap_res_panic {A B} (f : A -> B) (r : dres A) s :
  dmap_res f r = DPanic s -> r = DPanic s.
Proof. destruct r; cbn; try discriminate. congruence. Qed.

Lemma dmap_ok {A B} (f : A -> dres B) l ys :
  dmap f l = DOk ys -> Forall2 (fun x y => f x = DOk y) l ys.
Proof.
  revert ys; induction l as [|x l IH]; intros ys H; cbn in H.
  - injection H as <-. constructor.
  - apply dbind_ok in H as (y & Hy & H). apply dbind_ok in H as (ys' & Hys & H).
    injection H as <-. constructor; auto.
Qed.

Lemma dmap_panic {A B} (f : A -> dres B) l s :
  dmap f l = DPanic s -> exists x, In x l /\ f x = DPanic s.
Proof.
  induction l as [|x l IH]; cbn; [discriminate|]. intros H.
  apply dbind_panic in H as [H|(y & Hy & H)].
  - exists x; auto.
  - apply dbind_panic in H as [H|(ys & Hys & H)]; [|discriminate].
    destruct (IH H) as (x' & Hin & Hx'). exists x'; auto.
Qed.

(* ---------- named versions of the local fixpoints ---------- *)
Fixpoint tuple_go (ts : list target) (l : list fv) {struct ts} : dres (list tv) :=
  match ts, l with
  | [], _ => DOk []
  | _ :: _, [] => DErr ELen
  | t1 :: ts', x :: l' => dlet y <- decode t1 x; dlet ys <- tuple_go ts' l'; DOk (y :: ys)
  end.

Lemma decode_tuple_eq t ts v :
  decode (TTuple (t :: ts)) v =
  match v with
  | List l => if negb (Nat.eqb (List.length (t :: ts)) (List.length l)) then DErr ELen
              else dmap_res VSeq (tuple_go (t :: ts) l)
  | _ => de_any_other v
  end.
Proof. destruct v; reflexivity. Qed.

Fixpoint denotes_all (xs : list tv) (l : list fv) {struct xs} : Prop :=
  match xs, l with
  | [], [] => True
  | y :: xs', w :: l' => denotes y w /\ denotes_all xs' l'
  | _, _ => False
  end.

Lemma denotes_seq_eq xs v :
  denotes (VSeq xs) v = match v with List l => denotes_all xs l | _ => False end.
Proof. destruct v; reflexivity. Qed.

Lemma denotes_all_Forall2 xs l : denotes_all xs l <-> Forall2 denotes xs l.
Proof.
  revert l; induction xs as [|y xs IH]; intros [|w l]; cbn [denotes_all]; split; intros H.
  - constructor.
  - exact I.
  - contradiction.
  - inversion H.
  - contradiction.
  - inversion H.
  - destruct H as [H1 H2]. constructor; [assumption|]. now apply IH.
  - inversion H; subst. split; [assumption|]. now apply IH.
Qed.

Fixpoint lossy_go (ts : list target) (l : list fv) {struct ts} : bool :=
  match ts, l with
  | t1 :: ts', x :: l' => lossy t1 x || lossy_go ts' l'
  | _, _ => false
  end.

Lemma lossy_tuple_eq ts v :
  lossy (TTuple ts) v = match v with List l => lossy_go ts l | _ => false end.
Proof. destruct v; reflexivity. Qed.

(* ---------- integer targets ---------- *)
Lemma decode_int_spec t v lo hi :
  trange t = Some (lo, hi) -> ints_wf v = true ->
  decode t v =
  match v with
  | I64 z | U64 z => if fits t z then DOk (VInt z) else DErr ERange
  | Enum _ => DPanic todo_site
  | _ => DErr EType
  end.
Proof.
  intros Ht Hw.
  destruct t; try discriminate Ht; destruct v; try reflexivity; cbn [ints_wf] in Hw.
  - (* i64 <- I64 *) unfold fits. cbn [trange decode de_any_prim visit_i64]. now rewrite Hw.
  - (* u64 <- I64 *) cbn [decode de_any_prim visit_i64]. unfold fits. cbn [trange].
    destruct (0 <=? z); reflexivity.
  - (* u64 <- U64 *) unfold fits. cbn [trange decode de_any_prim visit_u64]. now rewrite Hw.
Qed.

Lemma fits_iff t lo hi z : trange t = Some (lo, hi) -> fits t z = true <-> lo <= z <= hi.
Proof.
  intros Ht. unfold fits. rewrite Ht. rewrite Bool.andb_true_iff, !Z.leb_le. tauto.
Qed.

Lemma decode_int_range t lo hi v z :
  trange t = Some (lo, hi) -> int_val v = Some z -> ints_wf v = true ->
  (lo <= z <= hi -> decode t v = DOk (VInt z)) /\
  (~ lo <= z <= hi -> decode t v = DErr ERange).
Proof.
  intros Ht Hv Hw. rewrite (decode_int_spec t v lo hi Ht Hw).
  pose proof (fits_iff t lo hi z Ht) as Hf.
  destruct v; try discriminate Hv; injection Hv as ->;
    destruct (fits t z); split; intros H; try reflexivity; exfalso;
    try (apply H; apply Hf; reflexivity);
    try (assert (false = true) by (apply Hf; exact H); discriminate).
Qed.

Lemma decode_int_ok t lo hi v x :
  trange t = Some (lo, hi) -> ints_wf v = true -> decode t v = DOk x ->
  exists z, int_val v = Some z /\ x = VInt z /\ lo <= z <= hi.
Proof.
  intros Ht Hw H. rewrite (decode_int_spec t v lo hi Ht Hw) in H.
  destruct v; try discriminate H;
    (destruct (fits t z) eqn:Hf; [|discriminate H]); injection H as <-;
    exists z; (split; [reflexivity|]); (split; [reflexivity|]); now apply (fits_iff t lo hi z Ht).
Qed.

(* ---------- panics: exactly the Enum todo!() ---------- *)
Lemma decode_enum_panics t s : decode t (Enum s) = DPanic todo_site.
Proof.
  induction t; try reflexivity.
  - cbn [decode]. rewrite IHt. reflexivity.
  - destruct ts; reflexivity.
Qed.

Lemma tuple_go_panic ts l s :
  tuple_go ts l = DPanic s -> exists t x, In t ts /\ In x l /\ decode t x = DPanic s.
Proof.
  revert l; induction ts as [|t1 ts IH]; intros l H; [discriminate|].
  destruct l as [|x l]; [discriminate|]. cbn [tuple_go] in H.
  apply dbind_panic in H as [H|(y & Hy & H)].
  - exists t1, x. cbn; auto.
  - apply dbind_panic in H as [H|(ys & Hys & H)]; [|discriminate].
    destruct (IH l H) as (t & x' & Ht & Hx & Hd). exists t, x'. cbn; auto.
Qed.

Lemma decode_panic_inv : forall t v s, decode t v = DPanic s -> s = todo_site /\ enum_free v = false.
Proof.
  induction t as [| | | | | | | | | | | |t IHt|t IHt|ts IHts] using target_ind'; intros v s H.
  1-12: (destruct v; cbn in H; try discriminate H;
         repeat (match type of H with context [if ?c then _ else _] => destruct c end);
         try discriminate H;
         injection H as <-; split; reflexivity).
  - (* option *)
    cbn [decode] in H. destruct v; try discriminate H;
      apply dmap_res_panic in H; apply IHt in H; exact H.
  - (* vec *)
    cbn [decode] in H. destruct v; try discriminate H.
    + injection H as <-. split; reflexivity.
    + apply dmap_res_panic in H. apply dmap_panic in H as (x & Hin & Hx).
      apply IHt in Hx as [-> Hx]. split; [reflexivity|]. cbn [enum_free].
      apply Bool.not_true_iff_false. intros Hall. rewrite forallb_forall in Hall.
      rewrite (Hall x Hin) in Hx. discriminate.
  - (* tuple *)
    destruct ts as [|t1 ts].
    + destruct v; try discriminate H. injection H as <-. split; reflexivity.
    + rewrite decode_tuple_eq in H. destruct v; try discriminate H.
      * injection H as <-. split; reflexivity.
      * destruct (negb (Nat.eqb (List.length (t1 :: ts)) (List.length l))); [discriminate|].
        apply dmap_res_panic in H. apply tuple_go_panic in H as (t & x & Ht & Hx & Hd).
        rewrite Forall_forall in IHts. apply (IHts t Ht) in Hd as [-> Hd]. split; [reflexivity|].
        cbn [enum_free]. apply Bool.not_true_iff_false. intros Hall. rewrite forallb_forall in Hall.
        rewrite (Hall x Hx) in Hd. discriminate.
Qed.

Lemma decode_no_panic t v s : enum_free v = true -> decode t v <> DPanic s.
Proof. intros He H. apply decode_panic_inv in H as [_ H]. congruence. Qed.

(* ---------- faithfulness ---------- *)
Lemma ints_wf_bounds v z : int_val v = Some z -> ints_wf v = true -> - 2 ^ 64 < z < 2 ^ 64.
Proof.
  destruct v; try discriminate; intros H; injection H as ->; cbn [ints_wf];
    unfold i64_min, i64_max, u64_max; rewrite Bool.andb_true_iff, !Z.leb_le; lia.
Qed.

Lemma tuple_go_exact ts :
  Forall (fun t => forall v x, ints_wf v = true -> decode t v = DOk x -> lossy t v = false -> denotes x v) ts ->
  forall l xs, forallb ints_wf l = true -> List.length ts = List.length l ->
    tuple_go ts l = DOk xs -> lossy_go ts l = false -> denotes_all xs l.
Proof.
  induction 1 as [|t1 ts Ht1 _ IH]; intros l xs Hw Hlen Hgo Hl.
  - destruct l; [|discriminate Hlen]. injection Hgo as <-. exact I.
  - destruct l as [|w l]; [discriminate Hlen|]. cbn [tuple_go] in Hgo.
    apply dbind_ok in Hgo as (y & Hy & Hgo). apply dbind_ok in Hgo as (ys & Hys & Hgo).
    injection Hgo as <-. cbn [forallb] in Hw. apply andb_prop in Hw as [Hw1 Hw2].
    cbn [lossy_go] in Hl. apply Bool.orb_false_iff in Hl as [Hl1 Hl2].
    cbn [denotes_all]. split.
    + now apply Ht1.
    + apply IH; auto.
Qed.

Theorem decode_exact : forall t v x,
  ints_wf v = true -> decode t v = DOk x -> lossy t v = false -> denotes x v.
Proof.
  induction t as [| | | | | | | | | | | |t IHt|t IHt|ts IHts] using target_ind'; intros v x Hw H Hl.
  1-8: (match type of H with decode ?t _ = _ =>
          destruct (trange t) as [[lo hi]|] eqn:Ht; [|discriminate Ht];
          destruct (decode_int_ok t lo hi v x Ht Hw H) as (z & Hv & -> & _) end;
        destruct v; try discriminate Hv; injection Hv as ->; reflexivity).
  - (* f32 *)
    destruct v; cbn in H; try discriminate H; injection H as <-; cbn [denotes]; cbn [lossy] in Hl;
      apply Bool.negb_false_iff in Hl.
    + rewrite int_to_f32_spec; [exact Hl | now apply (ints_wf_bounds (I64 z))].
    + rewrite int_to_f32_spec; [exact Hl | now apply (ints_wf_bounds (U64 z))].
    + rewrite f64_to_f32_spec. exact Hl.
  - (* f64 *)
    destruct v; cbn in H; try discriminate H; injection H as <-; cbn [denotes]; cbn [lossy] in Hl;
      try apply Bool.negb_false_iff in Hl.
    + rewrite int_to_f64_spec; [exact Hl | now apply (ints_wf_bounds (I64 z))].
    + rewrite int_to_f64_spec; [exact Hl | now apply (ints_wf_bounds (U64 z))].
    + reflexivity.
  - (* bool *) destruct v; cbn in H; try discriminate H. injection H as <-. reflexivity.
  - (* string *) destruct v; cbn in H; try discriminate H. injection H as <-. reflexivity.
  - (* option *)
    cbn [decode] in H. cbn [lossy] in Hl.
    destruct v; try (injection H as <-; exact I);
      apply dmap_res_ok in H as (y & Hy & ->); (split; [discriminate|]); now apply IHt.
  - (* vec *)
    cbn [decode] in H. destruct v; try discriminate H.
    apply dmap_res_ok in H as (ys & Hys & ->). apply dmap_ok in Hys.
    rewrite denotes_seq_eq. apply denotes_all_Forall2.
    cbn [lossy] in Hl. cbn [ints_wf] in Hw.
    induction Hys as [|w y l ys Hwy _ IH]; constructor.
    + cbn [forallb existsb] in *. apply andb_prop in Hw as [Hw1 _].
      apply Bool.orb_false_iff in Hl as [Hl1 _]. now apply IHt.
    + cbn [forallb existsb] in *. apply andb_prop in Hw as [_ Hw2].
      apply Bool.orb_false_iff in Hl as [_ Hl2]. now apply IH.
  - (* tuple *)
    destruct ts as [|t1 ts].
    + destruct v; discriminate H.
    + rewrite decode_tuple_eq in H. destruct v; try discriminate H.
      destruct (Nat.eqb_spec (List.length (t1 :: ts)) (List.length l)) as [Hlen|Hlen];
        cbn [negb] in H; [|discriminate H].
      apply dmap_res_ok in H as (ys & Hys & ->).
      rewrite denotes_seq_eq. rewrite lossy_tuple_eq in Hl. cbn [ints_wf] in Hw.
      eapply tuple_go_exact; eauto.
Qed.

(* the decoded sequence has the row list's length *)
Lemma denotes_all_length xs l : denotes_all xs l -> List.length xs = List.length l.
Proof.
  revert l; induction xs as [|y xs IH]; intros [|w l]; cbn; try tauto. intros [_ H]. f_equal. auto.
Qed.

(* ---------- structure lemmas ---------- *)
Lemma decode_option_null t : decode (TOption t) Null = DOk VNone.
Proof. reflexivity. Qed.

Lemma decode_option_some t v : v <> Null -> decode (TOption t) v = dmap_res VSome (decode t v).
Proof. intros H. destruct v; try reflexivity. congruence. Qed.

Lemma decode_null_non_option t : (forall t', t <> TOption t') -> decode t Null = DErr EType.
Proof.
  intros H. destruct t; try reflexivity.
  - exfalso. eapply H. reflexivity.
  - destruct ts; reflexivity.
Qed.

Lemma decode_tuple_length ts l :
  ts <> [] -> List.length ts <> List.length l -> decode (TTuple ts) (List l) = DErr ELen.
Proof.
  intros Hne Hlen. destruct ts as [|t1 ts]; [congruence|].
  rewrite decode_tuple_eq. destruct (Nat.eqb_spec (List.length (t1 :: ts)) (List.length l)); [contradiction|reflexivity].
Qed.

Lemma decode_unit v x : decode (TTuple []) v <> DOk x.
Proof. destruct v; discriminate. Qed.

Lemma decode_vec_non_list t v x : (forall l, v <> List l) -> decode (TVec t) v <> DOk x.
Proof. intros H. destruct v; try discriminate. exfalso. eapply H. reflexivity. Qed.

Lemma decode_tuple_non_list ts v x : (forall l, v <> List l) -> decode (TTuple ts) v <> DOk x.
Proof.
  intros H. destruct ts as [|t1 ts]; [apply decode_unit|].
  rewrite decode_tuple_eq. destruct v; try discriminate. exfalso. eapply H. reflexivity.
Qed.

(* kinds are never coerced: a scalar target accepts only its own kind of value *)
Lemma decode_kind t v x : decode t v = DOk x ->
  match t with
  | TI8 | TI16 | TI32 | TI64 | TU8 | TU16 | TU32 | TU64 => exists z, int_val v = Some z
  | TF32 | TF64 => (exists z, int_val v = Some z) \/ (exists b, v = F64 b)
  | TBool => exists b, v = Boolv b
  | TString => exists s, v = Str s
  | TOption _ => True
  | TVec _ | TTuple _ => exists l, v = List l
  end.
Proof.
  intros H. destruct t as [| | | | | | | | | | | |t'|t'|ts].
  1-12: (destruct v; cbn in H; try discriminate H; cbn; eauto).
  - exact I.
  - destruct v; try discriminate H. eauto.
  - destruct ts as [|t1 ts]; [destruct v; discriminate H|].
    rewrite decode_tuple_eq in H. destruct v; try discriminate H. eauto.
Qed.

(* ================================================================== rows into structs *)

Definition is_option (t : target) : Prop := exists t', t = TOption t'.

Lemma entries_inv fields : forall r acc acc',
  decode_entries fields r acc = DOk acc' ->
  forall k,
    match slot acc k with
    | Some x => slot acc' k = Some x
    | None =>
        match slot r k with
        | None => slot acc' k = None
        | Some v =>
            match field_target fields k with
            | Some t => exists x, decode t v = DOk x /\ slot acc' k = Some x
            | None => slot acc' k = None
            end
        end
    end.
Proof.
  induction r as [|[k0 v0] rest IH]; intros acc acc' H k.
  - cbn in H. injection H as <-. destruct (slot acc k); reflexivity.
  - cbn [decode_entries] in H. destruct (field_target fields k0) as [t0|] eqn:Ft.
    + destruct (slot acc k0) eqn:Sa; [discriminate H|].
      apply dbind_ok in H as (x0 & Hd & H). specialize (IH _ _ H k).
      cbn [slot] in IH |- *. destruct (String.eqb_spec k0 k) as [Heq|Hne].
      * subst k. rewrite Sa, Ft. eauto.
      * exact IH.
    + specialize (IH _ _ H k). cbn [slot]. destruct (String.eqb_spec k0 k) as [Heq|Hne]; [|exact IH].
      subst k. rewrite Ft. destruct (slot acc k0); [exact IH|].
      rewrite Ft in IH. destruct (slot rest k0); exact IH.
Qed.

Lemma field_target_in fields n t :
  NoDup (map fst fields) -> In (n, t) fields -> field_target fields n = Some t.
Proof.
  induction fields as [|[n0 t0] fields IH]; intros Hnd Hin; [contradiction|].
  cbn [map fst] in Hnd. inversion Hnd as [|? ? Hnot Hnd']; subst.
  cbn [field_target]. destruct Hin as [Heq|Hin].
  - injection Heq as -> ->. now rewrite String.eqb_refl.
  - destruct (String.eqb_spec n0 n) as [->|_]; [|auto].
    exfalso. apply Hnot. change n with (fst (n, t)). now apply in_map.
Qed.

(* what every field of a successfully decoded struct holds *)
Definition field_ok (r : row) (f : string * target) (x : tv) : Prop :=
  match slot r (fst f) with
  | Some v => decode (snd f) v = DOk x
  | None => x = VNone /\ is_option (snd f)
  end.

Lemma Forall2_impl_in {A B} (R Q : A -> B -> Prop) l l' :
  Forall2 R l l' -> (forall a b, In a l -> R a b -> Q a b) -> Forall2 Q l l'.
Proof.
  induction 1 as [|a b l l' Hab _ IH]; intros HQ; constructor.
  - apply HQ; [now left|assumption].
  - apply IH. intros a' b' Hin. apply HQ. now right.
Qed.

Theorem decode_row_fields fields r xs :
  NoDup (map fst fields) -> decode_row fields r = DOk xs -> Forall2 (field_ok r) fields xs.
Proof.
  intros Hnd H. unfold decode_row in H. apply dbind_ok in H as (acc & Hacc & H).
  apply dmap_ok in H. pose proof (entries_inv fields r [] acc Hacc) as Hinv.
  apply (Forall2_impl_in _ _ _ _ H). intros [n t] x Hin Hf.
  pose proof (field_target_in fields n t Hnd Hin) as Hft.
  specialize (Hinv n). cbn [slot] in Hinv. unfold field_ok. unfold finish_field in Hf.
  cbn [fst snd] in *.
  destruct (slot r n) as [v|].
  - rewrite Hft in Hinv. destruct Hinv as (x0 & Hd & Hs).
    rewrite Hs in Hf. injection Hf as <-. exact Hd.
  - rewrite Hinv in Hf. destruct t; try discriminate Hf. injection Hf as <-.
    split; [reflexivity|]. eexists; reflexivity.
Qed.

Lemma Forall2_in_left {A B} (R : A -> B -> Prop) l l' a :
  Forall2 R l l' -> In a l -> exists b, In b l' /\ R a b.
Proof.
  induction 1 as [|a0 b0 l l' Hab _ IH]; intros Hin; [contradiction|].
  destruct Hin as [->|Hin].
  - exists b0. split; [now left|assumption].
  - destruct (IH Hin) as (b & Hb & HR). exists b. split; [now right|assumption].
Qed.

(* a missing key is only acceptable for an Option field *)
Theorem decode_row_missing fields r n t xs :
  NoDup (map fst fields) -> In (n, t) fields -> slot r n = None -> ~ is_option t ->
  decode_row fields r <> DOk xs.
Proof.
  intros Hnd Hin Hs Hno H. apply (decode_row_fields _ _ _ Hnd) in H.
  destruct (Forall2_in_left _ _ _ _ H Hin) as (x & _ & Hx). unfold field_ok in Hx. cbn [fst snd] in Hx.
  rewrite Hs in Hx. tauto.
Qed.

(* keys the struct does not name are ignored, whatever their value (also an Enum) *)
Lemma entries_extra fields k v r2 : field_target fields k = None ->
  forall r1 acc, decode_entries fields (r1 ++ (k, v) :: r2)%list acc = decode_entries fields (r1 ++ r2)%list acc.
Proof.
  intros Hk. induction r1 as [|[k0 v0] r1 IH]; intros acc.
  - cbn [app decode_entries]. now rewrite Hk.
  - cbn [app decode_entries]. destruct (field_target fields k0); [|apply IH].
    destruct (slot acc k0); [reflexivity|]. destruct (decode t v0); cbn [dbind]; auto.
Qed.

Theorem decode_row_extra_ignored fields k v r1 r2 :
  field_target fields k = None ->
  decode_row fields (r1 ++ (k, v) :: r2)%list = decode_row fields (r1 ++ r2)%list.
Proof. intros Hk. unfold decode_row. now rewrite entries_extra. Qed.

(* the row-level statement of "never a wrapped or truncated integer" *)
Theorem decode_row_int_field fields r xs n t lo hi v z :
  NoDup (map fst fields) -> decode_row fields r = DOk xs ->
  In (n, t) fields -> trange t = Some (lo, hi) ->
  slot r n = Some v -> int_val v = Some z -> ints_wf v = true ->
  lo <= z <= hi /\ exists i, nth_error fields i = Some (n, t) /\ nth_error xs i = Some (VInt z).
Proof.
  intros Hnd H Hin Ht Hs Hv Hw. apply (decode_row_fields _ _ _ Hnd) in H.
  apply In_nth_error in Hin as (i & Hi).
  assert (Hx : exists x, nth_error xs i = Some x /\ field_ok r (n, t) x).
  { clear -H Hi. revert i Hi. induction H as [|f x fs xs Hf _ IH]; intros [|i] Hi; cbn in *; try discriminate.
    - injection Hi as ->. eauto.
    - auto. }
  destruct Hx as (x & Hxi & Hx). unfold field_ok in Hx. cbn [fst snd] in Hx. rewrite Hs in Hx.
  destruct (decode_int_ok t lo hi v x Ht Hw Hx) as (z' & Hv' & -> & Hr).
  assert (z' = z) by congruence. subst z'. split; [exact Hr|]. eauto.
Qed.

(* ================================================================== more structure / witnesses *)

Lemma Forall2_len {A B} (R : A -> B -> Prop) l l' : Forall2 R l l' -> List.length l = List.length l'.
Proof. induction 1; cbn; congruence. Qed.

Lemma decode_vec_length t l x :
  decode (TVec t) (List l) = DOk x -> exists xs, x = VSeq xs /\ List.length xs = List.length l.
Proof.
  cbn [decode]. intros H. apply dmap_res_ok in H as (ys & Hys & ->). apply dmap_ok in Hys.
  exists ys. split; [reflexivity|]. symmetry. eapply Forall2_len. exact Hys.
Qed.

Lemma tuple_go_length ts : forall l xs,
  List.length ts = List.length l -> tuple_go ts l = DOk xs -> List.length xs = List.length l.
Proof.
  induction ts as [|t1 ts IH]; intros [|w l] xs Hlen H; try discriminate Hlen.
  - injection H as <-. reflexivity.
  - cbn [tuple_go] in H. apply dbind_ok in H as (y & Hy & H). apply dbind_ok in H as (ys & Hys & H).
    injection H as <-. cbn [List.length]. f_equal. apply IH; auto.
Qed.

Lemma decode_tuple_ok ts v x :
  decode (TTuple ts) v = DOk x ->
  exists l xs, v = List l /\ x = VSeq xs /\ List.length l = List.length ts /\ List.length xs = List.length ts.
Proof.
  intros H. destruct ts as [|t1 ts]; [destruct v; discriminate H|].
  rewrite decode_tuple_eq in H. destruct v; try discriminate H.
  destruct (Nat.eqb_spec (List.length (t1 :: ts)) (List.length l)) as [Hlen|Hlen]; cbn [negb] in H; [|discriminate H].
  apply dmap_res_ok in H as (ys & Hys & ->).
  exists l, ys. repeat split; auto. rewrite (tuple_go_length _ _ _ Hlen Hys). auto.
Qed.

(* the full-strength statement fails: the F16 witnesses *)
Lemma int_into_f64_witness :
  ints_wf (I64 (2 ^ 53 + 1)) = true /\
  decode TF64 (I64 (2 ^ 53 + 1)) = DOk (VF64 4845873199050653696%N) /\
  ~ denotes (VF64 4845873199050653696%N) (I64 (2 ^ 53 + 1)) /\
  denotes (VF64 4845873199050653696%N) (I64 (2 ^ 53)).
Proof.
  split; [reflexivity|]. split; [vm_compute; reflexivity|]. split.
  - cbn [denotes]. vm_compute. discriminate.
  - cbn [denotes]. vm_compute. reflexivity.
Qed.

Lemma u64_max_into_f64_witness :
  ints_wf (U64 u64_max) = true /\
  decode TF64 (U64 u64_max) = DOk (VF64 4895412794951729152%N) /\
  ~ denotes (VF64 4895412794951729152%N) (U64 u64_max) /\
  denotes (VF64 4895412794951729152%N) (U64 (2 ^ 64)).
Proof.
  split; [reflexivity|]. split; [vm_compute; reflexivity|]. split.
  - cbn [denotes]. vm_compute. discriminate.
  - cbn [denotes]. vm_compute. reflexivity.
Qed.

(* Float64(1e300) into an f32 field: Ok(+infinity) *)
Lemma float_narrowing_witness :
  wf (F64 9094988921128908188%N) = true /\
  decode TF32 (F64 9094988921128908188%N) = DOk (VF32 2139095040%N) /\
  ~ denotes (VF32 2139095040%N) (F64 9094988921128908188%N).
Proof.
  split; [vm_compute; reflexivity|]. split; [vm_compute; reflexivity|].
  cbn [denotes]. vm_compute. discriminate.
Qed.

Lemma decode_exact_full_refuted :
  ~ (forall t v x, ints_wf v = true -> decode t v = DOk x -> denotes x v).
Proof.
  intros H. destruct int_into_f64_witness as (Hw & Hd & Hn & _). exact (Hn (H _ _ _ Hw Hd)).
Qed.

Lemma wf_ints_wf : forall v, wf v = true -> ints_wf v = true.
Proof.
  fix IH 1. intros [ | z | z | b | s | b | s | l ] H; try reflexivity; try exact H.
  cbn [wf ints_wf] in *. induction l as [|x l IHl]; [reflexivity|].
  cbn [forallb] in *. apply andb_prop in H as [H1 H2]. apply andb_true_intro. split; [now apply IH | now apply IHl].
Qed.

Lemma round_mag_value p emin m e : 1 <= p -> 0 < m ->
  dy_eq (mag_val p emin (round_mag p emin m e)) (m, e) = dy_exactb p emin m e.
Proof. intros Hp Hm. exact (proj2 (proj2 (proj2 (proj2 (round_mag_props p emin m e Hp Hm))))). Qed.

Lemma decode_params_same fields contents : decode_params fields contents = decode_row fields contents.
Proof. reflexivity. Qed.

(* ================================================================== binary32 representability, semantically *)

Lemma mag_val_shape p emin M : 1 <= p -> 0 <= M ->
  let (m2, e2) := mag_val p emin M in
  0 <= m2 < 2 * 2 ^ (p - 1) /\ e2 = Z.max (M / 2 ^ (p - 1) - 1) 0 + emin.
Proof.
  intros Hp HM. unfold mag_val.
  pose proof (pow2_pos (p - 1) ltac:(lia)) as HP.
  pose proof (Z.mod_pos_bound M (2 ^ (p - 1)) HP) as Hf.
  assert (0 <= M / 2 ^ (p - 1)) by (apply Z.div_pos; lia).
  destruct (Z.eqb_spec (M / 2 ^ (p - 1)) 0) as [E|E].
  - rewrite E. split; lia.
  - split; lia.
Qed.

Lemma log2_mul_pow2 a n : 0 < a -> 0 <= n -> Z.log2 (a * 2 ^ n) = Z.log2 a + n.
Proof. intros Ha Hn. rewrite <- Z.shiftl_mul_pow2 by lia. rewrite Z.log2_shiftl by lia. reflexivity. Qed.

(* if SOME finite pattern of the format denotes m * 2^e, then m * 2^e needs no rounding *)
Lemma repr_exact p emin M m e : 1 <= p -> 0 < m -> 0 <= M ->
  dy_eq (mag_val p emin M) (m, e) = true ->
  dy_exactb p emin m e = true /\ Z.log2 m + e <= p - 1 + snd (mag_val p emin M).
Proof.
  intros Hp Hm HM Heq.
  pose proof (mag_val_shape p emin M Hp HM) as Hsh.
  destruct (mag_val p emin M) as [m2 e2]. destruct Hsh as [Hm2 He2]. cbn [snd].
  unfold dy_eq in Heq. apply Z.eqb_eq in Heq.
  set (lo := Z.min e2 e) in *.
  pose proof (pow2_pos (e2 - lo) ltac:(lia)) as H1.
  pose proof (pow2_pos (e - lo) ltac:(lia)) as H2.
  assert (Hm2pos : 0 < m2) by nia.
  assert (Hlog : Z.log2 m2 + e2 = Z.log2 m + e).
  { assert (Z.log2 (m2 * 2 ^ (e2 - lo)) = Z.log2 (m * 2 ^ (e - lo))) by congruence.
    rewrite !log2_mul_pow2 in H by lia. lia. }
  assert (Hl2 : Z.log2 m2 < p).
  { apply Z.log2_lt_pow2; [lia|]. replace p with (1 + (p - 1)) by lia. rewrite pow2_split by lia.
    change (2 ^ 1) with 2. lia. }
  split; [|lia].
  unfold dy_exactb. set (e' := Z.max (Z.log2 m + e - (p - 1)) emin).
  assert (He' : e' <= e2) by (unfold e'; lia).
  destruct (Z.leb_spec e' e) as [Hle|Hlt]; [reflexivity|]. cbn [orb].
  apply Z.eqb_eq.
  assert (lo = e) by (unfold lo; lia). 
  replace (e - lo) with 0 in Heq by lia. cbn [Z.pow] in Heq. rewrite Z.mul_1_r in Heq.
  rewrite <- Heq. replace (e2 - lo) with ((e2 - e') + (e' - e)) by lia.
  rewrite pow2_split by lia. rewrite Z.mul_assoc. apply Z.mod_mul.
  pose proof (pow2_pos (e' - e) ltac:(lia)). lia.
Qed.

(* the narrowing class, semantically: SOME finite binary32 equals the binary64 value *)
Lemma f64_fits_f32_spec b : f64_fits_f32 b = true <-> exists b32, f32_eq_f64 b32 b = true.
Proof.
  split.
  - intros H. exists (Z.to_N (f64_to_f32 (Z.of_N b))). now rewrite f64_to_f32_spec.
  - intros (b32 & H). unfold f32_eq_f64 in H.
    apply andb_prop in H as [H Hdy]. apply andb_prop in H as [H Hsgn].
    apply andb_prop in H as [H Hfin64]. apply andb_prop in H as [H Hb64].
    apply andb_prop in H as [Hb32 Hfin32].
    unfold f64_fits_f32.
    set (M := f32_mag (Z.of_N b32)) in *. set (mag := f64_mag (Z.of_N b)) in *.
    assert (HM : 0 <= M).
    { unfold M, f32_mag. destruct (f32_neg (Z.of_N b32)) eqn:E; [|lia].
      unfold f32_neg in E. apply Z.leb_le in E. lia. }
    pose proof (mag_val_fst_nonneg 53 (-1074) mag ltac:(lia)) as Hm0.
    destruct (mag_val 53 (-1074) mag) as [m e]. cbn [fst] in Hm0.
    destruct (Z.eqb_spec m 0) as [?|Hnz]; [reflexivity|]. cbn [orb].
    destruct (repr_exact 24 (-149) M m e ltac:(lia) ltac:(lia) HM Hdy) as [Hex Hlog].
    rewrite Hex. cbn [andb]. apply Z.ltb_lt.
    pose proof (mag_val_shape 24 (-149) M ltac:(lia) HM) as Hsh.
    destruct (mag_val 24 (-149) M) as [m2 e2]. destruct Hsh as [_ He2]. cbn [snd] in Hlog.
    change (24 - 1) with 23 in *.
    assert (M / 2 ^ 23 <= 254).
    { apply Z.ltb_lt in Hfin32. unfold f32_inf in Hfin32. apply Z.lt_succ_r. apply Z.div_lt_upper_bound; lia. }
    lia.
Qed.
