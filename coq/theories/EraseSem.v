(* EraseSem.v — the truncating specification SemT and the specification Sem produce the same rows.
   `erase c a` forgets the contents of every fold that the engine's eligibility test deems unobserved
   (recursively inside the elements of the other folds).  Under the static condition reads_ok (no
   filter, import or count filter of a component reads the count of an erased fold of that component)
   every stage of the specification commutes with / depends only on the erasure, the projection to rows
   ignores it, and the count filters that define the minimum cannot tell min(n, m) from n. *)
From Coq Require Import Lia.
From TF Require Import ValuesProofs OpsProofs Exec Sem ExecLemmas Sim SimRec SimComp SimOut FoldLimits SimFold FoldOut
     SimGen WfIRProofs SimFull SemT.
Local Open Scope string_scope.
Local Open Scope N_scope.
Local Open Scope list_scope.

(* ---------- erasure ---------- *)
Fixpoint erase (c : ir_component) (a : asg) {struct c} : asg :=
  match c with
  | mkComp _ vs ss _ =>
      Asg (a_v a)
          (map (fun e : N * option (list asg) =>
                  (fst e,
                   match snd e with
                   | None => None
                   | Some l =>
                       Some ((fix go (todo : list step) : list asg :=
                                match todo with
                                | [] => l
                                | SEdge _ :: r => go r
                                | SFold h sub :: r =>
                                    if N.eqb (fo_eid h) (fst e)
                                    then (if min_eligible vs ss h sub then [] else map (erase sub) l)
                                    else go r
                                end) ss)
                   end)) (a_f a))
  end.

Fixpoint erase_list (vs : list ir_vertex) (ss : list step) (todo : list step) (eid : N) (l : list asg) : list asg :=
  match todo with
  | [] => l
  | SEdge _ :: r => erase_list vs ss r eid l
  | SFold h sub :: r =>
      if N.eqb (fo_eid h) eid
      then (if min_eligible vs ss h sub then [] else map (erase sub) l)
      else erase_list vs ss r eid l
  end.

Definition erase_entry (vs : list ir_vertex) (ss : list step) (e : N * option (list asg)) : N * option (list asg) :=
  (fst e, option_map (erase_list vs ss ss (fst e)) (snd e)).

Lemma erase_eq root vs ss outs a :
  erase (mkComp root vs ss outs) a = Asg (a_v a) (map (erase_entry vs ss) (a_f a)).
Proof.
  cbn [erase]. f_equal. apply map_ext. intros [eid o]. unfold erase_entry. cbn [fst snd]. f_equal.
  destruct o as [l|]; [|reflexivity]. cbn [option_map]. f_equal.
  assert (G : forall todo,
             (fix go (todo : list step) : list asg :=
                match todo with
                | [] => l
                | SEdge _ :: r => go r
                | SFold h sub :: r =>
                    if N.eqb (fo_eid h) eid
                    then (if min_eligible vs ss h sub then [] else map (erase sub) l)
                    else go r
                end) todo = erase_list vs ss todo eid l).
  { induction todo as [|[e|h sub] r IH]; cbn [erase_list]; [reflexivity|exact IH|].
    destruct (N.eqb (fo_eid h) eid); [reflexivity|exact IH]. }
  apply G.
Qed.

(* is the first fold with this eid (if any) an erased one? *)
Fixpoint erased_in (vs : list ir_vertex) (ss : list step) (todo : list step) (eid : N) : bool :=
  match todo with
  | [] => false
  | SEdge _ :: r => erased_in vs ss r eid
  | SFold h sub :: r => if N.eqb (fo_eid h) eid then min_eligible vs ss h sub else erased_in vs ss r eid
  end.

Lemma erase_list_length vs ss todo eid l :
  erased_in vs ss todo eid = false -> List.length (erase_list vs ss todo eid l) = List.length l.
Proof.
  induction todo as [|[e|h sub] r IH]; cbn [erase_list erased_in]; intros H; [reflexivity|auto|].
  destruct (N.eqb (fo_eid h) eid); [|auto]. rewrite H. apply map_length.
Qed.

Lemma erase_list_erased vs ss todo eid l :
  erased_in vs ss todo eid = true -> erase_list vs ss todo eid l = [].
Proof.
  induction todo as [|[e|h sub] r IH]; cbn [erase_list erased_in]; intros H; [discriminate|auto|].
  destruct (N.eqb (fo_eid h) eid); [now rewrite H|auto].
Qed.

Lemma erase_list_here vs ss todo h sub l :
  In (SFold h sub) todo -> NoDup (steps_eids todo) ->
  erase_list vs ss todo (fo_eid h) l = if min_eligible vs ss h sub then [] else map (erase sub) l.
Proof.
  induction todo as [|[e|h' sub'] r IH]; cbn [erase_list steps_eids In]; intros Hin Hnd; [contradiction| |].
  - destruct Hin as [E|Hin]; [discriminate|auto].
  - inversion Hnd as [|? ? Hni Hnd']; subst. destruct Hin as [E|Hin].
    + injection E as -> ->. now rewrite N.eqb_refl.
    + destruct (N.eqb_spec (fo_eid h') (fo_eid h)) as [E|_]; [|auto].
      exfalso. apply Hni. rewrite E. eapply steps_eids_in; eassumption.
Qed.

Lemma erased_in_here vs ss todo h sub :
  In (SFold h sub) todo -> NoDup (steps_eids todo) -> erased_in vs ss todo (fo_eid h) = min_eligible vs ss h sub.
Proof.
  induction todo as [|[e|h' sub'] r IH]; cbn [erased_in steps_eids In]; intros Hin Hnd; [contradiction| |].
  - destruct Hin as [E|Hin]; [discriminate|auto].
  - inversion Hnd as [|? ? Hni Hnd']; subst. destruct Hin as [E|Hin].
    + injection E as -> ->. now rewrite N.eqb_refl.
    + destruct (N.eqb_spec (fo_eid h') (fo_eid h)) as [E|_]; [|auto].
      exfalso. apply Hni. rewrite E. eapply steps_eids_in; eassumption.
Qed.

Section EraseBasics.
  Variables (root : N) (vs : list ir_vertex) (ss : list step) (outs : list (string * ctxfield)).
  Notation c := (mkComp root vs ss outs).

  Lemma erase_av a : a_v (erase c a) = a_v a.
  Proof. now rewrite erase_eq. Qed.

  Lemma erase_af a : a_f (erase c a) = map (erase_entry vs ss) (a_f a).
  Proof. now rewrite erase_eq. Qed.

  Lemma erase_lookup a eid :
    lookup_N eid (a_f (erase c a)) = option_map (option_map (erase_list vs ss ss eid)) (lookup_N eid (a_f a)).
  Proof.
    rewrite erase_af. induction (a_f a) as [|[k o] r IH]; cbn [map lookup_N erase_entry fst snd option_map]; [reflexivity|].
    destruct (N.eqb_spec eid k) as [->|Hn]; [reflexivity|exact IH].
  Qed.

  Lemma erase_set_av a vid x : erase c (set_av a vid x) = set_av (erase c a) vid x.
  Proof. rewrite !erase_eq. unfold set_av. cbn [a_v a_f]. reflexivity. Qed.

  Lemma erase_set_af a eid o :
    erase c (set_af a eid o) = set_af (erase c a) eid (option_map (erase_list vs ss ss eid) o).
  Proof. rewrite !erase_eq. unfold set_af. cbn [a_v a_f]. now rewrite map_app. Qed.

  Lemma erase_eq_av a a' : erase c a = erase c a' -> a_v a = a_v a'.
  Proof. intros H. rewrite <- (erase_av a), <- (erase_av a'). now rewrite H. Qed.
End EraseBasics.

Lemma forallb_ext_in' {A} (p q : A -> bool) (l : list A) :
  (forall x, In x l -> p x = q x) -> forallb p l = forallb q l.
Proof.
  induction l as [|x l IH]; intros H; [reflexivity|]. cbn [forallb].
  rewrite (H x (or_introl eq_refl)), IH; [reflexivity|]. intros y Hy. apply H. now right.
Qed.

(* ---------- the static condition: nothing reads an erased fold ---------- *)
Definition ref_ok (vs : list ir_vertex) (ss : list step) (t : fieldref) : bool :=
  match t with
  | FRFold ff => negb (erased_in vs ss ss (ff_eid ff))
  | FRContext _ => true
  end.

Definition arg_ok (vs : list ir_vertex) (ss : list step) (o : option argument) : bool :=
  match o with
  | Some (ATag t) => ref_ok vs ss t
  | _ => true
  end.

Definition reads_ok_here (vs : list ir_vertex) (ss : list step) : bool :=
  forallb (fun v => forallb (fun f => arg_ok vs ss (vf_arg f)) (v_filters v)) vs &&
  forallb (fun s => match s with
                    | SEdge _ => true
                    | SFold h _ => forallb (ref_ok vs ss) (fo_imported h) &&
                                   forallb (fun pf => arg_ok vs ss (pf_arg pf)) (fo_post h)
                    end) ss.

Fixpoint reads_ok (c : ir_component) {struct c} : bool :=
  match c with
  | mkComp _ vs ss _ =>
      reads_ok_here vs ss &&
      (fix go (todo : list step) : bool :=
         match todo with
         | [] => true
         | SEdge _ :: r => go r
         | SFold _ sub :: r => reads_ok sub && go r
         end) ss
  end.

Section Stages.
  Variable re_match : string -> string -> option bool.
  Variable g : graph.
  Variable args : list (string * fv).
  Variables (root : N) (vs : list ir_vertex) (ss : list step) (outs : list (string * ctxfield)).
  Notation c := (mkComp root vs ss outs).

  Lemma count_value_erase imp a ff :
    erased_in vs ss ss (ff_eid ff) = false ->
    count_value ss (erase c a) imp ff = count_value ss a imp ff.
  Proof.
    intros He. unfold count_value. destruct (has_fold ss (ff_eid ff)); [|reflexivity].
    rewrite erase_lookup. destruct (lookup_N (ff_eid ff) (a_f a)) as [[l|]|]; cbn [option_map]; [|reflexivity|reflexivity].
    now rewrite (erase_list_length _ _ _ _ _ He).
  Qed.

  Lemma arg_value_erase imp a cur cur_ty cand arg :
    arg_ok vs ss (Some arg) = true ->
    arg_value g args vs ss imp (erase c a) cur cur_ty cand arg = arg_value g args vs ss imp a cur cur_ty cand arg.
  Proof.
    destruct arg as [[cf|ff]|x t]; cbn [arg_ok ref_ok arg_value]; intros H; [| |reflexivity].
    - destruct (N.eqb (cf_vid cf) cur); [reflexivity|]. unfold context_value. now rewrite erase_av.
    - apply count_value_erase. now apply Bool.negb_true_iff in H.
  Qed.

  Lemma enter_erase imp a v cand :
    forallb (fun f => arg_ok vs ss (vf_arg f)) (v_filters v) = true ->
    enter re_match g args vs ss imp (erase c a) v cand = enter re_match g args vs ss imp a v cand.
  Proof.
    intros H. unfold enter. f_equal. apply forallb_ext_in'. intros f Hf. rewrite forallb_forall in H. specialize (H f Hf).
    destruct (vf_arg f) as [arg|]; [|reflexivity]. cbn [option_map]. now rewrite arg_value_erase.
  Qed.

  Hypothesis Hreads : reads_ok_here vs ss = true.

  Lemma vertex_filters_ok v : In v vs -> forallb (fun f => arg_ok vs ss (vf_arg f)) (v_filters v) = true.
  Proof.
    intros Hv. unfold reads_ok_here in Hreads. apply andb_prop in Hreads. destruct Hreads as (H1 & _).
    rewrite forallb_forall in H1. now apply H1.
  Qed.

  Lemma fold_refs_ok h sub : In (SFold h sub) ss ->
    forallb (ref_ok vs ss) (fo_imported h) = true /\ forallb (fun pf => arg_ok vs ss (pf_arg pf)) (fo_post h) = true.
  Proof.
    intros Hin. unfold reads_ok_here in Hreads. apply andb_prop in Hreads. destruct Hreads as (_ & H2).
    rewrite forallb_forall in H2. specialize (H2 _ Hin). cbn in H2. now apply andb_prop in H2.
  Qed.

  Lemma step_edge_erase imp e a :
    map (erase c) (step_edge re_match g args vs ss imp e a) = step_edge re_match g args vs ss imp e (erase c a).
  Proof.
    unfold step_edge. destruct (find_vertex vs (e_from e)) as [fromv|]; [|reflexivity].
    destruct (find_vertex vs (e_to e)) as [tov|] eqn:Et; [|reflexivity].
    rewrite erase_av. cbv zeta.
    match goal with |- map _ (flat_map _ ?cs0) = _ => generalize cs0 end.
    intros cands. induction cands as [|cand cands IH]; [reflexivity|]. cbn [flat_map]. rewrite map_app, IH. f_equal.
    rewrite enter_erase by (apply vertex_filters_ok; apply (find_vertex_in _ _ _ Et)).
    destruct (enter _ _ _ _ _ _ _ _ _); [|reflexivity]. cbn [map]. now rewrite erase_set_av.
  Qed.

  Lemma import_value_erase imp a t :
    ref_ok vs ss t = true -> import_value g vs ss imp (erase c a) t = import_value g vs ss imp a t.
  Proof.
    destruct t as [cf|ff]; cbn [ref_ok import_value]; intros H.
    - now rewrite erase_av.
    - apply Bool.negb_true_iff in H. rewrite erase_lookup.
      destruct (lookup_N (ff_eid ff) (a_f a)) as [[l|]|]; cbn [option_map]; [|reflexivity|reflexivity].
      now rewrite (erase_list_length _ _ _ _ _ H).
  Qed.
End Stages.

(* ---------- the count filters that define the minimum cannot tell min(n, m) from n ---------- *)
Lemma take_z_length {A} (l : list A) : forall m,
  Z.of_nat (List.length (take_z m l)) = Z.min (Z.of_nat (List.length l)) (Z.max m 0).
Proof.
  induction l as [|x l IH]; intros m; cbn [take_z List.length]; [lia|].
  destruct (Z.ltb_spec 0 m); cbn [List.length]; [|lia]. rewrite Nat2Z.inj_succ, IH. lia.
Qed.

Section MinLimit.
  Variable re_match : string -> string -> option bool.
  Variable g : graph.
  Variable args : list (string * fv).

  Lemma var_usize_val name v : var_usize args name = Ok v ->
    exists val z, lookup_str name args = Some val /\ int_val val = Some z /\ (z <= v)%Z.
  Proof.
    unfold var_usize, arg_of, expect_some. intros H. destruct (lookup_str name args) as [val|]; [|discriminate].
    cbn [bind] in H. inv_bind H. destruct x as [o|]; [|discriminate]. injection H as <-.
    exists val. destruct val; cbn in Hx; try discriminate; injection Hx as <-; eexists; (split; [reflexivity|]); (split; [reflexivity|]); lia.
  Qed.

  Definition min_pf (m : Z) (pf : pfilter) : Prop :=
    exists name ty v, pf_arg pf = Some (AVar name ty) /\ var_usize args name = Ok v /\
      ((pf_op pf = GreaterThanOrEqual /\ (v <= m)%Z) \/ (pf_op pf = GreaterThan /\ (Z.min (v + 1) usize_max <= m)%Z)).

  Lemma min_aux_inv pfs : forall acc m,
    get_min_fold_count_limit_aux args pfs acc = Ok (Some m) ->
    (forall a, acc = Some a -> (a <= m)%Z) /\ Forall (min_pf m) pfs.
  Proof.
    induction pfs as [|pf pfs IH]; cbn [get_min_fold_count_limit_aux]; intros acc m H.
    - injection H as ->. split; [intros a [= ->]; lia|constructor].
    - destruct (pf_arg pf) as [[t|name ty]|] eqn:Ea; try discriminate.
      destruct (pf_op pf) eqn:Eo; try discriminate.
      + (* > *) inv_bind H. destruct (IH _ _ H) as (Hacc & HF). split.
        * intros a ->. unfold limit_max_opt in Hacc. destruct (Z.ltb_spec a (Z.min (x + 1) usize_max)).
          -- specialize (Hacc _ eq_refl). lia.
          -- apply Hacc. reflexivity.
        * constructor; [|assumption]. exists name, ty, x. split; [exact Ea|]. split; [assumption|]. right. split; [assumption|].
          unfold limit_max_opt in Hacc. destruct acc as [a|]; [|apply Hacc; reflexivity].
          destruct (Z.ltb_spec a (Z.min (x + 1) usize_max)); [apply Hacc; reflexivity|]. specialize (Hacc _ eq_refl). lia.
      + (* >= *) inv_bind H. destruct (IH _ _ H) as (Hacc & HF). split.
        * intros a ->. unfold limit_max_opt in Hacc. destruct (Z.ltb_spec a x).
          -- specialize (Hacc _ eq_refl). lia.
          -- apply Hacc. reflexivity.
        * constructor; [|assumption]. exists name, ty, x. split; [exact Ea|]. split; [assumption|]. left. split; [assumption|].
          unfold limit_max_opt in Hacc. destruct acc as [a|]; [|apply Hacc; reflexivity].
          destruct (Z.ltb_spec a x); [apply Hacc; reflexivity|]. specialize (Hacc _ eq_refl). lia.
  Qed.

  Lemma min_limit_sound vs ss imp a a' cur cur_ty cand h m n :
    get_min_fold_count_limit args h = Ok (Some m) -> (m < usize_max)%Z -> (0 <= n)%Z ->
    forallb (fun pf => filter_passes re_match (pf_op pf) true (U64 (Z.min n (Z.max m 0)))
                         (option_map (arg_value g args vs ss imp a cur cur_ty cand) (pf_arg pf))) (fo_post h)
    = forallb (fun pf => filter_passes re_match (pf_op pf) true (U64 n)
                           (option_map (arg_value g args vs ss imp a' cur cur_ty cand) (pf_arg pf))) (fo_post h).
  Proof.
    intros Hmin Hsat Hn. destruct (min_aux_inv _ _ _ Hmin) as (_ & HF).
    apply forallb_ext_in'. intros pf Hpf. rewrite Forall_forall in HF.
    destruct (HF pf Hpf) as (name & ty & v & Ea & Hv & Hop). rewrite Ea. cbn [option_map arg_value].
    destruct (var_usize_val _ _ Hv) as (val & z & Hl & Hz & Hzv). rewrite Hl.
    destruct Hop as [(Eo & Hle)|(Eo & Hle)]; rewrite Eo; unfold Sem.filter_passes; cbn [negb opk_unary]; unfold holds;
      cbn [apply_tagged apply_filter_op_with_tagged_argument apply_filter_op negb].
    - rewrite (ge_ints (U64 (Z.min n (Z.max m 0))) val _ z eq_refl Hz), (ge_ints (U64 n) val n z eq_refl Hz).
      destruct (Z.leb_spec z (Z.min n (Z.max m 0))), (Z.leb_spec z n); try reflexivity; lia.
    - rewrite (gt_ints (U64 (Z.min n (Z.max m 0))) val _ z eq_refl Hz), (gt_ints (U64 n) val n z eq_refl Hz).
      destruct (Z.ltb_spec z (Z.min n (Z.max m 0))), (Z.ltb_spec z n); try reflexivity; lia.
  Qed.
End MinLimit.

(* ---------- folds, step loops, components ---------- *)
Lemma fold_left_ext_in {A B} (f f' : A -> B -> A) (l : list B) : forall m0,
  (forall m t, In t l -> f m t = f' m t) -> fold_left f l m0 = fold_left f' l m0.
Proof.
  induction l as [|t l IH]; intros m0 H; [reflexivity|]. cbn [fold_left].
  rewrite (H m0 t (or_introl eq_refl)). apply IH. intros m t' Ht. apply H. now right.
Qed.

Section Folds.
  Variable re_match : string -> string -> option bool.
  Variable g : graph.
  Variable args : list (string * fv).

  Lemma trunc_of_some vs ss h sub m :
    trunc_of args vs ss h sub = Some m ->
    get_min_fold_count_limit args h = Ok (Some m) /\ min_eligible vs ss h sub = true.
  Proof.
    unfold trunc_of. destruct (get_max_fold_count_limit args h) as [[?|]|]; try discriminate.
    destruct (get_min_fold_count_limit args h) as [[m'|]|]; try discriminate.
    destruct (min_eligible vs ss h sub); [|discriminate]. intros [= ->]. auto.
  Qed.

  Lemma trunc_of_inelig vs ss h sub : min_eligible vs ss h sub = false -> trunc_of args vs ss h sub = None.
  Proof.
    intros H. unfold trunc_of. destruct (get_max_fold_count_limit args h) as [[?|]|]; try reflexivity.
    destruct (get_min_fold_count_limit args h) as [[m'|]|]; try reflexivity. now rewrite H.
  Qed.

  Section OneComponent.
    Variables (root : N) (vs : list ir_vertex) (ss : list step) (outs : list (string * ctxfield)).
    Notation c := (mkComp root vs ss outs).
    Hypothesis Hreads : reads_ok_here vs ss = true.
    Hypothesis Heids : NoDup (steps_eids ss).

    Lemma step_fold_rel imp h sub sub_sem sub_sem' a a' :
      In (SFold h sub) ss ->
      (forall m, trunc_of args vs ss h sub = Some m -> (m < usize_max)%Z) ->
      (forall imp' n, map (erase sub) (sub_sem imp' n) = map (erase sub) (sub_sem' imp' n)) ->
      erase c a = erase c a' ->
      map (erase c) (step_fold_t re_match g args vs ss imp h sub sub_sem a)
      = map (erase c) (step_fold re_match g args vs ss imp h sub_sem' a').
    Proof.
      intros Hin Hsat Hsub He. unfold step_fold_t, step_fold.
      destruct (find_vertex vs (fo_from h)) as [fromv|]; [|reflexivity].
      rewrite (erase_eq_av _ _ _ _ _ _ He).
      destruct (fold_refs_ok vs ss Hreads h sub Hin) as (Himp_ok & Hpost_ok).
      destruct (lookup_N (fo_from h) (a_v a')) as [[v|]|].
      - cbv zeta.
        assert (Ei : fold_left (fun m t => insert_ref t (import_value g vs ss imp a t) m) (fo_imported h) imp
                     = fold_left (fun m t => insert_ref t (import_value g vs ss imp a' t) m) (fo_imported h) imp).
        { apply fold_left_ext_in. intros m t Ht. f_equal. rewrite forallb_forall in Himp_ok.
          rewrite <- (import_value_erase g root vs ss outs imp a t (Himp_ok t Ht)),
                  <- (import_value_erase g root vs ss outs imp a' t (Himp_ok t Ht)). now rewrite He. }
        rewrite Ei.
        set (imp' := fold_left (fun m t => insert_ref t (import_value g vs ss imp a' t) m) (fo_imported h) imp).
        set (nbrs := g_nbrs g (v_type fromv) (fo_name h) (fo_params h) v).
        set (full_t := flat_map (fun n => sub_sem imp' (Some n)) nbrs).
        set (full := flat_map (fun n => sub_sem' imp' (Some n)) nbrs).
        assert (Efull : map (erase sub) full_t = map (erase sub) full).
        { unfold full_t, full. rewrite !map_flat_map. apply flat_map_ext_in. intros n _. apply Hsub. }
        assert (Elen : List.length full_t = List.length full).
        { rewrite <- (map_length (erase sub) full_t), Efull. apply map_length. }
        assert (K : erase c (set_af a (fo_eid h) (Some (truncate (trunc_of args vs ss h sub) full_t)))
                    = erase c (set_af a' (fo_eid h) (Some full))).
        { rewrite !erase_set_af, He. cbn [option_map]. rewrite !(erase_list_here vs ss ss h sub _ Hin Heids).
          destruct (min_eligible vs ss h sub) eqn:Eel; [reflexivity|].
          rewrite (trunc_of_inelig _ _ _ _ Eel). cbn [truncate]. now rewrite Efull. }
        assert (Eb : forallb (fun pf => filter_passes re_match (pf_op pf) true
                                 (U64 (Z.of_nat (List.length (truncate (trunc_of args vs ss h sub) full_t))))
                                 (option_map (arg_value g args vs ss imp
                                                (set_af a (fo_eid h) (Some (truncate (trunc_of args vs ss h sub) full_t)))
                                                (fo_from h) (v_type fromv) (Some v)) (pf_arg pf))) (fo_post h)
                   = forallb (fun pf => filter_passes re_match (pf_op pf) true (U64 (Z.of_nat (List.length full)))
                                 (option_map (arg_value g args vs ss imp (set_af a' (fo_eid h) (Some full))
                                                (fo_from h) (v_type fromv) (Some v)) (pf_arg pf))) (fo_post h)).
        { destruct (trunc_of args vs ss h sub) as [m|] eqn:Et.
          - cbn [truncate]. rewrite take_z_length, Elen. destruct (trunc_of_some _ _ _ _ _ Et) as (Hmin & _).
            apply (min_limit_sound re_match g args); [exact Hmin|now apply Hsat|lia].
          - cbn [truncate]. rewrite Elen. apply forallb_ext_in'. intros pf Hpf. rewrite forallb_forall in Hpost_ok.
            specialize (Hpost_ok pf Hpf). destruct (pf_arg pf) as [arg|]; [|reflexivity]. cbn [option_map]. do 2 f_equal.
            rewrite <- (arg_value_erase g args root vs ss outs imp _ _ _ _ arg Hpost_ok).
            rewrite <- (arg_value_erase g args root vs ss outs imp (set_af a' (fo_eid h) (Some full)) _ _ _ arg Hpost_ok).
            cbn [truncate] in K. now rewrite K. }
        rewrite Eb. match goal with |- context [if ?b then _ else _] => destruct b end; [|reflexivity].
        cbn [map]. now rewrite K.
      - cbn [map]. now rewrite !erase_set_af, He.
      - cbn [map]. now rewrite !erase_set_af, He.
    Qed.
  End OneComponent.
End Folds.

Lemma flat_map_rel {A B} (er : A -> B) (F F' : A -> list A) :
  (forall a a', er a = er a' -> map er (F a) = map er (F' a')) ->
  forall l l', map er l = map er l' -> map er (flat_map F l) = map er (flat_map F' l').
Proof.
  intros H. induction l as [|a l IH]; intros [|a' l'] E; cbn [map flat_map] in *; try discriminate; [reflexivity|].
  injection E as E1 E2. rewrite !map_app. now rewrite (H _ _ E1), (IH _ E2).
Qed.

Section Components.
  Variable re_match : string -> string -> option bool.
  Variable g : graph.
  Variable args : list (string * fv).

  (* all static side conditions of the erasure argument, at every nesting level *)
  Fixpoint erasable (c : ir_component) {struct c} : Prop :=
    match c with
    | mkComp _ vs ss _ =>
        reads_ok_here vs ss = true /\ NoDup (steps_eids ss) /\
        (fix go (todo : list step) : Prop :=
           match todo with
           | [] => True
           | SEdge _ :: r => go r
           | SFold h sub :: r =>
               ((forall m, trunc_of args vs ss h sub = Some m -> (m < usize_max)%Z) /\ erasable sub) /\ go r
           end) ss
    end.

  Fixpoint erasable_steps (vs : list ir_vertex) (ss : list step) (todo : list step) : Prop :=
    match todo with
    | [] => True
    | SEdge _ :: r => erasable_steps vs ss r
    | SFold h sub :: r =>
        ((forall m, trunc_of args vs ss h sub = Some m -> (m < usize_max)%Z) /\ erasable sub) /\ erasable_steps vs ss r
    end.

  Lemma erasable_eq root vs ss outs :
    erasable (mkComp root vs ss outs) <-> reads_ok_here vs ss = true /\ NoDup (steps_eids ss) /\ erasable_steps vs ss ss.
  Proof.
    cbn [erasable].
    assert (G : forall todo, (fix go (todo : list step) : Prop :=
           match todo with
           | [] => True
           | SEdge _ :: r => go r
           | SFold h sub :: r =>
               ((forall m, trunc_of args vs ss h sub = Some m -> (m < usize_max)%Z) /\ erasable sub) /\ go r
           end) todo <-> erasable_steps vs ss todo).
    { induction todo as [|[e|h sub] r IH]; cbn [erasable_steps]; [tauto|exact IH|]. rewrite IH. tauto. }
    rewrite G. tauto.
  Qed.

  Lemma sem_steps_rel root vs ss outs imp :
    reads_ok_here vs ss = true -> NoDup (steps_eids ss) ->
    forall todo, incl todo ss ->
      Forall (Psub (fun sub => forall imp' n, map (erase sub) (sem_comp_t re_match g args sub imp' n)
                                               = map (erase sub) (sem_comp re_match g args sub imp' n))) todo ->
      erasable_steps vs ss todo ->
      forall A A', map (erase (mkComp root vs ss outs)) A = map (erase (mkComp root vs ss outs)) A' ->
        map (erase (mkComp root vs ss outs)) (sem_steps_t re_match g args vs ss imp todo A)
        = map (erase (mkComp root vs ss outs)) (sem_steps re_match g args vs ss imp todo A').
  Proof.
    intros Hreads Heids todo. induction todo as [|[e|h sub] r IH]; intros Hincl HF Her A A' E;
      cbn [sem_steps_t sem_steps erasable_steps] in *; [assumption| |].
    - inversion HF as [|? ? _ HF']; subst. apply IH; [intros y Hy; apply Hincl; now right|assumption|assumption|].
      rewrite !map_flat_map.
      rewrite (flat_map_ext_in _ (fun x => step_edge re_match g args vs ss imp e (erase (mkComp root vs ss outs) x)) A)
        by (intros; apply (step_edge_erase re_match g args root vs ss outs Hreads)).
      rewrite (flat_map_ext_in _ (fun x => step_edge re_match g args vs ss imp e (erase (mkComp root vs ss outs) x)) A')
        by (intros; apply (step_edge_erase re_match g args root vs ss outs Hreads)).
      rewrite <- !(flat_map_map (step_edge re_match g args vs ss imp e) (erase (mkComp root vs ss outs))). now rewrite E.
    - inversion HF as [|? ? Hs HF']; subst. destruct Her as ((Hsat & _) & Her). cbn [Psub] in Hs.
      apply IH; [intros y Hy; apply Hincl; now right|assumption|assumption|].
      apply flat_map_rel; [|exact E]. intros a a' Ea.
      apply (step_fold_rel re_match g args root vs ss outs Hreads Heids imp h sub); [apply Hincl; now left|assumption|assumption|assumption].
  Qed.

  Theorem sem_comp_rel : forall c, erasable c ->
    forall imp n, map (erase c) (sem_comp_t re_match g args c imp n) = map (erase c) (sem_comp re_match g args c imp n).
  Proof.
    induction c as [root vs ss outs IH] using comp_ind'. intros Her imp n.
    apply erasable_eq in Her. destruct Her as (Hreads & Heids & Hsteps).
    rewrite sem_comp_t_eq, sem_comp_eq. destruct (find_vertex vs root); [|reflexivity].
    destruct (enter _ _ _ _ _ _ _ _ _); [|reflexivity].
    apply sem_steps_rel; [assumption|assumption|apply incl_refl| |assumption|reflexivity].
    assert (G : forall todo,
               Forall (Psub (fun c => erasable c -> forall imp n,
                               map (erase c) (sem_comp_t re_match g args c imp n) = map (erase c) (sem_comp re_match g args c imp n))) todo ->
               erasable_steps vs ss todo ->
               Forall (Psub (fun sub => forall imp' n, map (erase sub) (sem_comp_t re_match g args sub imp' n)
                                                     = map (erase sub) (sem_comp re_match g args sub imp' n))) todo).
    { intros todo HF. induction HF as [|[e|h sub] r Hs _ IHr]; intros Hst; [constructor| |]; cbn [erasable_steps] in Hst.
      - constructor; [exact I|apply IHr; exact Hst].
      - destruct Hst as ((_ & Hsub) & Hr). constructor; [cbn [Psub] in *; intros; now apply Hs|apply IHr; exact Hr]. }
    apply G; assumption.
  Qed.
End Components.

(* ---------- the projection to rows ignores the erasure ---------- *)
Lemma no_outputs_names : forall c, comp_has_outputs c = false -> all_output_names c = [].
Proof.
  induction c as [root vs ss outs IH] using comp_ind'. intros H. rewrite all_output_names_eq. cbn [comp_has_outputs] in H.
  apply Bool.orb_false_iff in H. destruct H as (H1 & H2). destruct outs; [|discriminate]. cbn [map app].
  induction IH as [|[e|h sub] r Hs _ IHr]; cbn [names_steps]; [reflexivity|auto|].
  apply Bool.orb_false_iff in H2. destruct H2 as (H2 & H3). apply Bool.orb_false_iff in H2. destruct H2 as (Ha & Hb).
  cbn [Psub] in Hs. rewrite (Hs Hb), (IHr H3). destruct (fo_fsout h); [reflexivity|discriminate].
Qed.

Lemma elig_no_outputs vs ss h sub : min_eligible vs ss h sub = true -> fo_fsout h = [] /\ all_output_names sub = [].
Proof.
  unfold min_eligible. intros H. apply andb_prop in H. destruct H as (H & _). apply andb_prop in H. destruct H as (H1 & H2).
  apply Bool.negb_true_iff in H1. split; [destruct (fo_fsout h); [reflexivity|discriminate]|now apply no_outputs_names].
Qed.

Section Project.
  Variable g : graph.

  (* eids distinct at every level *)
  Fixpoint eids_ok (c : ir_component) {struct c} : Prop :=
    match c with
    | mkComp _ _ ss _ =>
        NoDup (steps_eids ss) /\
        (fix go (todo : list step) : Prop :=
           match todo with
           | [] => True
           | SEdge _ :: r => go r
           | SFold _ sub :: r => eids_ok sub /\ go r
           end) ss
    end.

  Theorem project_erase : forall c, eids_ok c -> forall a, project g c (erase c a) = project g c a.
  Proof.
    induction c as [root vs ss outs IH] using comp_ind'. intros (Heids & Hsub) a. rewrite !project_eq. f_equal.
    assert (G : forall todo, incl todo ss ->
                 Forall (Psub (fun c => eids_ok c -> forall a, project g c (erase c a) = project g c a)) todo ->
                 (fix go (todo : list step) : Prop :=
                    match todo with
                    | [] => True
                    | SEdge _ :: r => go r
                    | SFold _ sub :: r => eids_ok sub /\ go r
                    end) todo ->
                 project_steps g (erase (mkComp root vs ss outs) a) todo = project_steps g a todo).
      { intros todo Hincl HF. induction HF as [|[e|h sub] r Hs _ IHr]; intros Hok; cbn [project_steps]; [reflexivity| |].
        - apply IHr; [intros y Hy; apply Hincl; now right|exact Hok].
        - destruct Hok as (Hoksub & Hok). rewrite IHr; [|intros y Hy; apply Hincl; now right|exact Hok]. f_equal.
          assert (Hin : In (SFold h sub) ss) by (apply Hincl; now left).
          unfold fold_row. rewrite erase_lookup.
          destruct (lookup_N (fo_eid h) (a_f a)) as [[l|]|]; cbn [option_map]; [|reflexivity|reflexivity].
          rewrite (erase_list_here vs ss ss h sub l Hin Heids).
          destruct (min_eligible vs ss h sub) eqn:Eel.
          + destruct (elig_no_outputs _ _ _ _ Eel) as (-> & ->). reflexivity.
          + rewrite map_length, map_map. cbn [Psub] in Hs.
            assert (E : map (fun x => project g sub (erase sub x)) l = map (project g sub) l)
              by (apply map_ext; intros el; apply (Hs Hoksub el)).
            now rewrite E. }
    apply G; [apply incl_refl|exact IH|exact Hsub].
  Qed.
End Project.

(* ---------- SemT and Sem produce the same rows ---------- *)
Section Final.
  Variable re_match : string -> string -> option bool.
  Variable g : graph.
  Variable args : list (string * fv).

  Lemma erasable_eids_ok : forall c, erasable args c -> eids_ok c.
  Proof.
    induction c as [root vs ss outs IH] using comp_ind'. intros H. apply erasable_eq in H. destruct H as (_ & Heids & Hst).
    split; [assumption|]. clear Heids.
    assert (G : forall todo,
               Forall (Psub (fun c => erasable args c -> eids_ok c)) todo -> erasable_steps args vs ss todo ->
               (fix go (todo : list step) : Prop :=
                  match todo with
                  | [] => True
                  | SEdge _ :: r => go r
                  | SFold _ sub :: r => eids_ok sub /\ go r
                  end) todo).
    { intros todo HF. induction HF as [|[e|h sub] r Hs _ IHr]; intros Hst'; cbn [erasable_steps] in Hst'; [exact I|apply IHr; exact Hst'|].
      destruct Hst' as ((_ & Hsub) & Hr). split; [now apply Hs|apply IHr; exact Hr]. }
    apply G; assumption.
  Qed.

  Theorem sem_t_eq_sem q : erasable args (q_comp q) -> sem_t re_match g args q = sem re_match g args q.
  Proof.
    intros Her. unfold sem_t, sem. cbv zeta.
    set (c := q_comp q). set (starts := g_starts g (q_root_name q) (q_root_params q)).
    assert (E : map (erase c) (flat_map (fun s => sem_comp_t re_match g args c [] (Some s)) starts)
                = map (erase c) (flat_map (fun s => sem_comp re_match g args c [] (Some s)) starts)).
    { rewrite !map_flat_map. apply flat_map_ext_in. intros s _. now apply sem_comp_rel. }
    pose proof (erasable_eids_ok c Her) as Hok.
    assert (F : forall l, map (fun a => sort_row (project g c a)) l
                          = map (fun a => sort_row (project g c a)) (map (erase c) l)).
    { intros l. rewrite map_map. apply map_ext. intros a. now rewrite (project_erase g c Hok a). }
    rewrite (F (flat_map _ _)), E, <- F. reflexivity.
  Qed.
End Final.
