(* EraseWf.v — why the (repaired) eligibility test of compute_fold is the right one: if every reference
   to a fold count names the fold's root consistently (ff_root = fo_to of the fold with that eid —
   guaranteed by the frontend, C11), then no filter, import or count filter of a component reads the
   count of a fold of that component that passes min_eligible, i.e. EraseSem.reads_ok_here holds. *)
From TF Require Import Exec Sem ExecLemmas FoldOut EraseSem.
Local Open Scope string_scope.
Local Open Scope N_scope.
Local Open Scope list_scope.

Definition ref_consistent (ss : list step) (t : fieldref) : bool :=
  match t with
  | FRFold ff =>
      forallb (fun s => match s with
                        | SFold h _ => negb (N.eqb (fo_eid h) (ff_eid ff)) || N.eqb (ff_root ff) (fo_to h)
                        | SEdge _ => true
                        end) ss
  | FRContext _ => true
  end.

Definition arg_consistent (ss : list step) (o : option argument) : bool :=
  match o with Some (ATag t) => ref_consistent ss t | _ => true end.

Definition refs_consistent_here (vs : list ir_vertex) (ss : list step) : bool :=
  forallb (fun v => forallb (fun f => arg_consistent ss (vf_arg f)) (v_filters v)) vs &&
  forallb (fun s => match s with
                    | SEdge _ => true
                    | SFold h _ => forallb (ref_consistent ss) (fo_imported h) &&
                                   forallb (fun pf => arg_consistent ss (pf_arg pf)) (fo_post h)
                    end) ss.

Lemma erased_in_true vs ss todo eid :
  erased_in vs ss todo eid = true ->
  exists h sub, In (SFold h sub) todo /\ fo_eid h = eid /\ min_eligible vs ss h sub = true.
Proof.
  induction todo as [|[e|h sub] r IH]; cbn [erased_in]; intros H; [discriminate| |].
  - destruct (IH H) as (h & sub & Hin & He & Hm). exists h, sub. split; [now right|auto].
  - destruct (N.eqb_spec (fo_eid h) eid) as [E|_].
    + exists h, sub. split; [now left|auto].
    + destruct (IH H) as (h' & sub' & Hin & He & Hm). exists h', sub'. split; [now right|auto].
Qed.

Section Here.
  Variables (vs : list ir_vertex) (ss : list step).

  (* a consistent reference to the count of an eligible fold h is seen by h's eligibility test *)
  Lemma consistent_is_count_tag h sub ff :
    In (SFold h sub) ss -> fo_eid h = ff_eid ff -> ref_consistent ss (FRFold ff) = true ->
    is_count_tag_of h (FRFold ff) = true.
  Proof.
    intros Hin He Hc. cbn [ref_consistent] in Hc. rewrite forallb_forall in Hc. specialize (Hc _ Hin). cbn in Hc.
    rewrite He, N.eqb_refl in Hc. cbn [negb orb] in Hc. cbn [is_count_tag_of]. now rewrite Hc, He, N.eqb_refl.
  Qed.

  Lemma eligible_not_tagged_by_vertex h sub v f ff :
    min_eligible vs ss h sub = true -> In v vs -> In f (v_filters v) -> vf_arg f = Some (ATag (FRFold ff)) ->
    is_count_tag_of h (FRFold ff) = false.
  Proof.
    intros Hm Hv Hf Ha. unfold min_eligible in Hm. apply andb_prop in Hm. destruct Hm as (_ & Hm).
    apply Bool.negb_true_iff, Bool.orb_false_iff in Hm. destruct Hm as (Hm & _).
    destruct (is_count_tag_of h (FRFold ff)) eqn:E; [|reflexivity]. exfalso.
    assert (Ht : has_tag_on_fold_count vs h = true).
    { unfold has_tag_on_fold_count. apply existsb_exists. exists v. split; [assumption|].
      apply existsb_exists. exists f. split; [assumption|]. unfold filter_tags_fold_count. rewrite Ha. exact E. }
    congruence.
  Qed.

  Lemma eligible_not_observed h sub other sub' :
    min_eligible vs ss h sub = true -> In (SFold other sub') ss -> fold_observes_count h other = false.
  Proof.
    intros Hm Hin. unfold min_eligible in Hm. apply andb_prop in Hm. destruct Hm as (_ & Hm).
    apply Bool.negb_true_iff, Bool.orb_false_iff in Hm. destruct Hm as (_ & Hm).
    destruct (fold_observes_count h other) eqn:E; [|reflexivity]. exfalso.
    assert (Ht : existsb (fun s => match s with SFold o _ => fold_observes_count h o | SEdge _ => false end) ss = true).
    { apply existsb_exists. exists (SFold other sub'). split; [assumption|exact E]. }
    congruence.
  Qed.

  Theorem consistent_reads_ok : refs_consistent_here vs ss = true -> reads_ok_here vs ss = true.
  Proof.
    unfold refs_consistent_here, reads_ok_here. intros H. apply andb_prop in H. destruct H as (H1 & H2).
    apply andb_true_intro. split.
    - apply forallb_forall. intros v Hv. apply forallb_forall. intros f Hf.
      rewrite forallb_forall in H1. specialize (H1 v Hv). rewrite forallb_forall in H1. specialize (H1 f Hf).
      destruct (vf_arg f) as [[[cf|ff]|x t]|] eqn:Ea; try reflexivity. cbn [arg_ok ref_ok]. cbn [arg_consistent] in H1.
      destruct (erased_in vs ss ss (ff_eid ff)) eqn:Ee; [|reflexivity]. exfalso.
      destruct (erased_in_true _ _ _ _ Ee) as (h & sub & Hin & He & Hm).
      pose proof (consistent_is_count_tag h sub ff Hin He H1) as Ht.
      pose proof (eligible_not_tagged_by_vertex h sub v f ff Hm Hv Hf Ea). congruence.
    - apply forallb_forall. intros [e|other sub'] Hs; [reflexivity|].
      rewrite forallb_forall in H2. specialize (H2 _ Hs). cbn in H2. apply andb_prop in H2. destruct H2 as (Hi & Hp).
      apply andb_true_intro. split.
      + apply forallb_forall. intros [cf|ff] Ht; [reflexivity|]. cbn [ref_ok].
        rewrite forallb_forall in Hi. specialize (Hi _ Ht).
        destruct (erased_in vs ss ss (ff_eid ff)) eqn:Ee; [|reflexivity]. exfalso.
        destruct (erased_in_true _ _ _ _ Ee) as (h & sub & Hin & He & Hm).
        pose proof (consistent_is_count_tag h sub ff Hin He Hi) as Hc.
        pose proof (eligible_not_observed h sub other sub' Hm Hs) as Ho. unfold fold_observes_count in Ho.
        apply Bool.orb_false_iff in Ho. destruct Ho as (Ho & _).
        assert (Hex : existsb (is_count_tag_of h) (fo_imported other) = true) by (apply existsb_exists; eauto). congruence.
      + apply forallb_forall. intros pf Hpf. rewrite forallb_forall in Hp. specialize (Hp _ Hpf).
        destruct (pf_arg pf) as [[[cf|ff]|x t]|] eqn:Ea; try reflexivity. cbn [arg_ok ref_ok]. cbn [arg_consistent] in Hp.
        destruct (erased_in vs ss ss (ff_eid ff)) eqn:Ee; [|reflexivity]. exfalso.
        destruct (erased_in_true _ _ _ _ Ee) as (h & sub & Hin & He & Hm).
        pose proof (consistent_is_count_tag h sub ff Hin He Hp) as Hc.
        pose proof (eligible_not_observed h sub other sub' Hm Hs) as Ho. unfold fold_observes_count in Ho.
        apply Bool.orb_false_iff in Ho. destruct Ho as (_ & Ho).
        assert (Hex : existsb (fun pf => match pf_arg pf with Some (ATag t) => is_count_tag_of h t | _ => false end) (fo_post other) = true).
        { apply existsb_exists. exists pf. split; [assumption|]. now rewrite Ea. }
        congruence.
  Qed.
End Here.
