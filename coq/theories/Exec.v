(* Exec.v — model of trustfall_core/src/interpreter/execution.rs (+ the DataContext helpers of
   interpreter/mod.rs and filtering.rs::apply_filter), definitions only.
   Lazy `Box<dyn Iterator>` pipelines are modelled as functions `list ctx -> res (list ctx)`;
   every unwrap/expect/index/assert!/unreachable! is an explicit Panic. *)
From TF Require Export Lower Graph Ops.
Local Open Scope string_scope.
Local Open Scope N_scope.
Local Open Scope list_scope.

(* ---------- monadic list helpers ---------- *)
Fixpoint mapM {A B} (f : A -> res B) (l : list A) : res (list B) :=
  match l with
  | [] => Ok []
  | x :: r => do y <- f x; do ys <- mapM f r; Ok (y :: ys)
  end.
Fixpoint flat_mapM {A B} (f : A -> res (list B)) (l : list A) : res (list B) :=
  match l with
  | [] => Ok []
  | x :: r => do y <- f x; do ys <- flat_mapM f r; Ok (y ++ ys)
  end.
Fixpoint filter_mapM {A B} (f : A -> res (option B)) (l : list A) : res (list B) :=
  match l with
  | [] => Ok []
  | x :: r => do y <- f x; do ys <- filter_mapM f r;
              Ok (match y with Some b => b :: ys | None => ys end)
  end.
Fixpoint foldM {A S} (f : S -> A -> res S) (l : list A) (s : S) : res S :=
  match l with
  | [] => Ok s
  | x :: r => do s' <- f s x; foldM f r s'
  end.

(* ---------- DataContext ---------- *)
Inductive vov := VValue (v : fv) | VVec (l : list vov).      (* ValueOrVec *)

Inductive ctx := mkCtx {
  active : option vertex;
  vertices : list (N * option vertex);                (* BTreeMap<Vid, Option<Vertex>> *)
  values : list fv;                                   (* Vec used as a stack; head = top *)
  suspended : list (option vertex);                   (* stack; head = top *)
  folded_contexts : list (N * option (list ctx));     (* BTreeMap<Eid, Option<Vec<DataContext>>> *)
  folded_values : list ((N * string) * option vov);   (* BTreeMap<(Eid, name), Option<ValueOrVec>> *)
  piggyback : option (list ctx);
  imported_tags : list (fieldref * tagged)            (* BTreeMap<FieldRef, TaggedValue> *)
}.

Definition ctx_new (v : option vertex) : ctx := mkCtx v [] [] [] [] [] None [].
Definition set_active (c : ctx) (v : option vertex) : ctx :=
  mkCtx v (vertices c) (values c) (suspended c) (folded_contexts c) (folded_values c) (piggyback c) (imported_tags c).
Definition set_values (c : ctx) (vs : list fv) : ctx :=
  mkCtx (active c) (vertices c) vs (suspended c) (folded_contexts c) (folded_values c) (piggyback c) (imported_tags c).
Definition set_vertices (c : ctx) (vs : list (N * option vertex)) : ctx :=
  mkCtx (active c) vs (values c) (suspended c) (folded_contexts c) (folded_values c) (piggyback c) (imported_tags c).
Definition set_suspended (c : ctx) (s : list (option vertex)) : ctx :=
  mkCtx (active c) (vertices c) (values c) s (folded_contexts c) (folded_values c) (piggyback c) (imported_tags c).
Definition set_folded_contexts (c : ctx) (f : list (N * option (list ctx))) : ctx :=
  mkCtx (active c) (vertices c) (values c) (suspended c) f (folded_values c) (piggyback c) (imported_tags c).
Definition set_folded_values (c : ctx) (f : list ((N * string) * option vov)) : ctx :=
  mkCtx (active c) (vertices c) (values c) (suspended c) (folded_contexts c) f (piggyback c) (imported_tags c).
Definition set_piggyback (c : ctx) (p : option (list ctx)) : ctx :=
  mkCtx (active c) (vertices c) (values c) (suspended c) (folded_contexts c) (folded_values c) p (imported_tags c).
Definition set_imported (c : ctx) (t : list (fieldref * tagged)) : ctx :=
  mkCtx (active c) (vertices c) (values c) (suspended c) (folded_contexts c) (folded_values c) (piggyback c) t.

Definition push_value (c : ctx) (v : fv) : ctx := set_values c (v :: values c).
Definition pop_value (c : ctx) : res (fv * ctx) :=
  match values c with
  | v :: r => Ok (v, set_values c r)
  | [] => Panic "filtering.rs: no value present"
  end.

Definition has_key_N {A} (k : N) (l : list (N * A)) : bool :=
  match lookup_N k l with Some _ => true | None => false end.

(* record_vertex: vertices.insert_or_error(vid, active).unwrap() *)
Definition record_vertex (c : ctx) (vid : N) : res ctx :=
  if has_key_N vid (vertices c) then Panic "mod.rs:record_vertex insert_or_error"
  else Ok (set_vertices c (vertices c ++ [(vid, active c)])).

(* self.vertices[vid] *)
Definition vertex_at (c : ctx) (vid : N) : res (option vertex) :=
  match lookup_N vid (vertices c) with
  | Some v => Ok v
  | None => Panic "context.vertices[vid]: key not found"
  end.

Definition activate_vertex (c : ctx) (vid : N) : res ctx :=
  do v <- vertex_at c vid; Ok (set_active c v).

(* split_and_move_to_vertex: clone everything, piggyback := None *)
Definition split_and_move (c : ctx) (v : option vertex) : ctx := set_piggyback (set_active c v) None.
Definition move_to_vertex (c : ctx) (v : option vertex) : ctx := set_active c v.

Definition ensure_suspended (c : ctx) : ctx :=
  match active c with
  | Some v => set_suspended (set_active c None) (Some v :: suspended c)
  | None => c
  end.

Definition ensure_unsuspended (c : ctx) : res ctx :=
  match active c with
  | None => match suspended c with
            | a :: s => Ok (set_suspended (set_active c a) s)
            | [] => Panic "mod.rs:ensure_unsuspended pop().unwrap()"
            end
  | Some _ => Ok c
  end.

Definition fv_key_eqb (a b : N * string) : bool := N.eqb (fst a) (fst b) && String.eqb (snd a) (snd b).
Fixpoint lookup_fvk {A} (k : N * string) (l : list ((N * string) * A)) : option A :=
  match l with
  | [] => None
  | (k', a) :: r => if fv_key_eqb k k' then Some a else lookup_fvk k r
  end.
Fixpoint set_fvk {A} (k : N * string) (a : A) (l : list ((N * string) * A)) : list ((N * string) * A) :=
  match l with
  | [] => [(k, a)]
  | (k', a') :: r => if fv_key_eqb k k' then (k, a) :: r else (k', a') :: set_fvk k a r
  end.

(* ---------- sorting names (output_names.sort_unstable(); BTreeMap key order) ---------- *)
Fixpoint insert_sorted (s : string) (l : list string) : list string :=
  match l with
  | [] => [s]
  | x :: r => if String.leb s x then s :: l else x :: insert_sorted s r
  end.
Definition sort_names (l : list string) : list string := fold_right insert_sorted [] l.

(* ---------- usize arithmetic (64-bit) ---------- *)
Definition usize_max : Z := 2^64 - 1.

(* usize_from_field_value: clamps negative to 0; None on Null; panics otherwise *)
Definition usize_from_field_value (v : fv) : res (option Z) :=
  match v with
  | I64 z => Ok (Some (Z.max z 0))
  | U64 z => Ok (Some z)
  | Null => Ok None
  | _ => Panic "execution.rs:usize_from_field_value non-integer"
  end.

Definition expect_some {A} (site : string) (o : option A) : res A :=
  match o with Some a => Ok a | None => Panic site end.

Section WithWorld.
  Variable re_match : string -> string -> option bool.
  Variable g : graph.
  Variable args : list (string * fv).

  (* query_arguments[name] *)
  Definition arg_of (name : string) : res fv :=
    expect_some "query_arguments[name]: key not found" (lookup_str name args).

  (* what a contract-abiding adapter answers for a context *)
  Definition resolve_prop (ty field : string) (c : ctx) : fv :=
    match active c with Some v => g_prop g ty field v | None => Null end.
  Definition resolve_nbrs (ty edge : string) (ps : params) (c : ctx) : list vertex :=
    match active c with Some v => g_nbrs g ty edge ps v | None => [] end.
  Definition resolve_coerce (from to : string) (c : ctx) : bool :=
    match active c with Some v => g_coerce g from to v | None => false end.

  (* ---- coercion ---- *)
  Definition perform_coercion (from to : string) (cs : list ctx) : list ctx :=
    filter (fun c => resolve_coerce from to c || match active c with None => true | Some _ => false end) cs.
  Definition coerce_if_needed (v : ir_vertex) (cs : list ctx) : list ctx :=
    match v_from v with None => cs | Some from => perform_coercion from (v_type v) cs end.

  (* ---- max / min fold-count limits ---- *)
  Definition limit_min_opt (a b : option Z) : option Z :=      (* keep the smaller *)
    match a, b with
    | None, _ => b
    | Some l, Some r => if Z.ltb r l then b else a
    | Some _, None => a
    end.
  Definition limit_max_opt (a b : option Z) : option Z :=      (* keep the larger *)
    match a, b with
    | None, _ => b
    | Some l, Some r => if Z.ltb l r then b else a
    | Some _, None => a
    end.

  Definition var_usize (name : string) : res Z :=
    do v <- arg_of name;
    do o <- usize_from_field_value v;
    expect_some "execution.rs: for field value to be coercible to usize" o.

  Fixpoint list_max_usize (l : list fv) : res (option Z) :=
    match l with
    | [] => Ok None
    | x :: r => do o <- usize_from_field_value x;
                do xv <- expect_some "execution.rs: for field value to be coercible to usize" o;
                do m <- list_max_usize r;
                Ok (Some (match m with Some y => Z.max xv y | None => xv end))
    end.

  Definition max_limit_of (pf : pfilter) : res (option Z) :=
    match pf_arg pf with
    | Some (AVar name _) =>
        match pf_op pf with
        | Equals | LessThanOrEqual => do v <- var_usize name; Ok (Some v)
        | LessThan => do v <- var_usize name; Ok (Some (Z.max (v - 1) 0))          (* saturating_sub(1) *)
        | OneOf => do a <- arg_of name;
                   match a with
                   | List l => list_max_usize l
                   | _ => Panic "execution.rs:get_max_fold_count_limit unreachable"
                   end
        | _ => Ok None
        end
    | _ => Ok None
    end.

  Definition get_max_fold_count_limit (h : fold_hdr) : res (option Z) :=
    foldM (fun acc pf => do n <- max_limit_of pf; Ok (limit_min_opt acc n)) (fo_post h) None.

  (* returns None as soon as one post-filter gives no minimum *)
  Fixpoint get_min_fold_count_limit_aux (pfs : list pfilter) (acc : option Z) : res (option Z) :=
    match pfs with
    | [] => Ok acc
    | pf :: r =>
        match pf_arg pf, pf_op pf with
        | Some (AVar name _), GreaterThanOrEqual =>
            do v <- var_usize name; get_min_fold_count_limit_aux r (limit_max_opt acc (Some v))
        | Some (AVar name _), GreaterThan =>
            do v <- var_usize name;
            get_min_fold_count_limit_aux r (limit_max_opt acc (Some (Z.min (v + 1) usize_max)))   (* saturating_add(1) *)
        | _, _ => Ok None
        end
    end.
  Definition get_min_fold_count_limit (h : fold_hdr) : res (option Z) :=
    get_min_fold_count_limit_aux (fo_post h) None.

  (* Iterator::take(m) on a list, without building a unary number of size m *)
  Fixpoint take_z {A} (m : Z) (l : list A) : list A :=
    match l with
    | [] => []
    | x :: r => if Z.ltb 0 m then x :: take_z (m - 1) r else []
    end.

  (* collect_fold_elements on an already-computed element list *)
  Definition collect_fold_elements {A} (elems : list A) (maxl minl : option Z) : option (list A) :=
    match maxl with
    | Some m => if Z.ltb m (Z.of_nat (List.length elems)) then None else Some elems
    | None => match minl with
              | Some m => Some (take_z m elems)
              | None => Some elems
              end
    end.

  (* has_tag_on_fold_count: some filter of some vertex of the parent component uses this fold's count as a tag *)
  Definition filter_tags_fold_count (h : fold_hdr) (f : vfilter) : bool :=
    match vf_arg f with
    | Some (ATag (FRFold ff)) => N.eqb (ff_root ff) (fo_to h) && N.eqb (ff_eid ff) (fo_eid h)
    | _ => false
    end.
  Definition has_tag_on_fold_count (parent_vertices : list ir_vertex) (h : fold_hdr) : bool :=
    existsb (fun v => existsb (filter_tags_fold_count h) (v_filters v)) parent_vertices.

  (* component_has_outputs: the component or a fold nested inside it (at any depth) produces an output *)
  Fixpoint comp_has_outputs (c : ir_component) : bool :=
    match c with
    | mkComp _ _ ss outs =>
        (match outs with [] => false | _ => true end) ||
        (fix go (ss : list step) : bool :=
           match ss with
           | [] => false
           | SEdge _ :: r => go r
           | SFold h sub :: r => (match fo_fsout h with [] => false | _ => true end) || comp_has_outputs sub || go r
           end) ss
    end.

  Definition is_count_tag_of (h : fold_hdr) (t : fieldref) : bool :=
    match t with
    | FRFold ff => N.eqb (ff_root ff) (fo_to h) && N.eqb (ff_eid ff) (fo_eid h)
    | FRContext _ => false
    end.

  (* a fold of the parent component observes the count of fold h: it imports the tag (used inside it,
     at any depth) or one of its own count filters compares against it *)
  Definition fold_observes_count (h other : fold_hdr) : bool :=
    existsb (is_count_tag_of h) (fo_imported other) ||
    existsb (fun pf => match pf_arg pf with Some (ATag t) => is_count_tag_of h t | _ => false end) (fo_post other).

  (* the eligibility test of compute_fold for the take(min) truncation *)
  Definition min_eligible (vs : list ir_vertex) (ss : list step) (h : fold_hdr) (sub : ir_component) : bool :=
    negb (comp_has_outputs sub)
    && (match fo_fsout h with [] => true | _ => false end)
    && negb (has_tag_on_fold_count vs h
             || existsb (fun s => match s with SFold other _ => fold_observes_count h other | SEdge _ => false end) ss).

  (* ---- tagged values for filter right-hand sides ---- *)
  Definition fold_count_value (eid : N) (c : ctx) : res tagged :=
    match lookup_N eid (folded_contexts c) with
    | None => Panic "ctx.folded_contexts[fold_eid]: key not found"
    | Some None => Ok TNone
    | Some (Some l) => Ok (TSome (U64 (Z.of_nat (List.length l))))
    end.

  (* compute_context_field_with_separate_value; the suspend/move/restore dance nets out to the
     identity on the context, so only the computed value is modelled *)
  Definition context_field_value (vs : list ir_vertex) (cf : ctxfield) (c : ctx) : res tagged :=
    match find_vertex vs (cf_vid cf) with
    | Some vtx =>
        do ov <- vertex_at c (cf_vid cf);
        Ok (match ov with
            | Some v => TSome (g_prop g (v_type vtx) (cf_name cf) v)
            | None => TNone
            end)
    | None =>
        expect_some "ctx.imported_tags[field_ref]: key not found" (lookup_ref (FRContext cf) (imported_tags c))
    end.

  (* regex arguments are compiled when the filter stage is built, before any context flows *)
  Definition precheck_static (op : opk) (right : fv) : res unit :=
    match op with
    | RegexMatches | NotRegexMatches =>
        match right with
        | Str p => match re_match p EmptyString with
                   | Some _ => Ok tt
                   | None => Panic "filtering.rs: regex argument was not a valid regex"
                   end
        | _ => Panic "filtering.rs: regex argument was not a string"
        end
    | _ => Ok tt
    end.

  (* filtering.rs::apply_filter for one context whose value stack holds the left operand.
     `vs`/`ss` are the current component's vertices and steps, `cur` the vertex being filtered. *)
  Definition filter_one (vs : list ir_vertex) (ss : list step) (cur : N) (cur_ty : string)
             (op : opk) (arg : option argument) (static_right : option fv) (c0 : ctx) : res (option ctx) :=
    do lc <- pop_value c0;
    let left := fst lc in let c := snd lc in
    let is_active := match active c with Some _ => true | None => false end in
    match apply_unary op left is_active with
    | Some b => Ok (if b then Some c else None)
    | None =>
        match arg with
        | None => Panic "filtering.rs: no argument present for filter"
        | Some (AVar _ _) =>
            do right <- expect_some "static right value" static_right;
            do b <- apply_static re_match op left right is_active;
            Ok (if b then Some c else None)
        | Some (ATag (FRContext cf)) =>
            do t <- (if N.eqb (cf_vid cf) cur
                     then Ok (TSome (resolve_prop cur_ty (cf_name cf) c))
                     else context_field_value vs cf c);
            do b <- apply_tagged re_match op left (match t with TSome v => Some v | TNone => None end) is_active;
            Ok (if b then Some c else None)
        | Some (ATag (FRFold ff)) =>
            do t <- (if has_fold ss (ff_eid ff)
                     then fold_count_value (ff_eid ff) c
                     else expect_some "ctx.imported_tags[field_ref]: key not found"
                            (lookup_ref (FRFold ff) (imported_tags c)));
            do b <- apply_tagged re_match op left (match t with TSome v => Some v | TNone => None end) is_active;
            Ok (if b then Some c else None)
        end
    end.

  Definition filter_stage (vs : list ir_vertex) (ss : list step) (cur : N) (cur_ty : string)
             (op : opk) (arg : option argument) (cs : list ctx) : res (list ctx) :=
    do sr <- (match arg with
              | Some (AVar name _) =>
                  if opk_unary op then Ok None
                  else do r <- arg_of name; do _ <- precheck_static op r; Ok (Some r)
              | _ => Ok None
              end);
    filter_mapM (filter_one vs ss cur cur_ty op arg sr) cs.

  (* apply_local_field_filter: resolve the local field, push it, filter *)
  Definition local_filter_stage (vs : list ir_vertex) (ss : list step) (v : ir_vertex) (f : vfilter)
             (cs : list ctx) : res (list ctx) :=
    let cs' := map (fun c => push_value c (resolve_prop (v_type v) (vf_field f) c)) cs in
    filter_stage vs ss (v_vid v) (v_type v) (vf_op f) (vf_arg f) cs'.

  (* perform_entry_into_new_vertex (also the root-vertex prologue of compute_component) *)
  Definition enter_vertex (vs : list ir_vertex) (ss : list step) (v : ir_vertex) (cs : list ctx) : res (list ctx) :=
    do cs1 <- foldM (fun cs f => local_filter_stage vs ss v f cs) (v_filters v) (coerce_if_needed v cs);
    mapM (fun c => record_vertex c (v_vid v)) cs1.

  Definition vertex_of (vs : list ir_vertex) (vid : N) : res ir_vertex :=
    expect_some "component.vertices[vid]: key not found" (find_vertex vs vid).

  (* ---- non-recursive edges: EdgeExpander ---- *)
  Definition edge_expander (optional : bool) (c : ctx) (ns : list vertex) : list ctx :=
    map (fun n => split_and_move c (Some n)) ns ++
    (match active c with
     | None => [split_and_move c None]
     | Some _ => if optional then (match ns with [] => [split_and_move c None] | _ => [] end) else []
     end).

  Definition expand_non_recursive_edge (from : ir_vertex) (e : ir_edge) (cs : list ctx) : res (list ctx) :=
    do cs1 <- mapM (fun c => activate_vertex c (v_vid from)) cs;
    Ok (flat_map (fun c => edge_expander (e_optional e) c (resolve_nbrs (v_type from) (e_name e) (e_params e) c)) cs1).

  (* ---- recursive edges ---- *)
  Definition recursive_edge_expander (c : ctx) (ns : list vertex) : list ctx :=
    match ns with
    | [] => [c]
    | n1 :: rest =>
        let base := split_and_move c None in
        set_piggyback (split_and_move c (Some n1)) (Some [ensure_suspended c])
        :: map (fun n => split_and_move base (Some n)) rest
    end.

  Definition one_recursive_expansion (from_type : string) (e : ir_edge) (cs : list ctx) : list ctx :=
    flat_map (fun c => recursive_edge_expander c (resolve_nbrs from_type (e_name e) (e_params e) c)) cs.

  (* unpack_piggyback: riders first (recursively), then the context itself without piggyback *)
  Fixpoint unpack_piggyback (c : ctx) : list ctx :=
    match c with
    | mkCtx a vs vals susp fc fvs pb imp =>
        (match pb with
         | Some l => (fix go (l : list ctx) : list ctx :=
                        match l with [] => [] | x :: r => unpack_piggyback x ++ go r end) l
         | None => []
         end) ++ [mkCtx a vs vals susp fc fvs None imp]
    end.

  Definition post_process_recursive_expansion (cs : list ctx) : res (list ctx) :=
    mapM ensure_unsuspended (flat_map unpack_piggyback cs).

  Fixpoint recursion_rounds (k : nat) (endpoint_type : string) (coerce_to : option string)
           (recursing_from : string) (e : ir_edge) (cs : list ctx) : list ctx :=
    match k with
    | O => cs
    | S k' =>
        let cs1 := match coerce_to with
                   | Some to => map (fun c => if resolve_coerce endpoint_type to c then c else ensure_suspended c) cs
                   | None => cs
                   end in
        recursion_rounds k' endpoint_type coerce_to recursing_from e (one_recursive_expansion recursing_from e cs1)
    end.

  Definition expand_recursive_edge (from to : ir_vertex) (e : ir_edge) (r : recursive) (cs : list ctx)
    : res (list ctx) :=
    do cs0 <- mapM (fun c =>
                      let c' := match active c with
                                | None => set_suspended c (None :: suspended c)
                                | Some _ => c
                                end in
                      activate_vertex c' (v_vid from)) cs;
    let cs1 := one_recursive_expansion (v_type from) e cs0 in
    let endpoint_type := match v_from to with Some t => t | None => v_type to end in
    let recursing_from := match r_coerce r with Some t => t | None => endpoint_type end in
    (* for _ in 2..=max_depth *)
    let cs2 := recursion_rounds (N.to_nat (r_depth r) - 1) endpoint_type (r_coerce r) recursing_from e cs1 in
    post_process_recursive_expansion cs2.

  Definition expand_edge (vs : list ir_vertex) (ss : list step) (e : ir_edge) (cs : list ctx) : res (list ctx) :=
    do from <- vertex_of vs (e_from e);
    do to <- vertex_of vs (e_to e);
    do cs1 <- (match e_rec e with
               | Some r => expand_recursive_edge from to e r cs
               | None => expand_non_recursive_edge from e cs
               end);
    enter_vertex vs ss to cs1.

  (* ---- fold outputs ---- *)
  (* all (eid, output name) keys of the folds nested anywhere below, for the empty-fold default walk *)
  Fixpoint nested_fold_keys (c : ir_component) : list (N * string) :=
    match c with
    | mkComp _ _ ss _ =>
        (fix go (ss : list step) : list (N * string) :=
           match ss with
           | [] => []
           | SEdge _ :: r => go r
           | SFold h sub :: r =>
               map (fun n => (fo_eid h, n)) (fo_fsout h)
               ++ map (fun o => (fo_eid h, fst o)) (c_outputs sub)
               ++ nested_fold_keys sub ++ go r
           end) ss
    end.

  (* push one value onto the Vec stored under key (entry().or_insert(Some(Vec[]))...push) *)
  Definition push_folded (k : N * string) (x : vov) (m : list ((N * string) * option vov))
    : res (list ((N * string) * option vov)) :=
    match lookup_fvk k m with
    | None => Ok (set_fvk k (Some (VVec [x])) m)
    | Some None => Panic "execution.rs:compute_fold expect(not Some)"
    | Some (Some (VValue _)) => Panic "execution.rs:compute_fold expect(not a Vec)"
    | Some (Some (VVec l)) => Ok (set_fvk k (Some (VVec (l ++ [x]))) m)
    end.

  (* like push_folded but the key must exist: get_mut().expect("key not present") *)
  Definition push_folded_existing (k : N * string) (x : vov) (m : list ((N * string) * option vov))
    : res (list ((N * string) * option vov)) :=
    match lookup_fvk k m with
    | None => Panic "execution.rs:compute_fold expect(key not present)"
    | Some None => Panic "execution.rs:compute_fold expect(value was None)"
    | Some (Some (VValue _)) => Panic "execution.rs:compute_fold expect(not a Vec)"
    | Some (Some (VVec l)) => Ok (set_fvk k (Some (VVec (l ++ [x]))) m)
    end.

  (* values for the fold's own outputs, for one element context: names in sorted order *)
  Definition element_output_values (sub : ir_component) (names : list string) (el : ctx) : res (list fv) :=
    mapM (fun name =>
            do cf <- expect_some "fold.component.outputs[name]" (lookup_str name (c_outputs sub));
            do ov <- vertex_at el (cf_vid cf);
            do vtx <- vertex_of (c_vertices sub) (cf_vid cf);
            Ok (match ov with Some v => g_prop g (v_type vtx) (cf_name cf) v | None => Null end)) names.

  Definition fold_outputs_one (h : fold_hdr) (sub : ir_component) (c : ctx) : res ctx :=
    let eid := fo_eid h in
    do fe <- expect_some "ctx.folded_contexts[fold_eid]" (lookup_N eid (folded_contexts c));
    (* fold-specific (count) outputs *)
    do fvals1 <- foldM (fun m name =>
                          match lookup_fvk (eid, name) m with
                          | Some _ => Panic "execution.rs: this fold output was already computed"
                          | None => Ok (m ++ [((eid, name),
                                               match fe with
                                               | Some l => Some (VValue (U64 (Z.of_nat (List.length l))))
                                               | None => None
                                               end)])
                          end) (fo_fsout h) (folded_values c);
    let names := sort_names (map fst (c_outputs sub)) in
    let default := match fe with Some _ => Some (VVec []) | None => None end in
    let init := map (fun n => ((eid, n), default)) names in
    do local <-
      (match fe with
       | Some (el0 :: els) =>
           foldM (fun m el =>
                    do vals <- element_output_values sub names el;
                    do m1 <- foldM (fun m kv => push_folded (fst kv)
                                                  (match snd kv with Some x => x | None => VValue Null end) m)
                                   (folded_values el) m;
                    foldM (fun m nv => push_folded_existing (eid, fst nv) (VValue (snd nv)) m)
                          (combine names vals) m1)
                 (el0 :: els) init
       | _ =>
           Ok (fold_left (fun m k => set_fvk k default m) (nested_fold_keys sub) init)
       end);
    (* ctx.folded_values.extend(folded_values); assert disjoint *)
    if existsb (fun kv => match lookup_fvk (fst kv) fvals1 with Some _ => true | None => false end) local
    then Panic "execution.rs:compute_fold assert_eq!(disjoint folded_values)"
    else Ok (set_folded_values c (fvals1 ++ local)).

  (* ---- compute_fold, for the fold `h` of the component (vs, ss) whose sub-component is run by `sub_compute` ---- *)
  Definition fold_step (vs : list ir_vertex) (ss : list step) (h : fold_hdr) (sub : ir_component)
             (sub_compute : list ctx -> res (list ctx)) (cs : list ctx) : res (list ctx) :=
    do from <- vertex_of vs (fo_from h);
    (* imported tags *)
    do cs1 <- foldM (fun cs t =>
               match t with
               | FRContext cf =>
                   do fvtx <- vertex_of vs (cf_vid cf);
                   mapM (fun c =>
                           do c1 <- activate_vertex c (cf_vid cf);
                           let value := resolve_prop (v_type fvtx) (cf_name cf) c1 in
                           do ov <- vertex_at c1 (cf_vid cf);
                           let tv := match ov with Some _ => TSome value | None => TNone end in
                           Ok (set_imported c1 (insert_ref t tv (imported_tags c1)))) cs
               | FRFold ff =>
                   mapM (fun c => do tv <- fold_count_value (ff_eid ff) c;
                                  Ok (set_imported c (insert_ref t tv (imported_tags c)))) cs
               end) (fo_imported h) cs;
    do cs2 <- mapM (fun c => activate_vertex c (fo_from h)) cs1;
    do maxl <- get_max_fold_count_limit h;
    do minl0 <- get_min_fold_count_limit h;
    let minl := match minl0 with
                | Some m =>
                    if min_eligible vs ss h sub then Some m else None
                | None => None
                end in
    do cs3 <- filter_mapM (fun c =>
               let ns := resolve_nbrs (v_type from) (fo_name h) (fo_params h) c in
               let imported := imported_tags c in
               do computed <- sub_compute (map (fun n => set_imported (ctx_new (Some n)) imported) ns);
               do ov <- vertex_at c (fo_from h);
               match (match ov with
                      | Some _ => match collect_fold_elements computed maxl minl with
                                  | Some els => Some (Some els)
                                  | None => None
                                  end
                      | None => Some None
                      end) with
               | None => Ok None
               | Some fold_elements =>
                   if has_key_N (fo_eid h) (folded_contexts c)
                   then Panic "execution.rs:compute_fold folded_contexts.insert_or_error"
                   else
                     let c1 := set_folded_contexts c (folded_contexts c ++ [(fo_eid h, fold_elements)]) in
                     let imp := fold_left (fun m t => match remove_ref t m with Some m' => m' | None => m end)
                                          (fo_imported h) (imported_tags c1) in
                     Ok (Some (set_imported c1 imp))
               end) cs2;
    (* post-fold filters *)
    do cs4 <- foldM (fun cs pf =>
               do cs' <- mapM (fun c => do tv <- fold_count_value (fo_eid h) c;
                                        match tv with
                                        | TSome v => Ok (push_value c v)
                                        | TNone => Ok (push_value c Null)   (* fold inside a missing optional: placeholder, the filter passes *)
                                        end) cs;
               filter_stage vs ss (fo_from h) (v_type from) (pf_op pf) (pf_arg pf) cs')
             (fo_post h) cs3;
    mapM (fold_outputs_one h sub) cs4.

  (* ---- the component interpreter ---- *)
  Fixpoint compute_component (c : ir_component) (cs : list ctx) {struct c} : res (list ctx) :=
    match c with
    | mkComp root vs ss outs =>
        do rootv <- vertex_of vs root;
        do cs0 <- enter_vertex vs ss rootv cs;
        (fix go (todo : list step) (cs : list ctx) {struct todo} : res (list ctx) :=
           match todo with
           | [] => Ok cs
           | SEdge e :: r => do cs' <- expand_edge vs ss e cs; go r cs'
           | SFold h sub :: r => do cs' <- fold_step vs ss h sub (compute_component sub) cs; go r cs'
           end) ss cs0
    end.

  (* the step loop on its own (definitionally the inner loop of compute_component) *)
  Fixpoint exec_steps (vs : list ir_vertex) (ss : list step) (todo : list step) (cs : list ctx) {struct todo}
    : res (list ctx) :=
    match todo with
    | [] => Ok cs
    | SEdge e :: r => do cs' <- expand_edge vs ss e cs; exec_steps vs ss r cs'
    | SFold h sub :: r => do cs' <- fold_step vs ss h sub (compute_component sub) cs; exec_steps vs ss r cs'
    end.

  (* ---- construct_outputs ---- *)
  Fixpoint vov_to_fv (v : vov) : fv :=
    match v with
    | VValue x => x
    | VVec l => List (map vov_to_fv l)
    end.

  Definition row := list (string * fv).

  Fixpoint insert_row (k : string) (v : fv) (r : row) : row :=
    match r with
    | [] => [(k, v)]
    | (k', v') :: t => if String.leb k k' then (k, v) :: r else (k', v') :: insert_row k v t
    end.

  Definition construct_output_one (c : ir_component) (names : list string) (cx : ctx) : res row :=
    do vals <- mapM (fun name =>
                       do cf <- expect_some "root_component.outputs[name]" (lookup_str name (c_outputs c));
                       do ov <- vertex_at cx (cf_vid cf);
                       do vtx <- vertex_of (c_vertices c) (cf_vid cf);
                       Ok (match ov with Some v => g_prop g (v_type vtx) (cf_name cf) v | None => Null end)) names;
    if negb (Nat.eqb (List.length (values cx) + List.length vals) (List.length names))
    then Panic "execution.rs:construct_outputs assert!(values.len() == output_names.len())"
    else
      foldM (fun r kv =>
               let name := snd (fst kv) in
               match lookup_str name r with
               | Some _ => Panic "execution.rs:construct_outputs assert!(existing.is_none())"
               | None => Ok (insert_row name (match snd kv with Some x => vov_to_fv x | None => Null end) r)
               end)
            (folded_values cx)
            (fold_right (fun nv r => insert_row (fst nv) (snd nv) r) [] (combine names vals)).

  Definition interpret (q : ir_query) : res (list row) :=
    let c := q_comp q in
    let starts := g_starts g (q_root_name q) (q_root_params q) in
    do cs <- compute_component c (map (fun v => ctx_new (Some v)) starts);
    mapM (construct_output_one c (sort_names (map fst (c_outputs c)))) cs.
End WithWorld.
