(* ExecLemmas.v — generic facts about the res monad and the list helpers of Exec.v. *)
From Coq Require Import Lia.
From TF Require Import Exec.
Local Open Scope string_scope.
Local Open Scope N_scope.
Local Open Scope list_scope.

Lemma bind_ok {A B} (r : res A) (f : A -> res B) y :
  bind r f = Ok y -> exists x, r = Ok x /\ f x = Ok y.
Proof. destruct r as [x|s]; cbn; [eauto|discriminate]. Qed.

Ltac inv_bind H :=
  match type of H with
  | bind ?r ?f = Ok ?y =>
      let x := fresh "x" in let Hx := fresh "Hx" in
      apply bind_ok in H; destruct H as (x & Hx & H)
  end.

Lemma mapM_ok {A B} (f : A -> res B) l r :
  mapM f l = Ok r -> Forall2 (fun x y => f x = Ok y) l r.
Proof.
  revert r. induction l as [|x l IH]; cbn; intros r H.
  - injection H as <-. constructor.
  - inv_bind H. inv_bind H. injection H as <-. constructor; auto.
Qed.

Lemma mapM_ok_map {A B} (f : A -> res B) (h : A -> B) l r :
  (forall x y, f x = Ok y -> y = h x) -> mapM f l = Ok r -> r = map h l.
Proof.
  intros Hf H. apply mapM_ok in H. induction H as [|x y l r Hxy _ IH]; cbn; [reflexivity|].
  now rewrite (Hf _ _ Hxy), IH.
Qed.

Lemma mapM_app {A B} (f : A -> res B) l1 l2 r :
  mapM f (l1 ++ l2) = Ok r ->
  exists r1 r2, mapM f l1 = Ok r1 /\ mapM f l2 = Ok r2 /\ r = r1 ++ r2.
Proof.
  revert r. induction l1 as [|x l1 IH]; cbn; intros r H.
  - exists [], r. auto.
  - inv_bind H. inv_bind H. injection H as <-.
    destruct (IH _ Hx0) as (r1 & r2 & H1 & H2 & ->).
    exists (x0 :: r1), r2. rewrite Hx, H1. cbn. auto.
Qed.

Lemma mapM_app_ok {A B} (f : A -> res B) l1 l2 r1 r2 :
  mapM f l1 = Ok r1 -> mapM f l2 = Ok r2 -> mapM f (l1 ++ l2) = Ok (r1 ++ r2).
Proof.
  revert r1. induction l1 as [|x l1 IH]; cbn; intros r1 H1 H2.
  - injection H1 as <-. exact H2.
  - inv_bind H1. inv_bind H1. injection H1 as <-. rewrite Hx. cbn. rewrite (IH _ Hx0 H2). reflexivity.
Qed.

Lemma mapM_pure {A B} (h : A -> B) l : mapM (fun x => Ok (h x)) l = Ok (map h l).
Proof. induction l as [|x l IH]; cbn; [reflexivity|]. now rewrite IH. Qed.

(* a stage is a function on lists of contexts; `per` is its per-element behaviour *)
Definition ok_or_nil {A} (r : res (list A)) : list A := match r with Ok l => l | Panic _ => [] end.

Lemma filter_mapM_ok {A B} (f : A -> res (option B)) l r :
  filter_mapM f l = Ok r ->
  r = flat_map (fun x => match f x with Ok (Some y) => [y] | _ => [] end) l /\
  Forall (fun x => exists o, f x = Ok o) l.
Proof.
  revert r. induction l as [|x l IH]; cbn; intros r H.
  - injection H as <-. auto.
  - inv_bind H. inv_bind H. injection H as <-. destruct (IH _ Hx0) as (-> & HF).
    rewrite Hx. split; [destruct x0; reflexivity|]. constructor; eauto.
Qed.

Lemma filter_mapM_app {A B} (f : A -> res (option B)) l1 l2 r :
  filter_mapM f (l1 ++ l2) = Ok r ->
  exists r1 r2, filter_mapM f l1 = Ok r1 /\ filter_mapM f l2 = Ok r2 /\ r = r1 ++ r2.
Proof.
  revert r. induction l1 as [|x l1 IH]; cbn; intros r H.
  - exists [], r. auto.
  - inv_bind H. inv_bind H. injection H as <-.
    destruct (IH _ Hx0) as (r1 & r2 & H1 & H2 & ->).
    rewrite Hx, H1. cbn. destruct x0; eexists _, r2; (split; [reflexivity|]); auto.
Qed.

Lemma foldM_ok_ind {A S} (f : S -> A -> res S) (P : S -> Prop) l s r :
  P s -> (forall s a s', P s -> In a l -> f s a = Ok s' -> P s') -> foldM f l s = Ok r -> P r.
Proof.
  revert s. induction l as [|a l IH]; cbn; intros s Hs Hstep H.
  - now injection H as <-.
  - inv_bind H. eapply IH; [| |exact H].
    + eapply Hstep; eauto.
    + intros; eapply Hstep; eauto.
Qed.

Lemma foldM_app {A S} (f : S -> A -> res S) l1 l2 s :
  foldM f (l1 ++ l2) s = bind (foldM f l1 s) (foldM f l2).
Proof.
  revert s. induction l1 as [|a l1 IH]; cbn; intros s; [reflexivity|].
  destruct (f s a); cbn; [apply IH|reflexivity].
Qed.

Lemma flat_map_map {A B C} (f : B -> list C) (h : A -> B) l :
  flat_map f (map h l) = flat_map (fun x => f (h x)) l.
Proof. induction l as [|x l IH]; cbn; [reflexivity|]. now rewrite IH. Qed.

Lemma map_flat_map {A B C} (h : B -> C) (f : A -> list B) l :
  map h (flat_map f l) = flat_map (fun x => map h (f x)) l.
Proof. induction l as [|x l IH]; cbn; [reflexivity|]. now rewrite map_app, IH. Qed.

Lemma flat_map_ext_in {A B} (f h : A -> list B) l :
  (forall x, In x l -> f x = h x) -> flat_map f l = flat_map h l.
Proof.
  induction l as [|x l IH]; cbn; intros H; [reflexivity|].
  rewrite H by auto. rewrite IH; auto.
Qed.

Lemma flat_map_filter {A} (p : A -> bool) l :
  filter p l = flat_map (fun x => if p x then [x] else []) l.
Proof. induction l as [|x l IH]; cbn; [reflexivity|]. destruct (p x); cbn; now rewrite IH. Qed.

Lemma flat_map_flat_map {A B C} (f : A -> list B) (h : B -> list C) l :
  flat_map h (flat_map f l) = flat_map (fun x => flat_map h (f x)) l.
Proof. induction l as [|x l IH]; cbn; [reflexivity|]. now rewrite flat_map_app, IH. Qed.

Lemma flat_map_singleton {A B} (h : A -> B) l : flat_map (fun x => [h x]) l = map h l.
Proof. induction l as [|x l IH]; cbn; [reflexivity|]. now rewrite IH. Qed.

Lemma Forall2_flat_map_eq {A B C} (R : A -> list B -> Prop) (f : A -> list C) (h : B -> C) l rs :
  Forall2 R l rs -> (forall x r, R x r -> map h r = f x) -> map h (List.concat rs) = flat_map f l.
Proof.
  induction 1 as [|x r l rs Hxr _ IH]; cbn; intros Hf; [reflexivity|].
  rewrite map_app, (Hf _ _ Hxr), IH; auto.
Qed.
