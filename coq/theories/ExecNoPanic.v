(* ExecNoPanic.v — panic-freedom lemmas for parts of the interpreter model (C09). *)
From Coq Require Import Lia.
From TF Require Import Exec Sem ExecLemmas Sim SimRec SimComp.
Local Open Scope string_scope.
Local Open Scope N_scope.
Local Open Scope list_scope.

Lemma mapM_flat_map_ok {A B C} (f : B -> res C) (h : A -> list B) l :
  Forall (fun x => exists ys, mapM f (h x) = Ok ys) l -> exists r, mapM f (flat_map h l) = Ok r.
Proof.
  induction 1 as [|x l (ys & Hys) _ (r & Hr)]; [exists []; reflexivity|].
  cbn [flat_map]. exists (ys ++ r). now apply mapM_app_ok.
Qed.

Lemma mapM_all_ok {A B} (f : A -> res B) l :
  Forall (fun x => exists y, f x = Ok y) l -> exists r, mapM f l = Ok r.
Proof.
  induction 1 as [|x l (y & Hy) _ (r & Hr)]; [exists []; reflexivity|].
  cbn [mapM]. rewrite Hy, Hr. cbn. eauto.
Qed.

Lemma mapM_map_ok {A B} (f : A -> res B) (h : A -> B) l :
  Forall (fun x => f x = Ok (h x)) l -> mapM f l = Ok (map h l).
Proof. induction 1 as [|x l Hx _ IH]; [reflexivity|]. cbn [mapM map]. now rewrite Hx, IH. Qed.

Section NoPanic.
  Variable g : graph.
  Hypothesis Hind : ty_indep g.

  (* The suspended-vertices stack discipline of @recurse: ensure_unsuspended's pop().unwrap() and the
     vertices[from] index cannot fire, for any depth, any graph, any number of contexts. *)
  Theorem recursive_expansion_no_panic from to e r0 cs :
    r_depth r0 <> 0 ->
    Forall (fun c => piggyback c = None /\ has_key_N (v_vid from) (vertices c) = true /\
                     (act_at c (v_vid from) = None -> active c = None \/ suspended c <> [])) cs ->
    exists r, expand_recursive_edge g from to e r0 cs = Ok r.
  Proof.
    intros Hd Hcs. unfold expand_recursive_edge.
    assert (Hprep : mapM (fun c => activate_vertex (match active c with
                                                    | None => set_suspended c (None :: suspended c)
                                                    | Some _ => c end) (v_vid from)) cs
                    = Ok (map (rec_prep (v_vid from)) cs)).
    { apply mapM_map_ok. apply Forall_forall. intros c Hin. rewrite Forall_forall in Hcs.
      destruct (Hcs _ Hin) as (Hp & Hk & _).
      unfold activate_vertex, vertex_at, rec_prep, act_at, has_key_N in *.
      destruct c as [[a|] vs vals susp fcs fvs pb im]; cbn in *;
        destruct (lookup_N (v_vid from) vs); try discriminate; reflexivity. }
    rewrite Hprep. cbn [bind].
    set (endpoint_ty := match v_from to with Some t => t | None => v_type to end).
    set (recursing_from := match r_coerce r0 with Some t => t | None => endpoint_ty end).
    destruct (N.to_nat (r_depth r0)) as [|k] eqn:Ek; [lia|].
    replace (S k - 1)%nat with k by lia.
    rewrite (recursion_rounds_eq g (v_type from) recursing_from endpoint_ty (r_coerce r0) e).
    change (one_recursive_expansion g (v_type from) e (map (rec_prep (v_vid from)) cs))
      with (round g (v_type from) recursing_from endpoint_ty (r_coerce r0) e true (map (rec_prep (v_vid from)) cs)).
    change (rounds g (v_type from) recursing_from endpoint_ty (r_coerce r0) e (repeat false k)
              (round g (v_type from) recursing_from endpoint_ty (r_coerce r0) e true (map (rec_prep (v_vid from)) cs)))
      with (rounds g (v_type from) recursing_from endpoint_ty (r_coerce r0) e (flags_of true (S k)) (map (rec_prep (v_vid from)) cs)).
    unfold post_process_recursive_expansion.
    assert (Hpb : Forall pb_inert (map (rec_prep (v_vid from)) cs)).
    { apply Forall_forall. intros y Hy. apply in_map_iff in Hy. destruct Hy as (c & <- & Hin).
      rewrite Forall_forall in Hcs. destruct (Hcs _ Hin) as (Hp & _).
      intros l Hl. unfold rec_prep in Hl. destruct c as [[a|] ? ? ? ? ? ? ?]; cbn in *; congruence. }
    change (flat_map unpack_piggyback ?l) with (flat l).
    rewrite (rounds_flat g (v_type from) recursing_from endpoint_ty (r_coerce r0) e _ _ Hpb).
    assert (Hflat : flat (map (rec_prep (v_vid from)) cs) = map (rec_prep (v_vid from)) cs).
    { clear Hprep Hpb. induction Hcs as [|c cs (Hp & _) _ IH]; [reflexivity|]. cbn [map]. unfold flat in *. cbn [flat_map].
      rewrite IH. rewrite unpack_eq.
      assert (Hp' : piggyback (rec_prep (v_vid from) c) = None).
      { unfold rec_prep. destruct c as [[a|] ? ? ? ? ? ? ?]; cbn in *; assumption. }
      rewrite Hp'. cbn [app]. f_equal. destruct (rec_prep (v_vid from) c); cbn in *. now subst. }
    rewrite Hflat, iterF_flat_map, flat_map_map.
    apply mapM_flat_map_ok. clear Hprep Hpb Hflat.
    induction Hcs as [|c cs (Hp & Hk & Hsc) _ IH]; [constructor|]. constructor; [|exact IH].
    assert (Hp' : piggyback (rec_prep (v_vid from) c) = None).
    { unfold rec_prep. destruct c as [[a|] ? ? ? ? ? ? ?]; cbn in *; assumption. }
    assert (Hact : active (rec_prep (v_vid from) c) = act_at c (v_vid from)).
    { unfold rec_prep. destruct c as [[a|] ? ? ? ? ? ? ?]; reflexivity. }
    destruct (act_at c (v_vid from)) as [v|] eqn:Ea.
    - eexists. apply (dfs g (v_type from) recursing_from endpoint_ty (r_coerce r0) e (fun v0 => Hind _ _ _ _ v0) (S k) true _ v Hact Hp').
    - rewrite iterF_fix by (intros f; apply stepF_no_active; exact Hact). cbn [mapM].
      unfold ensure_unsuspended. rewrite Hact.
      assert (Hs : suspended (rec_prep (v_vid from) c) <> []).
      { unfold rec_prep. destruct (Hsc eq_refl) as [Hn|Hn]; destruct c as [[a|] ? ? ? ? ? ? ?]; cbn in *; congruence. }
      destruct (suspended (rec_prep (v_vid from) c)); [congruence|]. cbn. eauto.
  Qed.
End NoPanic.

Section Limits.
  Variable args : list (string * fv).

  Definition is_int (v : fv) : bool := match v with I64 _ | U64 _ => true | _ => false end.

  (* the argument of a count filter is what argument validation accepts for Int! / [Int!]! *)
  Definition count_arg_ok (pf : pfilter) : bool :=
    match pf_arg pf with
    | Some (AVar name _) =>
        match lookup_str name args with
        | Some v => match pf_op pf with
                    | OneOf | NotOneOf => match v with List l => forallb is_int l | _ => false end
                    | _ => is_int v
                    end
        | None => false
        end
    | _ => true
    end.

  Lemma usize_of_int v : is_int v = true -> exists z, usize_from_field_value v = Ok (Some z).
  Proof. destruct v; try discriminate; cbn; eauto. Qed.

  Lemma var_usize_ok name v : lookup_str name args = Some v -> is_int v = true -> exists z, var_usize args name = Ok z.
  Proof.
    intros Hl Hi. unfold var_usize, arg_of. rewrite Hl. cbn. destruct (usize_of_int v Hi) as (z & ->). cbn. eauto.
  Qed.

  Lemma list_max_usize_ok l : forallb is_int l = true -> exists o, list_max_usize l = Ok o.
  Proof.
    induction l as [|x l IH]; cbn [forallb list_max_usize]; intros H; [eauto|].
    apply andb_prop in H. destruct H as (Hx & Hl). destruct (usize_of_int x Hx) as (z & ->). cbn.
    destruct (IH Hl) as (o & ->). cbn. eauto.
  Qed.

  Lemma max_limit_of_ok pf : count_arg_ok pf = true -> exists o, max_limit_of args pf = Ok o.
  Proof.
    unfold count_arg_ok, max_limit_of. destruct (pf_arg pf) as [[t|name ty]|]; [eauto| |eauto].
    destruct (lookup_str name args) as [v|] eqn:El; [|discriminate].
    destruct (pf_op pf); intros H; eauto;
      try (destruct (var_usize_ok name v El H) as (z & ->); cbn; eauto).
    unfold arg_of. rewrite El. cbn. destruct v; try discriminate. apply list_max_usize_ok. exact H.
  Qed.

  (* usize_from_field_value's panic!, the expect()s and the unreachable!() of the two limit functions
     cannot fire on validated count-filter arguments *)
  Theorem fold_count_limits_no_panic h :
    forallb count_arg_ok (fo_post h) = true ->
    (exists o, get_max_fold_count_limit args h = Ok o) /\ (exists o, get_min_fold_count_limit args h = Ok o).
  Proof.
    intros H. split.
    - unfold get_max_fold_count_limit. generalize (@None Z) as acc. revert H.
      induction (fo_post h) as [|pf l IH]; cbn [forallb foldM]; intros H acc; [eauto|].
      apply andb_prop in H. destruct H as (H1 & H2). destruct (max_limit_of_ok pf H1) as (o & ->). cbn. apply IH. exact H2.
    - unfold get_min_fold_count_limit. generalize (@None Z) as acc. revert H.
      induction (fo_post h) as [|pf l IH]; cbn [forallb get_min_fold_count_limit_aux]; intros H acc; [eauto|].
      apply andb_prop in H. destruct H as (H1 & H2).
      unfold count_arg_ok in H1. destruct (pf_arg pf) as [[t|name ty]|]; [eauto| |eauto].
      destruct (lookup_str name args) as [v|] eqn:El; [|discriminate].
      destruct (pf_op pf); eauto;
        destruct (var_usize_ok name v El H1) as (z & ->); cbn; apply IH; exact H2.
  Qed.
End Limits.
