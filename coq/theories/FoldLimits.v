(* FoldLimits.v — the fold-count early-termination limits of execution.rs (C22): a fold with more
   elements than the statically computed maximum fails one of its count filters, for every sign and
   magnitude of the arguments (including the saturating_sub and the clamping of negatives to 0). *)
From Coq Require Import Lia.
From TF Require Import ValuesProofs Exec Sem ExecLemmas OpsProofs.
Local Open Scope string_scope.
Local Open Scope list_scope.
Local Open Scope Z_scope.

Lemma equals_ints l r a b : int_val l = Some a -> int_val r = Some b -> equals l r = Ok (a =? b).
Proof.
  destruct l as [| x | x | | | | |], r as [| y | y | | | | |]; cbn [int_val]; try discriminate;
    intros Ha Hb; injection Ha as <-; injection Hb as <-; cbn.
  all: repeat match goal with |- context [if ?b then _ else _] => destruct b eqn:? end; try reflexivity.
  all: f_equal; symmetry; apply Z.eqb_neq;
       repeat match goal with H : (_ <=? _) = false |- _ => apply Z.leb_gt in H end; lia.
Qed.

Lemma fv_eq_ints l r a b : int_val l = Some a -> int_val r = Some b -> fv_eq l r = Ok (a =? b).
Proof.
  destruct l as [| x | x | | | | |], r as [| y | y | | | | |]; cbn [int_val]; try discriminate;
    intros Ha Hb; injection Ha as <-; injection Hb as <-; cbn; try reflexivity.
  - rewrite compare_i64_to_u64_Z. f_equal. rewrite Z.eqb_compare. destruct (x ?= y); reflexivity.
  - rewrite compare_i64_to_u64_Z. f_equal. rewrite Z.eqb_compare, (Z.compare_antisym x y).
    destruct (x ?= y); reflexivity.
Qed.

Section Limits.
  Variable re_match : string -> string -> option bool.
  Variable g : graph.
  Variable args : list (string * fv).

  Notation filter_passes := (filter_passes re_match).

  Lemma usize_int v o : usize_from_field_value v = Ok (Some o) -> exists z, int_val v = Some z /\ z <= o.
  Proof. destruct v; cbn; try discriminate; intros [= <-]; eexists; (split; [reflexivity|]); lia. Qed.

  Lemma var_usize_int name o : var_usize args name = Ok o ->
    exists v z, lookup_str name args = Some v /\ int_val v = Some z /\ z <= o.
  Proof.
    unfold var_usize, arg_of, expect_some. intros H. destruct (lookup_str name args) as [v|]; [|discriminate].
    cbn [bind] in H. inv_bind H. destruct x as [o'|]; [|discriminate]. injection H as <-.
    destruct (usize_int _ _ Hx) as (z & Hz & Hle). eauto.
  Qed.

  Lemma list_max_usize_bound l m : list_max_usize l = Ok (Some m) ->
    Forall (fun x => exists z, int_val x = Some z /\ z <= m) l.
  Proof.
    revert m. induction l as [|x l IH]; cbn [list_max_usize]; intros m H; [constructor|].
    inv_bind H. unfold expect_some in H. destruct x0 as [xv|]; [|discriminate]. cbn [bind] in H.
    inv_bind H. injection H as <-. destruct (usize_int _ _ Hx) as (z & Hz & Hle).
    rename x0 into mo. destruct mo as [y|].
    - constructor; [exists z; split; [assumption|lia]|].
      eapply Forall_impl; [|apply (IH _ Hx0)]. intros a (za & Ha & Hla). exists za. split; [assumption|lia].
    - constructor; [exists z; split; [assumption|lia]|].
      destruct l as [|x2 l2]; [constructor|]. cbn [list_max_usize] in Hx0. inv_bind Hx0.
      unfold expect_some in Hx0. destruct x0; [|discriminate]. cbn [bind] in Hx0. inv_bind Hx0. discriminate.
  Qed.

  Lemma one_of_ints_false n l : Forall (fun x => exists z, int_val x = Some z /\ z < n) l ->
    one_of (U64 n) (List l) = Ok false.
  Proof.
    induction 1 as [|x l (z & Hz & Hlt) _ IH]; [reflexivity|]. cbn [one_of] in *.
    rewrite (fv_eq_ints (U64 n) x n z eq_refl Hz). cbn [bind].
    replace (n =? z) with false by (symmetry; apply Z.eqb_neq; lia). exact IH.
  Qed.

  (* a fold longer than the limit derived from ONE count filter fails that filter *)
  Lemma max_limit_of_sound vs ss imp a cur cur_ty cand pf m n :
    max_limit_of args pf = Ok (Some m) -> m < n ->
    filter_passes (pf_op pf) true (U64 n)
                  (option_map (arg_value g args vs ss imp a cur cur_ty cand) (pf_arg pf)) = false.
  Proof.
    unfold max_limit_of. destruct (pf_arg pf) as [[t|name ty]|]; try discriminate.
    cbn [option_map arg_value]. intros H Hlt.
    destruct (pf_op pf) eqn:Eop; try discriminate.
    - (* = *) inv_bind H. injection H as <-. destruct (var_usize_int _ _ Hx) as (v & z & Hl & Hz & Hle).
      rewrite Hl. unfold Sem.filter_passes. cbn [negb opk_unary]. unfold holds. cbn [apply_tagged apply_filter_op_with_tagged_argument apply_filter_op negb].
      rewrite (equals_ints (U64 n) v n z eq_refl Hz). apply Z.eqb_neq. lia.
    - (* < *) inv_bind H. injection H as <-. destruct (var_usize_int _ _ Hx) as (v & z & Hl & Hz & Hle).
      rewrite Hl. unfold Sem.filter_passes. cbn [negb opk_unary]. unfold holds. cbn [apply_tagged apply_filter_op_with_tagged_argument apply_filter_op negb].
      rewrite (lt_ints (U64 n) v n z eq_refl Hz). apply Z.ltb_ge. lia.
    - (* <= *) inv_bind H. injection H as <-. destruct (var_usize_int _ _ Hx) as (v & z & Hl & Hz & Hle).
      rewrite Hl. unfold Sem.filter_passes. cbn [negb opk_unary]. unfold holds. cbn [apply_tagged apply_filter_op_with_tagged_argument apply_filter_op negb].
      rewrite (le_ints (U64 n) v n z eq_refl Hz). apply Z.leb_gt. lia.
    - (* one_of *) inv_bind H. unfold arg_of, expect_some in Hx. destruct (lookup_str name args) as [v|] eqn:Hl; [|discriminate].
      injection Hx as <-. destruct v; try discriminate.
      unfold Sem.filter_passes. cbn [negb opk_unary]. unfold holds. cbn [apply_tagged apply_filter_op_with_tagged_argument apply_filter_op negb].
      rewrite one_of_ints_false; [reflexivity|].
      eapply Forall_impl; [|apply (list_max_usize_bound _ _ H)]. intros x (z & Hz & Hle). exists z. split; [assumption|lia].
  Qed.

  Lemma max_limit_attained pfs : forall acc m,
    foldM (fun acc pf => do n <- max_limit_of args pf; Ok (limit_min_opt acc n)) pfs acc = Ok (Some m) ->
    acc = Some m \/ exists pf, In pf pfs /\ max_limit_of args pf = Ok (Some m).
  Proof.
    induction pfs as [|pf pfs IH]; cbn [foldM]; intros acc m H.
    - injection H as ->. now left.
    - inv_bind H. inv_bind Hx. injection Hx as <-. destruct (IH _ _ H) as [Hacc|(pf' & Hin & Hpf)].
      + unfold limit_min_opt in Hacc. destruct acc as [l|].
        * destruct x0 as [r|]; [|now left]. destruct (r <? l); [right; exists pf; split; [now left|congruence]|now left].
        * right. exists pf. split; [now left|congruence].
      + right. exists pf'. split; [now right|assumption].
  Qed.

  (* C22, maximum side: dropping a fold with more than `max` elements early is what the count
     filters would have done anyway *)
  Theorem max_limit_sound vs ss imp a cur cur_ty cand h m n :
    get_max_fold_count_limit args h = Ok (Some m) -> m < n ->
    forallb (fun pf => filter_passes (pf_op pf) true (U64 n)
                         (option_map (arg_value g args vs ss imp a cur cur_ty cand) (pf_arg pf)))
            (fo_post h) = false.
  Proof.
    intros H Hlt. unfold get_max_fold_count_limit in H.
    destruct (max_limit_attained _ _ _ H) as [Habs|(pf & Hin & Hpf)]; [discriminate|].
    apply Bool.not_true_is_false. intros Hall. rewrite forallb_forall in Hall.
    specialize (Hall pf Hin). rewrite (max_limit_of_sound vs ss imp a cur cur_ty cand pf m n Hpf Hlt) in Hall. discriminate.
  Qed.
End Limits.
