(* FoldOut.v — the fold-output bookkeeping of compute_fold (execution.rs: the `folded_values` map of a
   DataContext) computes, key by key, the value the specification's projection assigns to that output.
   `fspec c F k` is the closed form of the entry under key k = (fold eid, output name) after the folds
   of component c recorded in F (the a_f part of the assignment) have been processed. *)
From Coq Require Import Lia.
From TF Require Import ValuesProofs Exec Sem ExecLemmas Sim SimRec SimComp SimOut FoldLimits SimFold.
Local Open Scope string_scope.
Local Open Scope N_scope.
Local Open Scope list_scope.

Definition fkey := (N * string)%type.
Definition fvmap := list (fkey * option vov).

(* ---------- association lists keyed by (eid, name) ---------- *)
Lemma fv_key_eqb_spec (a b : fkey) : reflect (a = b) (fv_key_eqb a b).
Proof.
  destruct a as [e1 n1], b as [e2 n2]. unfold fv_key_eqb. cbn [fst snd].
  destruct (N.eqb_spec e1 e2) as [->|Hn]; cbn [andb].
  - destruct (String.eqb_spec n1 n2) as [->|Hs]; constructor; congruence.
  - constructor. congruence.
Qed.

Lemma fv_key_eqb_refl k : fv_key_eqb k k = true.
Proof. destruct (fv_key_eqb_spec k k); congruence. Qed.

Lemma fv_key_eqb_neq a b : a <> b -> fv_key_eqb a b = false.
Proof. destruct (fv_key_eqb_spec a b); congruence. Qed.

Lemma lookup_set_same {A} k (v : A) m : lookup_fvk k (set_fvk k v m) = Some v.
Proof.
  induction m as [|[k' a] r IH]; cbn [set_fvk lookup_fvk]; [now rewrite fv_key_eqb_refl|].
  destruct (fv_key_eqb k k') eqn:E; cbn [lookup_fvk]; [now rewrite fv_key_eqb_refl|now rewrite E].
Qed.

Lemma lookup_set_other {A} k k' (v : A) m : k <> k' -> lookup_fvk k (set_fvk k' v m) = lookup_fvk k m.
Proof.
  intros Hn. induction m as [|[k2 a] r IH]; cbn [set_fvk lookup_fvk].
  - now rewrite (fv_key_eqb_neq _ _ Hn).
  - destruct (fv_key_eqb_spec k' k2) as [<-|Hn2]; cbn [lookup_fvk].
    + now rewrite (fv_key_eqb_neq _ _ Hn).
    + destruct (fv_key_eqb k k2); [reflexivity|exact IH].
Qed.

Lemma lookup_app {A} k (m1 m2 : list (fkey * A)) :
  lookup_fvk k (m1 ++ m2) = match lookup_fvk k m1 with Some v => Some v | None => lookup_fvk k m2 end.
Proof.
  induction m1 as [|[k' a] r IH]; cbn [app lookup_fvk]; [reflexivity|].
  destruct (fv_key_eqb k k'); [reflexivity|exact IH].
Qed.

Lemma lookup_none_notin {A} k (m : list (fkey * A)) : lookup_fvk k m = None <-> ~ In k (map fst m).
Proof.
  induction m as [|[k' a] r IH]; cbn [lookup_fvk map fst In]; [tauto|].
  destruct (fv_key_eqb_spec k k') as [->|Hn].
  - split; [discriminate|]. intros H. exfalso. apply H. now left.
  - rewrite IH. split; [intros H [E|E]; [congruence|contradiction]|tauto].
Qed.

Lemma lookup_in {A} k (v : A) m : NoDup (map fst m) -> In (k, v) m -> lookup_fvk k m = Some v.
Proof.
  induction m as [|[k' a] r IH]; cbn [lookup_fvk map fst In]; intros Hnd Hin; [contradiction|].
  inversion Hnd as [|? ? Hni Hnd']; subst. destruct Hin as [E|Hin].
  - injection E as -> ->. now rewrite fv_key_eqb_refl.
  - destruct (fv_key_eqb_spec k k') as [->|Hn]; [|auto].
    exfalso. apply Hni. apply in_map_iff. exists (k', v). auto.
Qed.

Lemma lookup_some_in {A} k (v : A) m : lookup_fvk k m = Some v -> In (k, v) m.
Proof.
  induction m as [|[k' a] r IH]; cbn [lookup_fvk In]; [discriminate|].
  destruct (fv_key_eqb_spec k k') as [->|Hn]; [intros [= ->]; now left|auto].
Qed.

Lemma set_fvk_keys {A} k (v : A) m x : In x (map fst (set_fvk k v m)) <-> x = k \/ In x (map fst m).
Proof.
  induction m as [|[k' a] r IH]; cbn [set_fvk map fst In]; [intuition|].
  destruct (fv_key_eqb_spec k k') as [<-|Hn]; cbn [map fst In]; [intuition|]. rewrite IH. intuition.
Qed.

Lemma set_fvk_nodup {A} k (v : A) m : NoDup (map fst m) -> NoDup (map fst (set_fvk k v m)).
Proof.
  induction m as [|[k' a] r IH]; cbn [set_fvk map fst]; intros Hnd.
  - constructor; [intros []|constructor].
  - inversion Hnd as [|? ? Hni Hnd']; subst.
    destruct (fv_key_eqb_spec k k') as [<-|Hn]; cbn [map fst]; [constructor; assumption|].
    constructor; [|auto]. rewrite set_fvk_keys. intros [E|E]; [congruence|contradiction].
Qed.

Definition key_in (k : fkey) (ks : list fkey) : bool := existsb (fv_key_eqb k) ks.

Lemma key_in_spec k ks : key_in k ks = true <-> In k ks.
Proof.
  unfold key_in. rewrite existsb_exists. split.
  - intros (x & Hx & E). destruct (fv_key_eqb_spec k x); [now subst|discriminate].
  - intros H. exists k. split; [assumption|apply fv_key_eqb_refl].
Qed.

Lemma key_in_false k ks : key_in k ks = false <-> ~ In k ks.
Proof. rewrite <- key_in_spec. destruct (key_in k ks); split; congruence. Qed.

Lemma key_in_app k a b : key_in k (a ++ b) = key_in k a || key_in k b.
Proof. unfold key_in. apply existsb_app. Qed.

(* ---------- the closed form ---------- *)
Section Spec.
  Variable g : graph.

  Definition own_value (sub : ir_component) (ea : asg) (n : string) : fv :=
    match lookup_str n (c_outputs sub) with
    | Some cf => out_value g (c_vertices sub) ea cf
    | None => Null
    end.

  Definition fs_keys (h : fold_hdr) : list fkey := map (fun n => (fo_eid h, n)) (fo_fsout h).
  Definition own_keys (h : fold_hdr) (sub : ir_component) : list fkey :=
    map (fun o => (fo_eid h, fst o)) (c_outputs sub).
  Definition fold_keys (h : fold_hdr) (sub : ir_component) : list fkey :=
    fs_keys h ++ own_keys h sub ++ nested_fold_keys sub.

  Definition unwrap (o : option (option vov)) : vov :=
    match o with Some (Some x) => x | _ => VValue Null end.

  Fixpoint fspec (c : ir_component) (F : list (N * option (list asg))) (k : fkey) {struct c} : option (option vov) :=
    match c with
    | mkComp _ _ ss _ =>
        (fix go (ss : list step) : option (option vov) :=
           match ss with
           | [] => None
           | SEdge _ :: r => go r
           | SFold h sub :: r =>
               if key_in k (fold_keys h sub) then
                 match lookup_N (fo_eid h) F with
                 | None => None
                 | Some None => Some None
                 | Some (Some l) =>
                     Some (Some (if key_in k (fs_keys h) then VValue (U64 (Z.of_nat (List.length l)))
                                 else if key_in k (own_keys h sub)
                                      then VVec (map (fun ea => VValue (own_value sub ea (snd k))) l)
                                      else VVec (map (fun ea => unwrap (fspec sub (a_f ea) k)) l)))
                 end
               else go r
           end) ss
    end.

  Definition fold_val (h : fold_hdr) (sub : ir_component) (l : list asg) (k : fkey) : vov :=
    if key_in k (fs_keys h) then VValue (U64 (Z.of_nat (List.length l)))
    else if key_in k (own_keys h sub)
         then VVec (map (fun ea => VValue (own_value sub ea (snd k))) l)
         else VVec (map (fun ea => unwrap (fspec sub (a_f ea) k)) l).

  Fixpoint fspec_steps (ss : list step) (F : list (N * option (list asg))) (k : fkey) : option (option vov) :=
    match ss with
    | [] => None
    | SEdge _ :: r => fspec_steps r F k
    | SFold h sub :: r =>
        if key_in k (fold_keys h sub) then
          match lookup_N (fo_eid h) F with
          | None => None
          | Some None => Some None
          | Some (Some l) => Some (Some (fold_val h sub l k))
          end
        else fspec_steps r F k
    end.

  Lemma fspec_eq root vs ss outs F k : fspec (mkComp root vs ss outs) F k = fspec_steps ss F k.
  Proof.
    cbn [fspec]. induction ss as [|[e|h sub] r IH]; cbn [fspec_steps]; [reflexivity|exact IH|].
    rewrite IH. reflexivity.
  Qed.

  Fixpoint steps_keys (ss : list step) : list fkey :=
    match ss with
    | [] => []
    | SEdge _ :: r => steps_keys r
    | SFold h sub :: r => fold_keys h sub ++ steps_keys r
    end.

  Lemma nested_fold_keys_eq root vs ss outs : nested_fold_keys (mkComp root vs ss outs) = steps_keys ss.
  Proof.
    cbn [nested_fold_keys]. induction ss as [|[e|h sub] r IH]; cbn [steps_keys]; [reflexivity|exact IH|].
    rewrite IH. unfold fold_keys, fs_keys, own_keys. now rewrite <- !app_assoc.
  Qed.

  (* the representation invariant of one DataContext w.r.t. its component *)
  Definition FV (c : ir_component) (x : ctx) : Prop :=
    NoDup (map fst (folded_values x)) /\
    forall k, lookup_fvk k (folded_values x) = fspec c (a_f (asg_of x)) k.
End Spec.

(* ---------- generic list facts ---------- *)
Lemma NoDup_app_intro {A} (l1 l2 : list A) :
  NoDup l1 -> NoDup l2 -> (forall x, In x l1 -> ~ In x l2) -> NoDup (l1 ++ l2).
Proof.
  induction l1 as [|a l1 IH]; cbn [app]; intros H1 H2 Hd; [assumption|].
  inversion H1 as [|? ? Hni H1']; subst. constructor.
  - rewrite in_app_iff. intros [E|E]; [contradiction|]. apply (Hd a); [now left|assumption].
  - apply IH; [assumption|assumption|]. intros x Hx. apply Hd. now right.
Qed.

Lemma NoDup_app_l {A} (l1 l2 : list A) : NoDup (l1 ++ l2) -> NoDup l1.
Proof.
  induction l1 as [|a l1 IH]; cbn [app]; intros H; [constructor|].
  inversion H as [|? ? Hni H']; subst. constructor; [|auto]. intros E. apply Hni. apply in_or_app. now left.
Qed.

Lemma NoDup_app_r {A} (l1 l2 : list A) : NoDup (l1 ++ l2) -> NoDup l2.
Proof. induction l1 as [|a l1 IH]; cbn [app]; intros H; [assumption|]. inversion H; auto. Qed.

Lemma NoDup_app_disj {A} (l1 l2 : list A) x : NoDup (l1 ++ l2) -> In x l1 -> ~ In x l2.
Proof.
  induction l1 as [|a l1 IH]; cbn [app]; intros H Hx; [contradiction|].
  inversion H as [|? ? Hni H']; subst. destruct Hx as [->|Hx]; [|auto].
  intros E. apply Hni. apply in_or_app. now right.
Qed.

Lemma NoDup_map_inj {A B} (f : A -> B) l : (forall x y, f x = f y -> x = y) -> NoDup l -> NoDup (map f l).
Proof.
  intros Hf. induction 1 as [|a l Hni _ IH]; cbn [map]; constructor; [|assumption].
  intros E. apply in_map_iff in E. destruct E as (y & Hy & Hin). apply Hf in Hy. now subst.
Qed.

Lemma NoDup_map_inv' {A B} (f : A -> B) l : NoDup (map f l) -> NoDup l.
Proof.
  induction l as [|a l IH]; cbn [map]; intros H; [constructor|].
  inversion H as [|? ? Hni H']; subst. constructor; [|auto]. intros E. apply Hni. now apply in_map.
Qed.

Lemma lookup_N_app_other {A} (k k' : N) (l : list (N * A)) v :
  k <> k' -> lookup_N k (l ++ [(k', v)]) = lookup_N k l.
Proof.
  intros Hn. induction l as [|[k2 a] r IH]; cbn [app lookup_N].
  - destruct (N.eqb_spec k k'); [contradiction|reflexivity].
  - destruct (N.eqb k k2); [reflexivity|exact IH].
Qed.

Lemma lookup_N_app_found {A} (k : N) (l l2 : list (N * A)) x :
  lookup_N k l = Some x -> lookup_N k (l ++ l2) = Some x.
Proof.
  induction l as [|[k2 a] r IH]; cbn [app lookup_N]; [discriminate|].
  destruct (N.eqb k k2); [auto|exact IH].
Qed.

Lemma insert_sorted_nodup s l : ~ In s l -> NoDup l -> NoDup (insert_sorted s l).
Proof.
  induction l as [|x l IH]; cbn [insert_sorted]; intros Hni Hnd.
  - constructor; [intros []|constructor].
  - destruct (String.leb s x); [constructor; assumption|].
    inversion Hnd as [|? ? Hx Hnd']; subst. constructor.
    + rewrite in_insert_sorted. intros [->|E]; [apply Hni; now left|contradiction].
    + apply IH; [|assumption]. intros E. apply Hni. now right.
Qed.

Lemma sort_names_nodup l : NoDup l -> NoDup (sort_names l).
Proof.
  unfold sort_names. induction 1 as [|x l Hni _ IH]; cbn [fold_right]; [constructor|].
  apply insert_sorted_nodup; [|assumption]. fold (sort_names l). now rewrite in_sort_names.
Qed.

(* ---------- the loops of the fold-output computation ---------- *)
Definition vec_of (o : option (option vov)) : list vov :=
  match o with Some (Some (VVec l)) => l | _ => [] end.
Definition unwrap1 (v : option vov) : vov := match v with Some x => x | None => VValue Null end.

(* count outputs: `folded_values.insert_or_error((eid, name), count)` for each fold-specific output *)
Lemma fsout_loop (eid : N) (cnt : option vov) names : forall m0 m1,
  foldM (fun m name =>
           match lookup_fvk (eid, name) m with
           | Some _ => Panic "execution.rs: this fold output was already computed"
           | None => Ok (m ++ [((eid, name), cnt)])
           end) names m0 = Ok m1 ->
  m1 = m0 ++ map (fun n => ((eid, n), cnt)) names /\ NoDup names /\
  (forall n, In n names -> lookup_fvk (eid, n) m0 = None).
Proof.
  induction names as [|n names IH]; cbn [foldM map]; intros m0 m1 H.
  - injection H as <-. rewrite app_nil_r. split; [reflexivity|]. split; [constructor|intros ? []].
  - inv_bind H. destruct (lookup_fvk (eid, n) m0) eqn:El; [discriminate|]. injection Hx as <-.
    destruct (IH _ _ H) as (-> & Hnd & Hl). rewrite <- app_assoc. split; [reflexivity|]. split.
    + constructor; [|assumption]. intros Hin. specialize (Hl n Hin). rewrite lookup_app, El in Hl.
      cbn [lookup_fvk] in Hl. rewrite fv_key_eqb_refl in Hl. discriminate.
    + intros n' [<-|Hin]; [assumption|]. specialize (Hl n' Hin). rewrite lookup_app in Hl.
      destruct (lookup_fvk (eid, n') m0); [discriminate|reflexivity].
Qed.

(* pushing the nested fold values of one element *)
Lemma push_loop (fvl : fvmap) : forall m m1,
  NoDup (map fst fvl) -> NoDup (map fst m) ->
  foldM (fun m kv => push_folded (fst kv) (match snd kv with Some x => x | None => VValue Null end) m) fvl m = Ok m1 ->
  NoDup (map fst m1) /\
  forall k, lookup_fvk k m1 = match lookup_fvk k fvl with
                              | None => lookup_fvk k m
                              | Some v => Some (Some (VVec (vec_of (lookup_fvk k m) ++ [unwrap1 v])))
                              end.
Proof.
  induction fvl as [|[k0 v0] fvl IH]; cbn [foldM map fst]; intros m m1 Hnd Hm H.
  - injection H as <-. split; [assumption|reflexivity].
  - inv_bind H. inversion Hnd as [|? ? Hni Hnd']; subst. cbn [fst snd] in Hx.
    assert (Hx' : x = set_fvk k0 (Some (VVec (vec_of (lookup_fvk k0 m) ++ [unwrap1 v0]))) m).
    { unfold push_folded in Hx. destruct (lookup_fvk k0 m) as [[[?|l]|]|]; try discriminate; injection Hx as <-; reflexivity. }
    subst x. destruct (IH _ _ Hnd' (set_fvk_nodup _ _ _ Hm) H) as (Hnd1 & Hl). split; [assumption|].
    intros k. rewrite Hl. cbn [lookup_fvk]. destruct (fv_key_eqb_spec k k0) as [->|Hn].
    + apply lookup_none_notin in Hni. rewrite Hni. apply lookup_set_same.
    + rewrite (lookup_set_other _ _ _ _ Hn). reflexivity.
Qed.

(* pushing the element's own output values *)
Lemma own_loop (eid : N) (nvs : list (string * fv)) : forall m m1,
  NoDup (map fst nvs) -> NoDup (map fst m) ->
  foldM (fun m nv => push_folded_existing (eid, fst nv) (VValue (snd nv)) m) nvs m = Ok m1 ->
  NoDup (map fst m1) /\
  forall k, lookup_fvk k m1 = match (if N.eqb (fst k) eid then lookup_str (snd k) nvs else None) with
                              | None => lookup_fvk k m
                              | Some x => Some (Some (VVec (vec_of (lookup_fvk k m) ++ [VValue x])))
                              end.
Proof.
  induction nvs as [|[n0 x0] nvs IH]; cbn [foldM map fst]; intros m m1 Hnd Hm H.
  - injection H as <-. split; [assumption|]. intros k. cbn [lookup_str]. destruct (N.eqb (fst k) eid); reflexivity.
  - inv_bind H. inversion Hnd as [|? ? Hni Hnd']; subst. cbn [fst snd] in Hx.
    assert (Hx' : x = set_fvk (eid, n0) (Some (VVec (vec_of (lookup_fvk (eid, n0) m) ++ [VValue x0]))) m).
    { unfold push_folded_existing in Hx. destruct (lookup_fvk (eid, n0) m) as [[[?|l]|]|]; try discriminate; injection Hx as <-; reflexivity. }
    subst x. destruct (IH _ _ Hnd' (set_fvk_nodup _ _ _ Hm) H) as (Hnd1 & Hl). split; [assumption|].
    intros k. rewrite Hl. cbn [lookup_str]. destruct k as [ke kn]. cbn [fst snd].
    destruct (N.eqb_spec ke eid) as [->|Hne].
    + destruct (String.eqb_spec kn n0) as [->|Hs].
      * assert (Hnone : lookup_str n0 nvs = None).
        { clear - Hni. induction nvs as [|[a b] t IHt]; [reflexivity|]. cbn [lookup_str map fst In] in *.
          destruct (String.eqb_spec n0 a) as [->|]; [exfalso; apply Hni; now left|]. apply IHt. tauto. }
        rewrite Hnone. apply lookup_set_same.
      * assert (Hk : (eid, kn) <> (eid, n0)) by congruence.
        rewrite (lookup_set_other _ _ _ _ Hk). reflexivity.
    + assert (Hk : (ke, kn) <> (eid, n0)) by congruence. apply (lookup_set_other _ _ _ _ Hk).
Qed.

(* the default walk for empty / absent folds *)
Lemma default_loop (d : option vov) (ks : list fkey) : forall m,
  NoDup (map fst m) ->
  NoDup (map fst (fold_left (fun m k => set_fvk k d m) ks m)) /\
  forall k, lookup_fvk k (fold_left (fun m k => set_fvk k d m) ks m) = if key_in k ks then Some d else lookup_fvk k m.
Proof.
  induction ks as [|k0 ks IH]; cbn [fold_left]; intros m Hm; [split; [assumption|reflexivity]|].
  destruct (IH _ (set_fvk_nodup k0 d m Hm)) as (Hnd & Hl). split; [assumption|]. intros k. rewrite Hl.
  unfold key_in. cbn [existsb]. fold (key_in k ks). destruct (key_in k ks); [now rewrite Bool.orb_true_r|].
  rewrite Bool.orb_false_r. destruct (fv_key_eqb_spec k k0) as [->|Hn]; [apply lookup_set_same|now apply lookup_set_other].
Qed.

(* ---------- how the closed form changes when one fold is recorded ---------- *)
Section SpecLemmas.
  Variable g : graph.
  Notation fspec := (fspec g).
  Notation fspec_steps := (fspec_steps g).
  Notation fold_val := (fold_val g).

  Fixpoint steps_eids (ss : list step) : list N :=
    match ss with
    | [] => []
    | SEdge _ :: r => steps_eids r
    | SFold h _ :: r => fo_eid h :: steps_eids r
    end.

  Lemma steps_keys_in h sub ss k : In (SFold h sub) ss -> In k (fold_keys h sub) -> In k (steps_keys ss).
  Proof.
    induction ss as [|[e|h' sub'] r IH]; cbn [In steps_keys]; intros Hin Hk; [contradiction| |].
    - destruct Hin as [E|Hin]; [discriminate|auto].
    - apply in_or_app. destruct Hin as [E|Hin]; [injection E as -> ->; now left|right; auto].
  Qed.

  Lemma steps_eids_in h sub ss : In (SFold h sub) ss -> In (fo_eid h) (steps_eids ss).
  Proof.
    induction ss as [|[e|h' sub'] r IH]; cbn [In steps_eids]; intros Hin; [contradiction| |].
    - destruct Hin as [E|Hin]; [discriminate|auto].
    - destruct Hin as [E|Hin]; [injection E as -> ->; now left|right; auto].
  Qed.

  Lemma fspec_nil ss k : fspec_steps ss [] k = None.
  Proof.
    induction ss as [|[e|h sub] r IH]; cbn [fspec_steps lookup_N]; [reflexivity|exact IH|].
    destruct (key_in k (fold_keys h sub)); [reflexivity|exact IH].
  Qed.

  (* recording a fold whose eid does not occur in ss changes nothing *)
  Lemma fspec_app_foreign ss F eid fe k :
    ~ In eid (steps_eids ss) -> fspec_steps ss (F ++ [(eid, fe)]) k = fspec_steps ss F k.
  Proof.
    induction ss as [|[e|h sub] r IH]; cbn [fspec_steps steps_eids In]; intros Hni; [reflexivity|auto|].
    rewrite IH by tauto. rewrite lookup_N_app_other; [reflexivity|]. intros E. apply Hni. now left.
  Qed.

  Lemma fspec_app_other ss F h sub fe k :
    In (SFold h sub) ss -> NoDup (steps_eids ss) -> ~ In k (fold_keys h sub) ->
    fspec_steps ss (F ++ [(fo_eid h, fe)]) k = fspec_steps ss F k.
  Proof.
    induction ss as [|[e|h' sub'] r IH]; cbn [fspec_steps steps_eids In]; intros Hin Hnd Hk; [contradiction| |].
    - destruct Hin as [E|Hin]; [discriminate|auto].
    - inversion Hnd as [|? ? Hni Hnd']; subst. destruct Hin as [E|Hin].
      + injection E as -> ->. apply key_in_false in Hk. rewrite Hk. now apply fspec_app_foreign.
      + rewrite (IH Hin Hnd' Hk). rewrite lookup_N_app_other; [reflexivity|].
        intros E. apply Hni. rewrite E. eapply steps_eids_in; eassumption.
  Qed.

  Lemma fspec_before ss F h sub k :
    In (SFold h sub) ss -> NoDup (steps_keys ss) -> In k (fold_keys h sub) ->
    lookup_N (fo_eid h) F = None -> fspec_steps ss F k = None.
  Proof.
    induction ss as [|[e|h' sub'] r IH]; cbn [fspec_steps steps_keys In]; intros Hin Hnd Hk Hl; [contradiction| |].
    - destruct Hin as [E|Hin]; [discriminate|auto].
    - destruct Hin as [E|Hin].
      + injection E as -> ->. apply key_in_spec in Hk. now rewrite Hk, Hl.
      + assert (Hk' : key_in k (fold_keys h' sub') = false).
        { apply key_in_false. intros E. apply (NoDup_app_disj _ _ k Hnd E). eapply steps_keys_in; eassumption. }
        rewrite Hk'. apply IH; try assumption. now apply NoDup_app_r in Hnd.
  Qed.

  Lemma fspec_after ss F h sub fe k :
    In (SFold h sub) ss -> NoDup (steps_keys ss) -> In k (fold_keys h sub) ->
    lookup_N (fo_eid h) F = None ->
    fspec_steps ss (F ++ [(fo_eid h, fe)]) k =
    match fe with None => Some None | Some l => Some (Some (fold_val h sub l k)) end.
  Proof.
    induction ss as [|[e|h' sub'] r IH]; cbn [fspec_steps steps_keys In]; intros Hin Hnd Hk Hl; [contradiction| |].
    - destruct Hin as [E|Hin]; [discriminate|auto].
    - destruct Hin as [E|Hin].
      + injection E as -> ->. apply key_in_spec in Hk. rewrite Hk.
        rewrite (lookup_N_app_fresh _ _ fe Hl). destruct fe; reflexivity.
      + assert (Hk' : key_in k (fold_keys h' sub') = false).
        { apply key_in_false. intros E. apply (NoDup_app_disj _ _ k Hnd E). eapply steps_keys_in; eassumption. }
        rewrite Hk'. apply IH; try assumption. now apply NoDup_app_r in Hnd.
  Qed.

  Definition complete_steps (ss : list step) (F : list (N * option (list asg))) : Prop :=
    forall h sub, In (SFold h sub) ss -> lookup_N (fo_eid h) F <> None.

  Lemma fspec_defined ss F k : complete_steps ss F -> (fspec_steps ss F k <> None <-> In k (steps_keys ss)).
  Proof.
    induction ss as [|[e|h sub] r IH]; cbn [fspec_steps steps_keys]; intros Hc.
    - split; [congruence|intros []].
    - apply IH. intros h sub Hin. apply (Hc h sub). now right.
    - rewrite in_app_iff. destruct (key_in k (fold_keys h sub)) eqn:Ek.
      + apply key_in_spec in Ek. specialize (Hc h sub (or_introl eq_refl)).
        destruct (lookup_N (fo_eid h) F) as [[l|]|]; [split; [tauto|congruence]|split; [tauto|congruence]|contradiction].
      + apply key_in_false in Ek. rewrite IH; [tauto|]. intros h' sub' Hin. apply (Hc h' sub'). now right.
  Qed.
End SpecLemmas.

(* ---------- the per-element loop ---------- *)
Lemma map_fst_combine_map {A B} (f : A -> B) l : map fst (combine l (map f l)) = l.
Proof. induction l as [|a l IH]; cbn [map combine fst]; [reflexivity|now rewrite IH]. Qed.

Lemma lookup_init (eid : N) (d : option vov) names k :
  lookup_fvk k (map (fun n => ((eid, n), d)) names) =
  if N.eqb (fst k) eid && existsb (String.eqb (snd k)) names then Some d else None.
Proof.
  destruct k as [ke kn]. cbn [fst snd]. induction names as [|n names IH]; cbn [map lookup_fvk existsb].
  - now rewrite Bool.andb_false_r.
  - unfold fv_key_eqb. cbn [fst snd]. destruct (N.eqb ke eid); cbn [andb] in *; [|exact IH].
    destruct (String.eqb kn n); cbn [orb]; [reflexivity|exact IH].
Qed.

Section ElemLoop.
  Variable g : graph.
  Variables (eid : N) (sub : ir_component).
  Let names := sort_names (map fst (c_outputs sub)).
  Let NK := nested_fold_keys sub.
  Hypothesis Hnames : NoDup (map fst (c_outputs sub)).
  Hypothesis Hdisj : forall n, In n names -> ~ In (eid, n) NK.

  Definition el_ok (el : ctx) : Prop :=
    NoDup (map fst (folded_values el)) /\ forall k, lookup_fvk k (folded_values el) <> None <-> In k NK.

  Definition getv (el : ctx) (k : fkey) : vov := unwrap (lookup_fvk k (folded_values el)).

  Definition el_step (m : fvmap) (el : ctx) : res fvmap :=
    do vals <- element_output_values g sub names el;
    do m1 <- foldM (fun m kv => push_folded (fst kv) (match snd kv with Some x => x | None => VValue Null end) m)
                   (folded_values el) m;
    foldM (fun m nv => push_folded_existing (eid, fst nv) (VValue (snd nv)) m) (combine names vals) m1.

  Definition Inv (p : list ctx) (m : fvmap) : Prop :=
    NoDup (map fst m) /\
    (forall n, In n names ->
       lookup_fvk (eid, n) m = Some (Some (VVec (map (fun el => VValue (own_value g sub (asg_of el) n)) p)))) /\
    (forall k, In k NK ->
       lookup_fvk k m = match p with [] => None | _ => Some (Some (VVec (map (fun el => getv el k) p))) end) /\
    (forall k, ~ In k NK -> (forall n, In n names -> k <> (eid, n)) -> lookup_fvk k m = None).

  Lemma element_output_values_ok el vals :
    element_output_values g sub names el = Ok vals -> vals = map (own_value g sub (asg_of el)) names.
  Proof.
    unfold element_output_values. apply mapM_ok_map. intros n y H.
    inv_bind H. inv_bind H. inv_bind H. injection H as <-.
    unfold expect_some in Hx. unfold own_value. destruct (lookup_str n (c_outputs sub)) as [cf|]; [|discriminate].
    injection Hx as <-. unfold out_value. rewrite a_v_asg_of.
    unfold vertex_at in Hx0. destruct (lookup_N (cf_vid cf) (vertices el)) as [ov|]; [|discriminate]. injection Hx0 as <-.
    unfold vertex_of, expect_some in Hx1. destruct (find_vertex (c_vertices sub) (cf_vid cf)) as [vtx|]; [|discriminate].
    injection Hx1 as <-. destruct ov; reflexivity.
  Qed.

  Lemma names_nodup : NoDup names.
  Proof. apply sort_names_nodup. exact Hnames. Qed.

  Lemma own_part_none k :
    (forall n, In n names -> k <> (eid, n)) ->
    (if N.eqb (fst k) eid then lookup_str (snd k) (combine names (map (fun n => own_value g sub (Asg [] []) n) names)) else None) = None.
  Proof.
    intros Hk. destruct k as [ke kn]. cbn [fst snd]. destruct (N.eqb_spec ke eid) as [->|]; [|reflexivity].
    rewrite lookup_combine_map. destruct (existsb (String.eqb kn) names) eqn:E; [|reflexivity].
    apply existsb_eqb_in in E. exfalso. now apply (Hk kn E).
  Qed.

  Lemma el_step_inv p m el m' : Inv p m -> el_ok el -> el_step m el = Ok m' -> Inv (p ++ [el]) m'.
  Proof.
    intros (I1 & I2 & I3 & I4) (E1 & E2) H. unfold el_step in H.
    inv_bind H. apply element_output_values_ok in Hx. subst x. inv_bind H.
    destruct (push_loop _ _ _ E1 I1 Hx) as (N1 & L1).
    assert (Hnd : NoDup (map fst (combine names (map (own_value g sub (asg_of el)) names)))).
    { rewrite map_fst_combine_map. apply names_nodup. }
    destruct (own_loop eid _ _ _ Hnd N1 H) as (N2 & L2). clear H Hx.
    assert (Hown : forall k, (forall n, In n names -> k <> (eid, n)) ->
               (if N.eqb (fst k) eid then lookup_str (snd k) (combine names (map (own_value g sub (asg_of el)) names)) else None) = None).
    { intros k Hk. destruct k as [ke kn]. cbn [fst snd]. destruct (N.eqb_spec ke eid) as [->|]; [|reflexivity].
      rewrite lookup_combine_map. destruct (existsb (String.eqb kn) names) eqn:E; [|reflexivity].
      apply existsb_eqb_in in E. exfalso. now apply (Hk kn E). }
    split; [assumption|]. split; [|split].
    - intros n Hn. rewrite L2. cbn [fst snd]. rewrite N.eqb_refl, lookup_combine_map.
      assert (Ee : existsb (String.eqb n) names = true) by now apply existsb_eqb_in.
      rewrite Ee, L1.
      assert (Hnone : lookup_fvk (eid, n) (folded_values el) = None).
      { destruct (lookup_fvk (eid, n) (folded_values el)) eqn:El; [|reflexivity].
        exfalso. apply (Hdisj n Hn). apply E2. congruence. }
      rewrite Hnone, (I2 n Hn). cbn [vec_of]. rewrite map_app. reflexivity.
    - intros k Hk. rewrite L2.
      assert (Hkn : forall n, In n names -> k <> (eid, n)).
      { intros n Hn ->. now apply (Hdisj n Hn). }
      rewrite (Hown k Hkn), L1.
      destruct (lookup_fvk k (folded_values el)) as [v|] eqn:El; [|exfalso; now apply (proj2 (E2 k) Hk)].
      rewrite (I3 k Hk).
      assert (Hv : vec_of (match p with [] => None | _ :: _ => Some (Some (VVec (map (fun el0 => getv el0 k) p))) end)
                   = map (fun el0 => getv el0 k) p) by (destruct p; reflexivity).
      rewrite Hv. replace (unwrap1 v) with (getv el k) by (unfold getv; rewrite El; destruct v; reflexivity).
      rewrite map_app. destruct p; reflexivity.
    - intros k Hk Hkn. rewrite L2, (Hown k Hkn), L1.
      destruct (lookup_fvk k (folded_values el)) eqn:El; [exfalso; apply Hk; apply E2; congruence|].
      now apply I4.
  Qed.

  Lemma el_loop rest : forall p m m',
    Inv p m -> Forall el_ok rest -> foldM el_step rest m = Ok m' -> Inv (p ++ rest) m'.
  Proof.
    induction rest as [|el rest IH]; cbn [foldM]; intros p m m' HI Hok H.
    - injection H as <-. now rewrite app_nil_r.
    - inv_bind H. inversion Hok as [|? ? Hel Hok']; subst.
      pose proof (el_step_inv _ _ _ _ HI Hel Hx) as HI'.
      specialize (IH _ _ _ HI' Hok' H). now rewrite <- app_assoc in IH.
  Qed.

  Lemma init_inv : Inv [] (map (fun n => ((eid, n), Some (VVec []))) names).
  Proof.
    split; [|split; [|split]].
    - rewrite map_map. cbn [fst]. apply NoDup_map_inj; [intros x y [= ->]; reflexivity|apply names_nodup].
    - intros n Hn. rewrite lookup_init. cbn [fst snd]. rewrite N.eqb_refl.
      assert (Ee : existsb (String.eqb n) names = true) by now apply existsb_eqb_in.
      now rewrite Ee.
    - intros k Hk. rewrite lookup_init. destruct k as [ke kn]. cbn [fst snd].
      destruct (N.eqb_spec ke eid) as [->|]; [|reflexivity]. cbn [andb].
      destruct (existsb (String.eqb kn) names) eqn:E; [|reflexivity].
      apply existsb_eqb_in in E. exfalso. now apply (Hdisj kn E).
    - intros k Hk Hkn. rewrite lookup_init. destruct k as [ke kn]. cbn [fst snd].
      destruct (N.eqb_spec ke eid) as [->|]; [|reflexivity]. cbn [andb].
      destruct (existsb (String.eqb kn) names) eqn:E; [|reflexivity].
      apply existsb_eqb_in in E. exfalso. now apply (Hkn kn E).
  Qed.
End ElemLoop.

(* ---------- fold_outputs_one re-establishes the invariant ---------- *)
Section Assemble.
  Variable g : graph.
  Notation FV := (FV g).
  Notation fspec := (fspec g).
  Notation fspec_steps := (fspec_steps g).
  Notation fold_val := (fold_val g).

  Definition complete (c : ir_component) (F : list (N * option (list asg))) : Prop :=
    match c with mkComp _ _ ss _ => complete_steps ss F end.

  Lemma lookup_N_fc_asg k (l : list (N * option (list ctx))) :
    lookup_N k (map fc_asg l) = option_map (option_map (map asg_of)) (lookup_N k l).
  Proof.
    induction l as [|[k' o] r IH]; cbn [map lookup_N fc_asg fst snd option_map]; [reflexivity|].
    destruct (N.eqb k k'); [reflexivity|exact IH].
  Qed.

  Lemma fold_keys_nodup h sub ss : In (SFold h sub) ss -> NoDup (steps_keys ss) -> NoDup (fold_keys h sub).
  Proof.
    induction ss as [|[e|h' sub'] r IH]; cbn [In steps_keys]; intros Hin Hnd; [contradiction| |].
    - destruct Hin as [E|Hin]; [discriminate|auto].
    - destruct Hin as [E|Hin]; [injection E as -> ->; now apply NoDup_app_l in Hnd|].
      apply IH; [assumption|now apply NoDup_app_r in Hnd].
  Qed.

  Lemma el_ok_of sub el : FV sub el -> complete sub (a_f (asg_of el)) -> el_ok sub el.
  Proof.
    intros (Hnd & Hl) Hc. split; [assumption|]. intros k. rewrite Hl.
    destruct sub as [root vs ss outs]. rewrite fspec_eq, nested_fold_keys_eq. now apply fspec_defined.
  Qed.

  Theorem fold_outputs_one_FV root vs ss outs h sub c0 y fe z :
    In (SFold h sub) ss -> NoDup (steps_keys ss) -> NoDup (steps_eids ss) ->
    FV (mkComp root vs ss outs) c0 ->
    folded_values y = folded_values c0 ->
    folded_contexts y = folded_contexts c0 ++ [(fo_eid h, fe)] ->
    lookup_N (fo_eid h) (folded_contexts c0) = None ->
    match fe with
    | Some els => Forall (fun el => FV sub el /\ complete sub (a_f (asg_of el))) els
    | None => True
    end ->
    fold_outputs_one g h sub y = Ok z ->
    FV (mkComp root vs ss outs) z.
  Proof.
    intros Hin Hkeys Heids (Hnd0 & Hl0) Hfv Hfc Hlk Hels H.
    pose proof (fold_keys_nodup _ _ _ Hin Hkeys) as Hfk. unfold fold_keys in Hfk.
    assert (Hown_nd : NoDup (map fst (c_outputs sub))).
    { apply NoDup_app_r, NoDup_app_l in Hfk. unfold own_keys in Hfk.
      rewrite <- (map_map fst (fun n => (fo_eid h, n))) in Hfk. now apply NoDup_map_inv' in Hfk. }
    assert (Hdisj : forall n, In n (sort_names (map fst (c_outputs sub))) -> ~ In (fo_eid h, n) (nested_fold_keys sub)).
    { intros n Hn. rewrite in_sort_names in Hn. apply NoDup_app_r in Hfk. apply (NoDup_app_disj _ _ _ Hfk).
      unfold own_keys. apply in_map_iff in Hn. destruct Hn as (o & <- & Ho). apply in_map_iff. exists o. auto. }
    set (F := a_f (asg_of c0)).
    assert (HF' : a_f (asg_of y) = F ++ [(fo_eid h, option_map (map asg_of) fe)]).
    { unfold F. rewrite !a_f_asg_of, Hfc, map_app. reflexivity. }
    assert (HlkF : lookup_N (fo_eid h) F = None).
    { unfold F. rewrite a_f_asg_of, lookup_N_fc_asg, Hlk. reflexivity. }
    unfold fold_outputs_one in H. cbv zeta in H.
    rewrite Hfc, (lookup_N_app_fresh _ _ fe Hlk) in H. cbn [expect_some bind] in H.
    inv_bind H. rename x into fvals1. apply fsout_loop in Hx. destruct Hx as (-> & Hfs_nd & Hfs_none).
    inv_bind H. rename x into local.
    (* what `local` contains *)
    assert (Hlocal : NoDup (map fst local) /\
              (forall k, In k (own_keys h sub ++ nested_fold_keys sub) ->
                 lookup_fvk k local = Some (match fe with
                                            | None => None
                                            | Some els => Some (fold_val h sub (map asg_of els) k)
                                            end)) /\
              (forall k, ~ In k (own_keys h sub ++ nested_fold_keys sub) -> lookup_fvk k local = None)).
    { assert (Hfs_out : forall k, In k (own_keys h sub ++ nested_fold_keys sub) -> key_in k (fs_keys h) = false).
      { intros k Hk. apply key_in_false. intros E. exact (NoDup_app_disj _ _ _ Hfk E Hk). }
      assert (Hown_in : forall n, In n (sort_names (map fst (c_outputs sub))) <-> In (fo_eid h, n) (own_keys h sub)).
      { intros n. rewrite in_sort_names. unfold own_keys. rewrite !in_map_iff. split.
        - intros (o & <- & Ho). exists o. auto.
        - intros (o & [= <-] & Ho). exists o. auto. }
      assert (Hown_shape : forall k, In k (own_keys h sub) -> exists n, k = (fo_eid h, n) /\ In n (sort_names (map fst (c_outputs sub)))).
      { intros k Hk. pose proof Hk as Hk'. unfold own_keys in Hk. apply in_map_iff in Hk. destruct Hk as (o & <- & Ho).
        exists (fst o). split; [reflexivity|]. now apply Hown_in. }
      assert (Hnk_notown : forall k, In k (nested_fold_keys sub) -> key_in k (own_keys h sub) = false).
      { intros k Hk. apply key_in_false. intros E. apply NoDup_app_r in Hfk. exact (NoDup_app_disj _ _ _ Hfk E Hk). }
      destruct fe as [[|el0 els]|].
      - (* empty fold *)
        injection Hx as <-.
        destruct (default_loop (Some (VVec [])) (nested_fold_keys sub)
                    (map (fun n => ((fo_eid h, n), Some (VVec []))) (sort_names (map fst (c_outputs sub))))) as (Hnd & Hl).
        { rewrite map_map. cbn [fst]. apply NoDup_map_inj; [intros a b [= ->]; reflexivity|now apply sort_names_nodup]. }
        split; [exact Hnd|]. split.
        + intros k Hk. rewrite Hl. unfold fold_val. rewrite (Hfs_out k Hk). cbn [map].
          destruct (key_in k (nested_fold_keys sub)) eqn:Enk.
          * apply key_in_spec in Enk. now rewrite (Hnk_notown k Enk).
          * apply key_in_false in Enk. apply in_app_iff in Hk. destruct Hk as [Hk|Hk]; [|contradiction].
            destruct (Hown_shape k Hk) as (n & -> & Hn). rewrite lookup_init. cbn [fst snd]. rewrite N.eqb_refl.
            assert (Ee : existsb (String.eqb n) (sort_names (map fst (c_outputs sub))) = true) by now apply existsb_eqb_in.
            rewrite Ee. cbn [andb]. apply key_in_spec in Hk. now rewrite Hk.
        + intros k Hk. rewrite Hl. rewrite in_app_iff in Hk.
          destruct (key_in k (nested_fold_keys sub)) eqn:Enk; [apply key_in_spec in Enk; tauto|].
          rewrite lookup_init. destruct k as [ke kn]. cbn [fst snd]. destruct (N.eqb_spec ke (fo_eid h)) as [->|]; [|reflexivity].
          cbn [andb]. destruct (existsb (String.eqb kn) (sort_names (map fst (c_outputs sub)))) eqn:Ee; [|reflexivity].
          apply existsb_eqb_in, Hown_in in Ee. tauto.
      - (* non-empty fold *)
        assert (Hoks : Forall (el_ok sub) (el0 :: els)).
        { eapply Forall_impl; [|exact Hels]. intros el (A & B). now apply el_ok_of. }
        change (foldM (el_step g (fo_eid h) sub) (el0 :: els)
                  (map (fun n => ((fo_eid h, n), Some (VVec []))) (sort_names (map fst (c_outputs sub)))) = Ok local) in Hx.
        pose proof (el_loop g (fo_eid h) sub Hown_nd Hdisj (el0 :: els) [] _ _
                      (init_inv g (fo_eid h) sub Hown_nd Hdisj) Hoks Hx) as (I1 & I2 & I3 & I4).
        cbn [app] in *. split; [exact I1|]. split.
        + intros k Hk. unfold fold_val. rewrite (Hfs_out k Hk). apply in_app_iff in Hk. destruct Hk as [Hk|Hk].
          * destruct (Hown_shape k Hk) as (n & -> & Hn). rewrite (I2 n Hn). apply key_in_spec in Hk. rewrite Hk.
            cbn [snd]. rewrite map_map. reflexivity.
          * rewrite (I3 k Hk), (Hnk_notown k Hk). rewrite map_map. do 3 f_equal.
            apply map_ext_in. intros el Hel. unfold getv.
            rewrite Forall_forall in Hels. destruct (Hels el Hel) as ((_ & Hlel) & _). now rewrite Hlel.
        + intros k Hk. rewrite in_app_iff in Hk. apply I4; [tauto|].
          intros n Hn ->. apply Hk. left. now apply Hown_in.
      - (* the fold is inside a missing optional scope *)
        injection Hx as <-.
        destruct (default_loop None (nested_fold_keys sub)
                    (map (fun n => ((fo_eid h, n), @None vov)) (sort_names (map fst (c_outputs sub))))) as (Hnd & Hl).
        { rewrite map_map. cbn [fst]. apply NoDup_map_inj; [intros a b [= ->]; reflexivity|now apply sort_names_nodup]. }
        split; [exact Hnd|]. split.
        + intros k Hk. rewrite Hl.
          destruct (key_in k (nested_fold_keys sub)) eqn:Enk; [reflexivity|].
          apply key_in_false in Enk. apply in_app_iff in Hk. destruct Hk as [Hk|Hk]; [|contradiction].
          destruct (Hown_shape k Hk) as (n & -> & Hn). rewrite lookup_init. cbn [fst snd]. rewrite N.eqb_refl.
          assert (Ee : existsb (String.eqb n) (sort_names (map fst (c_outputs sub))) = true) by now apply existsb_eqb_in.
          now rewrite Ee.
        + intros k Hk. rewrite Hl. rewrite in_app_iff in Hk.
          destruct (key_in k (nested_fold_keys sub)) eqn:Enk; [apply key_in_spec in Enk; tauto|].
          rewrite lookup_init. destruct k as [ke kn]. cbn [fst snd]. destruct (N.eqb_spec ke (fo_eid h)) as [->|]; [|reflexivity].
          cbn [andb]. destruct (existsb (String.eqb kn) (sort_names (map fst (c_outputs sub)))) eqn:Ee; [|reflexivity].
          apply existsb_eqb_in, Hown_in in Ee. tauto. }
    clear Hx. destruct Hlocal as (Hloc_nd & Hloc_in & Hloc_out).
    match type of H with (if ?b then _ else _) = _ => destruct b eqn:Edis; [discriminate|] end.
    injection H as <-.
    assert (Hdis : forall k, In k (map fst local) ->
               lookup_fvk k (folded_values y ++ map (fun n => ((fo_eid h, n),
                  match fe with Some l => Some (VValue (U64 (Z.of_nat (List.length l)))) | None => None end)) (fo_fsout h)) = None).
    { intros k Hk. apply in_map_iff in Hk. destruct Hk as ((k' & v) & <- & Hkv).
      rewrite <- Bool.not_true_iff_false, existsb_exists in Edis.
      match goal with |- ?L = None => destruct L eqn:E; [|reflexivity] end.
      exfalso. apply Edis. exists (k', v). split; [assumption|]. cbn [fst] in *. now rewrite E. }
    split.
    - (* keys stay distinct *)
      replace (folded_values (set_folded_values y _)) with
        ((folded_values y ++ map (fun n => ((fo_eid h, n),
             match fe with Some l => Some (VValue (U64 (Z.of_nat (List.length l)))) | None => None end)) (fo_fsout h)) ++ local)
        by (destruct y; reflexivity).
      rewrite map_app. apply NoDup_app_intro; [| exact Hloc_nd |].
      + rewrite map_app. apply NoDup_app_intro.
        * now rewrite Hfv.
        * rewrite map_map. cbn [fst]. apply NoDup_map_inj; [intros a b [= ->]; reflexivity|assumption].
        * intros k Hk1 Hk2. rewrite map_map in Hk2. cbn [fst] in Hk2. apply in_map_iff in Hk2. destruct Hk2 as (n & <- & Hn).
          specialize (Hfs_none n Hn). apply lookup_none_notin in Hfs_none. contradiction.
      + intros k Hk1 Hk2. specialize (Hdis k Hk2). apply lookup_none_notin in Hdis. contradiction.
    - intros k.
      replace (folded_values (set_folded_values y _)) with
        ((folded_values y ++ map (fun n => ((fo_eid h, n),
             match fe with Some l => Some (VValue (U64 (Z.of_nat (List.length l)))) | None => None end)) (fo_fsout h)) ++ local)
        by (destruct y; reflexivity).
      replace (a_f (asg_of (set_folded_values y _))) with (a_f (asg_of y)) by (rewrite !a_f_asg_of; destruct y; reflexivity).
      rewrite HF', fspec_eq, !lookup_app, Hfv, Hl0, fspec_eq. fold F.
      destruct (key_in k (fold_keys h sub)) eqn:Ek.
      + apply key_in_spec in Ek.
        rewrite (fspec_before g ss F h sub k Hin Hkeys Ek HlkF).
        rewrite (fspec_after g ss F h sub _ k Hin Hkeys Ek HlkF).
        unfold fold_keys in Ek. apply in_app_iff in Ek. destruct Ek as [Ek|Ek].
        * (* a count output *)
          unfold fs_keys in Ek. apply in_map_iff in Ek. destruct Ek as (n & <- & Hn).
          rewrite lookup_init. cbn [fst snd]. rewrite N.eqb_refl.
          assert (Ee : existsb (String.eqb n) (fo_fsout h) = true) by now apply existsb_eqb_in.
          rewrite Ee. cbn [andb]. destruct fe as [els|]; cbn [option_map]; [|reflexivity].
          unfold fold_val. assert (Hk : key_in (fo_eid h, n) (fs_keys h) = true).
          { apply key_in_spec. unfold fs_keys. apply in_map_iff. eauto. }
          now rewrite Hk, map_length.
        * assert (Hnfs : lookup_fvk k (map (fun n => ((fo_eid h, n),
                     match fe with Some l => Some (VValue (U64 (Z.of_nat (List.length l)))) | None => None end)) (fo_fsout h)) = None).
          { rewrite lookup_init. destruct k as [ke kn]. cbn [fst snd]. destruct (N.eqb_spec ke (fo_eid h)) as [->|]; [|reflexivity].
            cbn [andb]. destruct (existsb (String.eqb kn) (fo_fsout h)) eqn:Ee; [|reflexivity].
            apply existsb_eqb_in in Ee. exfalso. apply (NoDup_app_disj _ _ (fo_eid h, kn) Hfk); [|exact Ek].
            unfold fs_keys. apply in_map_iff. eauto. }
          rewrite Hnfs, (Hloc_in k Ek). destruct fe; reflexivity.
      + apply key_in_false in Ek.
        rewrite (fspec_app_other g ss F h sub _ k Hin Heids Ek).
        destruct (fspec_steps ss F k) eqn:Es; [reflexivity|].
        assert (Hnfs : lookup_fvk k (map (fun n => ((fo_eid h, n),
                     match fe with Some l => Some (VValue (U64 (Z.of_nat (List.length l)))) | None => None end)) (fo_fsout h)) = None).
        { rewrite lookup_init. destruct k as [ke kn]. cbn [fst snd]. destruct (N.eqb_spec ke (fo_eid h)) as [->|]; [|reflexivity].
          cbn [andb]. destruct (existsb (String.eqb kn) (fo_fsout h)) eqn:Ee; [|reflexivity].
          apply existsb_eqb_in in Ee. exfalso. apply Ek. unfold fold_keys. apply in_or_app. left.
          unfold fs_keys. apply in_map_iff. eauto. }
        rewrite Hnfs. apply Hloc_out. intros E. apply Ek. unfold fold_keys. apply in_or_app. now right.
  Qed.
End Assemble.
