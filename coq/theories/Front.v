(* Front.v — model of trustfall_core/src/frontend/{mod.rs, validation.rs, filters.rs, tags.rs,
   outputs.rs, util.rs}: `make_ir_for_query` and everything it calls, over the parsed `query` of
   QueryParse.v and the schema data the frontend reads from `Schema`.
   Model file: definitions only, no proofs (proofs are in FrontProofs.v).

   Function-by-function transcription.  Every unwrap/expect/unreachable!/unimplemented!/assert!/index is
   an explicit `Panic site`; every FrontendError the frontend produces is a constructor of
   `front_error`.  A run is `res (list front_error + A)`: Ok (inr a) = Ok(a), Ok (inl errors) =
   Err(errors.into()) with `errors` the Rust Vec in order, Panic = a panic.

   Schema.  `schema` holds what the frontend reads: the root type name, `vertex_types` (type
   definitions of SchemaAst.v, in document order; the HashMap has one entry per name), the custom
   scalar names, and `field_origins`.  `schema.fields[(T, f)]` is the field f of the definition of T
   (the map is built from exactly these definitions).  `schema_of_doc` builds it from a schema
   document with SchemaNew.v's transcription of get_field_origins.

   Mutable state.  `&mut` parameters are threaded functionally: `fstate` = vid_maker, eid_maker,
   component_path, output_handler, tags; `cstate` = the five maps local to one make_query_component.
   A function that mutates state and returns a Result returns the new state together with the result
   (state changes made before an `Err` return persist, as in Rust).  Vid/Eid counters are unbounded
   (the usize::checked_add(1).unwrap() overflow is not modelled). *)
From TF Require Export QueryParse SchemaAst SchemaNew IR Ty Indexed.
From TF Require Import Show.
Local Open Scope string_scope.
Local Open Scope list_scope.
Local Open Scope N_scope.

(* ================================================================== schema *)
Record schema := mkSchema {
  s_qname : string;                      (* schema.query_type_name() *)
  s_vts : list tdef;                     (* schema.vertex_types (includes the root query type) *)
  s_scalars : list string;               (* schema.scalars keys *)
  s_origins : list (okey * origin) }.    (* schema.field_origins *)

(* schema.fields.get(&(type, field)) *)
Definition s_field (S : schema) (tn fn : string) : option fld :=
  match find_type tn (s_vts S) with
  | Some t => find_field fn (t_fields t)
  | None => None
  end.

(* the Schema that Schema::new builds from a document it accepts *)
Definition schema_of_doc (d : doc) : option schema :=
  match doc_schemas d with
  | Some q :: _ =>
      match get_field_origins (doc_types d) with
      | Ok (inr origins) => Some (mkSchema q (doc_types d) (doc_scalars d) origins)
      | _ => None
      end
  | _ => None
  end.

(* ================================================================== errors *)
Inductive filter_type_error :=
| FTIncompatibleVariable (var t1 t2 : string)
| FTNonNullableNullability (op subj : string) (outcome : bool)
| FTTypeMismatch (op subj arg : string)
| FTOrderingNonOrderableSubject (op subj : string)
| FTOrderingNonOrderableArgument (op arg : string)
| FTStringNonStringSubject (op subj : string)
| FTStringNonStringArgument (op arg : string)
| FTListNonListSubject (op subj : string)
| FTListNonListArgument (op arg : string).

Inductive validation_error :=
| VNonExistentPath (path : list string)
| VNonExistentType (t : string)
| VCannotCoerceNonInterfaceType (a b : string)
| VCannotCoerceToUnrelatedType (a b : string).

Inductive front_error :=
| FEUndefinedTagInFilter (p t : string)
| FETagUsedBeforeDefinition (p t : string)
| FETagUsedOutsideItsFoldedSubquery (p t : string)
| FEUnusedTags (l : list string)
| FEMultipleOutputsWithSameName (d : list (string * list (string * string)))
| FEMultipleTagsWithSameName (t : string)
| FEExplicitTagNameRequired (f : string)
| FEFilterType (e : filter_type_error)
| FEUnsupportedDirectiveOnProperty (d p : string)
| FEUnsupportedEdgeOutput (e : string)
| FEUnsupportedEdgeFilter (e : string)
| FEUnsupportedEdgeTag (e : string)
| FEUnsupportedDirectiveOnFoldedEdge (e d : string)
| FEMissingRequiredEdgeParam (p e : string)
| FEUnexpectedEdgeParam (p e : string)
| FEInvalidEdgeParamType (p e t : string) (v : fv)
| FERecursingNonRecursableEdge (e s d : string)
| FERecursionToSubtype (e s d : string)
| FEAmbiguousOriginEdgeRecursion (e : string)
| FEEdgeRecursionNeedingMultipleCoercions (e : string)
| FEPropertyMetaFieldUsedAsEdge (f : string)
| FEValidation (v : validation_error).

Definition errs := list front_error.
Definition fres (A : Type) := res (errs + A).

(* ================================================================== panic sites *)
(* frontend/mod.rs *)
Definition site_field_unreachable : string := "frontend/mod.rs:102 unreachable!() in get_field_name_and_type_from_schema".
Definition site_edge_unreachable : string := "frontend/mod.rs:130 unreachable!() in get_edge_definition_from_schema".
Definition site_vertex_types_index : string := "frontend/mod.rs:137 schema.vertex_types[type_name]".
Definition site_default_unwrap : string := "frontend/mod.rs:163 FieldValue::try_from(default).unwrap()".
Definition site_default_assert : string := "frontend/mod.rs:167 assert!(is_valid_value(default))".
Definition site_param_insert : string := "frontend/mod.rs:195 edge_arguments.insert_or_error(..).unwrap()".
Definition site_root_params_unwrap : string := "frontend/mod.rs:309 root_parameters.unwrap()".
Definition site_dup_index : string := "frontend/mod.rs:399/405 ir_vertices[&vid] in make_duplicated_output_names_error".
Definition site_vertices_collect : string := "frontend/mod.rs:514 try_collect_unique().unwrap()".
Definition site_from_vertex_index : string := "frontend/mod.rs:521 ir_vertices[from_vid]".
Definition site_origin_index : string := "frontend/mod.rs:706 schema.field_origins[..]".
Definition site_ancestor_index : string := "frontend/mod.rs:710 schema.fields[(ancestor, edge)]".
Definition site_props_get : string := "frontend/mod.rs:787 properties.get(..).unwrap()".
Definition site_vertices_insert : string := "frontend/mod.rs:846 vertices.insert_or_error(..).unwrap()".
Definition site_edges_insert : string := "frontend/mod.rs:919 expect: Unexpectedly encountered duplicate eid".
Definition site_prop_name_assert : string := "frontend/mod.rs:980 assert_eq!(subfield_name, prior_name)".
Definition site_prop_type_assert : string := "frontend/mod.rs:981 assert_eq!(subfield_raw_type, prior_type)".
Definition site_neither : string := "frontend/mod.rs:1048 unreachable!: neither an edge nor a property".
Definition site_retransform : string := "frontend/mod.rs:1111 unimplemented!: re-transforming a @fold @transform value".
(* frontend/validation.rs *)
Definition site_val_name : string := "validation.rs:38 assert_eq!(connection.name, node.name)".
Definition site_val_alias : string := "validation.rs:39 assert_eq!(connection.alias, node.alias)".
Definition site_val_index : string := "validation.rs:68 schema.vertex_types[pre_coercion_type_name]".
Definition site_val_pop : string := "validation.rs:115/117 path.pop().unwrap()".
Definition site_val_len : string := "validation.rs:119 assert_eq!(old_path_length, path.len())".
(* frontend/filters.rs *)
Definition site_infer_unreachable : string := "filters.rs:148 unreachable!() in infer_variable_type".
Definition site_as_tag : string := "filters.rs:250-430 rhs.unwrap().as_tag().unwrap()".
Definition site_tag_name : string := "filters.rs:256-433 tag_name.unwrap()".
(* frontend/tags.rs *)
Definition site_tags_pop : string := "tags.rs:55 component_imported_tags.pop().unwrap()".
Definition site_tags_vid : string := "tags.rs:56 assert_eq!(expected_vid, component_root)".
Definition site_tags_path_index : string := "tags.rs:77 use_path[entry.path.len()]".
Definition site_tags_get_mut : string := "tags.rs:82 component_imported_tags.get_mut(entry.path.len() - 1).unwrap()".
Definition site_tags_root : string := "tags.rs:83 assert_eq!(*component_root, importing_component_root)".
(* frontend/outputs.rs *)
Definition site_out_prior : string := "outputs.rs:33 assert!(prior_value.is_none())".
Definition site_out_pop : string := "outputs.rs:37 expect: stack was unexpectedly empty".
Definition site_out_vid : string := "outputs.rs:38 assert_eq!(nested_vid, stack_top_vid)".
Definition site_out_end_sub : string := "outputs.rs:46 expect: stack was unexpectedly empty".
Definition site_out_prefix : string := "outputs.rs:59 self.prefixes[vid]".
Definition site_out_last : string := "outputs.rs:78 expect: stack was unexpectedly empty".
Definition site_out_finish_vids : string := "outputs.rs:107 assert!(self.vid_stack.is_empty())".
Definition site_out_finish_comps : string := "outputs.rs:108 assert!(self.component_outputs_stack.is_empty())".
(* frontend/util.rs *)
Definition site_path_pop : string := "util.rs:44 path.pop().unwrap()".
Definition site_path_vid : string := "util.rs:45 assert_eq!(popped_vid, component_start_vid)".
Definition site_path_last : string := "util.rs:62 expect: empty component path".
(* frontend/error.rs *)
Definition site_errors_empty : string := "frontend/error.rs:315 assert!(!v.is_empty()) in From<Vec<FrontendError>>".

(* ================================================================== small maps *)
(* BTreeMap<Vid|Eid, V>::insert_or_error: None = occupied; kept sorted by key *)
Fixpoint nmap_insert_new {V} (k : N) (v : V) (m : list (N * V)) : option (list (N * V)) :=
  match m with
  | [] => Some [(k, v)]
  | (k', v') :: r =>
      match N.compare k k' with
      | Lt => Some ((k, v) :: m)
      | Eq => None
      | Gt => match nmap_insert_new k v r with Some r' => Some ((k', v') :: r') | None => None end
      end
  end.
(* BTreeMap::insert returning whether a value was there; replaces *)
Fixpoint nmap_insert {V} (k : N) (v : V) (m : list (N * V)) : list (N * V) :=
  match m with
  | [] => [(k, v)]
  | (k', v') :: r =>
      match N.compare k k' with
      | Lt => (k, v) :: m
      | Eq => (k, v) :: r
      | Gt => (k', v') :: nmap_insert k v r
      end
  end.

(* BTreeMap<Arc<str>, Vec<V>>: entry(name).or_default().push(value) *)
Fixpoint omap_push {V} (k : string) (v : V) (m : list (string * list V)) : list (string * list V) :=
  match m with
  | [] => [(k, [v])]
  | (k', vs) :: r =>
      match String.compare k k' with
      | Lt => (k, [v]) :: m
      | Eq => (k', vs ++ [v]) :: r
      | Gt => (k', vs) :: omap_push k v r
      end
  end.

(* BTreeSet<&str>::insert *)
Definition sset_add (x : string) (s : list string) : list string := sset_insert x s.

(* ================================================================== util.rs: ComponentPath *)
Definition cpath := list N.
Definition path_pop (p : cpath) (component_start_vid : N) : res cpath :=
  match List.rev p with
  | [] => Panic site_path_pop
  | popped :: r => if N.eqb popped component_start_vid then Ok (List.rev r) else Panic site_path_vid
  end.
Definition list_N_eqb (a b : list N) : bool :=
  (Nat.eqb (List.length a) (List.length b) && forallb (fun p => N.eqb (fst p) (snd p)) (List.combine a b))%bool.
(* ComponentPath::is_parent *)
Definition path_is_parent (self other : cpath) : bool :=
  if Nat.leb (List.length self) (List.length other) then list_N_eqb self (List.firstn (List.length self) other)
  else false.
(* ComponentPath::is_component_root *)
Definition path_is_component_root (p : cpath) (vid : N) : res bool :=
  match List.rev p with
  | [] => Panic site_path_last
  | l :: _ => Ok (N.eqb l vid)
  end.

(* ================================================================== tags.rs: TagHandler *)
Record tag_entry := mkTE { te_name : string; te_field : fieldref; te_path : cpath }.
Record tag_handler := mkTH {
  th_tags : list (string * tag_entry);          (* BTreeMap<&str, TagEntry>, key-sorted *)
  th_used : list string;                        (* BTreeSet<&str> *)
  th_imported : list (N * list fieldref) }.     (* Vec<(Vid, Vec<FieldRef>)>, push at the end *)
Definition th_empty : tag_handler := mkTH [] [] [].

(* FieldRef::defined_at *)
Definition defined_at (f : fieldref) : N :=
  match f with FRContext c => cf_vid c | FRFold ff => ff_root ff end.

(* register_tag: false = Err (the name is taken) *)
Definition th_register_tag (t : tag_handler) (name : string) (field : fieldref) (path : cpath)
  : tag_handler * bool :=
  match amap_insert_new name (mkTE name field path) (th_tags t) with
  | Some tags => (mkTH tags (th_used t) (th_imported t), true)
  | None => (t, false)
  end.
Definition th_begin_subcomponent (t : tag_handler) (root : N) : tag_handler :=
  mkTH (th_tags t) (th_used t) (th_imported t ++ [(root, [])]).
Definition th_end_subcomponent (t : tag_handler) (root : N) : res (tag_handler * list fieldref) :=
  match List.rev (th_imported t) with
  | [] => Panic site_tags_pop
  | (expected_vid, external_tags) :: r =>
      if N.eqb expected_vid root then Ok (mkTH (th_tags t) (th_used t) (List.rev r), external_tags)
      else Panic site_tags_vid
  end.

Inductive tag_lookup_error := TLUndefined | TLUsedBeforeDefinition | TLDefinedInsideFold.

(* Vec::get_mut(i) followed by a push into the second component *)
Fixpoint imported_push (l : list (N * list fieldref)) (i : nat) (expected_root : N) (f : fieldref)
  : res (list (N * list fieldref)) :=
  match l, i with
  | [], _ => Panic site_tags_get_mut
  | (root, tags) :: r, O =>
      if N.eqb root expected_root then Ok ((root, tags ++ [f]) :: r) else Panic site_tags_root
  | x :: r, S i' => do r' <- imported_push r i' expected_root f; Ok (x :: r')
  end.

(* reference_tag *)
Definition th_reference_tag (t : tag_handler) (name : string) (use_path : cpath) (use_vid : N)
  : res (tag_handler * (tag_lookup_error + tag_entry)) :=
  match lookup_str name (th_tags t) with
  | None => Ok (t, inl TLUndefined)
  | Some entry =>
      if path_is_parent (te_path entry) use_path then
        if N.ltb use_vid (defined_at (te_field entry)) then Ok (t, inl TLUsedBeforeDefinition)
        else
          do imported <-
            (if negb (list_N_eqb (te_path entry) use_path) then
               match nth_error use_path (List.length (te_path entry)) with
               | None => Panic site_tags_path_index
               | Some importing_component_root =>
                   match List.length (te_path entry) with
                   | O => Panic site_tags_get_mut          (* usize underflow of len() - 1 *)
                   | S i => imported_push (th_imported t) i importing_component_root (te_field entry)
                   end
               end
             else Ok (th_imported t));
          Ok (mkTH (th_tags t) (sset_add (te_name entry) (th_used t)) imported, inr entry)
      else Ok (t, inl TLDefinedInsideFold)
  end.

(* finish: Err(unused tags) = non-empty list *)
Definition th_finish (t : tag_handler) : list string :=
  filter (fun k => negb (mem k (th_used t))) (map fst (th_tags t)).

(* ================================================================== outputs.rs: OutputHandler *)
Definition outmap := list (string * list fieldref).
Record output_handler := mkOH {
  oh_prefixes : list (N * option string);
  oh_vid_stack : list N;                          (* push at the end *)
  oh_root_vid : N;
  oh_root_prefix : option string;
  oh_comp_stack : list outmap;                    (* push at the end *)
  oh_global : outmap }.
Definition oh_new (root_vid : N) (root_prefix : option string) : output_handler :=
  mkOH [] [] root_vid root_prefix [] [].

Definition oh_begin_nested_scope (o : output_handler) (nested_vid : N) (prefix : option string)
  : res output_handler :=
  match lookup_N nested_vid (oh_prefixes o) with
  | Some _ => Panic site_out_prior
  | None => Ok (mkOH (nmap_insert nested_vid prefix (oh_prefixes o)) (oh_vid_stack o ++ [nested_vid])
                     (oh_root_vid o) (oh_root_prefix o) (oh_comp_stack o) (oh_global o))
  end.
Definition oh_end_nested_scope (o : output_handler) (nested_vid : N) : res output_handler :=
  match List.rev (oh_vid_stack o) with
  | [] => Panic site_out_pop
  | top :: r =>
      if N.eqb nested_vid top then
        Ok (mkOH (oh_prefixes o) (List.rev r) (oh_root_vid o) (oh_root_prefix o) (oh_comp_stack o) (oh_global o))
      else Panic site_out_vid
  end.
Definition oh_begin_subcomponent (o : output_handler) : output_handler :=
  mkOH (oh_prefixes o) (oh_vid_stack o) (oh_root_vid o) (oh_root_prefix o) (oh_comp_stack o ++ [[]]) (oh_global o).
Definition oh_end_subcomponent (o : output_handler) : res (output_handler * outmap) :=
  match List.rev (oh_comp_stack o) with
  | [] => Panic site_out_end_sub
  | top :: r =>
      Ok (mkOH (oh_prefixes o) (oh_vid_stack o) (oh_root_vid o) (oh_root_prefix o) (List.rev r) (oh_global o), top)
  end.

Definition ostr (o : option string) : string := match o with Some s => s | None => "" end.

(* make_output_name *)
Fixpoint prefixes_of (o : output_handler) (vids : list N) : res string :=
  match vids with
  | [] => Ok ""
  | v :: r =>
      match lookup_N v (oh_prefixes o) with
      | None => Panic site_out_prefix
      | Some p => do rest <- prefixes_of o r; Ok (ostr p ++ rest)%string
      end
  end.
Definition oh_make_output_name (o : output_handler) (local_name : string) (transforms : list string)
  : res string :=
  do pre <- prefixes_of o (oh_vid_stack o);
  Ok (ostr (oh_root_prefix o) ++ pre ++ local_name ++ String.concat "" transforms)%string.

(* register_output *)
Definition oh_register_output (o : output_handler) (name : string) (value : fieldref) : res output_handler :=
  match List.rev (oh_comp_stack o) with
  | [] => Panic site_out_last
  | top :: r =>
      Ok (mkOH (oh_prefixes o) (oh_vid_stack o) (oh_root_vid o) (oh_root_prefix o)
               (List.rev (omap_push name value top :: r)) (omap_push name value (oh_global o)))
  end.
Definition oh_register_locally_named_output (o : output_handler) (local_name : string)
           (transforms : list string) (value : fieldref) : res (output_handler * string) :=
  do complete_name <- oh_make_output_name o local_name transforms;
  do o' <- oh_register_output o complete_name value;
  Ok (o', complete_name).
Definition oh_finish (o : output_handler) : res outmap :=
  match oh_vid_stack o with
  | _ :: _ => Panic site_out_finish_vids
  | [] => match oh_comp_stack o with
          | _ :: _ => Panic site_out_finish_comps
          | [] => Ok (oh_global o)
          end
  end.

(* ================================================================== threaded state *)
Record fstate := mkFS {
  fs_vid : N;                       (* next value of vid_maker *)
  fs_eid : N;                       (* next value of eid_maker *)
  fs_path : cpath;                  (* component_path *)
  fs_out : output_handler;
  fs_tags : tag_handler }.
Definition set_path (s : fstate) (p : cpath) := mkFS (fs_vid s) (fs_eid s) p (fs_out s) (fs_tags s).
Definition set_out (s : fstate) (o : output_handler) := mkFS (fs_vid s) (fs_eid s) (fs_path s) o (fs_tags s).
Definition set_tags (s : fstate) (t : tag_handler) := mkFS (fs_vid s) (fs_eid s) (fs_path s) (fs_out s) t.

(* the maps local to one make_query_component *)
Record cstate := mkCS {
  cs_vertices : list (N * (string * field_node));
  cs_edges : list (N * (N * N * field_conn));
  cs_folds : list (N * raw_fold);
  cs_prop_names : list (N * list string);
  cs_props : list ((N * string) * (string * ty * list field_node)) }.
Definition cs_empty : cstate := mkCS [] [] [] [] [].

(* ================================================================== filters.rs *)
Definition represent_property_and_type (name : string) (t : ty) : string :=
  ("property """ ++ name ++ """ of type """ ++ ty_display t ++ """")%string.
Definition represent_tag_name_and_type (name : string) (t : ty) : string :=
  ("tag """ ++ name ++ """ of type """ ++ ty_display t ++ """")%string.

Definition string_type : ty := ty_named "String" false.
Definition count_type : ty := ty_named "Int" false.

(* fn infer_variable_type (Ok (inl e) = Err(e)) *)
Definition infer_variable_type (property_name : string) (property_type : ty) (b : binop)
  : res (filter_type_error + ty) :=
  match b with
  | BEquals | BNotEquals => Ok (inr property_type)
  | BLessThan | BLessThanOrEqual | BGreaterThan | BGreaterThanOrEqual =>
      Ok (inr (ty_with_nullability property_type false))
  | BContains | BNotContains =>
      match ty_as_list property_type with
      | Some inner => Ok (inr inner)
      | None => Ok (inl (FTListNonListSubject (opk_name (opk_of_binop b))
                           (represent_property_and_type property_name property_type)))
      end
  | BOneOf | BNotOneOf => do t <- ty_list property_type false; Ok (inr t)
  | _ => Ok (inr string_type)
  end.

(* FieldRef::field_type / typed() *)
Definition fieldref_type (f : fieldref) : ty :=
  match f with FRContext c => cf_ty c | FRFold _ => count_type end.
Definition argument_type (a : argument) : ty :=
  match a with ATag f => fieldref_type f | AVar _ t => t end.

(* `rhs.unwrap().as_tag().unwrap()` followed by `tag_name.unwrap()`: the (tag name, tag type) used
   in the error *)
Definition tag_of (rhs : argument) (tag_name : option string) : res (string * ty) :=
  match rhs with
  | AVar _ _ => Panic site_as_tag
  | ATag f => match tag_name with
              | None => Panic site_tag_name
              | Some n => Ok (n, fieldref_type f)
              end
  end.

(* mod validity + operand_types_valid, for a binary operation *)
Definition binary_types_valid (b : binop) (lname : string) (left_type : ty) (rhs : argument)
           (tag_name : option string) : res (list filter_type_error) :=
  let op := opk_name (opk_of_binop b) in
  let right_type := argument_type rhs in
  let subj := represent_property_and_type lname left_type in
  let mismatch :=
    do nt <- tag_of rhs tag_name;
    Ok [FTTypeMismatch op subj (represent_tag_name_and_type (fst nt) (snd nt))] in
  match b with
  | BEquals | BNotEquals =>
      if ty_eq_ign_null left_type right_type then Ok [] else mismatch
  | BLessThan | BLessThanOrEqual | BGreaterThan | BGreaterThanOrEqual =>
      let e1 := if negb (ty_orderable left_type) then [FTOrderingNonOrderableSubject op subj] else [] in
      do e2 <- (if negb (ty_orderable right_type) then
                  do nt <- tag_of rhs tag_name;
                  Ok [FTOrderingNonOrderableArgument op (represent_tag_name_and_type (fst nt) (snd nt))]
                else Ok []);
      do e3 <- (if negb (ty_eq_ign_null left_type right_type) then mismatch else Ok []);
      Ok (e1 ++ e2 ++ e3)
  | BContains | BNotContains =>
      match ty_as_list left_type with
      | None => Ok [FTListNonListSubject op subj]
      | Some inner_type => if ty_eq_ign_null inner_type right_type then Ok [] else mismatch
      end
  | BOneOf | BNotOneOf =>
      match ty_as_list right_type with
      | None =>
          do nt <- tag_of rhs tag_name;
          Ok [FTListNonListArgument op (represent_tag_name_and_type (fst nt) (snd nt))]
      | Some inner_type => if ty_eq_ign_null left_type inner_type then Ok [] else mismatch
      end
  | _ =>
      let e1 := if (ty_is_list left_type || negb (String.eqb (ty_base_type left_type) "String"))%bool
                then [FTStringNonStringSubject op subj] else [] in
      do e2 <- (if (ty_is_list right_type || negb (String.eqb (ty_base_type right_type) "String"))%bool then
                  do nt <- tag_of rhs tag_name;
                  Ok [FTStringNonStringArgument op (represent_tag_name_and_type (fst nt) (snd nt))]
                else Ok []);
      Ok (e1 ++ e2)
  end.

(* fn make_filter_expr: result = (operation kind, rhs operand) *)
Definition make_filter_expr (tags : tag_handler) (path : cpath) (vid : N) (lname : string) (lty : ty)
           (fd : filter_dir) : res (tag_handler * (errs + (opk * option argument))) :=
  match fd with
  | FDUnary u =>
      (* nullability_types_valid *)
      if ty_nullable lty then Ok (tags, inr (opk_of_unop u, None))
      else Ok (tags, inl [FEFilterType (FTNonNullableNullability (opk_name (opk_of_unop u))
                                         (represent_property_and_type lname lty)
                                         (match u with UIsNotNull => true | UIsNull => false end))])
  | FDBinary b arg =>
      do tr <-
        match arg with
        | VarRef var_name =>
            do it <- infer_variable_type lname lty b;
            match it with
            | inl e => Ok (tags, inl [FEFilterType e])
            | inr t => Ok (tags, inr (AVar var_name t))
            end
        | TagRef tag_name =>
            do lk <- th_reference_tag tags tag_name path vid;
            match snd lk with
            | inl TLUndefined => Ok (fst lk, inl [FEUndefinedTagInFilter lname tag_name])
            | inl TLDefinedInsideFold => Ok (fst lk, inl [FETagUsedOutsideItsFoldedSubquery lname tag_name])
            | inl TLUsedBeforeDefinition => Ok (fst lk, inl [FETagUsedBeforeDefinition lname tag_name])
            | inr entry => Ok (fst lk, inr (ATag (te_field entry)))
            end
        end;
      match snd tr with
      | inl e => Ok (fst tr, inl e)
      | inr rhs =>
          let maybe_tag_name := match arg with TagRef n => Some n | VarRef _ => None end in
          do es <- binary_types_valid b lname lty rhs maybe_tag_name;
          match es with
          | [] => Ok (fst tr, inr (opk_of_binop b, Some rhs))
          | _ :: _ => Ok (fst tr, inl (map FEFilterType es))
          end
      end
  end.

(* ================================================================== validation.rs *)
Definition TYPENAME : string := "__typename".

Definition ostr_eqb (a b : option string) : bool :=
  match a, b with
  | Some x, Some y => String.eqb x y
  | None, None => true
  | _, _ => false
  end.

Definition pop_path (p : list string) : res (list string) :=
  match List.rev p with [] => Panic site_val_pop | _ :: r => Ok (List.rev r) end.

(* fn validate_field: Ok (inr path') = Ok(()) with the path after the call *)
Fixpoint validate_field (S : schema) (parent_type_name : string) (path : list string)
         (connection : field_conn) (node : field_node) {struct node} : res (front_error + list string) :=
  match node with
  | mkFN name alias coerced_to _ _ _ connections _ =>
      if negb (String.eqb (fc_name connection) name) then Panic site_val_name
      else if negb (ostr_eqb (fc_alias connection) alias) then Panic site_val_alias
      else if String.eqb name TYPENAME then
        match connections with
        | _ :: _ => Ok (inl (FEPropertyMetaFieldUsedAsEdge TYPENAME))
        | [] => Ok (inr path)
        end
      else
        let old_path_length := List.length path in
        match s_field S parent_type_name name with
        | None => Ok (inl (FEValidation (VNonExistentPath (path ++ [name]))))
        | Some field_def =>
            let path := path ++ [name] in
            let pre_coercion_type_name := gbase (f_ty field_def) in
            do ft <-
              match coerced_to with
              | Some coerced =>
                  match find_type pre_coercion_type_name (s_vts S) with
                  | None => Panic site_val_index
                  | Some pre_def =>
                      match t_kind pre_def with
                      | VObject =>
                          Ok (inl (FEValidation (VCannotCoerceNonInterfaceType pre_coercion_type_name coerced)))
                      | VInterface =>
                          match find_type coerced (s_vts S) with
                          | Some post_def =>
                              if negb (mem pre_coercion_type_name (t_impl post_def)) then
                                Ok (inl (FEValidation (VCannotCoerceToUnrelatedType pre_coercion_type_name coerced)))
                              else Ok (inr (path ++ [coerced], coerced))
                          | None => Ok (inl (FEValidation (VNonExistentType coerced)))
                          end
                      end
                  end
              | None => Ok (inr (path, pre_coercion_type_name))
              end;
            match ft with
            | inl e => Ok (inl e)
            | inr (path, field_type_name) =>
                do r <-
                  (fix children (l : list (field_conn * field_node)) (path : list string)
                     : res (front_error + list string) :=
                     match l with
                     | [] => Ok (inr path)
                     | (child_connection, child_node) :: rest =>
                         do c <- validate_field S field_type_name path child_connection child_node;
                         match c with
                         | inl e => Ok (inl e)
                         | inr path' => children rest path'
                         end
                     end) connections path;
                match r with
                | inl e => Ok (inl e)
                | inr path =>
                    do path <- pop_path path;
                    do path <- (match coerced_to with Some _ => pop_path path | None => Ok path end);
                    if Nat.eqb old_path_length (List.length path) then Ok (inr path) else Panic site_val_len
                end
            end
        end
  end.

Definition validate_query_against_schema (S : schema) (q : query) : res (front_error + unit) :=
  do r <- validate_field S (s_qname S) [] (q_conn q) (q_field q);
  match r with inl e => Ok (inl e) | inr _ => Ok (inr tt) end.

(* ================================================================== mod.rs: schema lookups *)
(* fn get_field_name_and_type_from_schema: (field name, pre-coercion type, post-coercion type, Type) *)
Definition get_field_name_and_type (defined_fields : list fld) (node : field_node)
  : res (string * string * string * ty) :=
  if String.eqb (fn_name node) TYPENAME then Ok (TYPENAME, TYPENAME, TYPENAME, string_type)
  else
    match find_field (fn_name node) defined_fields with
    | Some defined_field =>
        let pre := gbase (f_ty defined_field) in
        let post := match fn_coerced_to node with Some c => c | None => pre end in
        do t <- from_type (f_ty defined_field);
        Ok (f_name defined_field, pre, post, t)
    | None => Panic site_field_unreachable
    end.

(* fn get_vertex_field_definitions *)
Definition get_vertex_field_definitions (S : schema) (type_name : string) : res (list fld) :=
  match find_type type_name (s_vts S) with
  | Some t => Ok (t_fields t)
  | None => Panic site_vertex_types_index
  end.

(* fn get_edge_definition_from_schema *)
Definition get_edge_definition (S : schema) (type_name edge_name : string) : res fld :=
  do defined_fields <- get_vertex_field_definitions S type_name;
  match find_field edge_name defined_fields with
  | Some f => Ok f
  | None => Panic site_edge_unreachable
  end.

(* ================================================================== mod.rs: make_edge_parameters *)
Fixpoint edge_params_loop (edge_name : string) (args : list arg) (specified : list (string * fv))
         (errors : errs) (edge_arguments : list (string * fv)) : res (errs * list (string * fv)) :=
  match args with
  | [] => Ok (errors, edge_arguments)
  | a :: rest =>
      let arg_name := a_name a in
      do t <- from_type (a_ty a);
      do sv <-
        match lookup_str arg_name specified with
        | None =>
            match a_default a with
            | Default v =>
                do b <- ty_valid t v;
                if b then Ok (errors, Some v) else Panic site_default_assert
            | BadDefault => Panic site_default_unwrap
            | NoDefault => Ok (errors, if gnullable (a_ty a) then Some Null else None)
            end
        | Some value =>
            do b <- ty_valid t value;
            Ok (if negb b then errors ++ [FEInvalidEdgeParamType arg_name edge_name (gty_text (a_ty a)) value]
                else errors, Some value)
        end;
      match snd sv with
      | None =>
          edge_params_loop edge_name rest specified
            (fst sv ++ [FEMissingRequiredEdgeParam arg_name edge_name]) edge_arguments
      | Some value =>
          match amap_insert_new arg_name value edge_arguments with
          | None => Panic site_param_insert
          | Some m => edge_params_loop edge_name rest specified (fst sv) m
          end
      end
  end.

Definition make_edge_parameters (edge_definition : fld) (specified : list (string * fv)) : fres params :=
  do r <- edge_params_loop (f_name edge_definition) (f_args edge_definition) specified [] [];
  let errors := fst r in
  let edge_arguments := snd r in
  let unexpected :=
    map (fun kv => FEUnexpectedEdgeParam (fst kv) (f_name edge_definition))
        (filter (fun kv => match lookup_str (fst kv) edge_arguments with Some _ => false | None => true end)
                specified) in
  match errors ++ unexpected with
  | [] => Ok (inr edge_arguments)
  | e => Ok (inl e)
  end.

(* ================================================================== mod.rs: get_recurse_implicit_coercion *)
Definition get_recurse_implicit_coercion (S : schema) (from_vertex : ir_vertex) (edge_definition : fld)
  : res (front_error + option string) :=
  let source_type := v_type from_vertex in
  let destination_type := gbase (f_ty edge_definition) in
  let edge_name := f_name edge_definition in
  if negb (named_subtype (s_vts S) destination_type source_type) then
    if negb (named_subtype (s_vts S) source_type destination_type) then
      Ok (inl (FERecursingNonRecursableEdge edge_name source_type destination_type))
    else Ok (inl (FERecursionToSubtype edge_name source_type destination_type))
  else if String.eqb source_type destination_type then Ok (inr None)
  else
    match s_field S destination_type edge_name with
    | Some destination_edge =>
        if String.eqb (gbase (f_ty destination_edge)) destination_type then Ok (inr None)
        else Ok (inl (FEEdgeRecursionNeedingMultipleCoercions edge_name))
    | None =>
        match omap_get (source_type, edge_name) (s_origins S) with
        | None => Panic site_origin_index
        | Some (Single ancestor) =>
            match s_field S ancestor edge_name with
            | None => Panic site_ancestor_index
            | Some ancestor_edge =>
                if String.eqb (gbase (f_ty ancestor_edge)) destination_type then Ok (inr (Some ancestor))
                else Ok (inl (FEEdgeRecursionNeedingMultipleCoercions edge_name))
            end
        | Some (Multiple _) => Ok (inl (FEAmbiguousOriginEdgeRecursion edge_name))
        end
    end.

(* ================================================================== util.rs: try_collect_unique *)
(* the values of key k, in iteration order *)
Definition values_of {V} (k : string) (l : list (string * V)) : list V :=
  map snd (filter (fun kv => String.eqb (fst kv) k) l).
(* distinct keys, key-sorted *)
Definition keys_sorted {V} (l : list (string * V)) : list string := sset_of (map fst l).
(* Err(duplicate_map): keys with more than one value, each with all its values in iteration order *)
Definition duplicates_of {V} (l : list (string * V)) : list (string * list V) :=
  filter (fun kv => Nat.ltb 1 (List.length (snd kv))) (map (fun k => (k, values_of k l)) (keys_sorted l)).
(* check_for_duplicate_output_names: inr = Ok(map), inl = Err(duplicates) *)
Definition check_for_duplicate_output_names (m : outmap)
  : list (string * list fieldref) + list (string * fieldref) :=
  let flat := flat_map (fun kv => map (fun o => (fst kv, o)) (snd kv)) m in
  match duplicates_of flat with
  | [] => inr flat
  | d => inl d
  end.

(* fn make_duplicated_output_names_error *)
Definition dup_entry (ir_vertices : list ir_vertex) (f : fieldref) : res (string * string) :=
  match f with
  | FRContext c =>
      match find_vertex ir_vertices (cf_vid c) with
      | Some v => Ok (v_type v, cf_name c)
      | None => Panic site_dup_index
      end
  | FRFold ff =>
      match find_vertex ir_vertices (ff_root ff) with
      | Some v => Ok (v_type v, "fold count value")
      | None => Panic site_dup_index
      end
  end.
Fixpoint rmap {A B} (f : A -> res B) (l : list A) : res (list B) :=
  match l with
  | [] => Ok []
  | x :: r => do y <- f x; do r' <- rmap f r; Ok (y :: r')
  end.
Definition make_duplicated_output_names_error (ir_vertices : list ir_vertex)
           (duplicates : list (string * list fieldref)) : res errs :=
  do d <- rmap (fun kv => do vs <- rmap (dup_entry ir_vertices) (snd kv); Ok (fst kv, vs)) duplicates;
  Ok [FEMultipleOutputsWithSameName d].

(* ================================================================== mod.rs: make_vertex *)
Fixpoint lookup_prop (k : N * string) (l : list ((N * string) * (string * ty * list field_node)))
  : option (string * ty * list field_node) :=
  match l with
  | [] => None
  | (k', v) :: r =>
      if (N.eqb (fst k) (fst k') && String.eqb (snd k) (snd k'))%bool then Some v else lookup_prop k r
  end.

(* the three nested loops collecting the vertex's filters; errors are accumulated *)
Fixpoint vertex_filters_dirs (tags : tag_handler) (path : cpath) (vid : N) (pname : string) (pty : ty)
         (ds : list filter_dir) (filters : list vfilter) (errors : errs)
  : res (tag_handler * list vfilter * errs) :=
  match ds with
  | [] => Ok (tags, filters, errors)
  | d :: r =>
      do x <- make_filter_expr tags path vid pname pty d;
      match snd x with
      | inr (op, rhs) => vertex_filters_dirs (fst x) path vid pname pty r (filters ++ [mkVF op pname pty rhs]) errors
      | inl e => vertex_filters_dirs (fst x) path vid pname pty r filters (errors ++ e)
      end
  end.
Fixpoint vertex_filters_fields (tags : tag_handler) (path : cpath) (vid : N) (pname : string) (pty : ty)
         (fields : list field_node) (filters : list vfilter) (errors : errs)
  : res (tag_handler * list vfilter * errs) :=
  match fields with
  | [] => Ok (tags, filters, errors)
  | f :: r =>
      do x <- vertex_filters_dirs tags path vid pname pty (fn_filters f) filters errors;
      let '(tags', filters', errors') := x in
      vertex_filters_fields tags' path vid pname pty r filters' errors'
  end.
Fixpoint vertex_filters_props (cs : cstate) (tags : tag_handler) (path : cpath) (vid : N)
         (names : list string) (filters : list vfilter) (errors : errs)
  : res (tag_handler * list vfilter * errs) :=
  match names with
  | [] => Ok (tags, filters, errors)
  | pname :: r =>
      match lookup_prop (vid, pname) (cs_props cs) with
      | None => Panic site_props_get
      | Some (_, pty, fields) =>
          do x <- vertex_filters_fields tags path vid pname pty fields filters errors;
          let '(tags', filters', errors') := x in
          vertex_filters_props cs tags' path vid r filters' errors'
      end
  end.

Definition make_vertex (S : schema) (cs : cstate) (tags : tag_handler) (path : cpath) (vid : N)
           (uncoerced_type_name : string) (node : field_node) : res (tag_handler * (errs + ir_vertex)) :=
  do is_fold_root <- path_is_component_root path vid;
  let errors :=
    (if (negb is_fold_root && negb (match fn_outputs node with [] => true | _ => false end))%bool
     then [FEUnsupportedEdgeOutput (fn_name node)] else [])
    ++ (match fn_filters node with _ :: _ => [FEUnsupportedEdgeFilter (fn_name node)] | [] => [] end)
    ++ (match fn_tags node with _ :: _ => [FEUnsupportedEdgeTag (fn_name node)] | [] => [] end) in
  let coercion : front_error + (string * option string) :=
    match fn_coerced_to node with
    | None => inr (uncoerced_type_name, None)
    | Some coerced_to_type =>
        match find_type coerced_to_type (s_vts S) with
        | Some t => inr (t_name t, Some uncoerced_type_name)
        | None => inl (FEValidation (VNonExistentType coerced_to_type))
        end
    end in
  match coercion with
  | inl e => Ok (tags, inl (errors ++ [e]))
  | inr (type_name, coerced_from_type) =>
      let names := match lookup_N vid (cs_prop_names cs) with Some l => l | None => [] end in
      do x <- vertex_filters_props cs tags path vid names [] errors;
      let '(tags', filters, errors') := x in
      match errors' with
      | [] => Ok (tags', inr (mkV vid type_name coerced_from_type filters))
      | _ :: _ => Ok (tags', inl errors')
      end
  end.

(* ================================================================== mod.rs: make_query_component *)
(* the `vertex_results` iterator consumed by filter_map + try_collect_unique *)
Fixpoint make_vertices (S : schema) (cs : cstate) (tags : tag_handler) (path : cpath)
         (vs : list (N * (string * field_node))) (acc : list ir_vertex) (errors : errs)
  : res (tag_handler * list ir_vertex * errs) :=
  match vs with
  | [] => Ok (tags, acc, errors)
  | (vid, (uncoerced, node)) :: r =>
      do x <- make_vertex S cs tags path vid uncoerced node;
      match snd x with
      | inr v =>
          match find_vertex acc (v_vid v) with
          | Some _ => Panic site_vertices_collect
          | None => make_vertices S cs (fst x) path r (acc ++ [v]) errors
          end
      | inl e => make_vertices S cs (fst x) path r acc (errors ++ e)
      end
  end.

Fixpoint make_edges (S : schema) (ir_vertices : list ir_vertex)
         (es : list (N * (N * N * field_conn))) (acc : list ir_edge) (errors : errs)
  : res (list ir_edge * errs) :=
  match es with
  | [] => Ok (acc, errors)
  | (eid, (from_vid, to_vid, connection)) :: r =>
      match find_vertex ir_vertices from_vid with
      | None => Panic site_from_vertex_index
      | Some from_vertex =>
          do edge_definition <- get_edge_definition S (v_type from_vertex) (fc_name connection);
          do parameters_result <- make_edge_parameters edge_definition (fc_args connection);
          do rc <-
            match fc_recurse connection with
            | None => Ok (None, errors)
            | Some depth =>
                do c <- get_recurse_implicit_coercion S from_vertex edge_definition;
                match c with
                | inr coerce_to => Ok (Some (mkRec (Z.to_N depth) coerce_to), errors)
                | inl e => Ok (None, errors ++ [e])
                end
            end;
          match parameters_result with
          | inr parameters =>
              make_edges S ir_vertices r
                (acc ++ [mkE eid from_vid to_vid (f_name edge_definition) parameters (fc_optional connection) (fst rc)])
                (snd rc)
          | inl e => make_edges S ir_vertices r acc (snd rc ++ e)
          end
      end
  end.

(* make_query_component, given the call `fill_in_vertex_data(.., starting_field)` as `fill_root` *)
Definition make_query_component (S : schema)
           (fill_root : cstate -> fstate -> res (cstate * fstate * errs))
           (fs : fstate) (starting_vid : N) : res (fstate * (errs + raw_comp)) :=
  let fs := set_out fs (oh_begin_subcomponent (fs_out fs)) in
  do x <- fill_root cs_empty fs;
  let '(cs, fs, errors) := x in
  do y <- make_vertices S cs (fs_tags fs) (fs_path fs) (cs_vertices cs) [] errors;
  let '(tags, ir_vertices, errors) := y in
  let fs := set_tags fs tags in
  match errors with
  | _ :: _ => Ok (fs, inl errors)
  | [] =>
      do z <- make_edges S ir_vertices (cs_edges cs) [] [];
      let '(ir_edges, errors) := z in
      match errors with
      | _ :: _ => Ok (fs, inl errors)
      | [] =>
          do w <- oh_end_subcomponent (fs_out fs);
          let fs := set_out fs (fst w) in
          match check_for_duplicate_output_names (snd w) with
          | inl duplicates =>
              do e <- make_duplicated_output_names_error ir_vertices duplicates;
              Ok (fs, inl e)
          | inr component_outputs =>
              let hacked_outputs :=
                flat_map (fun kv => match snd kv with FRContext c => [(fst kv, c)] | FRFold _ => [] end)
                         component_outputs in
              Ok (fs, inr (RComp starting_vid ir_vertices ir_edges (map snd (cs_folds cs)) hacked_outputs))
          end
      end
  end.

(* ================================================================== mod.rs: make_fold *)
Fixpoint fold_post_filters (tags : tag_handler) (path : cpath) (vid : N) (ds : list filter_dir)
         (post : list pfilter) (errors : errs) : res (tag_handler * list pfilter * errs) :=
  match ds with
  | [] => Ok (tags, post, errors)
  | d :: r =>
      do x <- make_filter_expr tags path vid "@fold.count" count_type d;
      match snd x with
      | inr (op, rhs) => fold_post_filters (fst x) path vid r (post ++ [mkPF op rhs]) errors
      | inl e => fold_post_filters (fst x) path vid r post (errors ++ e)
      end
  end.

(* the `for output in &transform_group.output` loop; fold_specific_outputs: BTreeMap name -> kind *)
Fixpoint fold_outputs (o : output_handler) (field_ref : fieldref) (starting_field : field_node)
         (outs : list (option string)) (fsout : list string) (errors : errs)
  : res (output_handler * list string * errs) :=
  match outs with
  | [] => Ok (o, fsout, errors)
  | out :: r =>
      do x <-
        match out with
        | Some explicit_name =>
            do o' <- oh_register_output o explicit_name field_ref; Ok (o', explicit_name)
        | None =>
            let local_name := match fn_alias starting_field with Some _ => "" | None => fn_name starting_field end in
            oh_register_locally_named_output o local_name ["count"] field_ref
        end;
      let final_output_name := snd x in
      if mem final_output_name fsout then
        fold_outputs (fst x) field_ref starting_field r fsout
          (errors ++ [FEMultipleOutputsWithSameName
                        [(final_output_name, [(fn_name starting_field, "@fold.count");
                                              (fn_name starting_field, "@fold.count")])]])
      else fold_outputs (fst x) field_ref starting_field r (sset_add final_output_name fsout) errors
  end.

Fixpoint fold_tags (tags : tag_handler) (path : cpath) (field_ref : fieldref) (starting_field : field_node)
         (ts : list (option string)) (errors : errs) : tag_handler * errs :=
  match ts with
  | [] => (tags, errors)
  | Some tag_name :: r =>
      let x := th_register_tag tags tag_name field_ref path in
      fold_tags (fst x) path field_ref starting_field r
                (if snd x then errors else errors ++ [FEMultipleTagsWithSameName tag_name])
  | None :: r =>
      fold_tags tags path field_ref starting_field r (errors ++ [FEExplicitTagNameRequired (fn_name starting_field)])
  end.

(* make_fold, given the call `make_query_component(.., starting_field)` as `component_of` *)
Definition make_fold (component_of : fstate -> res (fstate * (errs + raw_comp)))
           (fs : fstate) (fold_group : fold_group) (fold_eid : N) (edge_name : string)
           (edge_parameters : params) (parent_vid starting_vid : N) (starting_field : field_node)
  : res (fstate * (errs + raw_fold)) :=
  let fs := set_path fs (fs_path fs ++ [starting_vid]) in
  let fs := set_tags fs (th_begin_subcomponent (fs_tags fs) starting_vid) in
  do x <- component_of fs;
  let fs := fst x in
  match snd x with
  | inl e => Ok (fs, inl e)                       (* the `?`: nothing is popped *)
  | inr component =>
      do p <- path_pop (fs_path fs) starting_vid;
      let fs := set_path fs p in
      do y <- th_end_subcomponent (fs_tags fs) starting_vid;
      let fs := set_tags fs (fst y) in
      let imported_tags := snd y in
      let errors := match fn_outputs starting_field with
                    | _ :: _ => [FEUnsupportedEdgeOutput (fn_name starting_field)]
                    | [] => [] end in
      do z <-
        match fg_transform fold_group with
        | None => Ok (fs, [], [], errors)
        | Some transform_group =>
            match tg_retransform transform_group with
            | Some _ => Panic site_retransform
            | None =>
                let field_ref := FRFold (mkFF fold_eid starting_vid) in
                do a <- fold_post_filters (fs_tags fs) (fs_path fs) starting_vid
                                          (tg_filters transform_group) [] errors;
                let '(tags, post_filters, errors) := a in
                let fs := set_tags fs tags in
                do b <- fold_outputs (fs_out fs) field_ref starting_field (tg_outputs transform_group) [] errors;
                let '(o, fsout, errors) := b in
                let fs := set_out fs o in
                let c := fold_tags (fs_tags fs) (fs_path fs) field_ref starting_field (tg_tags transform_group) errors in
                Ok (set_tags fs (fst c), post_filters, fsout, snd c)
            end
        end;
      let '(fs, post_filters, fsout, errors) := z in
      match errors with
      | _ :: _ => Ok (fs, inl errors)
      | [] =>
          Ok (fs, inr (RFold (mkFH fold_eid parent_vid starting_vid edge_name edge_parameters imported_tags
                                   fsout post_filters) component))
      end
  end.

(* ================================================================== mod.rs: fill_in_vertex_data *)
Fixpoint update_prop (k : N * string) (node : field_node)
         (l : list ((N * string) * (string * ty * list field_node)))
  : list ((N * string) * (string * ty * list field_node)) :=
  match l with
  | [] => []
  | (k', (n, t, fields)) :: r =>
      if (N.eqb (fst k) (fst k') && String.eqb (snd k) (snd k'))%bool then (k', (n, t, fields ++ [node])) :: r
      else (k', (n, t, fields)) :: update_prop k node r
  end.
(* property_names_by_vertex.entry(vid).or_default().push(name) *)
Fixpoint push_prop_name (vid : N) (name : string) (l : list (N * list string)) : list (N * list string) :=
  match l with
  | [] => [(vid, [name])]
  | (v, names) :: r => if N.eqb v vid then (v, names ++ [name]) :: r else (v, names) :: push_prop_name vid name r
  end.

Definition ty_eqb (a b : ty) : bool := (String.eqb (tbase a) (tbase b) && N.eqb (tmask a) (tmask b))%bool.

(* the `for output_directive in &subfield.output` loop on a property *)
Fixpoint prop_outputs (o : output_handler) (field_ref : fieldref) (subfield : field_node)
         (outs : list (option string)) : res output_handler :=
  match outs with
  | [] => Ok o
  | Some explicit_name :: r =>
      do o' <- oh_register_output o explicit_name field_ref; prop_outputs o' field_ref subfield r
  | None :: r =>
      let local_name := match fn_alias subfield with Some a => a | None => fn_name subfield end in
      do x <- oh_register_locally_named_output o local_name [] field_ref;
      prop_outputs (fst x) field_ref subfield r
  end.
(* the `for tag_directive in &subfield.tag` loop on a property *)
Fixpoint prop_tags (tags : tag_handler) (path : cpath) (field_ref : fieldref) (subfield : field_node)
         (ts : list (option string)) (errors : errs) : tag_handler * errs :=
  match ts with
  | [] => (tags, errors)
  | t :: r =>
      let tag_name := match t with
                      | Some n => n
                      | None => match fn_alias subfield with Some a => a | None => fn_name subfield end
                      end in
      let x := th_register_tag tags tag_name field_ref path in
      prop_tags (fst x) path field_ref subfield r
                (if snd x then errors else errors ++ [FEMultipleTagsWithSameName tag_name])
  end.

Fixpoint fill_in_vertex_data (S : schema) (cs : cstate) (fs : fstate) (current_vid : N)
         (pre_coercion_type post_coercion_type : string) (current_field : field_node)
         {struct current_field} : res (cstate * fstate * errs) :=
  match current_field with
  | mkFN _ _ _ _ _ _ connections _ =>
      match nmap_insert_new current_vid (pre_coercion_type, current_field) (cs_vertices cs) with
      | None => Panic site_vertices_insert
      | Some vertices =>
          let cs := mkCS vertices (cs_edges cs) (cs_folds cs) (cs_prop_names cs) (cs_props cs) in
          do defined_fields <- get_vertex_field_definitions S post_coercion_type;
          (fix loop (l : list (field_conn * field_node)) (cs : cstate) (fs : fstate) (errors : errs)
             : res (cstate * fstate * errs) :=
             match l with
             | [] => Ok (cs, fs, errors)
             | (connection, subfield) :: rest =>
                 do nt <- get_field_name_and_type defined_fields subfield;
                 let '(subfield_name, subfield_pre, subfield_post, subfield_raw_type) := nt in
                 if has_type subfield_post (s_vts S) then
                   (* processing an edge *)
                   let next_vid := fs_vid fs in
                   let next_eid := fs_eid fs in
                   let fs := mkFS (next_vid + 1) (next_eid + 1) (fs_path fs) (fs_out fs) (fs_tags fs) in
                   do o <- oh_begin_nested_scope (fs_out fs) next_vid (fn_alias subfield);
                   let fs := set_out fs o in
                   do step <-
                     match fc_fold connection with
                     | Some fold_group =>
                         let errors :=
                           errors
                           ++ (if fc_optional connection
                               then [FEUnsupportedDirectiveOnFoldedEdge (fn_name subfield) "@optional"] else [])
                           ++ (match fc_recurse connection with
                               | Some _ => [FEUnsupportedDirectiveOnFoldedEdge (fn_name subfield) "@recurse"]
                               | None => [] end) in
                         do edge_definition <- get_edge_definition S post_coercion_type (fc_name connection);
                         do ep <- make_edge_parameters edge_definition (fc_args connection);
                         match ep with
                         | inr edge_parameters =>
                             do mf <- make_fold
                                        (fun fs' =>
                                           make_query_component S
                                             (fun cs'' fs'' =>
                                                fill_in_vertex_data S cs'' fs'' next_vid subfield_pre subfield_post subfield)
                                             fs' next_vid)
                                        fs fold_group next_eid (f_name edge_definition) edge_parameters
                                        current_vid next_vid subfield;
                             match snd mf with
                             | inr fold =>
                                 Ok (mkCS (cs_vertices cs) (cs_edges cs) (nmap_insert next_eid fold (cs_folds cs))
                                          (cs_prop_names cs) (cs_props cs), fst mf, errors)
                             | inl e => Ok (cs, fst mf, errors ++ e)
                             end
                         | inl e => Ok (cs, fs, errors ++ e)
                         end
                     | None =>
                         match nmap_insert_new next_eid (current_vid, next_vid, connection) (cs_edges cs) with
                         | None => Panic site_edges_insert
                         | Some edges =>
                             let cs := mkCS (cs_vertices cs) edges (cs_folds cs) (cs_prop_names cs) (cs_props cs) in
                             do x <- fill_in_vertex_data S cs fs next_vid subfield_pre subfield_post subfield;
                             let '(cs', fs', e) := x in
                             Ok (cs', fs', errors ++ e)
                         end
                     end;
                   let '(cs, fs, errors) := step in
                   do o <- oh_end_nested_scope (fs_out fs) next_vid;
                   loop rest cs (set_out fs o) errors
                 else if (builtin_scalar subfield_post || mem subfield_post (s_scalars S)
                          || String.eqb subfield_name TYPENAME)%bool then
                   (* processing a property *)
                   let errors :=
                     errors
                     ++ (match fc_fold connection with
                         | Some _ => [FEUnsupportedDirectiveOnProperty "@fold" (fn_name subfield)] | None => [] end)
                     ++ (if fc_optional connection
                         then [FEUnsupportedDirectiveOnProperty "@optional" (fn_name subfield)] else [])
                     ++ (match fc_recurse connection with
                         | Some _ => [FEUnsupportedDirectiveOnProperty "@recurse" (fn_name subfield)] | None => [] end) in
                   let key := (current_vid, subfield_name) in
                   do cs <-
                     match lookup_prop key (cs_props cs) with
                     | Some (prior_name, prior_type, _) =>
                         if negb (String.eqb subfield_name prior_name) then Panic site_prop_name_assert
                         else if negb (ty_eqb subfield_raw_type prior_type) then Panic site_prop_type_assert
                         else Ok (mkCS (cs_vertices cs) (cs_edges cs) (cs_folds cs) (cs_prop_names cs)
                                       (update_prop key subfield (cs_props cs)))
                     | None =>
                         Ok (mkCS (cs_vertices cs) (cs_edges cs) (cs_folds cs)
                                  (push_prop_name current_vid subfield_name (cs_prop_names cs))
                                  (cs_props cs ++ [(key, (subfield_name, subfield_raw_type, [subfield]))]))
                     end;
                   let field_ref := FRContext (mkCF current_vid (fn_name subfield) subfield_raw_type) in
                   do o <- prop_outputs (fs_out fs) field_ref subfield (fn_outputs subfield);
                   let fs := set_out fs o in
                   let t := prop_tags (fs_tags fs) (fs_path fs) field_ref subfield (fn_tags subfield) errors in
                   loop rest cs (set_tags fs (fst t)) (snd t)
                 else Panic site_neither
             end) connections cs fs []
      end
  end.

(* ================================================================== mod.rs: fill_in_query_variables *)
Definition filter_vars (fs : list vfilter) : list (string * ty) :=
  flat_map (fun f => match vf_arg f with Some (AVar n t) => [(n, t)] | _ => [] end) fs.
Definition pfilter_vars (fs : list pfilter) : list (string * ty) :=
  flat_map (fun f => match pf_arg f with Some (AVar n t) => [(n, t)] | _ => [] end) fs.

(* BTreeMap<Arc<str>, Type>: get / insert-or-replace, key-sorted *)
Fixpoint vmap_set (k : string) (v : ty) (m : list (string * ty)) : list (string * ty) :=
  match m with
  | [] => [(k, v)]
  | (k', v') :: r =>
      match String.compare k k' with
      | Lt => (k, v) :: m
      | Eq => (k, v) :: r
      | Gt => (k', v') :: vmap_set k v r
      end
  end.

Fixpoint use_variables (uses : list (string * ty)) (variables : list (string * ty))
         (errors : list filter_type_error) : res (list (string * ty) * list filter_type_error) :=
  match uses with
  | [] => Ok (variables, errors)
  | (name, t) :: r =>
      let existing := match lookup_str name variables with Some e => e | None => t end in
      let variables := match lookup_str name variables with Some _ => variables | None => vmap_set name t variables end in
      do i <- ty_intersect existing t;
      match i with
      | Some intersection => use_variables r (vmap_set name intersection variables) errors
      | None => use_variables r variables
                  (errors ++ [FTIncompatibleVariable name (ty_display existing) (ty_display t)])
      end
  end.

Fixpoint fill_in_query_variables (variables : list (string * ty)) (c : raw_comp) {struct c}
  : res (list (string * ty) * list filter_type_error) :=
  match c with
  | RComp _ vertices _ folds _ =>
      let uses := flat_map (fun v => filter_vars (v_filters v)) vertices
                  ++ flat_map (fun f => match f with RFold h _ => pfilter_vars (fo_post h) end) folds in
      do x <- use_variables uses variables [];
      (fix go (l : list raw_fold) (variables : list (string * ty)) (errors : list filter_type_error)
         : res (list (string * ty) * list filter_type_error) :=
         match l with
         | [] => Ok (variables, errors)
         | RFold _ sub :: r =>
             do y <- fill_in_query_variables variables sub;
             go r (fst y) (errors ++ snd y)
         end) folds (fst x) (snd x)
  end.

(* collect_ir_vertices (BTreeMap<Vid, IRVertex>; only used for lookups) *)
Fixpoint collect_ir_vertices (c : raw_comp) : list ir_vertex :=
  match c with
  | RComp _ vertices _ folds _ =>
      vertices ++ (fix go (l : list raw_fold) : list ir_vertex :=
                     match l with
                     | [] => []
                     | RFold _ sub :: r => collect_ir_vertices sub ++ go r
                     end) folds
  end.

(* ================================================================== mod.rs: make_ir_for_query *)
Definition front (S : schema) (q : query) : fres raw_query :=
  do v <- validate_query_against_schema S q;
  match v with
  | inl e => Ok (inl [e])
  | inr _ =>
      do root_fields <-
        (match find_type (s_qname S) (s_vts S) with
         | Some t => Ok (t_fields t)
         | None => Panic site_vertex_types_index
         end);
      do nt <- get_field_name_and_type root_fields (q_field q);
      let '(root_field_name, root_pre, root_post, _) := nt in
      let starting_vid := 1 in
      do root_edge <- get_edge_definition S (s_qname S) root_field_name;
      do root_parameters <- make_edge_parameters root_edge (fc_args (q_conn q));
      let fs := mkFS 2 1 [starting_vid] (oh_new starting_vid None) th_empty in
      do rc <- make_query_component S
                 (fun cs fs => fill_in_vertex_data S cs fs starting_vid root_pre root_post (q_field q))
                 fs starting_vid;
      let fs := fst rc in
      let errors := match root_parameters with inl e => e | inr _ => [] end in
      match snd rc with
      | inl e =>
          match errors ++ e with
          | [] => Panic site_errors_empty
          | es => Ok (inl es)
          end
      | inr root_component =>
          do fv <- fill_in_query_variables [] root_component;
          let variables := fst fv in
          let errors := errors ++ map FEFilterType (snd fv) in
          let errors := match th_finish (fs_tags fs) with
                        | [] => errors
                        | unused => errors ++ [FEUnusedTags unused]
                        end in
          do all_outputs <- oh_finish (fs_out fs);
          do errors <-
            match check_for_duplicate_output_names all_outputs with
            | inl duplicates =>
                do e <- make_duplicated_output_names_error (collect_ir_vertices root_component) duplicates;
                Ok (errors ++ e)
            | inr _ => Ok errors
            end;
          match errors with
          | [] =>
              match root_parameters with
              | inr p => Ok (inr (mkRQ root_field_name p root_component variables))
              | inl _ => Panic site_root_params_unwrap
              end
          | es => Ok (inl es)
          end
      end
  end.

(* frontend::parse_doc: parse_document, then make_ir_for_query.
   Ok (inl (inl e)) = Err(ParseError), Ok (inl (inr errors)) = Err(other frontend errors) *)
Definition front_doc (S : schema) (d : document) : res ((parse_error + errs) + raw_query) :=
  match parse_doc d with
  | Panic s => Panic s
  | Ok (inl e) => Ok (inl (inl e))
  | Ok (inr q) =>
      match front S q with
      | Panic s => Panic s
      | Ok (inl es) => Ok (inl (inr es))
      | Ok (inr ir) => Ok (inr ir)
      end
  end.

(* ================================================================== frontend::parse *)
(* `parse`: parse_to_ir, then `IndexedQuery::try_from(ir_query).unwrap()` (Indexed.v) *)
Definition site_indexed_unwrap : string := "frontend/mod.rs:51 ir_query.try_into().unwrap()".
Definition front_parse (S : schema) (d : document) : res ((parse_error + errs) + (raw_query * indexed)) :=
  match front_doc S d with
  | Panic s => Panic s
  | Ok (inl e) => Ok (inl e)
  | Ok (inr ir) =>
      match index_query ir with
      | Panic s => Panic s
      | Ok (inl _) => Panic site_indexed_unwrap
      | Ok (inr ix) => Ok (inr (ir, ix))
      end
  end.

(* ================================================================== known-defect classes (stage 2) *)
(* the field sites the frontend visits, with the type context validation gives them:
   (parent type, connection, node, the field's schema definition, number of enclosing @fold) *)
Record site := mkSite { st_parent : string; st_conn : field_conn; st_node : field_node;
                        st_def : option fld; st_folds : nat }.

Fixpoint sites (S : schema) (parent : string) (folds : nat) (conn : field_conn) (node : field_node)
         {struct node} : list site :=
  match node with
  | mkFN name _ coerced _ _ _ conns _ =>
      let def := if String.eqb name TYPENAME then None else s_field S parent name in
      let here := mkSite parent conn node def folds in
      match def with
      | None => [here]
      | Some fd =>
          let ty := match coerced with Some c => c | None => gbase (f_ty fd) end in
          let folds' := match fc_fold conn with Some _ => Datatypes.S folds | None => folds end in
          here :: (fix go (l : list (field_conn * field_node)) : list site :=
                     match l with
                     | [] => []
                     | (c, n) :: r => sites S ty folds' c n ++ go r
                     end) conns
      end
  end.
Definition query_sites (S : schema) (q : query) : list site := sites S (s_qname S) O (q_conn q) (q_field q).

Definition is_ordering (b : binop) : bool :=
  match b with BLessThan | BLessThanOrEqual | BGreaterThan | BGreaterThanOrEqual => true | _ => false end.
Definition is_bulk (b : binop) : bool := match b with BOneOf | BNotOneOf => true | _ => false end.
Definition has_var_filter (p : binop -> bool) (fs : list filter_dir) : bool :=
  existsb (fun f => match f with FDBinary b (VarRef _) => p b | _ => false end) fs.
Definition orderable_base (s : string) : bool :=
  (String.eqb s "Int" || String.eqb s "Float" || String.eqb s "String")%bool.

(* K-root-typename: the root field is the meta field `__typename` (with no selections) *)
Definition k_root_typename (q : query) : bool :=
  (String.eqb (fn_name (q_field q)) TYPENAME
   && match fn_connections (q_field q) with [] => true | _ => false end)%bool.
(* K-fragment-under-property (F3): a type coercion under a field whose type is not a vertex type *)
Definition k_fragment_under_property (S : schema) (q : query) : bool :=
  existsb (fun st => match st_def st, fn_coerced_to (st_node st) with
                     | Some fd, Some _ => negb (has_type (gbase (f_ty fd)) (s_vts S))
                     | _, _ => false
                     end) (query_sites S q).
(* K-enum-argument: a field argument containing an enum value *)
Definition k_enum_argument (S : schema) (q : query) : bool :=
  existsb (fun st => existsb (fun a => negb (enum_free (snd a))) (fc_args (st_conn st))) (query_sites S q).
(* K-double-transform (F2): @fold @transform ... @transform *)
Definition k_double_transform (S : schema) (q : query) : bool :=
  existsb (fun st => match fc_fold (st_conn st) with
                     | Some (mkFG (Some g)) => match tg_retransform g with Some _ => true | None => false end
                     | _ => false
                     end) (query_sites S q).
(* K-nonorderable-variable: <, <=, >, >= against a variable on a property that is not Int/Float/String *)
Definition k_nonorderable_variable (S : schema) (q : query) : bool :=
  existsb (fun st => match st_def st with
                     | Some fd => (negb (orderable_base (gbase (f_ty fd)))
                                   && has_var_filter is_ordering (fn_filters (st_node st)))%bool
                     | None => false
                     end) (query_sites S q).
(* K-one-of-max-depth: one_of / not_one_of against a variable on a property with 30 list levels *)
Definition k_one_of_max_depth (S : schema) (q : query) : bool :=
  existsb (fun st => match st_def st with
                     | Some fd => (Nat.leb 30 (gdepth (f_ty fd))
                                   && has_var_filter is_bulk (fn_filters (st_node st)))%bool
                     | None => false
                     end) (query_sites S q).
(* K-fold-count-output-clash (over-approximation): some @fold @transform(count) has an @output, and
   the query has at least two outputs *)
Definition node_outputs (st : site) : nat :=
  (List.length (fn_outputs (st_node st))
   + match fn_transform (st_node st) with Some g => List.length (tg_outputs g) | None => O end)%nat.
Definition k_fold_count_output_clash (S : schema) (q : query) : bool :=
  (existsb (fun st => match fc_fold (st_conn st) with
                      | Some (mkFG (Some g)) => match tg_outputs g with [] => false | _ => true end
                      | _ => false
                      end) (query_sites S q)
   && Nat.leb 2 (List.fold_right (fun st n => (node_outputs st + n)%nat) O (query_sites S q)))%bool.
(* K-output-list-depth (over-approximation; reached in IndexedQuery::try_from): an output under
   enough @fold levels that its list type would exceed 30 levels *)
Definition k_output_list_depth (S : schema) (q : query) : bool :=
  existsb (fun st =>
             let d := match st_def st with Some fd => gdepth (f_ty fd) | None => O end in
             let folds := match fc_fold (st_conn st) with Some _ => Datatypes.S (st_folds st) | None => st_folds st end in
             (Nat.ltb O (node_outputs st) && Nat.ltb 30 (folds + d))%bool) (query_sites S q).
(* K-schema-duplicate-parameter: the query uses a field whose schema definition repeats a parameter
   name (Schema::new accepts such schemas) *)
Fixpoint has_dup (l : list string) : bool :=
  match l with [] => false | x :: r => (mem x r || has_dup r)%bool end.
Definition k_schema_duplicate_parameter (S : schema) (q : query) : bool :=
  existsb (fun st => match st_def st with
                     | Some fd => has_dup (map a_name (f_args fd))
                     | None => false
                     end) (query_sites S q).

Definition known2 (S : schema) (q : query) : bool :=
  (k_root_typename q || k_fragment_under_property S q || k_enum_argument S q || k_double_transform S q
   || k_nonorderable_variable S q || k_one_of_max_depth S q || k_fold_count_output_clash S q
   || k_schema_duplicate_parameter S q)%bool.

(* a document is in a known class of `front_doc` *)
Definition known (S : schema) (d : document) : bool :=
  (known1 d || match parse_doc d with Ok (inr q) => known2 S q | _ => false end)%bool.
Definition Known (S : schema) (d : document) : Prop := known S d = true.
(* ... of `front_parse` *)
Definition known_parse (S : schema) (d : document) : bool :=
  (known S d || match parse_doc d with Ok (inr q) => k_output_list_depth S q | _ => false end)%bool.

(* ================================================================== rendering (correspondence check) *)
Local Open Scope string_scope.
Definition shl {A} (f : A -> string) (l : list A) : string := "[" ++ String.concat "," (map f l) ++ "]".

Definition show_cf (c : ctxfield) : string := "cf(" ++ dn (cf_vid c) ++ "," ++ hex (cf_name c) ++ "," ++ show_ty (cf_ty c) ++ ")".
Definition show_fieldref (f : fieldref) : string :=
  match f with
  | FRContext c => show_cf c
  | FRFold ff => "ff(" ++ dn (ff_eid ff) ++ "," ++ dn (ff_root ff) ++ ")"
  end.
Definition show_argument (a : argument) : string :=
  match a with
  | ATag r => "tag:" ++ show_fieldref r
  | AVar n t => "var:" ++ hex n ++ ":" ++ show_ty t
  end.
Definition show_vfilter (f : vfilter) : string :=
  "vf(" ++ opk_name (vf_op f) ++ "," ++ hex (vf_field f) ++ "," ++ show_ty (vf_fty f) ++ ","
  ++ show_opt show_argument (vf_arg f) ++ ")".
Definition show_pfilter (f : pfilter) : string :=
  "pf(" ++ opk_name (pf_op f) ++ "," ++ show_opt show_argument (pf_arg f) ++ ")".
Definition show_vertex (v : ir_vertex) : string :=
  "v(" ++ dn (v_vid v) ++ "," ++ hex (v_type v) ++ "," ++ show_opt hex (v_from v) ++ ","
  ++ shl show_vfilter (v_filters v) ++ ")".
Definition show_param (p : string * fv) : string := hex (fst p) ++ "=" ++ show_fv (snd p).
Definition show_edge (e : ir_edge) : string :=
  "e(" ++ dn (e_eid e) ++ "," ++ dn (e_from e) ++ "," ++ dn (e_to e) ++ "," ++ hex (e_name e) ++ ","
  ++ shl show_param (e_params e) ++ "," ++ show_bool (e_optional e) ++ ","
  ++ show_opt (fun r => "r(" ++ dn (r_depth r) ++ "," ++ show_opt hex (r_coerce r) ++ ")") (e_rec e) ++ ")".
Fixpoint show_comp (c : raw_comp) : string :=
  match c with
  | RComp root vs es fs outs =>
      "c(" ++ dn root ++ "," ++ shl show_vertex vs ++ shl show_edge es
      ++ "[" ++ String.concat "," (map show_fold fs) ++ "]"
      ++ shl (fun o => hex (fst o) ++ "=" ++ show_cf (snd o)) outs ++ ")"
  end
with show_fold (f : raw_fold) : string :=
  match f with
  | RFold h c =>
      "f(" ++ dn (fo_eid h) ++ "," ++ dn (fo_from h) ++ "," ++ dn (fo_to h) ++ "," ++ hex (fo_name h) ++ ","
      ++ shl show_param (fo_params h) ++ shl show_fieldref (fo_imported h) ++ shl hex (fo_fsout h)
      ++ shl show_pfilter (fo_post h) ++ show_comp c ++ ")"
  end.
Definition show_raw_query (q : raw_query) : string :=
  "q(" ++ hex (rq_root_name q) ++ "," ++ shl show_param (rq_root_params q) ++ "," ++ show_comp (rq_comp q)
  ++ "," ++ shl (fun v => hex (fst v) ++ ":" ++ show_ty (snd v)) (rq_vars q) ++ ")".

Definition show_ft_error (e : filter_type_error) : string :=
  match e with
  | FTIncompatibleVariable v a b => "IncompatibleVariableTypeRequirements " ++ hex v ++ " " ++ hex a ++ " " ++ hex b
  | FTNonNullableNullability o s b => "NonNullableTypeFilteredForNullability " ++ hex o ++ " " ++ hex s ++ " " ++ show_bool b
  | FTTypeMismatch o s a => "TypeMismatchBetweenFilterSubjectAndArgument " ++ hex o ++ " " ++ hex s ++ " " ++ hex a
  | FTOrderingNonOrderableSubject o s => "OrderingFilterOperationOnNonOrderableSubject " ++ hex o ++ " " ++ hex s
  | FTOrderingNonOrderableArgument o a => "OrderingFilterOperationWithNonOrderableArgument " ++ hex o ++ " " ++ hex a
  | FTStringNonStringSubject o s => "StringFilterOperationOnNonStringSubject " ++ hex o ++ " " ++ hex s
  | FTStringNonStringArgument o a => "StringFilterOperationOnNonStringArgument " ++ hex o ++ " " ++ hex a
  | FTListNonListSubject o s => "ListFilterOperationOnNonListSubject " ++ hex o ++ " " ++ hex s
  | FTListNonListArgument o a => "ListFilterOperationOnNonListArgument " ++ hex o ++ " " ++ hex a
  end.
Definition show_validation_error (e : validation_error) : string :=
  match e with
  | VNonExistentPath p => "NonExistentPath " ++ shl hex p
  | VNonExistentType t => "NonExistentType " ++ hex t
  | VCannotCoerceNonInterfaceType a b => "CannotCoerceNonInterfaceType " ++ hex a ++ " " ++ hex b
  | VCannotCoerceToUnrelatedType a b => "CannotCoerceToUnrelatedType " ++ hex a ++ " " ++ hex b
  end.
Definition show_front_error (e : front_error) : string :=
  match e with
  | FEUndefinedTagInFilter p t => "UndefinedTagInFilter " ++ hex p ++ " " ++ hex t
  | FETagUsedBeforeDefinition p t => "TagUsedBeforeDefinition " ++ hex p ++ " " ++ hex t
  | FETagUsedOutsideItsFoldedSubquery p t => "TagUsedOutsideItsFoldedSubquery " ++ hex p ++ " " ++ hex t
  | FEUnusedTags l => "UnusedTags " ++ shl hex l
  | FEMultipleOutputsWithSameName d =>
      "MultipleOutputsWithSameName "
      ++ shl (fun kv => hex (fst kv) ++ "=" ++ shl (fun p => hex (fst p) ++ "/" ++ hex (snd p)) (snd kv)) d
  | FEMultipleTagsWithSameName t => "MultipleTagsWithSameName " ++ hex t
  | FEExplicitTagNameRequired f => "ExplicitTagNameRequired " ++ hex f
  | FEFilterType f => "FilterTypeError " ++ show_ft_error f
  | FEUnsupportedDirectiveOnProperty d p => "UnsupportedDirectiveOnProperty " ++ hex d ++ " " ++ hex p
  | FEUnsupportedEdgeOutput x => "UnsupportedEdgeOutput " ++ hex x
  | FEUnsupportedEdgeFilter x => "UnsupportedEdgeFilter " ++ hex x
  | FEUnsupportedEdgeTag x => "UnsupportedEdgeTag " ++ hex x
  | FEUnsupportedDirectiveOnFoldedEdge x d => "UnsupportedDirectiveOnFoldedEdge " ++ hex x ++ " " ++ hex d
  | FEMissingRequiredEdgeParam p x => "MissingRequiredEdgeParam " ++ hex p ++ " " ++ hex x
  | FEUnexpectedEdgeParam p x => "UnexpectedEdgeParam " ++ hex p ++ " " ++ hex x
  | FEInvalidEdgeParamType p x t v => "InvalidEdgeParamType " ++ hex p ++ " " ++ hex x ++ " " ++ hex t ++ " " ++ show_fv v
  | FERecursingNonRecursableEdge x s d => "RecursingNonRecursableEdge " ++ hex x ++ " " ++ hex s ++ " " ++ hex d
  | FERecursionToSubtype x s d => "RecursionToSubtype " ++ hex x ++ " " ++ hex s ++ " " ++ hex d
  | FEAmbiguousOriginEdgeRecursion x => "AmbiguousOriginEdgeRecursion " ++ hex x
  | FEEdgeRecursionNeedingMultipleCoercions x => "EdgeRecursionNeedingMultipleCoercions " ++ hex x
  | FEPropertyMetaFieldUsedAsEdge x => "PropertyMetaFieldUsedAsEdge " ++ hex x
  | FEValidation v => "ValidationError " ++ show_validation_error v
  end.

Definition show_front_result (r : res ((parse_error + errs) + raw_query)) : string :=
  match r with
  | Panic _ => "PANIC"
  | Ok (inl (inl e)) => "PARSE-ERR " ++ show_parse_error e
  | Ok (inl (inr es)) => "ERR " ++ String.concat "; " (map show_front_error es)
  | Ok (inr q) => "OK " ++ show_raw_query q
  end.
Definition show_front_doc (os : option schema) (d : document) : string :=
  match os with
  | Some sc => show_front_result (front_doc sc d)
  | None => "NO-SCHEMA"
  end.
(* the IndexedQuery conversion of frontend::parse, when make_ir_for_query succeeded *)
Definition show_index_doc (os : option schema) (d : document) : string :=
  match os with
  | Some sc =>
      match front_doc sc d with
      | Ok (inr ir) =>
          match index_query ir with
          | Ok (inr _) => "IX-OK"
          | Ok (inl _) => "IX-ERR"
          | Panic _ => "IX-PANIC"
          end
      | _ => "-"
      end
  | None => "NO-SCHEMA"
  end.
(* the class prediction: PANIC exactly on... (only an implication is claimed: panic => known) *)
Definition show_known (os : option schema) (d : document) : string :=
  match os with Some sc => show_bool (known_parse sc d) | None => "NO-SCHEMA" end.
