(* FrontProofs.v — stage 2 of C10: the frontend proper (Front.v).
   Part 1: concrete witnesses (a schema accepted by the transcribed Schema::new, queries that compile,
           one refutation witness per known class).
   Part 2: totality of the transcribed sub-functions outside the known classes. *)
From Coq Require Import Lia.
From TF Require Import Values Ty TyProofs QueryAst QueryParse QueryParseProofs SchemaAst SchemaNew IR Front.
Local Open Scope string_scope.
Local Open Scope list_scope.

(* ================================================================== Part 1: witnesses *)
Fixpoint gnest (n : nat) (g : gty) : gty := match n with O => g | S k => GList (gnest k g) true end.

Definition number_fields : list fld :=
  [ mkFld "value" [] (GNamed "Int" true);
    mkFld "name" [] (GNamed "String" true);
    mkFld "flag" [] (GNamed "Boolean" true);
    mkFld "deep" [] (gnest 30 (GNamed "Int" true));
    mkFld "successor" [] (GNamed "Number" true);
    mkFld "primeFactor" [] (GList (GNamed "Prime" true) true);
    mkFld "twice" [mkArg "a" (GNamed "Int" true) NoDefault; mkArg "a" (GNamed "Int" true) NoDefault]
          (GList (GNamed "Number" true) true) ].

(* schema { query: RootSchemaQuery }
   type RootSchemaQuery { Number(max: Int!): [Number]  Four: Number }
   interface Number { value: Int name: String flag: Boolean deep: [..30..Int..] successor: Number
                      primeFactor: [Prime] twice(a: Int, a: Int): [Number] }
   type Prime implements Number { the same fields } *)
Definition mini_doc : doc :=
  [ DSchema (Some "RootSchemaQuery");
    DDirective "filter"; DDirective "tag"; DDirective "output"; DDirective "optional";
    DDirective "recurse"; DDirective "fold"; DDirective "transform";
    DType (mkT "RootSchemaQuery" VObject []
             [ mkFld "Number" [mkArg "max" (GNamed "Int" false) NoDefault] (GList (GNamed "Number" true) true);
               mkFld "Four" [] (GNamed "Number" true) ]);
    DType (mkT "Number" VInterface [] number_fields);
    DType (mkT "Prime" VObject ["Number"] number_fields) ].

(* the transcribed Schema::new accepts it (although `twice` repeats a parameter name) *)
Lemma mini_doc_accepted : schema_new mini_doc = Ok [].
Proof. vm_compute. reflexivity. Qed.

Definition mini_schema : schema :=
  match schema_of_doc mini_doc with Some s => s | None => mkSchema "" [] [] [] end.
Lemma mini_schema_built : schema_of_doc mini_doc = Some mini_schema.
Proof. vm_compute. reflexivity. Qed.

(* query text helpers *)
Definition fld_ (name : string) (dirs : list directive) (sels : list selection) : selection :=
  SField None name [] dirs sels.
Definition doc1 (root : selection) : document := mkDoc (OpsSingle (mkOp OpQuery [] [] [root])) [].
Definition out_ : directive := mkDir "output" [].
Definition outn (n : string) : directive := mkDir "output" [("name", QStr n)].
Definition tagn (n : string) : directive := mkDir "tag" [("name", QStr n)].
Definition fold_ : directive := mkDir "fold" [].
Definition optional_ : directive := mkDir "optional" [].
Definition count_ : directive := mkDir "transform" [("op", QStr "count")].
Definition filt (op v : string) : directive := mkDir "filter" [("op", QStr op); ("value", QList [QStr v])].

(* { Four { value @output } } *)
Definition q_simple : document := doc1 (fld_ "Four" [] [fld_ "value" [out_] []]).

(* { Number(max: 5) { value @filter(op: ">", value: ["$lo"]) @tag(name: "v")
                      successor @optional { ... on Prime { value @output @filter(op: "=", value: ["%v"]) } }
                      primeFactor @fold @transform(op: "count") @filter(op: ">=", value: ["$n"]) { name @output } } } *)
Definition q_rich : document :=
  doc1 (SField None "Number" [("max", QNum (NPos 5))] []
          [ fld_ "value" [filt ">" "$lo"; tagn "v"] [];
            fld_ "successor" [optional_] [SInline (Some "Prime") [] [fld_ "value" [out_; filt "=" "%v"] []]];
            fld_ "primeFactor" [fold_; count_; filt ">=" "$n"] [fld_ "name" [out_] []] ]).

Lemma q_simple_compiles : exists ir, front_doc mini_schema q_simple = Ok (inr ir).
Proof. eexists. vm_compute. reflexivity. Qed.
Lemma q_rich_compiles : exists ir ix, front_parse mini_schema q_rich = Ok (inr (ir, ix)).
Proof. eexists. eexists. vm_compute. reflexivity. Qed.
Lemma q_simple_not_known : known_parse mini_schema q_simple = false.
Proof. vm_compute. reflexivity. Qed.
Lemma q_rich_not_known : known mini_schema q_rich = false.
Proof. vm_compute. reflexivity. Qed.

(* --- one witness per class: the model panics at the class's site --- *)
(* F2: { Four { primeFactor @fold @transform(op:"count") @transform(op:"count") @output } } *)
Definition w_double_transform : document :=
  doc1 (fld_ "Four" [] [fld_ "primeFactor" [fold_; count_; count_; out_] []]).
Lemma w_double_transform_panics : front_doc mini_schema w_double_transform = Panic site_retransform.
Proof. vm_compute. reflexivity. Qed.

(* F3: { Four { name { ... on Prime { value @output } } } } *)
Definition w_fragment_under_property : document :=
  doc1 (fld_ "Four" [] [fld_ "name" [] [SInline (Some "Prime") [] [fld_ "value" [out_] []]]]).
Lemma w_fragment_under_property_panics : front_doc mini_schema w_fragment_under_property = Panic site_val_index.
Proof. vm_compute. reflexivity. Qed.

(* { __typename } *)
Definition w_root_typename : document := doc1 (fld_ "__typename" [] []).
Lemma w_root_typename_panics : front_doc mini_schema w_root_typename = Panic site_edge_unreachable.
Proof. vm_compute. reflexivity. Qed.

(* { Number(max: FOO) { value @output } } *)
Definition w_enum_argument : document :=
  doc1 (SField None "Number" [("max", QEnum "FOO")] [] [fld_ "value" [out_] []]).
Lemma w_enum_argument_panics : front_doc mini_schema w_enum_argument = Panic site_enum.
Proof. vm_compute. reflexivity. Qed.

(* { Four { flag @filter(op: "<", value: ["$x"]) @output } } *)
Definition w_nonorderable_variable : document :=
  doc1 (fld_ "Four" [] [fld_ "flag" [filt "<" "$x"; out_] []]).
Lemma w_nonorderable_variable_panics : front_doc mini_schema w_nonorderable_variable = Panic site_as_tag.
Proof. vm_compute. reflexivity. Qed.

(* { Four { value @output(name: "x") primeFactor @fold @transform(op: "count") @output(name: "x") } } *)
Definition w_fold_count_output_clash : document :=
  doc1 (fld_ "Four" [] [fld_ "value" [outn "x"] []; fld_ "primeFactor" [fold_; count_; outn "x"] []]).
Lemma w_fold_count_output_clash_panics : front_doc mini_schema w_fold_count_output_clash = Panic site_dup_index.
Proof. vm_compute. reflexivity. Qed.

(* { Four { deep @filter(op: "one_of", value: ["$x"]) @output } } *)
Definition w_one_of_max_depth : document :=
  doc1 (fld_ "Four" [] [fld_ "deep" [filt "one_of" "$x"; out_] []]).
Lemma w_one_of_max_depth_panics : front_doc mini_schema w_one_of_max_depth = Panic site_new_list.
Proof. vm_compute. reflexivity. Qed.

(* { Four { twice { value @output } } }: the schema, accepted by Schema::new, repeats a parameter name *)
Definition w_schema_duplicate_parameter : document :=
  doc1 (fld_ "Four" [] [fld_ "twice" [] [fld_ "value" [out_] []]]).
Lemma w_schema_duplicate_parameter_panics :
  front_doc mini_schema w_schema_duplicate_parameter = Panic site_param_insert.
Proof. vm_compute. reflexivity. Qed.

(* 31 nested @fold around an @output: make_ir_for_query succeeds, IndexedQuery::try_from panics *)
Fixpoint nest_folds (n : nat) (inner : selection) : selection :=
  match n with O => inner | S k => fld_ "primeFactor" [fold_] [nest_folds k inner] end.
Definition w_output_list_depth : document := doc1 (fld_ "Four" [] [nest_folds 31 (fld_ "value" [out_] [])]).
Lemma w_output_list_depth_front_ok : exists ir, front_doc mini_schema w_output_list_depth = Ok (inr ir).
Proof. eexists. vm_compute. reflexivity. Qed.
Lemma w_output_list_depth_panics : front_parse mini_schema w_output_list_depth = Panic site_new_list.
Proof. vm_compute. reflexivity. Qed.

(* every witness lies in its class *)
Lemma witnesses_known :
  k_double_transform mini_schema
    (match parse_doc w_double_transform with Ok (inr q) => q | _ => mkQuery (mkFC "" None [] false None None) (mkFN "" None None [] [] [] [] None) end) = true
  /\ known mini_schema w_double_transform = true
  /\ known mini_schema w_fragment_under_property = true
  /\ known mini_schema w_root_typename = true
  /\ known mini_schema w_enum_argument = true
  /\ known mini_schema w_nonorderable_variable = true
  /\ known mini_schema w_fold_count_output_clash = true
  /\ known mini_schema w_one_of_max_depth = true
  /\ known mini_schema w_schema_duplicate_parameter = true
  /\ known mini_schema w_output_list_depth = false
  /\ known_parse mini_schema w_output_list_depth = true.
Proof. vm_compute. repeat split; reflexivity. Qed.

(* the full-strength statement is false: a schema accepted by Schema::new and a document on which the
   frontend panics *)
Theorem front_total_refuted :
  exists (d : doc) (S : schema) (q : document),
    schema_new d = Ok [] /\ schema_of_doc d = Some S /\ forall r, front_doc S q <> Ok r.
Proof.
  exists mini_doc, mini_schema, w_double_transform. split; [exact mini_doc_accepted |].
  split; [exact mini_schema_built |].
  intros r. rewrite w_double_transform_panics. discriminate.
Qed.

(* ================================================================== Part 2: sub-function totality *)
(* induction principle for the nested field_node *)
Section FieldNodeInd.
  Variable P : field_node -> Prop.
  Hypothesis Hstep : forall name alias co f o t conns tg,
      Forall (fun cn : field_conn * field_node => P (snd cn)) conns -> P (mkFN name alias co f o t conns tg).
  Fixpoint field_node_ind' (n : field_node) : P n :=
    match n with
    | mkFN name alias co f o t conns tg =>
        Hstep name alias co f o t conns tg
          ((fix go (l : list (field_conn * field_node)) : Forall (fun cn => P (snd cn)) l :=
              match l with
              | [] => Forall_nil _
              | cn :: r => Forall_cons cn (field_node_ind' (snd cn)) (go r)
              end) conns)
    end.
End FieldNodeInd.

(* a connection and a node describe the same field (what parse_document produces) *)
Fixpoint wf_node (c : field_conn) (n : field_node) {struct n} : bool :=
  match n with
  | mkFN name alias _ _ _ _ conns _ =>
      (String.eqb (fc_name c) name && ostr_eqb (fc_alias c) alias
       && (fix go (l : list (field_conn * field_node)) : bool :=
             match l with [] => true | (c', n') :: r => (wf_node c' n' && go r)%bool end) conns)%bool
  end.
Definition wf_query (q : query) : bool := wf_node (q_conn q) (q_field q).

Definition wf_children (l : list (field_conn * field_node)) : bool :=
  forallb (fun cn => wf_node (fst cn) (snd cn)) l.
Lemma wf_node_unfold : forall c name alias co f o t conns tg,
  wf_node c (mkFN name alias co f o t conns tg)
  = (String.eqb (fc_name c) name && ostr_eqb (fc_alias c) alias && wf_children conns)%bool.
Proof.
  intros. cbn [wf_node]. f_equal. unfold wf_children.
  induction conns as [| [c' n'] r IH]; [reflexivity |]. cbn [forallb fst snd]. rewrite IH. reflexivity.
Qed.

(* ---------------------------------------------------------------- validation.rs *)
(* the F3 condition at one site *)
Definition f3_site (S : schema) (st : site) : bool :=
  match st_def st, fn_coerced_to (st_node st) with
  | Some fd, Some _ => negb (has_type (gbase (f_ty fd)) (s_vts S))
  | _, _ => false
  end.

Definition child_sites (S : schema) (ty : string) (folds : nat) (l : list (field_conn * field_node)) : list site :=
  flat_map (fun cn => sites S ty folds (fst cn) (snd cn)) l.
Lemma sites_unfold : forall S parent folds conn name alias co f o t conns tg,
  sites S parent folds conn (mkFN name alias co f o t conns tg) =
  let node := mkFN name alias co f o t conns tg in
  let def := if String.eqb name TYPENAME then None else s_field S parent name in
  match def with
  | None => [mkSite parent conn node def folds]
  | Some fd =>
      mkSite parent conn node def folds
      :: child_sites S (match co with Some c => c | None => gbase (f_ty fd) end)
           (match fc_fold conn with Some _ => Datatypes.S folds | None => folds end) conns
  end.
Proof.
  intros. cbn [sites]. cbv zeta.
  destruct (if String.eqb name TYPENAME then None else s_field S parent name) as [fd |]; [| reflexivity].
  f_equal. unfold child_sites.
  induction conns as [| [c n] r IH]; [reflexivity |]. cbn [flat_map fst snd]. rewrite IH. reflexivity.
Qed.

Lemma pop_path_snoc : forall p x, pop_path (p ++ [x]) = Ok p.
Proof. intros. unfold pop_path. rewrite rev_unit. rewrite rev_involutive. reflexivity. Qed.

Lemma f3_sites_folds : forall S node parent conn f1 f2,
  existsb (f3_site S) (sites S parent f1 conn node) = existsb (f3_site S) (sites S parent f2 conn node).
Proof.
  intros S node. induction node as [name alias co f o t conns tg IH] using field_node_ind'.
  intros parent conn f1 f2. rewrite !sites_unfold. cbv zeta.
  destruct (if String.eqb name TYPENAME then None else s_field S parent name) as [fd |]; [| reflexivity].
  cbn [existsb]. f_equal.
  generalize (match fc_fold conn with Some _ => Datatypes.S f1 | None => f1 end).
  generalize (match fc_fold conn with Some _ => Datatypes.S f2 | None => f2 end).
  intros g2 g1. unfold child_sites.
  induction IH as [| [c n] r Hx Hr IHr]; [reflexivity |].
  cbn [flat_map fst snd]. rewrite !existsb_app. rewrite IHr. f_equal. apply Hx.
Qed.

(* the loop over the children of validate_field *)
Definition validate_children (S : schema) (ty : string) :=
  fix children (l : list (field_conn * field_node)) (path : list string)
    : res (front_error + list string) :=
    match l with
    | [] => Ok (inr path)
    | (child_connection, child_node) :: rest =>
        do c <- validate_field S ty path child_connection child_node;
        match c with
        | inl e => Ok (inl e)
        | inr path' => children rest path'
        end
    end.

Definition validate_ok (S : schema) (n : field_node) : Prop :=
  forall parent path conn, wf_node conn n = true ->
    existsb (f3_site S) (sites S parent O conn n) = false ->
    exists r, validate_field S parent path conn n = Ok r /\ (forall p', r = inr p' -> p' = path).

Lemma validate_children_spec : forall S ty l path,
  Forall (fun cn : field_conn * field_node => validate_ok S (snd cn)) l ->
  wf_children l = true ->
  existsb (f3_site S) (child_sites S ty O l) = false ->
  exists r, validate_children S ty l path = Ok r /\ (forall p', r = inr p' -> p' = path).
Proof.
  intros S ty l. induction l as [| [c n] rest IHl]; intros path Hall Hwfl Hkl.
  - eexists; split; [reflexivity |]. intros p' H; inversion H; reflexivity.
  - inversion Hall as [| x xs Hx Hxs]; subst.
    cbn [wf_children forallb fst snd] in Hwfl. apply Bool.andb_true_iff in Hwfl. destruct Hwfl as [Hwc Hwr].
    unfold child_sites in Hkl. cbn [flat_map fst snd] in Hkl. rewrite existsb_app in Hkl.
    apply Bool.orb_false_iff in Hkl. destruct Hkl as [Hk1 Hk2].
    cbn [validate_children].
    destruct (Hx ty path c Hwc Hk1) as [r1 [Hr1 Hp1]]. cbn [snd] in Hr1. rewrite Hr1. cbn [bind].
    destruct r1 as [e | path'].
    + eexists; split; [reflexivity |]. intros p' H; discriminate H.
    + rewrite (Hp1 path' eq_refl). apply IHl; assumption.
Qed.

Lemma validate_field_spec : forall S node, validate_ok S node.
Proof.
  intros S node. induction node as [name alias co f o t conns tg IH] using field_node_ind'.
  intros parent path conn Hwf Hk.
  rewrite wf_node_unfold in Hwf.
  apply Bool.andb_true_iff in Hwf. destruct Hwf as [Hwf Hch].
  apply Bool.andb_true_iff in Hwf. destruct Hwf as [Hname Halias].
  rewrite sites_unfold in Hk. cbv zeta in Hk.
  cbn [validate_field]. rewrite Hname, Halias. cbn [negb].
  destruct (String.eqb name TYPENAME) eqn:Htn.
  { destruct conns; eexists; (split; [reflexivity |]); intros p' H; [inversion H; reflexivity | discriminate H]. }
  destruct (s_field S parent name) as [fd |] eqn:Hfd.
  2:{ eexists; split; [reflexivity |]. intros p' H; discriminate H. }
  cbn [existsb] in Hk. apply Bool.orb_false_iff in Hk. destruct Hk as [Hhere Hkids].
  unfold f3_site in Hhere. cbn [st_def st_node fn_coerced_to] in Hhere.
  destruct co as [coerced |].
  - unfold has_type in Hhere.
    destruct (find_type (gbase (f_ty fd)) (s_vts S)) as [pre_def |]; [| discriminate Hhere].
    destruct (t_kind pre_def).
    { eexists; split; [reflexivity |]. intros p' H; discriminate H. }
    destruct (find_type coerced (s_vts S)) as [post_def |].
    2:{ eexists; split; [reflexivity |]. intros p' H; discriminate H. }
    destruct (negb (mem (gbase (f_ty fd)) (t_impl post_def))).
    { eexists; split; [reflexivity |]. intros p' H; discriminate H. }
    cbn [bind].
    assert (Hkids' : existsb (f3_site S) (child_sites S coerced O conns) = false).
    { rewrite <- Hkids. unfold child_sites. clear. induction conns as [| [c n] r IHr]; [reflexivity |].
      cbn [flat_map fst snd]. rewrite !existsb_app. rewrite IHr. f_equal. apply f3_sites_folds. }
    destruct (validate_children_spec S coerced conns ((path ++ [name]) ++ [coerced]) IH Hch Hkids')
      as [r [Hr Hp]].
    unfold validate_children in Hr. rewrite Hr. cbn [bind]. destruct r as [e | p'].
    { eexists; split; [reflexivity |]. intros p'' H; discriminate H. }
    rewrite (Hp p' eq_refl). rewrite pop_path_snoc. cbn [bind]. rewrite pop_path_snoc. cbn [bind].
    rewrite Nat.eqb_refl. eexists; split; [reflexivity |]. intros p'' H; inversion H; reflexivity.
  - cbn [bind].
    assert (Hkids' : existsb (f3_site S) (child_sites S (gbase (f_ty fd)) O conns) = false).
    { rewrite <- Hkids. unfold child_sites. clear. induction conns as [| [c n] r IHr]; [reflexivity |].
      cbn [flat_map fst snd]. rewrite !existsb_app. rewrite IHr. f_equal. apply f3_sites_folds. }
    destruct (validate_children_spec S (gbase (f_ty fd)) conns (path ++ [name]) IH Hch Hkids')
      as [r [Hr Hp]].
    unfold validate_children in Hr. rewrite Hr. cbn [bind]. destruct r as [e | p'].
    { eexists; split; [reflexivity |]. intros p'' H; discriminate H. }
    rewrite (Hp p' eq_refl). rewrite pop_path_snoc. cbn [bind].
    rewrite Nat.eqb_refl. eexists; split; [reflexivity |]. intros p'' H; inversion H; reflexivity.
Qed.

(* validation.rs never panics outside K-fragment-under-property *)
Theorem validate_query_total : forall S q,
  wf_query q = true -> k_fragment_under_property S q = false ->
  exists r, validate_query_against_schema S q = Ok r.
Proof.
  intros S q Hwf Hk. unfold validate_query_against_schema.
  destruct (validate_field_spec S (q_field q) (s_qname S) [] (q_conn q) Hwf Hk) as [r [Hr _]].
  rewrite Hr. cbn [bind]. destruct r; eexists; reflexivity.
Qed.

(* ---------------------------------------------------------------- parse_document produces wf queries *)
Lemma pbind_inr : forall A B (r : pres A) (f : A -> pres B) b,
  pbind r f = Ok (inr b) -> exists a, r = Ok (inr a) /\ f a = Ok (inr b).
Proof.
  intros A B r f b H. destruct r as [[e | a] | s]; cbn in H; try discriminate.
  exists a; split; [reflexivity | exact H].
Qed.

Lemma make_field_connection_names : forall f c,
  make_field_connection f = Ok (inr c) -> fc_name c = QueryAst.f_name f /\ fc_alias c = f_alias f.
Proof.
  intros f c H. unfold make_field_connection in H.
  apply pbind_inr in H. destruct H as [args [_ H]].
  apply pbind_inr in H. destruct H as [dirs [_ H]].
  apply pbind_inr in H. destruct H as [[[opt rec] mf] [_ H]].
  apply pbind_inr in H. destruct H as [fg [_ H]].
  inversion H; subst c. cbn. auto.
Qed.

Lemma ostr_eqb_refl : forall o, ostr_eqb o o = true.
Proof. destruct o; cbn; [apply String.eqb_refl | reflexivity]. Qed.

Lemma make_field_node_wf : forall fuel f n c,
  make_field_node fuel f = Ok (inr n) -> make_field_connection f = Ok (inr c) -> wf_node c n = true.
Proof.
  induction fuel as [| fuel IH]; intros f n c Hn Hc; [discriminate Hn |].
  cbn [make_field_node] in Hn.
  destruct (List.find is_spread (f_sels f)); [discriminate Hn |].
  apply pbind_inr in Hn. destruct Hn as [[co fsels] [_ Hn]].
  apply pbind_inr in Hn. destruct Hn as [dirs [_ Hn]].
  destruct (node_loop dirs [] [] []) as [[[filter output] tag] mt].
  apply pbind_inr in Hn. destruct Hn as [tg [_ Hn]].
  apply pbind_inr in Hn. destruct Hn as [conns [Hconns Hn]].
  inversion Hn; subst n. rewrite wf_node_unfold.
  destruct (make_field_connection_names _ _ Hc) as [H1 H2]. rewrite H1, H2.
  rewrite String.eqb_refl, ostr_eqb_refl. cbn [andb].
  clear Hn H1 H2 Hc. revert conns Hconns.
  induction fsels as [| x rest IHl]; intros conns Hconns.
  - inversion Hconns; reflexivity.
  - destruct x as [al nm args ds sels | |]; try discriminate Hconns.
    apply pbind_inr in Hconns. destruct Hconns as [edge [Hedge Hconns]].
    apply pbind_inr in Hconns. destruct Hconns as [vertex [Hvertex Hconns]].
    apply pbind_inr in Hconns. destruct Hconns as [r' [Hr' Hconns]].
    inversion Hconns; subst conns. cbn [wf_children forallb fst snd].
    rewrite (IH _ _ _ Hvertex Hedge). cbn [andb]. apply IHl. exact Hr'.
Qed.

Theorem parse_doc_wf : forall d q, parse_doc d = Ok (inr q) -> wf_query q = true.
Proof.
  intros d q H. unfold parse_doc in H.
  apply pbind_inr in H. destruct H as [root [_ H]].
  destruct (f_dirs root); [| discriminate H].
  apply pbind_inr in H. destruct H as [rc [Hrc H]].
  destruct (fc_optional rc); [discriminate H |].
  destruct (fc_recurse rc); [discriminate H |].
  destruct (fc_fold rc); [discriminate H |].
  apply pbind_inr in H. destruct H as [rf [Hrf H]].
  inversion H; subst q. unfold wf_query. cbn [q_conn q_field].
  eapply make_field_node_wf; eassumption.
Qed.

(* ---------------------------------------------------------------- make_edge_parameters *)
Definition rnp {A} (r : res A) : Prop := exists a, r = Ok a.

(* what Schema::new's default-value check guarantees for an edge parameter *)
Definition arg_ok (a : arg) : Prop :=
  exists t, from_type (a_ty a) = Ok t /\
            match a_default a with
            | Default v => ty_valid t v = Ok true
            | BadDefault => False
            | NoDefault => True
            end.

Lemma amap_insert_new_absent : forall V k (v : V) m,
  ~ In k (map fst m) -> exists m', amap_insert_new k v m = Some m' /\
                                   forall x, In x (map fst m') <-> k = x \/ In x (map fst m).
Proof.
  intros V k v m. induction m as [| [k' v'] r IH]; intros Hn.
  - eexists; split; [reflexivity |]. intros x; cbn. tauto.
  - cbn [amap_insert_new]. destruct (String.compare k k') eqn:Hc.
    + apply String.compare_eq_iff in Hc. subst k'. exfalso. apply Hn. left; reflexivity.
    + eexists; split; [reflexivity |]. intros x; cbn. tauto.
    + destruct IH as [m' [Hm' Hkeys]]; [intros Hin; apply Hn; right; exact Hin |].
      rewrite Hm'. eexists; split; [reflexivity |]. intros x. cbn [map fst In]. rewrite Hkeys. tauto.
Qed.

Lemma edge_params_loop_np : forall edge_name args specified errors edge_arguments,
  Forall arg_ok args ->
  NoDup (map a_name args) ->
  (forall a, In a args -> ~ In (a_name a) (map fst edge_arguments)) ->
  (forall kv, In kv specified -> enum_free (snd kv) = true) ->
  rnp (edge_params_loop edge_name args specified errors edge_arguments).
Proof.
  intros edge_name args specified. induction args as [| a rest IH]; intros errors ea Hok Hnd Hfresh Henum.
  - eexists; reflexivity.
  - inversion Hok as [| x xs [t [Ht Hdef]] Hrest]; subst.
    inversion Hnd as [| x xs Hnotin Hnd']; subst.
    cbn [edge_params_loop]. rewrite Ht. cbn [bind].
    assert (Hnext : forall errs v,
               rnp (match amap_insert_new (a_name a) v ea with
                    | Some m => edge_params_loop edge_name rest specified errs m
                    | None => Panic site_param_insert
                    end)).
    { intros errs v.
      destruct (amap_insert_new_absent _ (a_name a) v ea (Hfresh a (or_introl eq_refl))) as [m [Hm Hkeys]].
      rewrite Hm. apply IH; try assumption.
      intros b Hb Hin. apply Hkeys in Hin. destruct Hin as [Heq | Hin].
      - apply Hnotin. rewrite Heq. apply in_map. exact Hb.
      - exact (Hfresh b (or_intror Hb) Hin). }
    destruct (lookup_str (a_name a) specified) as [value |] eqn:Hl.
    + assert (Hv : enum_free value = true).
      { clear - Hl Henum. induction specified as [| [k v] r IHs]; [discriminate Hl |].
        cbn [lookup_str] in Hl. destruct (String.eqb (a_name a) k).
        - inversion Hl; subst. apply (Henum (k, value)). left; reflexivity.
        - apply IHs; [| exact Hl]. intros kv Hkv. apply Henum. right; exact Hkv. }
      destruct (ty_valid_enum_free_ok t value Hv) as [b Hb]. rewrite Hb. cbn [bind snd fst].
      apply Hnext.
    + destruct (a_default a) as [| | v].
      * cbn [bind snd fst]. destruct (gnullable (a_ty a)).
        -- apply Hnext.
        -- apply IH; try assumption. intros b Hb. apply Hfresh. right; exact Hb.
      * destruct Hdef.
      * rewrite Hdef. cbn [bind snd fst]. apply Hnext.
Qed.

(* make_edge_parameters never panics on an edge definition Schema::new has checked, with distinct
   parameter names, for arguments without enum values *)
Theorem make_edge_parameters_total : forall (edge_definition : fld) specified,
  Forall arg_ok (SchemaAst.f_args edge_definition) ->
  has_dup (map a_name (SchemaAst.f_args edge_definition)) = false ->
  (forall kv, In kv specified -> enum_free (snd kv) = true) ->
  exists r, make_edge_parameters edge_definition specified = Ok r.
Proof.
  intros ed specified Hok Hdup Henum. unfold make_edge_parameters.
  assert (Hnd : NoDup (map a_name (SchemaAst.f_args ed))).
  { clear - Hdup. induction (map a_name (SchemaAst.f_args ed)) as [| x r IH]; [constructor |].
    cbn [has_dup] in Hdup. apply Bool.orb_false_iff in Hdup. destruct Hdup as [Hm Hr].
    constructor; [| apply IH; exact Hr].
    intros Hin. clear - Hm Hin. unfold mem in Hm.
    assert (existsb (String.eqb x) r = true).
    { apply existsb_exists. exists x. split; [exact Hin | apply String.eqb_refl]. }
    congruence. }
  destruct (edge_params_loop_np (SchemaAst.f_name ed) (SchemaAst.f_args ed) specified [] [] Hok Hnd) as [r Hr].
  - intros a _ H; exact H.
  - exact Henum.
  - rewrite Hr. cbn [bind].
    destruct (fst r ++ _); eexists; reflexivity.
Qed.

(* ---------------------------------------------------------------- get_recurse_implicit_coercion *)
(* what get_field_origins guarantees: every defined field has an origin, and a single ancestor
   defines the field *)
Definition origins_ok (S : schema) : Prop :=
  forall tn fn, s_field S tn fn <> None ->
    exists o, omap_get (tn, fn) (s_origins S) = Some o /\
              match o with Single a => s_field S a fn <> None | Multiple _ => True end.

Theorem get_recurse_implicit_coercion_total : forall S v (ed : fld),
  origins_ok S -> s_field S (v_type v) (SchemaAst.f_name ed) <> None ->
  exists r, get_recurse_implicit_coercion S v ed = Ok r.
Proof.
  intros S v ed Ho Hdef. unfold get_recurse_implicit_coercion.
  destruct (negb (named_subtype (s_vts S) (gbase (SchemaAst.f_ty ed)) (v_type v))).
  { destruct (negb (named_subtype (s_vts S) (v_type v) (gbase (SchemaAst.f_ty ed)))); eexists; reflexivity. }
  destruct (String.eqb (v_type v) (gbase (SchemaAst.f_ty ed))); [eexists; reflexivity |].
  destruct (s_field S (gbase (SchemaAst.f_ty ed)) (SchemaAst.f_name ed)) as [de |].
  { destruct (String.eqb (gbase (SchemaAst.f_ty de)) (gbase (SchemaAst.f_ty ed))); eexists; reflexivity. }
  destruct (Ho _ _ Hdef) as [o [Hget Hanc]]. rewrite Hget.
  destruct o as [a | m]; [| eexists; reflexivity].
  destruct (s_field S a (SchemaAst.f_name ed)) as [ae |]; [| exfalso; apply Hanc; reflexivity].
  destruct (String.eqb (gbase (SchemaAst.f_ty ae)) (gbase (SchemaAst.f_ty ed))); eexists; reflexivity.
Qed.

(* ---------------------------------------------------------------- fill_in_query_variables *)
Section RawInd.
  Variable P : raw_comp -> Prop.
  Hypothesis Hstep : forall root vs es fs outs,
    Forall (fun f => P (rf_comp f)) fs -> P (RComp root vs es fs outs).
  Fixpoint raw_comp_ind' (c : raw_comp) : P c :=
    match c with
    | RComp root vs es fs outs =>
        Hstep root vs es fs outs
          ((fix go (l : list raw_fold) : Forall (fun f => P (rf_comp f)) l :=
              match l with
              | [] => Forall_nil _
              | f :: r =>
                  Forall_cons f
                    (match f return P (rf_comp f) with RFold h sub => raw_comp_ind' sub end) (go r)
              end) fs)
    end.
End RawInd.

Definition tys_wf (m : list (string * ty)) : Prop := Forall (fun kv => wf_ty (snd kv) = true) m.

(* every variable type recorded in the component is a well-formed type (<= 30 list levels) *)
Fixpoint comp_vars_wf (c : raw_comp) : Prop :=
  match c with
  | RComp _ vs _ fs _ =>
      tys_wf (flat_map (fun v => filter_vars (v_filters v)) vs)
      /\ tys_wf (flat_map (fun f => match f with RFold h _ => pfilter_vars (fo_post h) end) fs)
      /\ (fix go (l : list raw_fold) : Prop :=
            match l with [] => True | RFold _ sub :: r => comp_vars_wf sub /\ go r end) fs
  end.

Lemma lookup_str_wf : forall k m t, tys_wf m -> lookup_str k m = Some t -> wf_ty t = true.
Proof.
  intros k m t Hm. induction Hm as [| [k' t'] r Hx Hr IH]; intros H; [discriminate H |].
  cbn [lookup_str] in H. destruct (String.eqb k k'); [inversion H; subst; exact Hx | apply IH; exact H].
Qed.
Lemma vmap_set_wf : forall k t m, wf_ty t = true -> tys_wf m -> tys_wf (vmap_set k t m).
Proof.
  intros k t m Ht Hm. induction Hm as [| [k' t'] r Hx Hr IH]; cbn [vmap_set].
  - constructor; [exact Ht | constructor].
  - destruct (String.compare k k').
    + constructor; [exact Ht | exact Hr].
    + constructor; [exact Ht |]. constructor; [exact Hx | exact Hr].
    + constructor; [exact Hx | exact IH].
Qed.

Lemma use_variables_np : forall uses variables errors,
  tys_wf uses -> tys_wf variables ->
  exists r, use_variables uses variables errors = Ok r /\ tys_wf (fst r).
Proof.
  induction uses as [| [name t] r IH]; intros variables errors Hu Hv.
  - eexists; split; [reflexivity | exact Hv].
  - inversion Hu as [| x xs Ht Hr]; subst. cbn [snd] in Ht. cbn [use_variables].
    destruct (lookup_str name variables) as [e |] eqn:Hl.
    + pose proof (lookup_str_wf _ _ _ Hv Hl) as He.
      rewrite (ty_intersect_ok e t He Ht). cbn [bind].
      destruct (ty_meet e t) as [i |] eqn:Hm.
      * apply IH; [exact Hr |]. apply vmap_set_wf; [| exact Hv].
        destruct (ty_meet_wf e t i He Ht Hm) as [Hi _]. exact Hi.
      * apply IH; assumption.
    + rewrite (ty_intersect_ok t t Ht Ht). cbn [bind]. rewrite (ty_meet_idem t Ht).
      apply IH; [exact Hr |]. apply vmap_set_wf; [exact Ht |]. apply vmap_set_wf; assumption.
Qed.

Theorem fill_in_query_variables_total : forall c variables,
  comp_vars_wf c -> tys_wf variables ->
  exists r, fill_in_query_variables variables c = Ok r /\ tys_wf (fst r).
Proof.
  induction c as [root vs es fs outs IHfs] using raw_comp_ind'. intros variables Hwf Hv.
  cbn [comp_vars_wf] in Hwf. destruct Hwf as [Hvs [Hps Hsub]].
  cbn [fill_in_query_variables].
  destruct (use_variables_np
              (flat_map (fun v => filter_vars (v_filters v)) vs
               ++ flat_map (fun f => match f with RFold h _ => pfilter_vars (fo_post h) end) fs)
              variables []) as [x [Hx Hxw]].
  { apply Forall_app; split; assumption. }
  { exact Hv. }
  rewrite Hx. cbn [bind].
  generalize (snd x) as errors. generalize dependent (fst x). clear Hx Hps Hvs x Hv variables.
  induction IHfs as [| f r Hf Hr IHr]; intros vars Hvw errors.
  - eexists; split; [reflexivity | exact Hvw].
  - destruct f as [h sub]. cbn [rf_comp] in Hf. destruct Hsub as [Hs1 Hs2].
    destruct (Hf vars Hs1 Hvw) as [y [Hy Hyw]]. rewrite Hy. cbn [bind].
    apply IHr; assumption.
Qed.

(* ---------------------------------------------------------------- tags.rs: reference_tag *)
(* the stack discipline linking TagHandler.component_imported_tags to the ComponentPath: one entry per
   component below the root, with the same root vids; every tag was registered under a non-empty path *)
Definition tags_ok (t : tag_handler) (path : cpath) : Prop :=
  map fst (th_imported t) = List.tl path /\ path <> [] /\
  Forall (fun kv => te_path (snd kv) <> []) (th_tags t).

Lemma list_N_eqb_eq : forall a b, list_N_eqb a b = true <-> a = b.
Proof.
  induction a as [| x a IH]; destruct b as [| y b]; unfold list_N_eqb; cbn; split; intros H;
    try reflexivity; try discriminate.
  - apply Bool.andb_true_iff in H. destruct H as [Hl H].
    apply Bool.andb_true_iff in H. destruct H as [Hxy Hr].
    apply N.eqb_eq in Hxy. subst y. f_equal. apply IH. unfold list_N_eqb. rewrite Hl. exact Hr.
  - inversion H; subst. rewrite Nat.eqb_refl, N.eqb_refl. cbn.
    assert (E : list_N_eqb b b = true) by (apply IH; reflexivity).
    unfold list_N_eqb in E. rewrite Nat.eqb_refl in E. exact E.
Qed.

Lemma lookup_str_in : forall V k (m : list (string * V)) v,
  lookup_str k m = Some v -> exists k', In (k', v) m.
Proof.
  intros V k m v. induction m as [| [k' v'] r IH]; intros H; [discriminate H |].
  cbn [lookup_str] in H. destruct (String.eqb k k').
  - inversion H; subst. exists k'. left; reflexivity.
  - destruct (IH H) as [k'' Hin]. exists k''. right; exact Hin.
Qed.

Lemma imported_push_ok : forall l i root f,
  nth_error (map fst l) i = Some root ->
  exists l', imported_push l i root f = Ok l' /\ map fst l' = map fst l.
Proof.
  induction l as [| [r ts] rest IH]; intros i root f H.
  - destruct i; discriminate H.
  - destruct i as [| i]; cbn [imported_push].
    + cbn in H. inversion H; subst. rewrite N.eqb_refl. eexists; split; reflexivity.
    + cbn [map fst nth_error] in H. destruct (IH i root f H) as [l' [Hl' Hm]].
      rewrite Hl'. cbn [bind]. eexists; split; [reflexivity |]. cbn [map fst]. rewrite Hm. reflexivity.
Qed.

Lemma th_reference_tag_np : forall t name path vid,
  tags_ok t path ->
  exists r, th_reference_tag t name path vid = Ok r /\ tags_ok (fst r) path.
Proof.
  intros t name path vid [Himp [Hne Hpaths]]. unfold th_reference_tag.
  destruct (lookup_str name (th_tags t)) as [entry |] eqn:Hl.
  2:{ eexists; split; [reflexivity |]. repeat split; assumption. }
  destruct (path_is_parent (te_path entry) path) eqn:Hpar.
  2:{ eexists; split; [reflexivity |]. repeat split; assumption. }
  destruct (N.ltb vid (defined_at (te_field entry))).
  { eexists; split; [reflexivity |]. repeat split; assumption. }
  destruct (list_N_eqb (te_path entry) path) eqn:Heq; cbn [negb].
  { cbn [bind]. eexists; split; [reflexivity |]. repeat split; assumption. }
  (* the tag comes from an enclosing component *)
  unfold path_is_parent in Hpar.
  destruct (Nat.leb (List.length (te_path entry)) (List.length path)) eqn:Hle; [| discriminate Hpar].
  apply Nat.leb_le in Hle. apply list_N_eqb_eq in Hpar.
  assert (Hlt : (List.length (te_path entry) < List.length path)%nat).
  { destruct (Nat.eq_dec (List.length (te_path entry)) (List.length path)) as [E | E]; [| lia].
    exfalso. rewrite E, firstn_all in Hpar. rewrite Hpar in Heq.
    assert (list_N_eqb path path = true) by (apply list_N_eqb_eq; reflexivity). congruence. }
  destruct (nth_error path (List.length (te_path entry))) as [root |] eqn:Hnth.
  2:{ apply nth_error_None in Hnth. lia. }
  assert (Hnonempty : te_path entry <> []).
  { destruct (lookup_str_in _ _ _ _ Hl) as [k' Hin].
    rewrite Forall_forall in Hpaths. exact (Hpaths _ Hin). }
  destruct (List.length (te_path entry)) as [| i] eqn:Hlen.
  { exfalso. apply Hnonempty. apply length_zero_iff_nil. exact Hlen. }
  destruct path as [| p0 ptl]; [exfalso; apply Hne; reflexivity |].
  cbn [nth_error] in Hnth. cbn [List.tl] in Himp.
  destruct (imported_push_ok (th_imported t) i root (te_field entry)) as [l' [Hl' Hm]].
  { rewrite Himp. exact Hnth. }
  rewrite Hl'. cbn [bind]. eexists; split; [reflexivity |].
  unfold tags_ok. cbn [fst th_imported th_tags List.tl]. repeat split; try assumption.
  rewrite Hm. exact Himp.
Qed.

(* ---------------------------------------------------------------- filters.rs *)
(* the two classes of make_filter_expr, as conditions on the left operand's type and the directive *)
Definition filter_ok (lty : ty) (fd : filter_dir) : Prop :=
  match fd with
  | FDBinary b (VarRef _) =>
      (is_ordering b = true -> ty_orderable lty = true) /\
      (is_bulk b = true -> Nat.eqb (ty_depth lty) 30 = false)
  | _ => True
  end.

Lemma a_same_refl' : forall a, a_same a a = true.
Proof. induction a; cbn; auto. Qed.
Lemma a_same_with_null : forall a nl, a_same a (awith_null a nl) = true.
Proof. intros a nl. destruct a; cbn; [reflexivity | apply a_same_refl']. Qed.

Lemma ok_inr_inj : forall A B (x y : B), @Ok (A + B) (inr x) = Ok (inr y) -> x = y.
Proof. intros A B x y H. inversion H. reflexivity. Qed.

Lemma binary_types_valid_var : forall b lname lty name t,
  wf_ty lty = true ->
  infer_variable_type lname lty b = Ok (inr t) ->
  (is_ordering b = true -> ty_orderable lty = true) ->
  exists es, binary_types_valid b lname lty (AVar name t) None = Ok es.
Proof.
  intros b lname lty name t W Hinf Hord.
  pose proof W as W'. wfd W' s a Hd.
  unfold binary_types_valid. cbn [argument_type].
  destruct b; cbn [infer_variable_type is_ordering] in Hinf, Hord |- *.
  (* = != *)
  1,2: apply ok_inr_inj in Hinf; subst t; rewrite ty_eqn_T by assumption;
       rewrite String.eqb_refl, a_same_refl'; eexists; reflexivity.
  (* < <= > >= *)
  1,2,3,4: apply ok_inr_inj in Hinf; subst t; rewrite with_nullability_T;
           rewrite ty_eqn_T by assumption; rewrite String.eqb_refl, a_same_with_null;
           unfold ty_orderable, ty_base_type in *; rewrite !base_T in *; rewrite (Hord eq_refl);
           cbn [negb bind]; eexists; reflexivity.
  (* contains, not_contains *)
  1,2: destruct a as [nl | nl i];
       [ rewrite as_list_T_named in *; discriminate Hinf
       | rewrite as_list_T_list in *; apply ok_inr_inj in Hinf; subst t;
         cbn [adepth] in Hd; rewrite ty_eqn_T by lia;
         rewrite String.eqb_refl, a_same_refl'; eexists; reflexivity ].
  (* one_of, not_one_of *)
  1,2: rewrite ty_list_T in Hinf by assumption;
       destruct (Nat.leb 30 (adepth a)); [discriminate Hinf |];
       cbn [bind] in Hinf; apply ok_inr_inj in Hinf; subst t;
       rewrite as_list_T_list; rewrite ty_eqn_T by assumption;
       rewrite String.eqb_refl, a_same_refl'; eexists; reflexivity.
  (* the eight string operations *)
  all: apply ok_inr_inj in Hinf; subst t; unfold string_type; rewrite named_T, is_list_T;
       unfold ty_base_type; rewrite base_T; cbn [ais_list orb negb String.eqb Ascii.eqb Bool.eqb bind];
       eexists; reflexivity.
Qed.

Lemma binary_types_valid_tag : forall b lname lty f n,
  exists es, binary_types_valid b lname lty (ATag f) (Some n) = Ok es.
Proof.
  intros b lname lty f n. unfold binary_types_valid. cbn [tag_of argument_type bind fst snd].
  destruct b;
    repeat match goal with
           | |- context [if ?c then _ else _] => destruct c
           | |- context [match ty_as_list ?t with _ => _ end] => destruct (ty_as_list t)
           end; cbn [bind]; eexists; reflexivity.
Qed.

Theorem make_filter_expr_total : forall tags path vid lname lty fd,
  tags_ok tags path -> wf_ty lty = true -> filter_ok lty fd ->
  exists r, make_filter_expr tags path vid lname lty fd = Ok r /\ tags_ok (fst r) path.
Proof.
  intros tags path vid lname lty fd Htags W Hok. unfold make_filter_expr.
  destruct fd as [u | b arg].
  - destruct (ty_nullable lty); eexists; split; try reflexivity; exact Htags.
  - destruct arg as [var_name | tag_name].
    + cbn [filter_ok] in Hok. destruct Hok as [Hord Hbulk].
      assert (Hinf : exists it, infer_variable_type lname lty b = Ok it).
      { unfold infer_variable_type. destruct b; try (eexists; reflexivity).
        - destruct (ty_as_list lty); eexists; reflexivity.
        - destruct (ty_as_list lty); eexists; reflexivity.
        - pose proof (ty_list_spec lty false W) as Hs. rewrite (Hbulk eq_refl) in Hs.
          destruct Hs as [t' [Ht' _]]. rewrite Ht'. eexists; reflexivity.
        - pose proof (ty_list_spec lty false W) as Hs. rewrite (Hbulk eq_refl) in Hs.
          destruct Hs as [t' [Ht' _]]. rewrite Ht'. eexists; reflexivity. }
      destruct Hinf as [it Hit]. rewrite Hit. cbn [bind].
      destruct it as [e | t]; cbn [bind snd fst].
      * eexists; split; [reflexivity | exact Htags].
      * destruct (binary_types_valid_var b lname lty var_name t W Hit Hord) as [es Hes].
        rewrite Hes. cbn [bind]. destruct es; eexists; split; try reflexivity; exact Htags.
    + destruct (th_reference_tag_np tags tag_name path vid Htags) as [lk [Hlk Hlk_ok]].
      rewrite Hlk. cbn [bind].
      destruct lk as [tags' [[ | | ] | entry]]; cbn [snd fst bind] in *;
        try (eexists; split; [reflexivity | exact Hlk_ok]).
      destruct (binary_types_valid_tag b lname lty (te_field entry) tag_name) as [es Hes].
      rewrite Hes. cbn [bind]. destruct es; eexists; split; try reflexivity; exact Hlk_ok.
Qed.

(* the types make_filter_expr gives to variables are well formed *)
Lemma with_nullability_wf : forall t nl, wf_ty t = true -> wf_ty (ty_with_nullability t nl) = true.
Proof.
  intros t nl W. wfd W s a Hd. rewrite with_nullability_T. apply wf_T.
  destruct a; cbn [awith_null adepth] in *; exact Hd.
Qed.

Lemma infer_variable_type_wf : forall n lty b t,
  wf_ty lty = true -> infer_variable_type n lty b = Ok (inr t) -> wf_ty t = true.
Proof.
  intros n lty b t W H. unfold infer_variable_type in H.
  destruct b; try (apply ok_inr_inj in H; subst t; reflexivity).
  - apply ok_inr_inj in H; subst t; exact W.
  - apply ok_inr_inj in H; subst t; exact W.
  - apply ok_inr_inj in H; subst t; apply with_nullability_wf; exact W.
  - apply ok_inr_inj in H; subst t; apply with_nullability_wf; exact W.
  - apply ok_inr_inj in H; subst t; apply with_nullability_wf; exact W.
  - apply ok_inr_inj in H; subst t; apply with_nullability_wf; exact W.
  - destruct (ty_as_list lty) as [i |] eqn:E; [| discriminate H].
    apply ok_inr_inj in H; subst t. exact (proj1 (ty_as_list_wf _ _ W E)).
  - destruct (ty_as_list lty) as [i |] eqn:E; [| discriminate H].
    apply ok_inr_inj in H; subst t. exact (proj1 (ty_as_list_wf _ _ W E)).
  - pose proof (ty_list_spec lty false W) as Hs. destruct (Nat.eqb (ty_depth lty) 30).
    + rewrite Hs in H. discriminate H.
    + destruct Hs as [t' [Ht' [W' _]]]. rewrite Ht' in H. cbn [bind] in H. apply ok_inr_inj in H; subst t. exact W'.
  - pose proof (ty_list_spec lty false W) as Hs. destruct (Nat.eqb (ty_depth lty) 30).
    + rewrite Hs in H. discriminate H.
    + destruct Hs as [t' [Ht' [W' _]]]. rewrite Ht' in H. cbn [bind] in H. apply ok_inr_inj in H; subst t. exact W'.
Qed.

Lemma make_filter_expr_var_wf : forall tags path vid lname lty fd tags' op n t,
  wf_ty lty = true ->
  make_filter_expr tags path vid lname lty fd = Ok (tags', inr (op, Some (AVar n t))) -> wf_ty t = true.
Proof.
  intros tags path vid lname lty fd tags' op n t W H. unfold make_filter_expr in H.
  destruct fd as [u | b arg].
  - destruct (ty_nullable lty); inversion H.
  - destruct arg as [var_name | tag_name].
    + destruct (infer_variable_type lname lty b) as [[e | t0] | s] eqn:Hi; cbn [bind snd fst] in H; try discriminate H.
      destruct (binary_types_valid b lname lty (AVar var_name t0) None) as [es | s]; cbn [bind] in H; [| discriminate H].
      destruct es; inversion H; subst. eapply infer_variable_type_wf; eassumption.
    + destruct (th_reference_tag tags tag_name path vid) as [[tg [[ | | ] | entry]] | s]; cbn [bind snd fst] in H;
        try discriminate H.
      destruct (binary_types_valid b lname lty (ATag (te_field entry)) (Some tag_name)) as [es | s];
        cbn [bind] in H; [| discriminate H].
      destruct es; inversion H.
Qed.
