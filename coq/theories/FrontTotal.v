(* FrontTotal.v — stage 2 of C10, part 3: the IR-construction core of the frontend
   (fill_in_vertex_data / make_query_component / make_fold / make_vertex and the handlers' stack
   discipline) never panics outside the known classes. *)
From Coq Require Import Lia.
From TF Require Import Values Ty TyProofs QueryAst QueryParse QueryParseProofs SchemaAst SchemaNew IR Front FrontProofs.
Local Open Scope string_scope.
Local Open Scope list_scope.
Local Open Scope N_scope.

(* ================================================================== A. primitives *)
Definition keys {V} (m : list (N * V)) : list N := map fst m.

Lemma nmap_insert_new_fresh : forall V k (v : V) m,
  ~ In k (keys m) ->
  exists m', nmap_insert_new k v m = Some m' /\ (forall x, In x m' <-> x = (k, v) \/ In x m).
Proof.
  intros V k v m. induction m as [| [k' v'] r IH]; intros Hn.
  - eexists; split; [reflexivity |]. intros x; cbn. intuition.
  - cbn [nmap_insert_new]. destruct (N.compare k k') eqn:Hc.
    + apply N.compare_eq in Hc. subst k'. exfalso. apply Hn. left; reflexivity.
    + eexists; split; [reflexivity |]. intros x; cbn. intuition.
    + destruct IH as [m' [Hm' Hin]]; [intros H; apply Hn; right; exact H |].
      rewrite Hm'. eexists; split; [reflexivity |]. intros x. cbn [In]. rewrite Hin. intuition.
Qed.

Lemma in_keys : forall V (m : list (N * V)) k, In k (keys m) <-> exists v, In (k, v) m.
Proof.
  intros V m k. unfold keys. rewrite in_map_iff. split.
  - intros [[k' v] [E Hin]]. cbn in E. subst k'. exists v; exact Hin.
  - intros [v Hin]. exists (k, v). split; [reflexivity | exact Hin].
Qed.

Lemma keys_insert : forall V k (v : V) m m',
  (forall x, In x m' <-> x = (k, v) \/ In x m) ->
  forall y, In y (keys m') <-> y = k \/ In y (keys m).
Proof.
  intros V k v m m' H y. rewrite !in_keys. split.
  - intros [w Hw]. apply H in Hw. destruct Hw as [E | Hw]; [inversion E; left; reflexivity |].
    right. exists w; exact Hw.
  - intros [E | [w Hw]]; [subst y; exists v; apply H; left; reflexivity |].
    exists w. apply H. right; exact Hw.
Qed.

Lemma nmap_insert_new_nodup : forall V k (v : V) m m',
  nmap_insert_new k v m = Some m' -> NoDup (keys m) -> ~ In k (keys m) -> NoDup (keys m').
Proof.
  intros V k v m. induction m as [| [k' v'] r IH]; intros m' H Hnd Hn.
  - inversion H; subst. cbn. constructor; [intros [] | constructor].
  - cbn [nmap_insert_new] in H. destruct (N.compare k k') eqn:Hc.
    + discriminate H.
    + inversion H; subst. cbn [keys map fst]. constructor; [exact Hn | exact Hnd].
    + destruct (nmap_insert_new k v r) as [r' |] eqn:Hr; [| discriminate H]. inversion H; subst.
      inversion Hnd as [| x xs Hx Hxs]; subst.
      assert (Hnr : ~ In k (keys r)) by (intros Hin; apply Hn; right; exact Hin).
      cbn [keys map fst]. constructor.
      * intros Hin.
        destruct (nmap_insert_new_fresh _ k v r Hnr) as [r'' [Hr'' Hchar]].
        rewrite Hr in Hr''. inversion Hr''; subst r''.
        apply (keys_insert _ _ _ _ _ Hchar) in Hin. destruct Hin as [E | Hin]; [| exact (Hx Hin)].
        subst k'. rewrite N.compare_refl in Hc. discriminate Hc.
      * exact (IH r' eq_refl Hxs Hnr).
Qed.

Lemma lookup_N_insert : forall V k k' (v : V) m,
  lookup_N k (nmap_insert k' v m) = if N.eqb k k' then Some v else lookup_N k m.
Proof.
  intros V k k' v m. induction m as [| [a w] r IH].
  - cbn. reflexivity.
  - cbn [nmap_insert]. destruct (N.compare k' a) eqn:Hc.
    + apply N.compare_eq in Hc. subst a. cbn [lookup_N]. destruct (N.eqb k k'); reflexivity.
    + cbn [lookup_N]. destruct (N.eqb k k'); reflexivity.
    + cbn [lookup_N]. destruct (N.eqb k a) eqn:Ha.
      * apply N.eqb_eq in Ha. subst a.
        destruct (N.eqb k k') eqn:Hk; [| reflexivity].
        apply N.eqb_eq in Hk. subst k'. rewrite N.compare_refl in Hc. discriminate Hc.
      * exact IH.
Qed.

Lemma amap_insert_new_in : forall V k (v : V) m m',
  amap_insert_new k v m = Some m' -> forall x, In x m' -> x = (k, v) \/ In x m.
Proof.
  intros V k v m. induction m as [| [k' v'] r IH]; intros m' H x Hx.
  - inversion H; subst. destruct Hx as [<- | []]. left; reflexivity.
  - cbn [amap_insert_new] in H. destruct (String.compare k k').
    + discriminate H.
    + inversion H; subst. destruct Hx as [<- | Hx]; [left; reflexivity | right; exact Hx].
    + destruct (amap_insert_new k v r) as [r' |] eqn:Hr; [| discriminate H]. inversion H; subst.
      destruct Hx as [<- | Hx]; [right; left; reflexivity |].
      destruct (IH r' eq_refl x Hx) as [E | Hin]; [left; exact E | right; right; exact Hin].
Qed.

(* values stored in an outmap *)
Definition frame_vals (m : outmap) : list fieldref := flat_map snd m.
Lemma omap_push_vals : forall k (v : fieldref) m f,
  In f (frame_vals (omap_push k v m)) <-> f = v \/ In f (frame_vals m).
Proof.
  intros k v m f. unfold frame_vals. induction m as [| [k' vs] r IH].
  - cbn. intuition.
  - cbn [omap_push]. destruct (String.compare k k').
    + cbn [flat_map snd]. rewrite !in_app_iff. cbn [In]. intuition.
    + cbn [flat_map snd In]. rewrite !in_app_iff. cbn [In]. intuition.
    + cbn [flat_map snd]. rewrite !in_app_iff. rewrite IH. intuition.
Qed.

(* ---------------- util.rs ---------------- *)
Lemma path_pop_snoc : forall p v, path_pop (p ++ [v]) v = Ok p.
Proof. intros. unfold path_pop. rewrite rev_unit, N.eqb_refl, rev_involutive. reflexivity. Qed.
Lemma path_is_component_root_np : forall p vid, p <> [] -> exists b, path_is_component_root p vid = Ok b.
Proof.
  intros p vid Hp. unfold path_is_component_root.
  destruct (List.rev p) eqn:Hr; [| eexists; reflexivity].
  exfalso. apply Hp. rewrite <- (rev_involutive p), Hr. reflexivity.
Qed.

(* ---------------- outputs.rs ---------------- *)
Record oh_inv (o : output_handler) (nv : N) : Prop := mkOI {
  oi_stack : forall v, In v (oh_vid_stack o) -> lookup_N v (oh_prefixes o) <> None;
  oi_fresh : forall v, lookup_N v (oh_prefixes o) <> None -> v < nv;
  oi_comp : oh_comp_stack o <> [] }.

Lemma oh_inv_mono : forall o a b, oh_inv o a -> a <= b -> oh_inv o b.
Proof. intros o a b [H1 H2 H3] Hle. constructor; auto. intros v Hv. specialize (H2 v Hv). lia. Qed.

Lemma oh_begin_nested_scope_ok : forall o nv prefix,
  oh_inv o nv ->
  exists o', oh_begin_nested_scope o nv prefix = Ok o' /\
             oh_vid_stack o' = oh_vid_stack o ++ [nv] /\
             oh_comp_stack o' = oh_comp_stack o /\ oh_global o' = oh_global o /\
             oh_inv o' (nv + 1).
Proof.
  intros o nv prefix [H1 H2 H3]. unfold oh_begin_nested_scope.
  destruct (lookup_N nv (oh_prefixes o)) eqn:Hl.
  { exfalso. assert (nv < nv) by (apply H2; rewrite Hl; discriminate). lia. }
  eexists; split; [reflexivity |].
  cbn [oh_vid_stack oh_comp_stack oh_global oh_prefixes].
  split; [reflexivity |]. split; [reflexivity |]. split; [reflexivity |].
  constructor; cbn [oh_vid_stack oh_comp_stack oh_global oh_prefixes].
  - intros v Hv. rewrite lookup_N_insert. destruct (N.eqb v nv) eqn:E; [discriminate |].
    apply in_app_or in Hv. destruct Hv as [Hv | [<- | []]]; [apply H1; exact Hv |].
    rewrite N.eqb_refl in E. discriminate E.
  - intros v Hv. rewrite lookup_N_insert in Hv. destruct (N.eqb v nv) eqn:E.
    + apply N.eqb_eq in E. lia.
    + specialize (H2 v Hv). lia.
  - exact H3.
Qed.

Lemma oh_end_nested_scope_ok : forall o s nv,
  oh_vid_stack o = s ++ [nv] ->
  exists o', oh_end_nested_scope o nv = Ok o' /\ oh_vid_stack o' = s /\
             oh_prefixes o' = oh_prefixes o /\ oh_comp_stack o' = oh_comp_stack o /\
             oh_global o' = oh_global o.
Proof.
  intros o s nv H. unfold oh_end_nested_scope. rewrite H, rev_unit, N.eqb_refl.
  eexists; split; [reflexivity |]. cbn. rewrite rev_involutive. auto.
Qed.

Lemma nonempty_snoc : forall A (l : list A), l <> [] -> exists init x, l = init ++ [x].
Proof.
  intros A l H. destruct (List.rev l) as [| x r] eqn:Hr.
  - exfalso. apply H. rewrite <- (rev_involutive l), Hr. reflexivity.
  - exists (List.rev r), x. rewrite <- (rev_involutive l), Hr. reflexivity.
Qed.

Lemma oh_register_output_ok : forall o name value init top,
  oh_comp_stack o = init ++ [top] ->
  exists o', oh_register_output o name value = Ok o' /\
             oh_comp_stack o' = init ++ [omap_push name value top] /\
             oh_vid_stack o' = oh_vid_stack o /\ oh_prefixes o' = oh_prefixes o /\
             oh_global o' = omap_push name value (oh_global o).
Proof.
  intros o name value init top H. unfold oh_register_output. rewrite H, rev_unit.
  eexists; split; [reflexivity |]. cbn. rewrite rev_involutive. auto.
Qed.

Lemma prefixes_of_np : forall o vids,
  (forall v, In v vids -> lookup_N v (oh_prefixes o) <> None) -> exists s, prefixes_of o vids = Ok s.
Proof.
  intros o vids. induction vids as [| v r IH]; intros H; [eexists; reflexivity |].
  cbn [prefixes_of]. destruct (lookup_N v (oh_prefixes o)) eqn:Hl.
  - destruct IH as [s Hs]; [intros w Hw; apply H; right; exact Hw |]. rewrite Hs. eexists; reflexivity.
  - exfalso. apply (H v (or_introl eq_refl)). exact Hl.
Qed.

Lemma oh_register_local_ok : forall o local transforms value init top nv,
  oh_inv o nv -> oh_comp_stack o = init ++ [top] ->
  exists o' name, oh_register_locally_named_output o local transforms value = Ok (o', name) /\
             oh_comp_stack o' = init ++ [omap_push name value top] /\
             oh_vid_stack o' = oh_vid_stack o /\ oh_prefixes o' = oh_prefixes o /\
             oh_global o' = omap_push name value (oh_global o).
Proof.
  intros o local transforms value init top nv [H1 H2 H3] Hc.
  unfold oh_register_locally_named_output, oh_make_output_name.
  destruct (prefixes_of_np o (oh_vid_stack o) H1) as [s Hs]. rewrite Hs. cbn [bind].
  set (nm := (ostr (oh_root_prefix o) ++ s ++ local ++ String.concat "" transforms)%string).
  destruct (oh_register_output_ok o nm value init top Hc) as [o' [Ho' Hrest]].
  rewrite Ho'. cbn [bind]. eexists; eexists; split; [reflexivity | exact Hrest].
Qed.

(* ---------------- tags.rs ---------------- *)
Lemma th_end_subcomponent_ok : forall t l root ext,
  th_imported t = l ++ [(root, ext)] ->
  th_end_subcomponent t root = Ok (mkTH (th_tags t) (th_used t) l, ext).
Proof.
  intros t l root ext H. unfold th_end_subcomponent. rewrite H, rev_unit, N.eqb_refl, rev_involutive.
  reflexivity.
Qed.

Lemma th_register_tag_ok : forall t name field path path',
  tags_ok t path' -> path <> [] -> tags_ok (fst (th_register_tag t name field path)) path'.
Proof.
  intros t name field path path' [H1 [H2 H3]] Hp. unfold th_register_tag.
  destruct (amap_insert_new name (mkTE name field path) (th_tags t)) as [tags |] eqn:Hi; cbn [fst].
  - repeat split; auto. cbn [th_tags]. rewrite Forall_forall in *. intros x Hx.
    destruct (amap_insert_new_in _ _ _ _ _ Hi x Hx) as [-> | Hin]; [exact Hp | apply H3; exact Hin].
  - repeat split; auto.
Qed.
Lemma th_register_tag_imported : forall t name field path,
  th_imported (fst (th_register_tag t name field path)) = th_imported t.
Proof.
  intros. unfold th_register_tag. destruct (amap_insert_new _ _ _); reflexivity.
Qed.

(* ================================================================== B. schema facts and the leaves *)
Lemma find_type_name : forall n ts t, find_type n ts = Some t -> t_name t = n.
Proof.
  intros n ts t. induction ts as [| x r IH]; intros H; [discriminate H |].
  cbn [find_type] in H. destruct (String.eqb (t_name x) n) eqn:E.
  - inversion H; subst. apply String.eqb_eq. exact E.
  - apply IH. exact H.
Qed.
Lemma find_field_name : forall n fs f, find_field n fs = Some f -> SchemaAst.f_name f = n /\ In f fs.
Proof.
  intros n fs f. induction fs as [| x r IH]; intros H; [discriminate H |].
  cbn [find_field] in H. destruct (String.eqb (SchemaAst.f_name x) n) eqn:E.
  - inversion H; subst. split; [apply String.eqb_eq; exact E | left; reflexivity].
  - destruct (IH H) as [H1 H2]. split; [exact H1 | right; exact H2].
Qed.

Lemma g_name_gbase : forall g, g_name g = gbase g.
Proof. induction g; cbn; auto. Qed.
Lemma g_aty_depth : forall g, adepth (g_aty g) = gdepth g.
Proof. induction g; cbn; auto. Qed.

Lemma from_type_ok : forall g t, from_type g = Ok t ->
  wf_ty t = true /\ tbase t = gbase g /\ ty_depth t = gdepth g.
Proof.
  intros g t H. rewrite from_type_spec in H.
  destruct (Nat.leb (adepth (g_aty g)) 30) eqn:Hd; [| discriminate H].
  apply Nat.leb_le in Hd. inversion H; subst t.
  split; [apply wf_T; exact Hd |]. split; [rewrite base_T; apply g_name_gbase |].
  rewrite ty_depth_T by exact Hd. apply g_aty_depth.
Qed.

(* what the frontend relies on from a Schema that Schema::new accepted *)
Record schema_ok (S : schema) : Prop := mkSO {
  so_root : exists t, find_type (s_qname S) (s_vts S) = Some t;
  so_fields : forall tn t f, find_type tn (s_vts S) = Some t -> In f (t_fields t) ->
      (builtin_scalar (gbase (SchemaAst.f_ty f)) = true \/ has_type (gbase (SchemaAst.f_ty f)) (s_vts S) = true) /\
      (exists ty, from_type (SchemaAst.f_ty f) = Ok ty) /\
      (has_type (gbase (SchemaAst.f_ty f)) (s_vts S) = true -> Forall arg_ok (SchemaAst.f_args f));
  so_root_edges : forall t f, find_type (s_qname S) (s_vts S) = Some t -> In f (t_fields t) ->
      has_type (gbase (SchemaAst.f_ty f)) (s_vts S) = true;
  so_origins : origins_ok S;
  so_typename : has_type TYPENAME (s_vts S) = false }.

Definition post_of (pre : string) (node : field_node) : string :=
  match fn_coerced_to node with Some c => c | None => pre end.

(* an edge use make_edge_parameters / get_recurse_implicit_coercion can process *)
Definition edge_ok (S : schema) (ty : string) (conn : field_conn) : Prop :=
  exists fd, s_field S ty (fc_name conn) = Some fd /\
             Forall arg_ok (SchemaAst.f_args fd) /\
             has_dup (map a_name (SchemaAst.f_args fd)) = false /\
             (forall kv, In kv (fc_args conn) -> enum_free (snd kv) = true).

Lemma get_edge_definition_ok : forall S ty name fd,
  s_field S ty name = Some fd -> get_edge_definition S ty name = Ok fd.
Proof.
  intros S ty name fd H. unfold s_field in H. unfold get_edge_definition, get_vertex_field_definitions.
  destruct (find_type ty (s_vts S)); [| discriminate H]. cbn [bind]. rewrite H. reflexivity.
Qed.

(* ---------------- make_vertex ---------------- *)
Definition props_ok (cs : cstate) (vid : N) : Prop :=
  forall names name, lookup_N vid (cs_prop_names cs) = Some names -> In name names ->
    exists n ty fields, lookup_prop (vid, name) (cs_props cs) = Some (n, ty, fields) /\
                        wf_ty ty = true /\
                        Forall (fun f => Forall (filter_ok ty) (fn_filters f)) fields.

Definition vf_wf (fs : list vfilter) : Prop := tys_wf (filter_vars fs).
Lemma filter_vars_snoc : forall fs f, filter_vars (fs ++ [f]) = filter_vars fs ++ filter_vars [f].
Proof. intros. unfold filter_vars. rewrite flat_map_app. reflexivity. Qed.

Lemma vertex_filters_dirs_ok : forall path vid pname pty ds tags filters errors,
  tags_ok tags path -> wf_ty pty = true -> Forall (filter_ok pty) ds -> vf_wf filters ->
  exists tags' filters' errors',
    vertex_filters_dirs tags path vid pname pty ds filters errors = Ok (tags', filters', errors') /\
    tags_ok tags' path /\ vf_wf filters'.
Proof.
  intros path vid pname pty ds. induction ds as [| d r IH]; intros tags filters errors Ht W Hok Hwf.
  - do 3 eexists; split; [reflexivity | split; assumption].
  - inversion Hok as [| x xs Hd Hr]; subst. cbn [vertex_filters_dirs].
    destruct (make_filter_expr_total tags path vid pname pty d Ht W Hd) as [[tags1 res] [Hm Ht1]].
    rewrite Hm. cbn [bind snd fst]. destruct res as [e | [op rhs]]; apply IH; try assumption.
    unfold vf_wf. rewrite filter_vars_snoc. apply Forall_app. split; [exact Hwf |].
    unfold filter_vars. cbn [flat_map vf_arg]. rewrite app_nil_r.
    destruct rhs as [[fr | n t] |]; try constructor; [| constructor].
    cbn [snd]. eapply make_filter_expr_var_wf; [exact W | exact Hm].
Qed.

Lemma vertex_filters_fields_ok : forall path vid pname pty fields tags filters errors,
  tags_ok tags path -> wf_ty pty = true ->
  Forall (fun f => Forall (filter_ok pty) (fn_filters f)) fields -> vf_wf filters ->
  exists tags' filters' errors',
    vertex_filters_fields tags path vid pname pty fields filters errors = Ok (tags', filters', errors') /\
    tags_ok tags' path /\ vf_wf filters'.
Proof.
  intros path vid pname pty fields. induction fields as [| f r IH]; intros tags filters errors Ht W Hok Hwf.
  - do 3 eexists; split; [reflexivity | split; assumption].
  - inversion Hok as [| x xs Hf Hr]; subst. cbn [vertex_filters_fields].
    destruct (vertex_filters_dirs_ok path vid pname pty (fn_filters f) tags filters errors Ht W Hf Hwf)
      as [t1 [f1 [e1 [H1 [Ht1 Hw1]]]]].
    rewrite H1. cbn [bind]. apply IH; assumption.
Qed.

Lemma vertex_filters_props_ok : forall cs path vid all_names names tags filters errors,
  tags_ok tags path ->
  lookup_N vid (cs_prop_names cs) = Some all_names -> props_ok cs vid ->
  (forall n, In n names -> In n all_names) -> vf_wf filters ->
  exists tags' filters' errors',
    vertex_filters_props cs tags path vid names filters errors = Ok (tags', filters', errors') /\
    tags_ok tags' path /\ vf_wf filters'.
Proof.
  intros cs path vid all_names names. induction names as [| pname r IH]; intros tags filters errors Ht Hl Hp Hsub Hwf.
  - do 3 eexists; split; [reflexivity | split; assumption].
  - cbn [vertex_filters_props].
    destruct (Hp all_names pname Hl (Hsub pname (or_introl eq_refl))) as [n [ty [fields [Hlk [W Hf]]]]].
    rewrite Hlk.
    destruct (vertex_filters_fields_ok path vid pname ty fields tags filters errors Ht W Hf Hwf)
      as [t1 [f1 [e1 [H1 [Ht1 Hw1]]]]].
    rewrite H1. cbn [bind]. apply IH; try assumption. intros m Hm. apply Hsub. right; exact Hm.
Qed.

Lemma vf_wf_nil : vf_wf [].
Proof. constructor. Qed.

Lemma make_vertex_tail : forall cs path vid tags (errors : errs) type_name (from : option string),
  tags_ok tags path -> props_ok cs vid ->
  exists tags' r,
    (do x <- vertex_filters_props cs tags path vid
               (match lookup_N vid (cs_prop_names cs) with Some l => l | None => [] end) [] errors;
     let '(tags', filters, errors') := x in
     match errors' with
     | [] => Ok (tags', inr (mkV vid type_name from filters))
     | _ :: _ => Ok (tags', @inl errs ir_vertex errors')
     end) = Ok (tags', r) /\ tags_ok tags' path /\
    forall v, r = inr v -> v_vid v = vid /\ v_type v = type_name /\ vf_wf (v_filters v).
Proof.
  intros cs path vid tags errors type_name from Ht Hp.
  destruct (lookup_N vid (cs_prop_names cs)) as [names |] eqn:Hl.
  - destruct (vertex_filters_props_ok cs path vid names names tags [] errors Ht Hl Hp (fun n H => H) vf_wf_nil)
      as [t1 [f1 [e1 [H1 [Ht1 Hw1]]]]].
    rewrite H1. cbn [bind]. destruct e1.
    + do 2 eexists; split; [reflexivity |]. split; [exact Ht1 |]. intros v Hv. inversion Hv; subst v.
      cbn. repeat split; auto.
    + do 2 eexists; split; [reflexivity |]. split; [exact Ht1 |]. intros v Hv; discriminate Hv.
  - cbn [vertex_filters_props bind]. destruct errors.
    + do 2 eexists; split; [reflexivity |]. split; [exact Ht |]. intros v Hv. inversion Hv; subst v.
      cbn. repeat split; auto. apply vf_wf_nil.
    + do 2 eexists; split; [reflexivity |]. split; [exact Ht |]. intros v Hv; discriminate Hv.
Qed.

Lemma make_vertex_ok : forall S cs tags path vid pre node,
  tags_ok tags path -> props_ok cs vid ->
  exists tags' r, make_vertex S cs tags path vid pre node = Ok (tags', r) /\ tags_ok tags' path /\
                  forall v, r = inr v -> v_vid v = vid /\ v_type v = post_of pre node /\ vf_wf (v_filters v).
Proof.
  intros S cs tags path vid pre node Ht Hp. unfold make_vertex.
  destruct (path_is_component_root_np path vid (proj1 (proj2 Ht))) as [b Hb]. rewrite Hb. cbn [bind].
  unfold post_of.
  destruct (fn_coerced_to node) as [c |].
  - destruct (find_type c (s_vts S)) as [t |] eqn:Hft.
    + rewrite (find_type_name _ _ _ Hft). apply make_vertex_tail; assumption.
    + do 2 eexists; split; [reflexivity |]. split; [exact Ht |]. intros v Hv; discriminate Hv.
  - apply make_vertex_tail; assumption.
Qed.

(* ---------------- make_vertices / make_edges ---------------- *)
Lemma find_vertex_none : forall l vid, ~ In vid (map v_vid l) -> find_vertex l vid = None.
Proof.
  induction l as [| v r IH]; intros vid H; [reflexivity |].
  cbn [find_vertex]. destruct (N.eqb (v_vid v) vid) eqn:E.
  - apply N.eqb_eq in E. exfalso. apply H. left; exact E.
  - apply IH. intros Hin. apply H. right; exact Hin.
Qed.
Lemma find_vertex_some : forall l vid, In vid (map v_vid l) ->
  exists v, find_vertex l vid = Some v /\ v_vid v = vid /\ In v l.
Proof.
  induction l as [| v r IH]; intros vid H; [destruct H |].
  cbn [find_vertex]. destruct (N.eqb (v_vid v) vid) eqn:E.
  - apply N.eqb_eq in E. exists v. split; [reflexivity |]. split; [exact E | left; reflexivity].
  - destruct H as [H | H]; [apply N.eqb_neq in E; contradiction |].
    destruct (IH vid H) as [w [H1 [H2 H3]]]. exists w. split; [exact H1 |]. split; [exact H2 | right; exact H3].
Qed.

Definition vertex_from (vs : list (N * (string * field_node))) (v : ir_vertex) : Prop :=
  (exists pre node, In (v_vid v, (pre, node)) vs /\ v_type v = post_of pre node) /\ vf_wf (v_filters v).

Lemma make_vertices_ok : forall S cs path all vs tags acc errors,
  tags_ok tags path -> (forall vid, props_ok cs vid) ->
  NoDup (keys vs) -> (forall k, In k (keys vs) -> ~ In k (map v_vid acc)) ->
  (forall kv, In kv vs -> In kv all) -> Forall (vertex_from all) acc ->
  exists tags' acc' errors', make_vertices S cs tags path vs acc errors = Ok (tags', acc', errors') /\
     tags_ok tags' path /\ Forall (vertex_from all) acc' /\
     (errors' = [] -> errors = [] /\ map v_vid acc' = map v_vid acc ++ keys vs).
Proof.
  intros S cs path all vs. induction vs as [| [vid [pre node]] r IH];
    intros tags acc errors Ht Hp Hnd Hfresh Hsub Hacc.
  - do 3 eexists; split; [reflexivity |]. split; [exact Ht |]. split; [exact Hacc |].
    intros ->. split; [reflexivity |]. cbn. rewrite app_nil_r. reflexivity.
  - cbn [make_vertices].
    destruct (make_vertex_ok S cs tags path vid pre node Ht (Hp vid)) as [t1 [res [Hm [Ht1 Hres]]]].
    rewrite Hm. cbn [bind snd fst].
    inversion Hnd as [| x xs Hx Hxs]; subst.
    destruct res as [e | v].
    + destruct (IH t1 acc (errors ++ e) Ht1 Hp Hxs) as [t2 [a2 [e2 [H2 [Ht2 [Ha2 He2]]]]]].
      * intros k Hk. apply Hfresh. right; exact Hk.
      * intros kv Hkv. apply Hsub. right; exact Hkv.
      * exact Hacc.
      * do 3 eexists; split; [exact H2 |]. split; [exact Ht2 |]. split; [exact Ha2 |].
        intros He. destruct (He2 He) as [Hee _]. destruct errors; destruct e; try discriminate Hee.
        (* e = [] is impossible to exclude syntactically; but then make_vertex returned inl [] *)
        exfalso. clear - Hm. unfold make_vertex in Hm.
        destruct (path_is_component_root path vid); cbn [bind] in Hm; [| discriminate Hm].
        destruct (fn_coerced_to node) as [c |].
        -- destruct (find_type c (s_vts S)).
           ++ destruct (vertex_filters_props cs tags path vid _ [] _) as [[[tt ff] ee] |]; cbn [bind] in Hm;
                [| discriminate Hm]. destruct ee; inversion Hm.
           ++ inversion Hm as [[H1 H2]]. apply app_eq_nil in H2. destruct H2 as [_ H2]. discriminate H2.
        -- destruct (vertex_filters_props cs tags path vid _ [] _) as [[[tt ff] ee] |]; cbn [bind] in Hm;
             [| discriminate Hm]. destruct ee; inversion Hm.
    + destruct (Hres v eq_refl) as [Hvid [Hty Hvwf]].
      rewrite find_vertex_none.
      2:{ rewrite Hvid. apply Hfresh. left; reflexivity. }
      destruct (IH t1 (acc ++ [v]) errors Ht1 Hp Hxs) as [t2 [a2 [e2 [H2 [Ht2 [Ha2 He2]]]]]].
      * intros k Hk Hin. rewrite map_app in Hin. apply in_app_or in Hin. destruct Hin as [Hin | [Hin | []]].
        -- exact (Hfresh k (or_intror Hk) Hin).
        -- rewrite Hvid in Hin. subst k. exact (Hx Hk).
      * intros kv Hkv. apply Hsub. right; exact Hkv.
      * apply Forall_app; split; [exact Hacc |]. constructor; [| constructor].
        split; [| exact Hvwf]. exists pre, node. rewrite Hvid. split; [apply Hsub; left; reflexivity | exact Hty].
      * do 3 eexists; split; [exact H2 |]. split; [exact Ht2 |]. split; [exact Ha2 |].
        intros He. destruct (He2 He) as [Hee Hmap]. split; [exact Hee |].
        rewrite Hmap, map_app. cbn [map keys fst]. rewrite Hvid, <- app_assoc. reflexivity.
Qed.

Lemma make_edges_ok : forall S ir_vertices es acc errors,
  origins_ok S ->
  (forall eid from to conn, In (eid, (from, to, conn)) es ->
     exists v, find_vertex ir_vertices from = Some v /\ edge_ok S (v_type v) conn) ->
  exists r, make_edges S ir_vertices es acc errors = Ok r.
Proof.
  intros S ir_vertices es. induction es as [| [eid [[from to] conn]] r IH]; intros acc errors Ho H.
  - eexists; reflexivity.
  - cbn [make_edges].
    destruct (H eid from to conn (or_introl eq_refl)) as [v [Hv [fd [Hfd [Hargs [Hdup Henum]]]]]].
    rewrite Hv. rewrite (get_edge_definition_ok _ _ _ _ Hfd). cbn [bind].
    destruct (make_edge_parameters_total fd (fc_args conn) Hargs Hdup Henum) as [pr Hpr].
    rewrite Hpr. cbn [bind].
    assert (Hrest : forall acc errors, exists r', make_edges S ir_vertices r acc errors = Ok r').
    { intros a e. apply IH; [exact Ho |]. intros e1 f1 t1 c1 Hin. apply (H e1 f1 t1 c1). right; exact Hin. }
    destruct (fc_recurse conn) as [depth |].
    + destruct (get_recurse_implicit_coercion_total S v fd Ho) as [c Hc].
      { unfold s_field in Hfd |- *. destruct (find_type (v_type v) (s_vts S)); [| discriminate Hfd].
        destruct (find_field_name _ _ _ Hfd) as [Hn _]. rewrite Hn. rewrite Hfd. discriminate. }
      rewrite Hc. cbn [bind]. destruct c as [e | co]; cbn [bind fst snd]; destruct pr; apply Hrest.
    + cbn [bind fst snd]. destruct pr; apply Hrest.
Qed.

(* ================================================================== C. the construction core *)
(* the loop of fill_in_vertex_data over `current_field.connections` (a verbatim copy of the inner fix
   of Front.v, so that it can be named) *)
Definition fill_loop (S : schema) (current_vid : N) (post_coercion_type : string) (defined_fields : list fld) :=
  fix loop (l : list (field_conn * field_node)) (cs : cstate) (fs : fstate) (errors : errs)
             : res (cstate * fstate * errs) :=
             match l with
             | [] => Ok (cs, fs, errors)
             | (connection, subfield) :: rest =>
                 do nt <- get_field_name_and_type defined_fields subfield;
                 let '(subfield_name, subfield_pre, subfield_post, subfield_raw_type) := nt in
                 if has_type subfield_post (s_vts S) then
                   (* processing an edge *)
                   let next_vid := fs_vid fs in
                   let next_eid := fs_eid fs in
                   let fs := mkFS (next_vid + 1) (next_eid + 1) (fs_path fs) (fs_out fs) (fs_tags fs) in
                   do o <- oh_begin_nested_scope (fs_out fs) next_vid (fn_alias subfield);
                   let fs := set_out fs o in
                   do step <-
                     match fc_fold connection with
                     | Some fold_group =>
                         let errors :=
                           errors
                           ++ (if fc_optional connection
                               then [FEUnsupportedDirectiveOnFoldedEdge (fn_name subfield) "@optional"] else [])
                           ++ (match fc_recurse connection with
                               | Some _ => [FEUnsupportedDirectiveOnFoldedEdge (fn_name subfield) "@recurse"]
                               | None => [] end) in
                         do edge_definition <- get_edge_definition S post_coercion_type (fc_name connection);
                         do ep <- make_edge_parameters edge_definition (fc_args connection);
                         match ep with
                         | inr edge_parameters =>
                             do mf <- make_fold
                                        (fun fs' =>
                                           make_query_component S
                                             (fun cs'' fs'' =>
                                                fill_in_vertex_data S cs'' fs'' next_vid subfield_pre subfield_post subfield)
                                             fs' next_vid)
                                        fs fold_group next_eid (f_name edge_definition) edge_parameters
                                        current_vid next_vid subfield;
                             match snd mf with
                             | inr fold =>
                                 Ok (mkCS (cs_vertices cs) (cs_edges cs) (nmap_insert next_eid fold (cs_folds cs))
                                          (cs_prop_names cs) (cs_props cs), fst mf, errors)
                             | inl e => Ok (cs, fst mf, errors ++ e)
                             end
                         | inl e => Ok (cs, fs, errors ++ e)
                         end
                     | None =>
                         match nmap_insert_new next_eid (current_vid, next_vid, connection) (cs_edges cs) with
                         | None => Panic site_edges_insert
                         | Some edges =>
                             let cs := mkCS (cs_vertices cs) edges (cs_folds cs) (cs_prop_names cs) (cs_props cs) in
                             do x <- fill_in_vertex_data S cs fs next_vid subfield_pre subfield_post subfield;
                             let '(cs', fs', e) := x in
                             Ok (cs', fs', errors ++ e)
                         end
                     end;
                   let '(cs, fs, errors) := step in
                   do o <- oh_end_nested_scope (fs_out fs) next_vid;
                   loop rest cs (set_out fs o) errors
                 else if (builtin_scalar subfield_post || mem subfield_post (s_scalars S)
                          || String.eqb subfield_name TYPENAME)%bool then
                   (* processing a property *)
                   let errors :=
                     errors
                     ++ (match fc_fold connection with
                         | Some _ => [FEUnsupportedDirectiveOnProperty "@fold" (fn_name subfield)] | None => [] end)
                     ++ (if fc_optional connection
                         then [FEUnsupportedDirectiveOnProperty "@optional" (fn_name subfield)] else [])
                     ++ (match fc_recurse connection with
                         | Some _ => [FEUnsupportedDirectiveOnProperty "@recurse" (fn_name subfield)] | None => [] end) in
                   let key := (current_vid, subfield_name) in
                   do cs <-
                     match lookup_prop key (cs_props cs) with
                     | Some (prior_name, prior_type, _) =>
                         if negb (String.eqb subfield_name prior_name) then Panic site_prop_name_assert
                         else if negb (ty_eqb subfield_raw_type prior_type) then Panic site_prop_type_assert
                         else Ok (mkCS (cs_vertices cs) (cs_edges cs) (cs_folds cs) (cs_prop_names cs)
                                       (update_prop key subfield (cs_props cs)))
                     | None =>
                         Ok (mkCS (cs_vertices cs) (cs_edges cs) (cs_folds cs)
                                  (push_prop_name current_vid subfield_name (cs_prop_names cs))
                                  (cs_props cs ++ [(key, (subfield_name, subfield_raw_type, [subfield]))]))
                     end;
                   let field_ref := FRContext (mkCF current_vid (fn_name subfield) subfield_raw_type) in
                   do o <- prop_outputs (fs_out fs) field_ref subfield (fn_outputs subfield);
                   let fs := set_out fs o in
                   let t := prop_tags (fs_tags fs) (fs_path fs) field_ref subfield (fn_tags subfield) errors in
                   loop rest cs (set_tags fs (fst t)) (snd t)
                 else Panic site_neither
             end.

Lemma fill_unfold : forall S cs fs current_vid pre post name alias co f o t connections tg,
  fill_in_vertex_data S cs fs current_vid pre post (mkFN name alias co f o t connections tg) =
  match nmap_insert_new current_vid (pre, mkFN name alias co f o t connections tg) (cs_vertices cs) with
  | None => Panic site_vertices_insert
  | Some vertices =>
      let cs := mkCS vertices (cs_edges cs) (cs_folds cs) (cs_prop_names cs) (cs_props cs) in
      do defined_fields <- get_vertex_field_definitions S post;
      fill_loop S current_vid post defined_fields connections cs fs []
  end.
Proof. intros. reflexivity. Qed.

(* the two halves of one loop iteration, named *)
Definition edge_step (S : schema) (current_vid : N) (post_coercion_type : string)
           (connection : field_conn) (subfield : field_node) (next_vid next_eid : N)
           (subfield_pre subfield_post : string) (cs : cstate) (fs : fstate) (errors : errs)
  : res (cstate * fstate * errs) :=
  match fc_fold connection with
  | Some fold_group =>
      let errors :=
        errors
        ++ (if fc_optional connection
            then [FEUnsupportedDirectiveOnFoldedEdge (fn_name subfield) "@optional"] else [])
        ++ (match fc_recurse connection with
            | Some _ => [FEUnsupportedDirectiveOnFoldedEdge (fn_name subfield) "@recurse"]
            | None => [] end) in
      do edge_definition <- get_edge_definition S post_coercion_type (fc_name connection);
      do ep <- make_edge_parameters edge_definition (fc_args connection);
      match ep with
      | inr edge_parameters =>
          do mf <- make_fold
                     (fun fs' =>
                        make_query_component S
                          (fun cs'' fs'' =>
                             fill_in_vertex_data S cs'' fs'' next_vid subfield_pre subfield_post subfield)
                          fs' next_vid)
                     fs fold_group next_eid (SchemaAst.f_name edge_definition) edge_parameters
                     current_vid next_vid subfield;
          match snd mf with
          | inr fold =>
              Ok (mkCS (cs_vertices cs) (cs_edges cs) (nmap_insert next_eid fold (cs_folds cs))
                       (cs_prop_names cs) (cs_props cs), fst mf, errors)
          | inl e => Ok (cs, fst mf, errors ++ e)
          end
      | inl e => Ok (cs, fs, errors ++ e)
      end
  | None =>
      match nmap_insert_new next_eid (current_vid, next_vid, connection) (cs_edges cs) with
      | None => Panic site_edges_insert
      | Some edges =>
          let cs := mkCS (cs_vertices cs) edges (cs_folds cs) (cs_prop_names cs) (cs_props cs) in
          do x <- fill_in_vertex_data S cs fs next_vid subfield_pre subfield_post subfield;
          let '(cs', fs', e) := x in
          Ok (cs', fs', errors ++ e)
      end
  end.

Definition prop_step (current_vid : N) (connection : field_conn) (subfield : field_node)
           (subfield_name : string) (subfield_raw_type : ty) (cs : cstate) (fs : fstate) (errors : errs)
  : res (cstate * fstate * errs) :=
  let errors :=
    errors
    ++ (match fc_fold connection with
        | Some _ => [FEUnsupportedDirectiveOnProperty "@fold" (fn_name subfield)] | None => [] end)
    ++ (if fc_optional connection
        then [FEUnsupportedDirectiveOnProperty "@optional" (fn_name subfield)] else [])
    ++ (match fc_recurse connection with
        | Some _ => [FEUnsupportedDirectiveOnProperty "@recurse" (fn_name subfield)] | None => [] end) in
  let key := (current_vid, subfield_name) in
  do cs <-
    match lookup_prop key (cs_props cs) with
    | Some (prior_name, prior_type, _) =>
        if negb (String.eqb subfield_name prior_name) then Panic site_prop_name_assert
        else if negb (ty_eqb subfield_raw_type prior_type) then Panic site_prop_type_assert
        else Ok (mkCS (cs_vertices cs) (cs_edges cs) (cs_folds cs) (cs_prop_names cs)
                      (update_prop key subfield (cs_props cs)))
    | None =>
        Ok (mkCS (cs_vertices cs) (cs_edges cs) (cs_folds cs)
                 (push_prop_name current_vid subfield_name (cs_prop_names cs))
                 (cs_props cs ++ [(key, (subfield_name, subfield_raw_type, [subfield]))]))
    end;
  let field_ref := FRContext (mkCF current_vid (fn_name subfield) subfield_raw_type) in
  do o <- prop_outputs (fs_out fs) field_ref subfield (fn_outputs subfield);
  let fs := set_out fs o in
  let t := prop_tags (fs_tags fs) (fs_path fs) field_ref subfield (fn_tags subfield) errors in
  Ok (cs, set_tags fs (fst t), snd t).

Lemma fill_loop_nil : forall S current_vid post defined_fields cs fs errors,
  fill_loop S current_vid post defined_fields [] cs fs errors = Ok (cs, fs, errors).
Proof. reflexivity. Qed.

Lemma fill_loop_cons : forall S current_vid post defined_fields connection subfield rest cs fs errors,
  fill_loop S current_vid post defined_fields ((connection, subfield) :: rest) cs fs errors =
  do nt <- get_field_name_and_type defined_fields subfield;
  let '(subfield_name, subfield_pre, subfield_post, subfield_raw_type) := nt in
  if has_type subfield_post (s_vts S) then
    let next_vid := fs_vid fs in
    let next_eid := fs_eid fs in
    let fs := mkFS (next_vid + 1) (next_eid + 1) (fs_path fs) (fs_out fs) (fs_tags fs) in
    do o <- oh_begin_nested_scope (fs_out fs) next_vid (fn_alias subfield);
    let fs := set_out fs o in
    do step <- edge_step S current_vid post connection subfield next_vid next_eid subfield_pre subfield_post
                         cs fs errors;
    let '(cs, fs, errors) := step in
    do o <- oh_end_nested_scope (fs_out fs) next_vid;
    fill_loop S current_vid post defined_fields rest cs (set_out fs o) errors
  else if (builtin_scalar subfield_post || mem subfield_post (s_scalars S)
           || String.eqb subfield_name TYPENAME)%bool then
    do step <- prop_step current_vid connection subfield subfield_name subfield_raw_type cs fs errors;
    let '(cs, fs, errors) := step in
    fill_loop S current_vid post defined_fields rest cs fs errors
  else Panic site_neither.
Proof.
  intros. unfold fill_loop at 1.
  destruct (get_field_name_and_type defined_fields subfield) as [[[[n p] q] t] | s] eqn:Hg.
  2:{ reflexivity. }
  cbn [bind].
  destruct (has_type q (s_vts S)); [reflexivity |].
  destruct (builtin_scalar q || mem q (s_scalars S) || String.eqb n TYPENAME)%bool; [| reflexivity].
  unfold prop_step.
  destruct (lookup_prop (current_vid, n) (cs_props cs)) as [[[pn pt] pf] |].
  - destruct (negb (String.eqb n pn)); [reflexivity |].
    destruct (negb (ty_eqb t pt)); [reflexivity |]. cbn [bind].
    destruct (prop_outputs _ _ _ _); reflexivity.
  - cbn [bind]. destruct (prop_outputs _ _ _ _); reflexivity.
Qed.

(* ---------------- what validation established ---------------- *)
Definition child_valid (S : schema) (ty : string) (cn : field_conn * field_node) : Prop :=
  exists p p', validate_field S ty p (fst cn) (snd cn) = Ok (inr p').

Lemma validate_children_inr : forall S ty l path p',
  validate_children S ty l path = Ok (inr p') -> Forall (child_valid S ty) l.
Proof.
  intros S ty l. induction l as [| [c n] r IH]; intros path p' H; [constructor |].
  cbn [validate_children] in H.
  destruct (validate_field S ty path c n) as [[e | p1] | s] eqn:Hv; cbn [bind] in H; try discriminate H.
  constructor; [exists path, p1; exact Hv | eapply IH; exact H].
Qed.

Lemma validate_inv : forall S parent path conn name alias co f o t conns tg p',
  validate_field S parent path conn (mkFN name alias co f o t conns tg) = Ok (inr p') ->
  fc_name conn = name /\
  (String.eqb name TYPENAME = true -> conns = []) /\
  (String.eqb name TYPENAME = false ->
     exists fd, s_field S parent name = Some fd /\
       (forall c, co = Some c -> has_type (gbase (SchemaAst.f_ty fd)) (s_vts S) = true /\
                                 has_type c (s_vts S) = true) /\
       Forall (child_valid S (match co with Some c => c | None => gbase (SchemaAst.f_ty fd) end)) conns).
Proof.
  intros S parent path conn name alias co f o t conns tg p' H. cbn [validate_field] in H.
  destruct (negb (String.eqb (fc_name conn) name)) eqn:Hn; [discriminate H |].
  apply Bool.negb_false_iff in Hn. apply String.eqb_eq in Hn.
  destruct (negb (ostr_eqb (fc_alias conn) alias)); [discriminate H |].
  split; [exact Hn |].
  destruct (String.eqb name TYPENAME) eqn:Ht.
  - split; [| intros E; discriminate E]. intros _. destruct conns; [reflexivity | discriminate H].
  - split; [intros E; discriminate E |]. intros _.
    destruct (s_field S parent name) as [fd |]; [| discriminate H].
    exists fd. split; [reflexivity |].
    destruct co as [c |].
    + destruct (find_type (gbase (SchemaAst.f_ty fd)) (s_vts S)) as [pre_def |] eqn:Hpre; [| discriminate H].
      destruct (t_kind pre_def); [discriminate H |].
      destruct (find_type c (s_vts S)) as [post_def |] eqn:Hpost; [| discriminate H].
      destruct (negb (mem (gbase (SchemaAst.f_ty fd)) (t_impl post_def))); [discriminate H |].
      cbn [bind] in H. split.
      * intros c' E. inversion E; subst c'. unfold has_type. rewrite Hpre, Hpost. split; reflexivity.
      * match type of H with
        | context [bind (?loop conns ?p) _] =>
            change (loop conns p) with (validate_children S c conns p) in H
        end.
        destruct (validate_children S c conns ((path ++ [name]) ++ [c])) as [[e | p1] | s] eqn:Hc;
          cbn [bind] in H; try discriminate H.
        eapply validate_children_inr; exact Hc.
    + cbn [bind] in H. split; [intros c' E; discriminate E |].
      match type of H with
      | context [bind (?loop conns ?p) _] =>
          change (loop conns p) with (validate_children S (gbase (SchemaAst.f_ty fd)) conns p) in H
      end.
      destruct (validate_children S (gbase (SchemaAst.f_ty fd)) conns (path ++ [name])) as [[e | p1] | s] eqn:Hc;
        cbn [bind] in H; try discriminate H.
      eapply validate_children_inr; exact Hc.
Qed.

(* ---------------- the class conditions at one site, as propositions ---------------- *)
Definition site_clean (S : schema) (st : site) : Prop :=
  (forall a, In a (fc_args (st_conn st)) -> enum_free (snd a) = true) /\
  (forall g, fc_fold (st_conn st) = Some (mkFG (Some g)) -> tg_retransform g = None /\ tg_outputs g = []) /\
  (forall fd, st_def st = Some fd ->
      has_dup (map a_name (SchemaAst.f_args fd)) = false /\
      (has_var_filter is_ordering (fn_filters (st_node st)) = true ->
         orderable_base (gbase (SchemaAst.f_ty fd)) = true) /\
      (has_var_filter is_bulk (fn_filters (st_node st)) = true -> (gdepth (SchemaAst.f_ty fd) < 30)%nat)).

Lemma child_sites_cons : forall S ty folds c n r,
  child_sites S ty folds ((c, n) :: r) = sites S ty folds c n ++ child_sites S ty folds r.
Proof. reflexivity. Qed.

Lemma filters_ok_of_clean : forall t fs,
  (has_var_filter is_ordering fs = true -> ty_orderable t = true) ->
  (has_var_filter is_bulk fs = true -> Nat.eqb (ty_depth t) 30 = false) ->
  Forall (filter_ok t) fs.
Proof.
  intros t fs. induction fs as [| f r IH]; intros Ho Hb; [constructor |].
  constructor.
  - destruct f as [u | b [v | tg]]; cbn [filter_ok]; auto. split; intros Hp.
    + apply Ho. cbn [has_var_filter existsb]. rewrite Hp. reflexivity.
    + apply Hb. cbn [has_var_filter existsb]. rewrite Hp. reflexivity.
  - apply IH; intros Hp.
    + apply Ho. cbn [has_var_filter existsb]. unfold has_var_filter in Hp. rewrite Hp. apply Bool.orb_true_r.
    + apply Hb. cbn [has_var_filter existsb]. unfold has_var_filter in Hp. rewrite Hp. apply Bool.orb_true_r.
Qed.

Lemma string_type_filters_ok : forall fs, Forall (filter_ok string_type) fs.
Proof.
  intros fs. apply filters_ok_of_clean; intros _; reflexivity.
Qed.
Lemma count_type_filters_ok : forall fs, Forall (filter_ok count_type) fs.
Proof.
  intros fs. apply filters_ok_of_clean; intros _; reflexivity.
Qed.
Lemma string_type_wf : wf_ty string_type = true.
Proof. reflexivity. Qed.
Lemma count_type_wf : wf_ty count_type = true.
Proof. reflexivity. Qed.

(* the (name, type) fill_in_vertex_data records for a property named `name` of a vertex of type `post` *)
Definition prop_sig (S : schema) (post name : string) : option (string * ty) :=
  if String.eqb name TYPENAME then Some (TYPENAME, string_type)
  else match s_field S post name with
       | Some fd => match from_type (SchemaAst.f_ty fd) with
                    | Ok t => Some (SchemaAst.f_name fd, t)
                    | Panic _ => None
                    end
       | None => None
       end.

Lemma gfnt_ok : forall S post t c subfield,
  schema_ok S -> find_type post (s_vts S) = Some t -> child_valid S post (c, subfield) ->
  exists n pre post' ty,
    get_field_name_and_type (t_fields t) subfield = Ok (n, pre, post', ty) /\
    n = fn_name subfield /\ fc_name c = fn_name subfield /\
    prop_sig S post (fn_name subfield) = Some (n, ty) /\ wf_ty ty = true /\
    (String.eqb (fn_name subfield) TYPENAME = true -> post' = TYPENAME /\ ty = string_type) /\
    (String.eqb (fn_name subfield) TYPENAME = false ->
       exists fd, s_field S post (fn_name subfield) = Some fd /\ In fd (t_fields t) /\
                  pre = gbase (SchemaAst.f_ty fd) /\
                  post' = post_of pre subfield /\ tbase ty = gbase (SchemaAst.f_ty fd) /\
                  ty_depth ty = gdepth (SchemaAst.f_ty fd) /\
                  (forall co, fn_coerced_to subfield = Some co ->
                     has_type (gbase (SchemaAst.f_ty fd)) (s_vts S) = true /\ has_type co (s_vts S) = true) /\
                  Forall (child_valid S post') (fn_connections subfield)).
Proof.
  intros S post t c subfield HS Hft [p [p' Hv]]. cbn [fst snd] in Hv.
  destruct subfield as [name alias co f o tt conns tg].
  destruct (validate_inv _ _ _ _ _ _ _ _ _ _ _ _ _ Hv) as [Hname [Htn Hnt]].
  unfold get_field_name_and_type, prop_sig. cbn [fn_name fn_coerced_to fn_connections].
  destruct (String.eqb name TYPENAME) eqn:Ht.
  - do 4 eexists. split; [reflexivity |].
    pose proof Ht as Ht'. apply String.eqb_eq in Ht'.
    repeat split; try reflexivity; try exact Hname; try (symmetry; exact Ht'); try (intros E; discriminate E).
  - destruct (Hnt eq_refl) as [fd [Hfd [Hco Hkids]]].
    unfold s_field in Hfd |- *. rewrite Hft in Hfd |- *. rewrite Hfd.
    destruct (find_field_name _ _ _ Hfd) as [Hfn Hin].
    destruct (so_fields S HS post t fd Hft Hin) as [_ [[ty Hty] _]].
    rewrite Hty. cbn [bind].
    destruct (from_type_ok _ _ Hty) as [W [Hb Hd]].
    do 4 eexists. split; [reflexivity |].
    split; [exact Hfn |]. split; [exact Hname |]. split; [reflexivity |]. split; [exact W |].
    split; [intros E; discriminate E |]. intros _.
    exists fd. split; [reflexivity |]. split; [exact Hin |]. split; [reflexivity |].
    split; [unfold post_of; cbn [fn_coerced_to]; destruct co; reflexivity |].
    split; [exact Hb |]. split; [exact Hd |].
    split; [intros c0 E; apply (Hco c0 E) |].
    destruct co; exact Hkids.
Qed.

(* ---------------- well-formed variable types and vertex coverage of finished components ---------------- *)
Definition fold_wf (f : raw_fold) : Prop :=
  match f with RFold h c => tys_wf (pfilter_vars (fo_post h)) /\ comp_vars_wf c end.
Definition comp_vids (c : raw_comp) : list N := map v_vid (collect_ir_vertices c).
Definition covered (cs : cstate) (v : N) : Prop :=
  In v (keys (cs_vertices cs)) \/ exists eid f, In (eid, f) (cs_folds cs) /\ In v (comp_vids (rf_comp f)).
Definition glob_vals (fs : fstate) : list fieldref := frame_vals (oh_global (fs_out fs)).

(* ---------------- invariants of the threaded state ---------------- *)
Record fs_inv (fs : fstate) : Prop := mkFI {
  fi_tags : tags_ok (fs_tags fs) (fs_path fs);
  fi_out : oh_inv (fs_out fs) (fs_vid fs) }.

Record cs_inv (S : schema) (cs : cstate) (fs : fstate) : Prop := mkCI {
  ci_vfresh : forall k, In k (keys (cs_vertices cs)) -> k < fs_vid fs;
  ci_vnodup : NoDup (keys (cs_vertices cs));
  ci_efresh : forall k, In k (keys (cs_edges cs)) -> k < fs_eid fs;
  ci_edges : forall eid from to conn, In (eid, (from, to, conn)) (cs_edges cs) ->
      exists pre node, In (from, (pre, node)) (cs_vertices cs) /\ edge_ok S (post_of pre node) conn;
  ci_props : forall vid, props_ok cs vid;
  ci_sig : forall vid name n ty fields, In ((vid, name), (n, ty, fields)) (cs_props cs) ->
      exists pre node, In (vid, (pre, node)) (cs_vertices cs) /\
                       prop_sig S (post_of pre node) name = Some (n, ty);
  ci_folds : forall eid f, In (eid, f) (cs_folds cs) -> eid < fs_eid fs /\ fold_wf f }.

(* the outputs registered in a component's frame belong to vertices of that component *)
Definition frame_ok (top : outmap) (vs : list N) : Prop :=
  forall f, In f (frame_vals top) -> exists c, f = FRContext c /\ In (cf_vid c) vs.

Lemma nodup_keys_inj : forall V (m : list (N * V)) k v1 v2,
  NoDup (keys m) -> In (k, v1) m -> In (k, v2) m -> v1 = v2.
Proof.
  intros V m k v1 v2. induction m as [| [k' v'] r IH]; intros Hnd H1 H2; [destruct H1 |].
  inversion Hnd as [| x xs Hx Hxs]; subst.
  destruct H1 as [E1 | H1]; destruct H2 as [E2 | H2].
  - congruence.
  - inversion E1; subst. exfalso. apply Hx. apply in_keys. exists v2; exact H2.
  - inversion E2; subst. exfalso. apply Hx. apply in_keys. exists v1; exact H1.
  - apply IH; assumption.
Qed.

(* ---------------- property bookkeeping ---------------- *)
Definition pkey_eqb (a b : N * string) : bool := (N.eqb (fst a) (fst b) && String.eqb (snd a) (snd b))%bool.
Lemma pkey_eqb_eq : forall a b, pkey_eqb a b = true <-> a = b.
Proof.
  intros [a1 a2] [b1 b2]. unfold pkey_eqb. cbn [fst snd]. rewrite Bool.andb_true_iff, N.eqb_eq, String.eqb_eq.
  split; [intros [-> ->]; reflexivity | intros E; inversion E; auto].
Qed.

Lemma lookup_prop_some : forall k l v, lookup_prop k l = Some v -> In (k, v) l.
Proof.
  intros k l v. induction l as [| [k' v'] r IH]; intros H; [discriminate H |].
  cbn [lookup_prop] in H. fold (pkey_eqb k k') in H. destruct (pkey_eqb k k') eqn:E.
  - apply pkey_eqb_eq in E. subst k'. inversion H; subst. left; reflexivity.
  - right. apply IH; exact H.
Qed.
Lemma lookup_prop_none : forall k l, lookup_prop k l = None -> forall v, ~ In (k, v) l.
Proof.
  intros k l. induction l as [| [k' v'] r IH]; intros H v Hin; [destruct Hin |].
  cbn [lookup_prop] in H. fold (pkey_eqb k k') in H. destruct (pkey_eqb k k') eqn:E; [discriminate H |].
  destruct Hin as [Hin | Hin].
  - inversion Hin; subst. assert (pkey_eqb k k = true) by (apply pkey_eqb_eq; reflexivity). congruence.
  - exact (IH H v Hin).
Qed.
Lemma lookup_prop_app : forall k l1 l2,
  lookup_prop k (l1 ++ l2) = match lookup_prop k l1 with Some v => Some v | None => lookup_prop k l2 end.
Proof.
  intros k l1 l2. induction l1 as [| [k' v'] r IH]; [reflexivity |].
  cbn [app lookup_prop]. destruct (N.eqb (fst k) (fst k') && String.eqb (snd k) (snd k'))%bool; [reflexivity | exact IH].
Qed.
Lemma lookup_update_prop : forall k node l k2,
  lookup_prop k2 (update_prop k node l) =
  match lookup_prop k2 l with
  | Some (n, t, fields) => if pkey_eqb k k2 then
                             match lookup_prop k l with
                             | Some _ => Some (n, t, fields ++ [node])
                             | None => Some (n, t, fields)
                             end
                           else Some (n, t, fields)
  | None => None
  end.
Proof.
  intros k node l k2. induction l as [| [k' [[n t] fields]] r IH]; [reflexivity |].
  cbn [update_prop lookup_prop]. fold (pkey_eqb k k'). fold (pkey_eqb k2 k').
  destruct (pkey_eqb k k') eqn:E1.
  - apply pkey_eqb_eq in E1. subst k'. cbn [lookup_prop]. fold (pkey_eqb k2 k).
    destruct (pkey_eqb k2 k) eqn:E2.
    + apply pkey_eqb_eq in E2. subst k2.
      assert (pkey_eqb k k = true) by (apply pkey_eqb_eq; reflexivity). rewrite H. reflexivity.
    + destruct (lookup_prop k2 r) as [[[n2 t2] f2] |]; [| reflexivity].
      destruct (pkey_eqb k k2) eqn:E3; [| reflexivity].
      apply pkey_eqb_eq in E3. subst k2.
      assert (pkey_eqb k k = true) by (apply pkey_eqb_eq; reflexivity). congruence.
  - cbn [lookup_prop]. fold (pkey_eqb k2 k').
    destruct (pkey_eqb k2 k') eqn:E2.
    + apply pkey_eqb_eq in E2. subst k2. rewrite E1. reflexivity.
    + exact IH.
Qed.
Lemma in_update_prop : forall k node l x,
  In x (update_prop k node l) ->
  exists fields, In (fst x, (fst (snd x), fields)) l /\
                 (snd (snd x) = fields \/ (fst x = k /\ snd (snd x) = fields ++ [node])).
Proof.
  intros k node l. induction l as [| [k' [[n t] fields]] r IH]; intros x Hx; [destruct Hx |].
  cbn [update_prop] in Hx. fold (pkey_eqb k k') in Hx. destruct (pkey_eqb k k') eqn:E.
  - apply pkey_eqb_eq in E. subst k'. destruct Hx as [<- | Hx].
    + exists fields. cbn. split; [left; reflexivity | right; split; reflexivity].
    + destruct x as [kx [[nx tx] fx]]. exists fx. cbn. split; [right; exact Hx | left; reflexivity].
  - destruct Hx as [<- | Hx].
    + exists fields. cbn. split; [left; reflexivity | left; reflexivity].
    + destruct (IH x Hx) as [fs [H1 H2]]. exists fs. split; [right; exact H1 | exact H2].
Qed.

Lemma lookup_N_push_prop_name : forall vid name l v,
  lookup_N v (push_prop_name vid name l) =
  if N.eqb v vid then Some (match lookup_N vid l with Some ns => ns ++ [name] | None => [name] end)
  else lookup_N v l.
Proof.
  intros vid name l v. induction l as [| [k ns] r IH].
  - cbn. destruct (N.eqb v vid); reflexivity.
  - cbn [push_prop_name]. destruct (N.eqb k vid) eqn:E.
    + apply N.eqb_eq in E. subst k. cbn [lookup_N]. rewrite N.eqb_refl.
      destruct (N.eqb v vid); reflexivity.
    + cbn [lookup_N]. destruct (N.eqb v k) eqn:E2.
      * apply N.eqb_eq in E2. subst k. rewrite E. reflexivity.
      * rewrite IH. destruct (N.eqb v vid) eqn:E3; [| reflexivity].
        apply N.eqb_eq in E3. subst v. rewrite N.eqb_sym in E. rewrite E. reflexivity.
Qed.

(* ---------------- one property ---------------- *)
Lemma prop_outputs_ok : forall subfield c outs o nv init top K,
  oh_inv o nv -> oh_comp_stack o = init ++ [top] -> In (cf_vid c) K ->
  exists o' top', prop_outputs o (FRContext c) subfield outs = Ok o' /\
     oh_inv o' nv /\ oh_comp_stack o' = init ++ [top'] /\ oh_vid_stack o' = oh_vid_stack o /\
     (frame_ok top K -> frame_ok top' K) /\
     (forall f, In f (frame_vals (oh_global o')) -> In f (frame_vals (oh_global o)) \/ f = FRContext c).
Proof.
  intros subfield c outs. induction outs as [| out r IH]; intros o nv init top K Hi Hc HK.
  - exists o, top. split; [reflexivity |]. split; [exact Hi |]. split; [exact Hc |].
    split; [reflexivity |]. split; auto.
  - assert (Hstep : forall o1 name,
               oh_comp_stack o1 = init ++ [omap_push name (FRContext c) top] ->
               oh_vid_stack o1 = oh_vid_stack o -> oh_prefixes o1 = oh_prefixes o ->
               oh_global o1 = omap_push name (FRContext c) (oh_global o) ->
               exists o' top', prop_outputs o1 (FRContext c) subfield r = Ok o' /\
                 oh_inv o' nv /\ oh_comp_stack o' = init ++ [top'] /\ oh_vid_stack o' = oh_vid_stack o /\
                 (frame_ok top K -> frame_ok top' K) /\
                 (forall f, In f (frame_vals (oh_global o')) -> In f (frame_vals (oh_global o)) \/ f = FRContext c)).
    { intros o1 name H1 H2 H3 H4.
      assert (Hi1 : oh_inv o1 nv).
      { destruct Hi as [A B C]. constructor.
        - rewrite H2, H3. exact A.
        - rewrite H3. exact B.
        - rewrite H1. intros E. apply app_eq_nil in E. destruct E as [_ E]. discriminate E. }
      destruct (IH o1 nv init _ K Hi1 H1 HK) as [o' [top' [Ho' [Hi' [Hc' [Hv' [Hf' Hg']]]]]]].
      exists o', top'. split; [exact Ho' |]. split; [exact Hi' |]. split; [exact Hc' |].
      split; [rewrite Hv'; exact H2 |]. split.
      - intros Hf. apply Hf'. intros f Hin. apply omap_push_vals in Hin. destruct Hin as [-> | Hin].
        + exists c. split; [reflexivity | exact HK].
        + apply Hf; exact Hin.
      - intros f Hf. destruct (Hg' f Hf) as [H | H]; [| right; exact H].
        rewrite H4 in H. apply omap_push_vals in H. destruct H as [H | H]; [right; exact H | left; exact H]. }
    cbn [prop_outputs]. destruct out as [explicit |].
    + destruct (oh_register_output_ok o explicit (FRContext c) init top Hc) as [o1 [Ho1 [H1 [H2 [H3 H4]]]]].
      rewrite Ho1. cbn [bind]. eapply Hstep; eassumption.
    + destruct (oh_register_local_ok o (match fn_alias subfield with Some a => a | None => fn_name subfield end)
                  [] (FRContext c) init top nv Hi Hc) as [o1 [name [Ho1 [H1 [H2 [H3 H4]]]]]].
      rewrite Ho1. cbn [bind fst]. eapply Hstep; eassumption.
Qed.

Lemma prop_tags_ok : forall path fr subfield ts tags errors path',
  tags_ok tags path' -> path <> [] ->
  tags_ok (fst (prop_tags tags path fr subfield ts errors)) path' /\
  exists e, snd (prop_tags tags path fr subfield ts errors) = errors ++ e.
Proof.
  intros path fr subfield ts. induction ts as [| t r IH]; intros tags errors path' Ht Hp.
  - cbn. split; [exact Ht | exists []; rewrite app_nil_r; reflexivity].
  - cbn [prop_tags].
    set (nm := match t with Some n => n | None => match fn_alias subfield with Some a => a | None => fn_name subfield end end).
    pose proof (th_register_tag_ok tags nm fr path path' Ht Hp) as Ht1.
    destruct (IH (fst (th_register_tag tags nm fr path))
                 (if snd (th_register_tag tags nm fr path) then errors
                  else errors ++ [FEMultipleTagsWithSameName nm]) path' Ht1 Hp) as [H1 [e He]].
    split; [exact H1 |]. rewrite He.
    destruct (snd (th_register_tag tags nm fr path)).
    + exists e; reflexivity.
    + exists ([FEMultipleTagsWithSameName nm] ++ e). rewrite app_assoc. reflexivity.
Qed.

Lemma ty_eqb_refl : forall t, ty_eqb t t = true.
Proof. intros t. unfold ty_eqb. rewrite String.eqb_refl, N.eqb_refl. reflexivity. Qed.

Lemma prop_step_ok : forall S cs fs current_vid pre node connection subfield ty errors init top,
  fs_inv fs -> cs_inv S cs fs ->
  In (current_vid, (pre, node)) (cs_vertices cs) ->
  prop_sig S (post_of pre node) (fn_name subfield) = Some (fn_name subfield, ty) ->
  wf_ty ty = true -> Forall (filter_ok ty) (fn_filters subfield) ->
  oh_comp_stack (fs_out fs) = init ++ [top] ->
  exists cs' fs' errs',
    prop_step current_vid connection subfield (fn_name subfield) ty cs fs errors = Ok (cs', fs', errs') /\
    fs_inv fs' /\ cs_inv S cs' fs' /\
    fs_vid fs' = fs_vid fs /\ fs_eid fs' = fs_eid fs /\ fs_path fs' = fs_path fs /\
    oh_vid_stack (fs_out fs') = oh_vid_stack (fs_out fs) /\
    cs_vertices cs' = cs_vertices cs /\ cs_edges cs' = cs_edges cs /\ cs_folds cs' = cs_folds cs /\
    (exists top', oh_comp_stack (fs_out fs') = init ++ [top'] /\
                  (frame_ok top (keys (cs_vertices cs)) -> frame_ok top' (keys (cs_vertices cs)))) /\
    (forall f, In f (glob_vals fs') -> In f (glob_vals fs) \/ defined_at f = current_vid) /\
    (exists e, errs' = errors ++ e).
Proof.
  intros S cs fs vid pre node connection subfield ty errors init top [Htags Hout] Hcs Hin Hsig W Hfok Hcomp.
  unfold prop_step.
  set (errors1 := errors ++ _ ++ _ ++ _).
  assert (Herr1 : exists e, errors1 = errors ++ e) by (eexists; reflexivity).
  clearbody errors1.
  (* the property map *)
  assert (Hcs1 : exists cs1,
      match lookup_prop (vid, fn_name subfield) (cs_props cs) with
      | Some (prior_name, prior_type, _) =>
          if negb (String.eqb (fn_name subfield) prior_name) then Panic site_prop_name_assert
          else if negb (ty_eqb ty prior_type) then Panic site_prop_type_assert
          else Ok (mkCS (cs_vertices cs) (cs_edges cs) (cs_folds cs) (cs_prop_names cs)
                        (update_prop (vid, fn_name subfield) subfield (cs_props cs)))
      | None =>
          Ok (mkCS (cs_vertices cs) (cs_edges cs) (cs_folds cs)
                   (push_prop_name vid (fn_name subfield) (cs_prop_names cs))
                   (cs_props cs ++ [((vid, fn_name subfield), (fn_name subfield, ty, [subfield]))]))
      end = Ok cs1 /\ cs_inv S cs1 fs /\ cs_vertices cs1 = cs_vertices cs /\ cs_edges cs1 = cs_edges cs /\
            cs_folds cs1 = cs_folds cs).
  { destruct Hcs as [C1 C2 C3 C4 C5 C6 C7].
    destruct (lookup_prop (vid, fn_name subfield) (cs_props cs)) as [[[pn pt] pf] |] eqn:Hl.
    - pose proof (lookup_prop_some _ _ _ Hl) as Hinp.
      destruct (C6 _ _ _ _ _ Hinp) as [pre' [node' [Hin' Hsig']]].
      pose proof (nodup_keys_inj _ _ _ _ _ C2 Hin Hin') as E. inversion E; subst pre' node'.
      rewrite Hsig in Hsig'. inversion Hsig'; subst pn pt.
      rewrite String.eqb_refl, ty_eqb_refl. cbn [negb].
      eexists; split; [reflexivity |]. split; [| repeat split; reflexivity].
      constructor; cbn [cs_vertices cs_edges cs_prop_names cs_props cs_folds]; auto.
      + (* props_ok *)
        unfold props_ok. cbn [cs_props cs_prop_names]. intros v names name Hnames Hname.
        destruct (C5 v names name Hnames Hname) as [n [t [fields [Hlk [Wt Hf]]]]].
        rewrite lookup_update_prop, Hlk, Hl.
        destruct (pkey_eqb (vid, fn_name subfield) (v, name)) eqn:Ek.
        * apply pkey_eqb_eq in Ek. inversion Ek; subst v name.
          rewrite Hl in Hlk. inversion Hlk; subst n t fields.
          do 3 eexists; split; [reflexivity |]. split; [exact Wt |].
          apply Forall_app; split; [exact Hf | constructor; [exact Hfok | constructor]].
        * do 3 eexists; split; [reflexivity |]. split; [exact Wt | exact Hf].
      + (* ci_sig *)
        intros v name n t fields Hx.
        destruct (in_update_prop _ _ _ _ Hx) as [fs0 [Hin0 _]]. cbn [fst snd] in Hin0.
        exact (C6 _ _ _ _ _ Hin0).
    - eexists; split; [reflexivity |]. split; [| repeat split; reflexivity].
      constructor; cbn [cs_vertices cs_edges cs_prop_names cs_props cs_folds]; auto.
      + unfold props_ok. cbn [cs_props cs_prop_names].
        intros v names name Hnames Hname. rewrite lookup_N_push_prop_name in Hnames.
        rewrite lookup_prop_app.
        destruct (N.eqb v vid) eqn:Ev.
        * apply N.eqb_eq in Ev. subst v. inversion Hnames; subst names.
          destruct (lookup_N vid (cs_prop_names cs)) as [ns |] eqn:Hns.
          -- apply in_app_or in Hname. destruct Hname as [Hname | [<- | []]].
             ++ destruct (C5 vid ns name Hns Hname) as [n [t [fields [Hlk R]]]].
                rewrite Hlk. do 3 eexists; split; [reflexivity | exact R].
             ++ rewrite Hl. cbn [lookup_prop fst snd]. rewrite N.eqb_refl, String.eqb_refl. cbn [andb].
                do 3 eexists; split; [reflexivity |]. split; [exact W |].
                constructor; [exact Hfok | constructor].
          -- destruct Hname as [<- | []].
             rewrite Hl. cbn [lookup_prop fst snd]. rewrite N.eqb_refl, String.eqb_refl. cbn [andb].
             do 3 eexists; split; [reflexivity |]. split; [exact W |].
             constructor; [exact Hfok | constructor].
        * destruct (C5 v names name Hnames Hname) as [n [t [fields [Hlk R]]]].
          rewrite Hlk. do 3 eexists; split; [reflexivity | exact R].
      + intros v name n t fields Hx. apply in_app_or in Hx. destruct Hx as [Hx | [Hx | []]].
        * exact (C6 _ _ _ _ _ Hx).
        * inversion Hx; subst. exists pre, node. split; [exact Hin | exact Hsig]. }
  destruct Hcs1 as [cs1 [Hcs1 [Hinv1 [Hv1 [He1 Hfo1]]]]]. rewrite Hcs1. cbn [bind].
  assert (HK : In vid (keys (cs_vertices cs))) by (apply in_keys; eexists; exact Hin).
  destruct (prop_outputs_ok subfield (mkCF vid (fn_name subfield) ty) (fn_outputs subfield)
              (fs_out fs) (fs_vid fs) init top (keys (cs_vertices cs)) Hout Hcomp HK)
    as [o' [top' [Ho' [Hi' [Hc' [Hvs' [Hf' Hg']]]]]]].
  rewrite Ho'. cbn [bind].
  destruct (prop_tags_ok (fs_path (set_out fs o')) (FRContext (mkCF vid (fn_name subfield) ty)) subfield
              (fn_tags subfield) (fs_tags (set_out fs o')) errors1 (fs_path fs) Htags (proj1 (proj2 Htags)))
    as [Ht' [e He]].
  cbn [set_out set_tags fs_path fs_tags fs_out fs_vid fs_eid] in Ht', He.
  do 3 eexists; split; [reflexivity |].
  cbn [set_out set_tags fs_path fs_tags fs_out fs_vid fs_eid fst snd].
  split; [constructor; cbn [set_out set_tags fs_path fs_tags fs_out fs_vid fs_eid]; [exact Ht' | exact Hi'] |].
  split.
  { destruct Hinv1 as [C1 C2 C3 C4 C5 C6 C7].
    constructor; cbn [set_out set_tags fs_path fs_tags fs_out fs_vid fs_eid]; auto. }
  split; [reflexivity |]. split; [reflexivity |]. split; [reflexivity |].
  split; [exact Hvs' |]. split; [exact Hv1 |]. split; [exact He1 |]. split; [exact Hfo1 |].
  split; [| split].
  - exists top'. split; [exact Hc' | exact Hf'].
  - unfold glob_vals. cbn [set_out set_tags fs_out]. intros f Hf.
    destruct (Hg' f Hf) as [H | ->]; [left; exact H | right; reflexivity].
  - destruct Herr1 as [e1 ->]. rewrite He. exists (e1 ++ e). rewrite app_assoc. reflexivity.
Qed.

(* ---------------- the effect of processing selections of one component ---------------- *)
Record step_post (S : schema) (cs : cstate) (fs : fstate) (init : list outmap) (top : outmap)
       (cs' : cstate) (fs' : fstate) (es : errs) : Prop := mkSP {
  sp_fs : fs_inv fs';
  sp_cs : cs_inv S cs' fs';
  sp_vid : fs_vid fs <= fs_vid fs';
  sp_eid : fs_eid fs <= fs_eid fs';
  sp_stack : oh_vid_stack (fs_out fs') = oh_vid_stack (fs_out fs);
  sp_vertices : forall x, In x (cs_vertices cs) -> In x (cs_vertices cs');
  sp_folds : forall x, In x (cs_folds cs) -> In x (cs_folds cs');
  sp_clean : es = [] ->
             fs_path fs' = fs_path fs /\
             (exists top', oh_comp_stack (fs_out fs') = init ++ [top'] /\
                           (frame_ok top (keys (cs_vertices cs)) -> frame_ok top' (keys (cs_vertices cs')))) /\
             (forall f, In f (glob_vals fs') -> In f (glob_vals fs) \/ covered cs' (defined_at f)) }.

Lemma covered_mono : forall cs cs' v,
  (forall x, In x (cs_vertices cs) -> In x (cs_vertices cs')) ->
  (forall x, In x (cs_folds cs) -> In x (cs_folds cs')) -> covered cs v -> covered cs' v.
Proof.
  intros cs cs' v Hv Hf [H | [eid [f [Hin Hc]]]].
  - left. apply in_keys in H. destruct H as [w Hw]. apply in_keys. exists w. apply Hv; exact Hw.
  - right. exists eid, f. split; [apply Hf; exact Hin | exact Hc].
Qed.

Lemma step_post_trans : forall S cs fs init top cs1 fs1 e1 cs2 fs2 e2,
  step_post S cs fs init top cs1 fs1 e1 ->
  (forall init2 top2, oh_comp_stack (fs_out fs1) = init2 ++ [top2] ->
                      step_post S cs1 fs1 init2 top2 cs2 fs2 e2) ->
  step_post S cs fs init top cs2 fs2 (e1 ++ e2).
Proof.
  intros S cs fs init top cs1 fs1 e1 cs2 fs2 e2 P1 P2.
  destruct (nonempty_snoc _ _ (oi_comp _ _ (fi_out _ (sp_fs _ _ _ _ _ _ _ _ P1)))) as [i2 [t2 Hs]].
  pose proof (P2 i2 t2 Hs) as Q.
  constructor.
  - exact (sp_fs _ _ _ _ _ _ _ _ Q).
  - exact (sp_cs _ _ _ _ _ _ _ _ Q).
  - pose proof (sp_vid _ _ _ _ _ _ _ _ P1). pose proof (sp_vid _ _ _ _ _ _ _ _ Q). lia.
  - pose proof (sp_eid _ _ _ _ _ _ _ _ P1). pose proof (sp_eid _ _ _ _ _ _ _ _ Q). lia.
  - rewrite (sp_stack _ _ _ _ _ _ _ _ Q). exact (sp_stack _ _ _ _ _ _ _ _ P1).
  - intros x Hx. apply (sp_vertices _ _ _ _ _ _ _ _ Q). apply (sp_vertices _ _ _ _ _ _ _ _ P1). exact Hx.
  - intros x Hx. apply (sp_folds _ _ _ _ _ _ _ _ Q). apply (sp_folds _ _ _ _ _ _ _ _ P1). exact Hx.
  - intros He. apply app_eq_nil in He. destruct He as [He1 He2].
    destruct (sp_clean _ _ _ _ _ _ _ _ P1 He1) as [Hp1 [[top1 [Hc1 Hf1]] Hg1]].
    rewrite Hc1 in Hs. apply app_inj_tail in Hs. destruct Hs as [<- <-].
    destruct (sp_clean _ _ _ _ _ _ _ _ Q He2) as [Hp2 [[top2 [Hc2 Hf2]] Hg2]].
    split; [rewrite Hp2; exact Hp1 |]. split.
    + exists top2. split; [exact Hc2 |]. intros Hf. apply Hf2, Hf1, Hf.
    + intros f Hf. destruct (Hg2 f Hf) as [H | H]; [| right; exact H].
      destruct (Hg1 f H) as [H' | H']; [left; exact H' |]. right.
      eapply covered_mono; [exact (sp_vertices _ _ _ _ _ _ _ _ Q) | exact (sp_folds _ _ _ _ _ _ _ _ Q) | exact H'].
Qed.

Definition oh_inv0 (o : output_handler) (nv : N) : Prop :=
  (forall v, In v (oh_vid_stack o) -> lookup_N v (oh_prefixes o) <> None) /\
  (forall v, lookup_N v (oh_prefixes o) <> None -> v < nv).
Lemma oh_inv_split : forall o nv, oh_inv o nv <-> oh_inv0 o nv /\ oh_comp_stack o <> [].
Proof.
  intros o nv. split.
  - intros [A B C]. split; [split; assumption | exact C].
  - intros [[A B] C]. constructor; assumption.
Qed.

(* ---------------- duplicate output names ---------------- *)
Lemma flat_vals : forall (m : outmap),
  map snd (flat_map (fun kv => map (fun o => (fst kv, o)) (snd kv)) m) = frame_vals m.
Proof.
  intros m. unfold frame_vals. induction m as [| [k vs] r IH]; [reflexivity |].
  cbn [flat_map fst snd]. rewrite map_app, IH. f_equal.
  rewrite map_map. cbn [snd]. apply map_id.
Qed.

Lemma duplicates_vals : forall V (l : list (string * V)) k vs v,
  In (k, vs) (duplicates_of l) -> In v vs -> In v (map snd l).
Proof.
  intros V l k vs v Hin Hv. unfold duplicates_of in Hin. apply filter_In in Hin. destruct Hin as [Hin _].
  apply in_map_iff in Hin. destruct Hin as [k' [E _]]. inversion E; subst k' vs.
  unfold values_of in Hv. apply in_map_iff in Hv. destruct Hv as [[k2 v2] [E2 Hin2]]. cbn in E2. subst v2.
  apply filter_In in Hin2. destruct Hin2 as [Hin2 _]. apply in_map_iff. exists (k2, v). split; [reflexivity | exact Hin2].
Qed.

Lemma rmap_np : forall A B (f : A -> res B) l, (forall x, In x l -> exists y, f x = Ok y) -> exists r, rmap f l = Ok r.
Proof.
  intros A B f l. induction l as [| x r IH]; intros H; [eexists; reflexivity |].
  cbn [rmap]. destruct (H x (or_introl eq_refl)) as [y Hy]. rewrite Hy. cbn [bind].
  destruct IH as [r' Hr']; [intros z Hz; apply H; right; exact Hz |]. rewrite Hr'. eexists; reflexivity.
Qed.

Lemma dup_error_np : forall ir_vertices (duplicates : list (string * list fieldref)),
  (forall k vs f, In (k, vs) duplicates -> In f vs ->
     In (defined_at f) (map v_vid ir_vertices)) ->
  exists e, make_duplicated_output_names_error ir_vertices duplicates = Ok e.
Proof.
  intros ir_vertices duplicates H. unfold make_duplicated_output_names_error.
  destruct (rmap_np _ _ (fun kv => do vs <- rmap (dup_entry ir_vertices) (snd kv); Ok (fst kv, vs)) duplicates) as [d Hd].
  - intros [k vs] Hin. cbn [fst snd].
    destruct (rmap_np _ _ (dup_entry ir_vertices) vs) as [ys Hys].
    + intros f Hf. pose proof (H k vs f Hin Hf) as Hv.
      destruct (find_vertex_some _ _ Hv) as [v [Hfv _]].
      unfold dup_entry. destruct f as [c | ff]; cbn [defined_at] in Hfv; rewrite Hfv; eexists; reflexivity.
    + rewrite Hys. eexists; reflexivity.
  - rewrite Hd. eexists; reflexivity.
Qed.

Lemma collect_unfold : forall r vs es fs o,
  collect_ir_vertices (RComp r vs es fs o) = vs ++ flat_map (fun f => collect_ir_vertices (rf_comp f)) fs.
Proof.
  intros. cbn [collect_ir_vertices]. f_equal. induction fs as [| [h c] r' IH]; [reflexivity |].
  cbn [flat_map rf_comp]. rewrite IH. reflexivity.
Qed.

Lemma comp_vars_wf_intro : forall r vs es fs o,
  Forall (fun v => vf_wf (v_filters v)) vs -> Forall fold_wf fs -> comp_vars_wf (RComp r vs es fs o).
Proof.
  intros r vs es fs o Hv Hf. cbn [comp_vars_wf]. split; [| split].
  - unfold tys_wf. induction Hv as [| v vs' Hx Hr IH]; [constructor |].
    cbn [flat_map]. apply Forall_app. split; [exact Hx | exact IH].
  - unfold tys_wf. induction Hf as [| [h c] fs' Hx Hr IH]; [constructor |].
    cbn [flat_map]. apply Forall_app. split; [exact (proj1 Hx) | exact IH].
  - induction Hf as [| [h c] fs' Hx Hr IH]; [exact I |]. split; [exact (proj2 Hx) | exact IH].
Qed.

(* ---------------- make_query_component ---------------- *)
Definition fill_root_spec (S : schema) (starting_vid : N)
           (fill_root : cstate -> fstate -> res (cstate * fstate * errs)) : Prop :=
  forall cs0 fs0,
    fs_inv fs0 -> cs_inv S cs0 fs0 -> starting_vid < fs_vid fs0 -> ~ In starting_vid (keys (cs_vertices cs0)) ->
    exists cs' fs' es,
      fill_root cs0 fs0 = Ok (cs', fs', es) /\
      forall init top, oh_comp_stack (fs_out fs0) = init ++ [top] -> step_post S cs0 fs0 init top cs' fs' es.

Definition mqc_post (fs fs' : fstate) (r : errs + raw_comp) : Prop :=
  tags_ok (fs_tags fs') (fs_path fs') /\ oh_inv0 (fs_out fs') (fs_vid fs') /\
  fs_vid fs <= fs_vid fs' /\ fs_eid fs <= fs_eid fs' /\
  oh_vid_stack (fs_out fs') = oh_vid_stack (fs_out fs) /\
  (forall e, r = inl e -> e <> [] /\
     (oh_comp_stack (fs_out fs') <> [] \/ oh_comp_stack (fs_out fs') = oh_comp_stack (fs_out fs))) /\
  (forall c, r = inr c -> fs_path fs' = fs_path fs /\ oh_comp_stack (fs_out fs') = oh_comp_stack (fs_out fs) /\
     comp_vars_wf c /\
     (forall f, In f (glob_vals fs') -> In f (glob_vals fs) \/ In (defined_at f) (comp_vids c))).

Lemma cs_empty_inv : forall S fs, cs_inv S cs_empty fs.
Proof.
  intros S fs. constructor; cbn; try (intros; contradiction); try constructor.
  intros vid names name H. discriminate H.
Qed.

Lemma make_query_component_ok : forall S fill_root fs starting_vid,
  origins_ok S -> fill_root_spec S starting_vid fill_root ->
  tags_ok (fs_tags fs) (fs_path fs) -> oh_inv0 (fs_out fs) (fs_vid fs) -> starting_vid < fs_vid fs ->
  exists fs' r, make_query_component S fill_root fs starting_vid = Ok (fs', r) /\ mqc_post fs fs' r.
Proof.
  intros S fill_root fs starting_vid Ho Hfill Htags [Hstk Hfresh] Hlt.
  unfold make_query_component.
  set (fs1 := set_out fs (oh_begin_subcomponent (fs_out fs))).
  assert (Hinv1 : fs_inv fs1).
  { constructor; [exact Htags |]. constructor; cbn; auto.
    intros E. apply app_eq_nil in E. destruct E as [_ E]. discriminate E. }
  destruct (Hfill cs_empty fs1 Hinv1 (cs_empty_inv S fs1) Hlt (fun H => H)) as [cs [fs2 [es [Hf Hpost]]]].
  rewrite Hf. cbn [bind].
  specialize (Hpost (oh_comp_stack (fs_out fs)) [] eq_refl).
  destruct Hpost as [P1 P2 P3 P4 P5 P6 P6f P7].
  destruct P1 as [Pt Po]. destruct P2 as [C1 C2 C3 C4 C5 C6 C7].
  destruct (make_vertices_ok S cs (fs_path fs2) (cs_vertices cs) (cs_vertices cs) (fs_tags fs2) [] es
              Pt C5 C2 (fun k _ H => H) (fun kv H => H) (Forall_nil _))
    as [tags' [ir_vertices [es' [Hmv [Ht' [Hfrom Hes']]]]]].
  rewrite Hmv. cbn [bind].
  destruct Po as [Po1 Po2 Po3].
  (* facts shared by every exit *)
  assert (Hcommon : forall o, oh_vid_stack o = oh_vid_stack (fs_out fs2) -> oh_prefixes o = oh_prefixes (fs_out fs2) ->
             oh_inv0 o (fs_vid fs2) /\ oh_vid_stack o = oh_vid_stack (fs_out fs)).
  { intros o E1 E2. split; [split; [rewrite E1, E2; exact Po1 | rewrite E2; exact Po2] |].
    rewrite E1, P5. reflexivity. }
  destruct es' as [| e0 es'].
  2:{ do 2 eexists; split; [reflexivity |]. unfold mqc_post.
      cbn [set_tags set_out fs_tags fs_path fs_out fs_vid fs_eid].
      destruct (Hcommon (fs_out fs2) eq_refl eq_refl) as [H1 H2].
      split; [exact Ht' |]. split; [exact H1 |]. split; [exact P3 |]. split; [exact P4 |].
      split; [exact H2 |].
      split; [intros e E; inversion E; split; [discriminate | left; exact Po3] |]. intros c E; discriminate E. }
  destruct (Hes' eq_refl) as [-> Hvids]. cbn [app] in Hvids.
  destruct (P7 eq_refl) as [Hpath [[top' [Hstack Hframe]] Hglob]].
  destruct (make_edges_ok S ir_vertices (cs_edges cs) [] [] Ho) as [[ir_edges es2] Hme].
  { intros eid from to conn Hin.
    destruct (C4 eid from to conn Hin) as [pre [node [Hinv Hedge]]].
    assert (Hk : In from (map v_vid ir_vertices)).
    { rewrite Hvids. apply in_keys. eexists; exact Hinv. }
    destruct (find_vertex_some _ _ Hk) as [v [Hfv [Hvid Hinir]]].
    exists v. split; [exact Hfv |].
    rewrite Forall_forall in Hfrom. destruct (Hfrom v Hinir) as [[pre' [node' [Hin' Hty]]] _].
    rewrite Hvid in Hin'. pose proof (nodup_keys_inj _ _ _ _ _ C2 Hinv Hin') as E. inversion E; subst pre' node'.
    rewrite Hty. exact Hedge. }
  rewrite Hme. cbn [bind].
  destruct es2 as [| e1 es2].
  2:{ do 2 eexists; split; [reflexivity |]. unfold mqc_post.
      cbn [set_tags set_out fs_tags fs_path fs_out fs_vid fs_eid].
      destruct (Hcommon (fs_out fs2) eq_refl eq_refl) as [H1 H2].
      split; [exact Ht' |]. split; [exact H1 |]. split; [exact P3 |]. split; [exact P4 |].
      split; [exact H2 |].
      split; [intros e E; inversion E; split; [discriminate | left; exact Po3] |]. intros c E; discriminate E. }
  cbn [set_tags fs_out].
  unfold oh_end_subcomponent. rewrite Hstack, rev_unit. cbn [bind fst snd].
  rewrite rev_involutive.
  set (o' := mkOH (oh_prefixes (fs_out fs2)) (oh_vid_stack (fs_out fs2)) (oh_root_vid (fs_out fs2))
                  (oh_root_prefix (fs_out fs2)) (oh_comp_stack (fs_out fs)) (oh_global (fs_out fs2))).
  destruct (Hcommon o' eq_refl eq_refl) as [H1 H2].
  destruct (check_for_duplicate_output_names top') as [duplicates | component_outputs] eqn:Hdup.
  - destruct (dup_error_np ir_vertices duplicates) as [e He].
    { intros k vs f Hin Hfin.
      unfold check_for_duplicate_output_names in Hdup.
      destruct (duplicates_of _) as [| d ds] eqn:Hd; [discriminate Hdup |]. inversion Hdup; subst duplicates.
      rewrite <- Hd in Hin.
      pose proof (duplicates_vals _ _ _ _ _ Hin Hfin) as Hv. rewrite flat_vals in Hv.
      assert (Hfr : frame_ok [] (keys (cs_vertices cs_empty))) by (intros g Hg; destruct Hg).
      destruct (Hframe Hfr f Hv) as [c [-> Hc]]. cbn [defined_at]. rewrite Hvids. exact Hc. }
    rewrite He. cbn [bind]. do 2 eexists; split; [reflexivity |]. unfold mqc_post.
    cbn [set_tags set_out fs_tags fs_path fs_out fs_vid fs_eid].
    split; [exact Ht' |]. split; [exact H1 |]. split; [exact P3 |]. split; [exact P4 |].
    split; [exact H2 |].
    split; [intros e' E; inversion E; subst e'; split; [| right; reflexivity] |]. 2: intros c E; discriminate E.
    unfold make_duplicated_output_names_error in He.
    destruct (rmap _ duplicates); cbn [bind] in He; [inversion He; discriminate | discriminate He].
  - do 2 eexists; split; [reflexivity |]. unfold mqc_post.
    cbn [set_tags set_out fs_tags fs_path fs_out fs_vid fs_eid].
    split; [exact Ht' |]. split; [exact H1 |]. split; [exact P3 |]. split; [exact P4 |].
    split; [exact H2 |]. split; [intros e E; discriminate E |].
    intros c Ec. inversion Ec; subst c. split; [exact Hpath |]. split; [reflexivity |]. split.
    + apply comp_vars_wf_intro.
      * rewrite Forall_forall in Hfrom |- *. intros v Hv. exact (proj2 (Hfrom v Hv)).
      * rewrite Forall_forall. intros f Hfm. apply in_map_iff in Hfm. destruct Hfm as [[eid f'] [E Hin]].
        cbn in E. subst f'. exact (proj2 (C7 eid f Hin)).
    + unfold glob_vals. cbn [fs_out o' oh_global]. intros f Hfg.
      destruct (Hglob f Hfg) as [H | H]; [left; exact H |]. right.
      unfold comp_vids. rewrite collect_unfold, map_app. apply in_or_app.
      destruct H as [H | [eid [fo [Hin Hc]]]].
      * left. rewrite Hvids. exact H.
      * right. unfold comp_vids in Hc. apply in_map_iff in Hc. destruct Hc as [v [Ev Hv]].
        apply in_map_iff. exists v. split; [exact Ev |]. apply in_flat_map. exists fo.
        split; [apply in_map_iff; exists (eid, fo); split; [reflexivity | exact Hin] | exact Hv].
Qed.

(* ---------------- make_fold ---------------- *)
Lemma map_fst_snoc : forall A B (l : list (A * B)) pre x,
  map fst l = pre ++ [x] -> exists l0 y, l = l0 ++ [(x, y)] /\ map fst l0 = pre.
Proof.
  intros A B l pre x H.
  destruct (nonempty_snoc _ l) as [l0 [[a b] E]].
  { intros E. subst l. destruct pre; discriminate H. }
  subst l. rewrite map_app in H. cbn [map fst] in H. apply app_inj_tail in H. destruct H as [H1 H2].
  subst a. exists l0, b. split; [reflexivity | exact H1].
Qed.

Lemma pfilter_vars_snoc : forall fs f, pfilter_vars (fs ++ [f]) = pfilter_vars fs ++ pfilter_vars [f].
Proof. intros. unfold pfilter_vars. rewrite flat_map_app. reflexivity. Qed.

Lemma fold_post_filters_ok : forall path vid ds tags post errors,
  tags_ok tags path -> tys_wf (pfilter_vars post) ->
  exists tags' post' errors', fold_post_filters tags path vid ds post errors = Ok (tags', post', errors') /\
                              tags_ok tags' path /\ tys_wf (pfilter_vars post').
Proof.
  intros path vid ds. induction ds as [| d r IH]; intros tags post errors Ht Hw.
  - do 3 eexists; split; [reflexivity | split; assumption].
  - cbn [fold_post_filters].
    pose proof (count_type_filters_ok [d]) as Hd. inversion Hd as [| x xs Hd1 _]; subst.
    destruct (make_filter_expr_total tags path vid "@fold.count" count_type d Ht count_type_wf Hd1)
      as [[tags1 res] [Hm Ht1]].
    rewrite Hm. cbn [bind snd fst]. destruct res as [e | [op rhs]]; apply IH; try assumption.
    unfold tys_wf. rewrite pfilter_vars_snoc. apply Forall_app. split; [exact Hw |].
    unfold pfilter_vars. cbn [flat_map pf_arg]. rewrite app_nil_r.
    destruct rhs as [[fr | n t] |]; try constructor; [| constructor].
    cbn [snd]. eapply make_filter_expr_var_wf; [exact count_type_wf | exact Hm].
Qed.

Lemma fold_tags_ok : forall path fr sf ts tags errors path',
  tags_ok tags path' -> path <> [] ->
  tags_ok (fst (fold_tags tags path fr sf ts errors)) path'.
Proof.
  intros path fr sf ts. induction ts as [| t r IH]; intros tags errors path' Ht Hp; [exact Ht |].
  cbn [fold_tags]. destruct t as [nm |].
  - apply IH; [apply th_register_tag_ok; assumption | exact Hp].
  - apply IH; assumption.
Qed.

Definition fold_post (fs fs' : fstate) (r : errs + raw_fold) : Prop :=
  fs_inv fs' /\ fs_vid fs <= fs_vid fs' /\ fs_eid fs <= fs_eid fs' /\
  oh_vid_stack (fs_out fs') = oh_vid_stack (fs_out fs) /\
  (forall e, r = inl e -> e <> []) /\
  (forall x, r = inr x -> fs_path fs' = fs_path fs /\ oh_comp_stack (fs_out fs') = oh_comp_stack (fs_out fs) /\
     fold_wf x /\
     (forall f, In f (glob_vals fs') -> In f (glob_vals fs) \/ In (defined_at f) (comp_vids (rf_comp x)))).

Lemma make_fold_ok : forall component_of fs fold_group fold_eid edge_name edge_parameters parent_vid starting_vid starting_field,
  fs_inv fs ->
  (forall g, fold_group = mkFG (Some g) -> tg_retransform g = None /\ tg_outputs g = []) ->
  (forall fs1, fs1 = set_tags (set_path fs (fs_path fs ++ [starting_vid]))
                              (th_begin_subcomponent (fs_tags fs) starting_vid) ->
     exists fs' r, component_of fs1 = Ok (fs', r) /\ mqc_post fs1 fs' r) ->
  exists fs' r, make_fold component_of fs fold_group fold_eid edge_name edge_parameters parent_vid starting_vid
                          starting_field = Ok (fs', r) /\ fold_post fs fs' r.
Proof.
  intros component_of fs fold_group fold_eid edge_name edge_parameters parent_vid sv sf [Ht Ho] Hclean Hcomp.
  unfold make_fold.
  destruct (Hcomp _ eq_refl) as [fs2 [r [Hc Hpost]]].
  cbn [set_tags set_path fs_path fs_tags fs_out fs_vid fs_eid] in *.
  rewrite Hc. cbn [bind fst snd].
  destruct Hpost as [Q1 [Q2 [Q3 [Q4 [Q5 [Q6 Q7]]]]]].
  cbn [set_tags set_path fs_path fs_tags fs_out fs_vid fs_eid] in *.
  apply oh_inv_split in Ho. destruct Ho as [Ho0 Hne].
  destruct r as [e | component].
  - do 2 eexists; split; [reflexivity |]. unfold fold_post.
    split.
    { constructor; [exact Q1 |]. apply oh_inv_split. split; [exact Q2 |].
      destruct (Q6 e eq_refl) as [_ [H | H]]; [exact H | rewrite H; exact Hne]. }
    split; [exact Q3 |]. split; [exact Q4 |]. split; [exact Q5 |].
    split; [intros e' E; inversion E; subst e'; exact (proj1 (Q6 e eq_refl)) |]. intros x E; discriminate E.
  - destruct (Q7 component eq_refl) as [Hpath [Hstack [Hcwf Hcov]]].
    rewrite Hpath, path_pop_snoc. cbn [bind].
    cbn [set_path fs_tags].
    destruct Q1 as [Himp [_ Hpaths]]. rewrite Hpath in Himp.
    destruct Ht as [Himp0 [Hne0 Hpaths0]].
    destruct (fs_path fs) as [| p0 ptl] eqn:Hp; [exfalso; apply Hne0; reflexivity |].
    cbn [app List.tl] in Himp.
    destruct (map_fst_snoc _ _ _ _ _ Himp) as [l0 [ext [Hl0 Hm0]]].
    rewrite (th_end_subcomponent_ok _ l0 sv ext Hl0). cbn [bind fst snd].
    cbn [set_tags set_path fs_path fs_tags fs_out fs_vid fs_eid].
    set (tags3 := mkTH (th_tags (fs_tags fs2)) (th_used (fs_tags fs2)) l0).
    assert (Ht3 : tags_ok tags3 (p0 :: ptl)).
    { unfold tags3. repeat split; cbn [th_imported th_tags List.tl]; [exact Hm0 | discriminate | exact Hpaths]. }
    assert (Hne3 : p0 :: ptl <> []) by discriminate.
    assert (Hfinal : forall tags4 (r' : errs + raw_fold), tags_ok tags4 (p0 :: ptl) ->
              (forall e, r' = inl e -> e <> []) ->
              (forall x, r' = inr x -> fold_wf x /\ rf_comp x = component) ->
              fold_post fs (mkFS (fs_vid fs2) (fs_eid fs2) (p0 :: ptl) (fs_out fs2) tags4) r').
    { intros tags4 r' Ht4 Hne4 Hwf4. unfold fold_post. cbn [fs_path fs_tags fs_out fs_vid fs_eid].
      split.
      { constructor; cbn [fs_path fs_tags fs_out fs_vid fs_eid]; [exact Ht4 |].
        apply oh_inv_split. split; [exact Q2 | rewrite Hstack; exact Hne]. }
      split; [exact Q3 |]. split; [exact Q4 |]. split; [exact Q5 |]. split; [exact Hne4 |].
      intros x Ex. destruct (Hwf4 x Ex) as [Hxw Hxc].
      split; [symmetry; exact Hp |]. split; [exact Hstack |]. split; [exact Hxw |].
      rewrite Hxc. exact Hcov. }
    destruct (fg_transform fold_group) as [g |] eqn:Hg.
    + destruct fold_group as [tr]. cbn [fg_transform] in Hg. subst tr.
      destruct (Hclean g eq_refl) as [Hre Hout]. rewrite Hre.
      destruct (fold_post_filters_ok (p0 :: ptl) sv (tg_filters g) tags3 []
                  (match fn_outputs sf return list front_error with
                   | _ :: _ => [FEUnsupportedEdgeOutput (fn_name sf)] | [] => [] end) Ht3 (Forall_nil _))
        as [tags4 [post4 [errs4 [Hpf [Ht4 Hw4]]]]].
      cbn [set_tags set_path fs_path fs_tags fs_out fs_vid fs_eid].
      rewrite Hpf. cbn [bind]. cbn [set_tags set_path fs_path fs_tags fs_out fs_vid fs_eid].
      rewrite Hout. cbn [fold_outputs bind].
      cbn [set_tags set_out set_path fs_path fs_tags fs_out fs_vid fs_eid].
      pose proof (fold_tags_ok (p0 :: ptl) (FRFold (mkFF fold_eid sv)) sf (tg_tags g) tags4 errs4 (p0 :: ptl) Ht4 Hne3) as Ht5.
      destruct (snd (fold_tags tags4 (p0 :: ptl) (FRFold (mkFF fold_eid sv)) sf (tg_tags g) errs4));
        do 2 eexists; (split; [reflexivity |]); (apply Hfinal; [exact Ht5 | |]);
        try (intros e9 E9; inversion E9; discriminate);
        intros x9 E9; inversion E9; subst x9; cbn [fold_wf fo_post rf_comp]; repeat split; assumption.
    + cbn [bind]. destruct (fn_outputs sf); do 2 eexists; (split; [reflexivity |]); (apply Hfinal; [exact Ht3 | |]);
        try (intros e9 E9; inversion E9; discriminate);
        intros x9 E9; inversion E9; subst x9; cbn [fold_wf fo_post rf_comp]; repeat split; try assumption; constructor.
Qed.

Lemma nmap_insert_in : forall V k (v : V) m x, In x (nmap_insert k v m) -> x = (k, v) \/ In x m.
Proof.
  intros V k v m. induction m as [| [k' v'] r IH]; intros x H.
  - destruct H as [<- | []]. left; reflexivity.
  - cbn [nmap_insert] in H. destruct (N.compare k k').
    + destruct H as [<- | H]; [left; reflexivity | right; right; exact H].
    + destruct H as [<- | H]; [left; reflexivity | right; exact H].
    + destruct H as [<- | H]; [right; left; reflexivity |].
      destruct (IH x H) as [E | Hin]; [left; exact E | right; right; exact Hin].
Qed.
Lemma nmap_insert_keep : forall V k (v : V) m x, ~ In k (keys m) -> In x m -> In x (nmap_insert k v m).
Proof.
  intros V k v m. induction m as [| [k' v'] r IH]; intros x Hn H; [destruct H |].
  cbn [nmap_insert]. destruct (N.compare k k') eqn:Hc.
  - apply N.compare_eq in Hc. subst k'. exfalso. apply Hn. left; reflexivity.
  - right. exact H.
  - destruct H as [<- | H]; [left; reflexivity | right]. apply IH; [| exact H].
    intros Hk. apply Hn. right; exact Hk.
Qed.
Lemma nmap_insert_new_elem : forall V k (v : V) m, In (k, v) (nmap_insert k v m).
Proof.
  intros V k v m. induction m as [| [k' v'] r IH]; [left; reflexivity |].
  cbn [nmap_insert]. destruct (N.compare k k'); [left; reflexivity | left; reflexivity | right; exact IH].
Qed.

(* ---------------- one edge ---------------- *)
Definition fill_spec (S : schema) (node : field_node) : Prop :=
  forall cs fs vid pre folds,
    schema_ok S -> has_type (post_of pre node) (s_vts S) = true ->
    Forall (child_valid S (post_of pre node)) (fn_connections node) ->
    (forall st, In st (child_sites S (post_of pre node) folds (fn_connections node)) -> site_clean S st) ->
    fs_inv fs -> cs_inv S cs fs -> vid < fs_vid fs -> ~ In vid (keys (cs_vertices cs)) ->
    exists cs' fs' es,
      fill_in_vertex_data S cs fs vid pre (post_of pre node) node = Ok (cs', fs', es) /\
      forall init top, oh_comp_stack (fs_out fs) = init ++ [top] -> step_post S cs fs init top cs' fs' es.

Lemma cs_inv_mono : forall S cs fs fs',
  cs_inv S cs fs -> fs_vid fs <= fs_vid fs' -> fs_eid fs <= fs_eid fs' -> cs_inv S cs fs'.
Proof.
  intros S cs fs fs' [C1 C2 C3 C4 C5 C6 C7] Hv He. constructor; auto.
  - intros k Hk. specialize (C1 k Hk). lia.
  - intros k Hk. specialize (C3 k Hk). lia.
  - intros eid f Hf. destruct (C7 eid f Hf) as [H1 H2]. split; [lia | exact H2].
Qed.
Lemma cs_inv_folds : forall S cs fs folds,
  cs_inv S cs fs -> (forall eid f, In (eid, f) folds -> eid < fs_eid fs /\ fold_wf f) ->
  cs_inv S (mkCS (cs_vertices cs) (cs_edges cs) folds (cs_prop_names cs) (cs_props cs)) fs.
Proof. intros S cs fs folds [C1 C2 C3 C4 C5 C6 C7] H. constructor; auto. Qed.

Lemma step_post_id : forall S cs fs init top es,
  fs_inv fs -> cs_inv S cs fs -> oh_comp_stack (fs_out fs) = init ++ [top] -> step_post S cs fs init top cs fs es.
Proof.
  intros. constructor; auto; try lia. intros _. split; [reflexivity |]. split; [exists top; split; auto | auto].
Qed.

Lemma make_edge_parameters_inl : forall ed sp e, make_edge_parameters ed sp = Ok (inl e) -> e <> [].
Proof.
  intros ed sp e H. unfold make_edge_parameters in H.
  destruct (edge_params_loop _ _ _ _ _) as [r |]; cbn [bind] in H; [| discriminate H].
  destruct (fst r ++ _) eqn:E; inversion H. discriminate.
Qed.

Lemma edge_step_ok : forall S current_vid pre node connection subfield sub_pre folds' next_vid next_eid cs fs errors,
  schema_ok S -> fill_spec S subfield ->
  In (current_vid, (pre, node)) (cs_vertices cs) ->
  edge_ok S (post_of pre node) connection ->
  (forall g, fc_fold connection = Some (mkFG (Some g)) -> tg_retransform g = None /\ tg_outputs g = []) ->
  has_type (post_of sub_pre subfield) (s_vts S) = true ->
  Forall (child_valid S (post_of sub_pre subfield)) (fn_connections subfield) ->
  (forall st, In st (child_sites S (post_of sub_pre subfield) folds' (fn_connections subfield)) -> site_clean S st) ->
  fs_inv fs -> cs_inv S cs fs ->
  fs_vid fs = next_vid + 1 -> fs_eid fs = next_eid + 1 ->
  (forall k, In k (keys (cs_vertices cs)) -> k < next_vid) ->
  (forall k, In k (keys (cs_edges cs)) -> k < next_eid) ->
  (forall k, In k (keys (cs_folds cs)) -> k < next_eid) ->
  exists cs' fs' e,
    edge_step S current_vid (post_of pre node) connection subfield next_vid next_eid sub_pre
              (post_of sub_pre subfield) cs fs errors = Ok (cs', fs', errors ++ e) /\
    forall init top, oh_comp_stack (fs_out fs) = init ++ [top] -> step_post S cs fs init top cs' fs' e.
Proof.
  intros S current_vid pre node connection subfield sub_pre folds' next_vid next_eid cs fs errors
         HS IH Hin Hedge Hfoldclean Hty Hkids Hclean Hfs Hcs Hvid Heid Hvfresh Hefresh Hffresh.
  unfold edge_step.
  destruct Hedge as [fd [Hfd [Hargs [Hdup Henum]]]].
  destruct (fc_fold connection) as [fold_group |] eqn:Hfold.
  - (* a folded edge *)
    rewrite (get_edge_definition_ok _ _ _ _ Hfd). cbn [bind].
    destruct (make_edge_parameters_total fd (fc_args connection) Hargs Hdup Henum) as [ep Hep].
    rewrite Hep. cbn [bind].
    set (flags := (if fc_optional connection then [FEUnsupportedDirectiveOnFoldedEdge (fn_name subfield) "@optional"] else [])
                  ++ match fc_recurse connection with
                     | Some _ => [FEUnsupportedDirectiveOnFoldedEdge (fn_name subfield) "@recurse"]
                     | None => [] end).
    destruct ep as [e | edge_parameters].
    + exists cs, fs, (flags ++ e). split; [rewrite <- !app_assoc; reflexivity |].
      intros init top Hs. apply step_post_id; assumption.
    + destruct (make_fold_ok
                  (fun fs' => make_query_component S
                                (fun cs'' fs'' => fill_in_vertex_data S cs'' fs'' next_vid sub_pre
                                                    (post_of sub_pre subfield) subfield) fs' next_vid)
                  fs fold_group next_eid (SchemaAst.f_name fd) edge_parameters current_vid next_vid subfield Hfs)
        as [fs' [r [Hmf Hpost]]].
      * intros g Eg. apply Hfoldclean. rewrite Eg. reflexivity.
      * intros fs1 Hfs1. apply make_query_component_ok.
        -- exact (so_origins S HS).
        -- intros cs0 fs0 Hi0 Hc0 Hlt0 Hn0.
           exact (IH cs0 fs0 next_vid sub_pre folds' HS Hty Hkids Hclean Hi0 Hc0 Hlt0 Hn0).
        -- subst fs1. cbn [set_tags set_path fs_tags fs_path].
           destruct Hfs as [[Himp [Hne Hpaths]] _].
           repeat split.
           ++ cbn [th_begin_subcomponent th_imported]. rewrite map_app, Himp. cbn [map fst].
              destruct (fs_path fs); [exfalso; apply Hne; reflexivity | reflexivity].
           ++ intros E. apply app_eq_nil in E. destruct E as [_ E]. discriminate E.
           ++ exact Hpaths.
        -- subst fs1. cbn [set_tags set_path fs_out fs_vid]. destruct Hfs as [_ Ho].
           apply oh_inv_split in Ho. exact (proj1 Ho).
        -- subst fs1. cbn [set_tags set_path fs_vid]. lia.
      * rewrite Hmf. cbn [bind fst snd].
        destruct Hpost as [F1 [F2 [F3 [F4 [F5 F6]]]]].
        destruct r as [e | fold].
        -- exists cs, fs', (flags ++ e). split; [rewrite <- !app_assoc; reflexivity |].
           intros init top Hs. constructor; auto.
           ++ eapply cs_inv_mono; eassumption.
           ++ intros He. apply app_eq_nil in He. destruct He as [_ He]. exfalso. exact (F5 e eq_refl He).
        -- eexists; exists fs', flags. split; [reflexivity |].
           intros init top Hs. destruct (F6 fold eq_refl) as [Hp [Hst [Hfw Hcov]]].
           assert (Hnk : ~ In next_eid (keys (cs_folds cs))).
           { intros Hk. specialize (Hffresh _ Hk). lia. }
           constructor; auto.
           ++ apply cs_inv_folds; [eapply cs_inv_mono; eassumption |].
              intros eid f Hf. apply nmap_insert_in in Hf. destruct Hf as [E | Hf].
              ** inversion E; subst. split; [lia | exact Hfw].
              ** destruct (ci_folds _ _ _ Hcs eid f Hf) as [H1 H2]. split; [lia | exact H2].
           ++ cbn [cs_folds]. intros x Hx. apply nmap_insert_keep; assumption.
           ++ intros _. split; [exact Hp |]. split; [exists top; split; [rewrite Hst; exact Hs | auto] |].
              intros f Hf. destruct (Hcov f Hf) as [H | H]; [left; exact H |]. right. right.
              exists next_eid, fold. split; [cbn [cs_folds]; apply nmap_insert_new_elem | exact H].
  - (* a plain edge *)
    destruct (nmap_insert_new_fresh _ next_eid (current_vid, next_vid, connection) (cs_edges cs)) as [edges [Hins Hchar]].
    { intros Hk. specialize (Hefresh _ Hk). lia. }
    rewrite Hins.
    set (cs1 := mkCS (cs_vertices cs) edges (cs_folds cs) (cs_prop_names cs) (cs_props cs)).
    assert (Hcs1 : cs_inv S cs1 fs).
    { destruct Hcs as [C1 C2 C3 C4 C5 C6 C7]. constructor; cbn [cs1 cs_vertices cs_edges cs_prop_names cs_props cs_folds]; auto.
      - intros k Hk. apply (keys_insert _ _ _ _ _ Hchar) in Hk. destruct Hk as [-> | Hk]; [lia | exact (C3 k Hk)].
      - intros eid from to conn Hx. apply Hchar in Hx. destruct Hx as [E | Hx]; [| exact (C4 _ _ _ _ Hx)].
        inversion E; subst. exists pre, node. split; [exact Hin |].
        exists fd. repeat split; assumption. }
    destruct (IH cs1 fs next_vid sub_pre folds' HS Hty Hkids Hclean Hfs Hcs1) as [cs' [fs' [e [Hfill Hpost]]]].
    { lia. }
    { intros Hk. specialize (Hvfresh _ Hk). lia. }
    rewrite Hfill. cbn [bind].
    exists cs', fs', e. split; [reflexivity |].
    intros init top Hs. specialize (Hpost init top Hs).
    destruct Hpost as [P1 P2 P3 P4 P5 P6 P6f P7]. constructor; auto.
Qed.

(* ---------------- the loop over the selections of one vertex ---------------- *)
Lemma ty_orderable_base : forall t, ty_orderable t = orderable_base (tbase t).
Proof. reflexivity. Qed.

Lemma fill_loop_ok : forall S current_vid pre node t folds l,
  schema_ok S -> find_type (post_of pre node) (s_vts S) = Some t ->
  Forall (fun cn : field_conn * field_node => fill_spec S (snd cn)) l ->
  Forall (child_valid S (post_of pre node)) l ->
  (forall st, In st (child_sites S (post_of pre node) folds l) -> site_clean S st) ->
  forall cs fs errors,
    In (current_vid, (pre, node)) (cs_vertices cs) -> fs_inv fs -> cs_inv S cs fs ->
    exists cs' fs' e,
      fill_loop S current_vid (post_of pre node) (t_fields t) l cs fs errors = Ok (cs', fs', errors ++ e) /\
      forall init top, oh_comp_stack (fs_out fs) = init ++ [top] -> step_post S cs fs init top cs' fs' e.
Proof.
  intros S current_vid pre node t folds l HS Hft.
  induction l as [| [connection subfield] rest IHl]; intros HIH Hvalid Hclean cs fs errors Hin Hfs Hcs.
  - exists cs, fs, []. split; [rewrite fill_loop_nil, app_nil_r; reflexivity |].
    intros init top Hs. apply step_post_id; assumption.
  - inversion HIH as [| x xs HIH1 HIHr]; subst. inversion Hvalid as [| x xs Hv1 Hvr]; subst.
    cbn [snd] in HIH1.
    assert (Hclean_head : forall st, In st (sites S (post_of pre node) folds connection subfield) -> site_clean S st).
    { intros st Hst. apply Hclean. rewrite child_sites_cons. apply in_or_app. left; exact Hst. }
    assert (Hclean_rest : forall st, In st (child_sites S (post_of pre node) folds rest) -> site_clean S st).
    { intros st Hst. apply Hclean. rewrite child_sites_cons. apply in_or_app. right; exact Hst. }
    rewrite fill_loop_cons.
    destruct (gfnt_ok S (post_of pre node) t connection subfield HS Hft Hv1)
      as [n [sub_pre [sub_post [ty [Hg [Hn [Hcn [Hsig [W [Htn Hnt]]]]]]]]]].
    rewrite Hg. cbn [bind].
    (* the rest of the loop, composed with one step *)
    assert (Hrest : forall cs1 fs1 e1,
               (forall init top, oh_comp_stack (fs_out fs) = init ++ [top] -> step_post S cs fs init top cs1 fs1 e1) ->
               fs_inv fs1 -> cs_inv S cs1 fs1 -> In (current_vid, (pre, node)) (cs_vertices cs1) ->
               exists cs' fs' e,
                 fill_loop S current_vid (post_of pre node) (t_fields t) rest cs1 fs1 (errors ++ e1)
                 = Ok (cs', fs', errors ++ e) /\
                 forall init top, oh_comp_stack (fs_out fs) = init ++ [top] -> step_post S cs fs init top cs' fs' e).
    { intros cs1 fs1 e1 Hstep Hfs1 Hcs1 Hin1.
      destruct (IHl HIHr Hvr Hclean_rest cs1 fs1 (errors ++ e1) Hin1 Hfs1 Hcs1) as [cs' [fs' [e2 [Hl2 Hp2]]]].
      exists cs', fs', (e1 ++ e2). split; [rewrite Hl2, app_assoc; reflexivity |].
      intros init top Hs. eapply step_post_trans; [apply Hstep; exact Hs | exact Hp2]. }
    destruct (has_type sub_post (s_vts S)) eqn:Hht.
    + (* an edge *)
      destruct (String.eqb (fn_name subfield) TYPENAME) eqn:Etn.
      { destruct (Htn eq_refl) as [E _]. subst sub_post. rewrite (so_typename S HS) in Hht. discriminate Hht. }
      destruct (Hnt eq_refl) as [fd [Hfd [Hinfd [Hpre [Hpost [Hbase [Hdepth [Hco Hkids]]]]]]]].
      subst sub_post.
      (* the site of this selection *)
      assert (Hsites : sites S (post_of pre node) folds connection subfield =
                       mkSite (post_of pre node) connection subfield (Some fd) folds
                       :: child_sites S (post_of sub_pre subfield)
                            (match fc_fold connection with Some _ => Datatypes.S folds | None => folds end)
                            (fn_connections subfield)).
      { destruct subfield as [nm al co ff oo tt conns tg]. rewrite sites_unfold. cbv zeta.
        cbn [fn_name] in Etn, Hfd. rewrite Etn, Hfd. unfold post_of. cbn [fn_coerced_to fn_connections].
        rewrite Hpre. destruct co; reflexivity. }
      assert (Hhead : site_clean S (mkSite (post_of pre node) connection subfield (Some fd) folds)).
      { apply Hclean_head. rewrite Hsites. left; reflexivity. }
      destruct Hhead as [Henum [Hfc Hdef]]. cbn [st_conn st_def st_node] in Henum, Hfc, Hdef.
      destruct (Hdef fd eq_refl) as [Hdup _].
      assert (Hgb : has_type (gbase (SchemaAst.f_ty fd)) (s_vts S) = true).
      { destruct (fn_coerced_to subfield) as [co |] eqn:Eco.
        - exact (proj1 (Hco co eq_refl)).
        - unfold post_of in Hht. rewrite Eco in Hht. rewrite <- Hpre. exact Hht. }
      assert (Hedge : edge_ok S (post_of pre node) connection).
      { exists fd. rewrite Hcn. split; [exact Hfd |].
        split; [exact (proj2 (proj2 (so_fields S HS _ _ _ Hft Hinfd)) Hgb) |].
        split; [exact Hdup | exact Henum]. }
      set (next_vid := fs_vid fs). set (next_eid := fs_eid fs).
      pose proof Hfs as [Htags Hout].
      destruct (oh_begin_nested_scope_ok (fs_out fs) next_vid (fn_alias subfield) Hout)
        as [o1 [Ho1 [Hst1 [Hcs1 [Hgl1 Hinv1]]]]].
      cbn [fs_out]. rewrite Ho1. cbn [bind].
      set (fsb := set_out (mkFS (next_vid + 1) (next_eid + 1) (fs_path fs) (fs_out fs) (fs_tags fs)) o1).
      assert (Hfsb : fs_inv fsb) by (constructor; cbn; assumption).
      assert (Hcsb : cs_inv S cs fsb) by (eapply cs_inv_mono; [exact Hcs | cbn; lia | cbn; lia]).
      destruct (edge_step_ok S current_vid pre node connection subfield sub_pre
                  (match fc_fold connection with Some _ => Datatypes.S folds | None => folds end)
                  next_vid next_eid cs fsb errors HS HIH1 Hin Hedge Hfc Hht Hkids)
        as [cs1 [fs1 [e1 [Hes Hps]]]]; try assumption; try reflexivity.
      { intros st Hst. apply Hclean_head. rewrite Hsites. right; exact Hst. }
      { exact (ci_vfresh _ _ _ Hcs). }
      { exact (ci_efresh _ _ _ Hcs). }
      { intros k Hk. apply in_keys in Hk. destruct Hk as [fo Hfo]. exact (proj1 (ci_folds _ _ _ Hcs k fo Hfo)). }
      rewrite Hes. cbn [bind].
      destruct (nonempty_snoc _ _ (oi_comp _ _ Hout)) as [i0 [t0 Hs0]].
      assert (Hsb0 : oh_comp_stack (fs_out fsb) = i0 ++ [t0]) by (cbn; rewrite Hcs1; exact Hs0).
      pose proof (Hps i0 t0 Hsb0) as P0.
      assert (Hstk1 : oh_vid_stack (fs_out fs1) = oh_vid_stack (fs_out fs) ++ [next_vid]).
      { rewrite (sp_stack _ _ _ _ _ _ _ _ P0). cbn. exact Hst1. }
      destruct (oh_end_nested_scope_ok (fs_out fs1) _ next_vid Hstk1) as [o2 [Ho2 [Hst2 [Hpf2 [Hcs2 Hgl2]]]]].
      rewrite Ho2. cbn [bind].
      assert (Hfs2 : fs_inv (set_out fs1 o2)).
      { destruct (sp_fs _ _ _ _ _ _ _ _ P0) as [T1 [A B C]]. constructor; cbn; [exact T1 |].
        constructor.
        - rewrite Hst2, Hpf2. intros v Hv. apply A. rewrite Hstk1. apply in_or_app. left; exact Hv.
        - rewrite Hpf2. exact B.
        - rewrite Hcs2. exact C. }
      assert (Hcs2' : cs_inv S cs1 (set_out fs1 o2)).
      { eapply cs_inv_mono; [exact (sp_cs _ _ _ _ _ _ _ _ P0) | cbn; lia | cbn; lia]. }
      apply (Hrest cs1 (set_out fs1 o2) e1); [| exact Hfs2 | exact Hcs2' |].
      * intros init top Hs.
        assert (Hsb : oh_comp_stack (fs_out fsb) = init ++ [top]) by (cbn; rewrite Hcs1; exact Hs).
        pose proof (Hps init top Hsb) as P. destruct P as [P1 P2 P3 P4 P5 P6 P6f P7].
        constructor; auto.
        -- cbn in P3 |- *. lia.
        -- cbn in P4 |- *. lia.
        -- intros He. destruct (P7 He) as [Hp [[top' [Hc' Hf']] Hg']]. split; [exact Hp |].
           split; [exists top'; split; [cbn; rewrite Hcs2; exact Hc' | exact Hf'] |].
           unfold glob_vals in *. cbn [set_out fs_out] in *. rewrite Hgl2. intros f Hf.
           destruct (Hg' f Hf) as [H | H]; [left; rewrite <- Hgl1; exact H | right; exact H].
      * apply (sp_vertices _ _ _ _ _ _ _ _ P0). exact Hin.
    + (* a property, or neither *)
      assert (Hprop : (builtin_scalar sub_post || mem sub_post (s_scalars S) || String.eqb n TYPENAME)%bool = true).
      { destruct (String.eqb (fn_name subfield) TYPENAME) eqn:Etn.
        - rewrite Hn, Etn. apply Bool.orb_true_r.
        - destruct (Hnt eq_refl) as [fd [Hfd [Hinfd [Hpre [Hpost [Hbase [Hdepth [Hco Hkids]]]]]]]].
          destruct (fn_coerced_to subfield) as [co |] eqn:Eco.
          + destruct (Hco co eq_refl) as [_ Hc]. unfold post_of in Hpost. rewrite Eco in Hpost. subst sub_post.
            rewrite Hc in Hht. discriminate Hht.
          + unfold post_of in Hpost. rewrite Eco in Hpost. subst sub_post sub_pre.
            destruct (so_fields S HS _ _ _ Hft Hinfd) as [[Hb | Hv] _].
            * rewrite Hb. reflexivity.
            * rewrite Hv in Hht. discriminate Hht. }
      rewrite Hprop.
      assert (Hfok : Forall (filter_ok ty) (fn_filters subfield)).
      { destruct (String.eqb (fn_name subfield) TYPENAME) eqn:Etn.
        - destruct (Htn eq_refl) as [_ ->]. apply string_type_filters_ok.
        - destruct (Hnt eq_refl) as [fd [Hfd [Hinfd [Hpre [Hpost [Hbase [Hdepth [Hco Hkids]]]]]]]].
          assert (Hhead : site_clean S (mkSite (post_of pre node) connection subfield (Some fd) folds)).
          { apply Hclean_head. destruct subfield as [nm al co ff oo tt conns tg]. rewrite sites_unfold. cbv zeta.
            cbn [fn_name] in Etn, Hfd. rewrite Etn, Hfd. left; reflexivity. }
          destruct Hhead as [_ [_ Hdef]]. cbn [st_def st_node] in Hdef.
          destruct (Hdef fd eq_refl) as [_ [Hord Hbulk]].
          apply filters_ok_of_clean.
          + intros H. rewrite ty_orderable_base, Hbase. exact (Hord H).
          + intros H. specialize (Hbulk H). rewrite Hdepth. apply Nat.eqb_neq. lia. }
      subst n.
      pose proof Hfs as [Htags Hout].
      destruct (nonempty_snoc _ _ (oi_comp _ _ Hout)) as [i0 [t0 Hs0]].
      destruct (prop_step_ok S cs fs current_vid pre node connection subfield ty errors i0 t0 Hfs Hcs Hin Hsig W Hfok Hs0)
        as [cs1 [fs1 [errs1 [Hpstep [Hfs1 [Hcs1 [Ev [Ee [Ep [Est [Evs [Ees [Efo [_ [Hgl [e1 He1]]]]]]]]]]]]]]]].
      rewrite Hpstep. cbn [bind]. subst errs1.
      apply (Hrest cs1 fs1 e1); [| exact Hfs1 | exact Hcs1 | rewrite Evs; exact Hin].
      intros init top Hs.
      destruct (prop_step_ok S cs fs current_vid pre node connection subfield ty errors init top Hfs Hcs Hin Hsig W Hfok Hs)
        as [cs1' [fs1' [errs1' [Hpstep' [_ [_ [_ [_ [_ [_ [_ [_ [_ [[top' [Hc' Hf']] _]]]]]]]]]]]]]].
      rewrite Hpstep in Hpstep'. inversion Hpstep'; subst cs1' fs1' errs1'.
      constructor; auto; try lia.
      * rewrite Evs. auto.
      * rewrite Efo. auto.
      * intros _. split; [exact Ep |]. split; [exists top'; split; [exact Hc' |]; rewrite Evs; exact Hf' |].
        intros f Hf. destruct (Hgl f Hf) as [H | H]; [left; exact H |]. right. left.
        rewrite H, Evs. apply in_keys. eexists; exact Hin.
Qed.

(* ---------------- fill_in_vertex_data ---------------- *)
Theorem fill_in_vertex_data_spec : forall S node, fill_spec S node.
Proof.
  intros S node. induction node as [name alias co f o t conns tg IH] using field_node_ind'.
  intros cs fs vid pre folds HS Hty Hvalid Hclean Hfs Hcs Hlt Hfresh.
  set (node := mkFN name alias co f o t conns tg) in *.
  unfold node at 2. rewrite fill_unfold. fold node.
  destruct (nmap_insert_new_fresh _ vid (pre, node) (cs_vertices cs) Hfresh) as [vertices [Hins Hchar]].
  rewrite Hins. cbv zeta.
  unfold has_type in Hty. destruct (find_type (post_of pre node) (s_vts S)) as [tdef |] eqn:Hft; [| discriminate Hty].
  unfold get_vertex_field_definitions. rewrite Hft. cbn [bind].
  set (cs1 := mkCS vertices (cs_edges cs) (cs_folds cs) (cs_prop_names cs) (cs_props cs)).
  assert (Hcs1 : cs_inv S cs1 fs).
  { destruct Hcs as [C1 C2 C3 C4 C5 C6 C7]. constructor; cbn [cs1 cs_vertices cs_edges cs_prop_names cs_props cs_folds]; auto.
    - intros k Hk. apply (keys_insert _ _ _ _ _ Hchar) in Hk. destruct Hk as [-> | Hk]; [exact Hlt | exact (C1 k Hk)].
    - eapply nmap_insert_new_nodup; eassumption.
    - intros eid from to conn Hx. destruct (C4 _ _ _ _ Hx) as [p [n [Hin He]]].
      exists p, n. split; [apply Hchar; right; exact Hin | exact He].
    - intros v nm n ty fields Hx. destruct (C6 _ _ _ _ _ Hx) as [p [nd [Hin Hs]]].
      exists p, nd. split; [apply Hchar; right; exact Hin | exact Hs]. }
  assert (Hin1 : In (vid, (pre, node)) (cs_vertices cs1)) by (apply Hchar; left; reflexivity).
  destruct (fill_loop_ok S vid pre node tdef folds conns HS Hft IH Hvalid Hclean cs1 fs [] Hin1 Hfs Hcs1)
    as [cs' [fs' [e [Hloop Hpost]]]].
  exists cs', fs', e. split; [exact Hloop |].
  intros init top Hs. destruct (Hpost init top Hs) as [P1 P2 P3 P4 P5 P6 P6f P7].
  constructor; auto.
  - intros x Hx. apply P6. apply Hchar. right; exact Hx.
  - intros He. destruct (P7 He) as [Hp [[top' [Hc Hf]] Hg]]. split; [exact Hp |]. split; [| exact Hg].
    exists top'. split; [exact Hc |].
    intros Hfr. apply Hf. intros g Hgg. destruct (Hfr g Hgg) as [c [Ec Hc']]. exists c. split; [exact Ec |].
    apply (keys_insert _ _ _ _ _ Hchar). right; exact Hc'.
Qed.

(* ================================================================== D. make_ir_for_query *)
Lemma snoc_is_cons : forall A (l : list A) x, exists a b, l ++ [x] = a :: b.
Proof. intros A l x. destruct l; cbn; eexists; eexists; reflexivity. Qed.

(* the per-site classes as one boolean (K-enum-argument, K-double-transform, any @output on a
   @fold @transform, K-schema-duplicate-parameter, K-nonorderable-variable, K-one-of-max-depth) *)
Definition site_dirty (S : schema) (st : site) : bool :=
  (existsb (fun a => negb (enum_free (snd a))) (fc_args (st_conn st))
   || match fc_fold (st_conn st) with
      | Some (mkFG (Some g)) =>
          (match tg_retransform g with Some _ => true | None => false end
           || match tg_outputs g with [] => false | _ => true end)%bool
      | _ => false
      end
   || match st_def st with
      | Some fd =>
          (has_dup (map a_name (SchemaAst.f_args fd))
           || (negb (orderable_base (gbase (SchemaAst.f_ty fd))) && has_var_filter is_ordering (fn_filters (st_node st)))
           || (Nat.leb 30 (gdepth (SchemaAst.f_ty fd)) && has_var_filter is_bulk (fn_filters (st_node st))))%bool
      | None => false
      end)%bool.

Lemma site_dirty_clean : forall S st, site_dirty S st = false -> site_clean S st.
Proof.
  intros S st H. unfold site_dirty in H.
  apply Bool.orb_false_iff in H. destruct H as [H H3].
  apply Bool.orb_false_iff in H. destruct H as [H1 H2].
  split; [| split].
  - intros a Ha. destruct (enum_free (snd a)) eqn:E; [reflexivity |].
    assert (existsb (fun a => negb (enum_free (snd a))) (fc_args (st_conn st)) = true).
    { apply existsb_exists. exists a. split; [exact Ha | rewrite E; reflexivity]. }
    congruence.
  - intros g Hg. rewrite Hg in H2. apply Bool.orb_false_iff in H2. destruct H2 as [Ha Hb].
    split; [destruct (tg_retransform g); [discriminate Ha | reflexivity] |
            destruct (tg_outputs g); [reflexivity | discriminate Hb]].
  - intros fd Hfd. rewrite Hfd in H3.
    apply Bool.orb_false_iff in H3. destruct H3 as [H3 Hc].
    apply Bool.orb_false_iff in H3. destruct H3 as [Ha Hb].
    split; [exact Ha |]. split.
    + intros Hv. rewrite Hv, Bool.andb_true_r in Hb. apply Bool.negb_false_iff in Hb. exact Hb.
    + intros Hv. rewrite Hv, Bool.andb_true_r in Hc. apply Nat.leb_gt in Hc. exact Hc.
Qed.

(* the classes of make_ir_for_query, with K-fold-count-output-clash widened to "some
   @fold @transform(count) carries an @output" *)
Definition known2_strict (S : schema) (q : query) : bool :=
  (k_root_typename q || k_fragment_under_property S q || existsb (site_dirty S) (query_sites S q))%bool.

Theorem front_total : forall S q,
  schema_ok S -> wf_query q = true -> known2_strict S q = false -> exists r, front S q = Ok r.
Proof.
  intros S q HS Hwf Hk. unfold known2_strict in Hk.
  apply Bool.orb_false_iff in Hk. destruct Hk as [Hk Hdirty].
  apply Bool.orb_false_iff in Hk. destruct Hk as [Hroot Hf3].
  assert (Hclean : forall st, In st (query_sites S q) -> site_clean S st).
  { intros st Hst. apply site_dirty_clean. destruct (site_dirty S st) eqn:E; [| reflexivity].
    assert (existsb (site_dirty S) (query_sites S q) = true) by (apply existsb_exists; exists st; auto).
    congruence. }
  unfold front, validate_query_against_schema.
  destruct (validate_field_spec S (q_field q) (s_qname S) [] (q_conn q) Hwf Hf3) as [rv [Hrv _]].
  rewrite Hrv. cbn [bind]. destruct rv as [e | p']; [eexists; reflexivity |]. cbn [bind].
  destruct (so_root S HS) as [troot Hroot_t]. rewrite Hroot_t. cbn [bind].
  assert (Hcv : child_valid S (s_qname S) (q_conn q, q_field q)) by (exists [], p'; exact Hrv).
  destruct (gfnt_ok S (s_qname S) troot (q_conn q) (q_field q) HS Hroot_t Hcv)
    as [n [pre [post' [ty [Hg [Hn [Hcn [Hsig [W [Htn Hnt]]]]]]]]]].
  rewrite Hg. cbn [bind].
  (* the root field is not the meta field *)
  assert (Etn : String.eqb (fn_name (q_field q)) TYPENAME = false).
  { destruct (String.eqb (fn_name (q_field q)) TYPENAME) eqn:E; [| reflexivity].
    exfalso. unfold k_root_typename in Hroot. rewrite E in Hroot. cbn [andb] in Hroot.
    destruct (q_field q) as [nm al co ff oo tt conns tg] eqn:Eq. cbn [fn_name fn_connections] in *.
    destruct (validate_inv _ _ _ _ _ _ _ _ _ _ _ _ _ Hrv) as [_ [Hc _]]. rewrite (Hc E) in Hroot. discriminate Hroot. }
  destruct (Hnt Etn) as [fd [Hfd [Hinfd [Hpre [Hpost [Hbase [Hdepth [Hco Hkids]]]]]]]].
  subst n. rewrite (get_edge_definition_ok _ _ _ _ Hfd). cbn [bind].
  (* the root site *)
  assert (Hsites : query_sites S q =
                   mkSite (s_qname S) (q_conn q) (q_field q) (Some fd) O
                   :: child_sites S post' (match fc_fold (q_conn q) with Some _ => 1%nat | None => O end)
                        (fn_connections (q_field q))).
  { unfold query_sites. destruct (q_field q) as [nm al co ff oo tt conns tg]. rewrite sites_unfold. cbv zeta.
    cbn [fn_name] in Etn, Hfd. rewrite Etn, Hfd. subst post'. unfold post_of. cbn [fn_coerced_to fn_connections].
    rewrite Hpre. destruct co; reflexivity. }
  assert (Hhead : site_clean S (mkSite (s_qname S) (q_conn q) (q_field q) (Some fd) O)).
  { apply Hclean. rewrite Hsites. left; reflexivity. }
  destruct Hhead as [Henum [_ Hdef]]. cbn [st_conn st_def st_node] in Henum, Hdef.
  destruct (Hdef fd eq_refl) as [Hdup _].
  pose proof (so_root_edges S HS troot fd Hroot_t Hinfd) as Hgb.
  destruct (make_edge_parameters_total fd (fc_args (q_conn q))
              (proj2 (proj2 (so_fields S HS _ _ _ Hroot_t Hinfd)) Hgb) Hdup Henum) as [rp Hrp].
  rewrite Hrp. cbn [bind].
  assert (Hpt : has_type post' (s_vts S) = true).
  { subst post'. unfold post_of. destruct (fn_coerced_to (q_field q)) as [co |] eqn:Eco.
    - exact (proj2 (Hco co eq_refl)).
    - rewrite Hpre. exact Hgb. }
  set (fs0 := mkFS 2 1 [1] (oh_new 1 None) th_empty).
  destruct (make_query_component_ok S
              (fun cs fs => fill_in_vertex_data S cs fs 1 pre post' (q_field q)) fs0 1 (so_origins S HS))
    as [fs' [rc [Hmqc Hpostc]]].
  { intros cs0 fsx Hi0 Hc0 Hlt0 Hn0. subst post'.
    apply (fill_in_vertex_data_spec S (q_field q) cs0 fsx 1 pre
             (match fc_fold (q_conn q) with Some _ => 1%nat | None => O end) HS); try assumption.
    intros st Hst. apply Hclean. rewrite Hsites. right; exact Hst. }
  { repeat split; cbn; [discriminate | constructor]. }
  { split; cbn; [intros v [] | intros v Hv; exfalso; apply Hv; reflexivity]. }
  { cbn. lia. }
  rewrite Hmqc. cbn [bind fst snd].
  destruct Hpostc as [Q1 [Q2 [Q3 [Q4 [Q5 [Q6 Q7]]]]]].
  destruct rc as [e | comp].
  - destruct (Q6 e eq_refl) as [Hne _].
    match goal with |- context [match ?x ++ e with _ => _ end] => destruct (x ++ e) eqn:E end;
      [| eexists; reflexivity].
    apply app_eq_nil in E. destruct E as [_ E]. contradiction.
  - destruct (Q7 comp eq_refl) as [Hpath [Hstack [Hcwf Hcov]]].
    destruct (fill_in_query_variables_total comp [] Hcwf (Forall_nil _)) as [fv [Hfv _]].
    rewrite Hfv. cbn [bind].
    unfold oh_finish. rewrite Q5, Hstack. cbn [fs0 fs_out oh_new oh_vid_stack oh_comp_stack bind].
    destruct (check_for_duplicate_output_names (oh_global (fs_out fs'))) as [duplicates | outs] eqn:Hdupc.
    + destruct (dup_error_np (collect_ir_vertices comp) duplicates) as [de Hde].
      { intros k vs f Hin Hfin.
        unfold check_for_duplicate_output_names in Hdupc.
        destruct (duplicates_of _) as [| d ds] eqn:Hd; [discriminate Hdupc |]. inversion Hdupc; subst duplicates.
        rewrite <- Hd in Hin. pose proof (duplicates_vals _ _ _ _ _ Hin Hfin) as Hv. rewrite flat_vals in Hv.
        destruct (Hcov f Hv) as [H | H]; [destruct H | exact H]. }
      rewrite Hde. cbn [bind].
      assert (Hde' : exists x, de = [x]).
      { unfold make_duplicated_output_names_error in Hde. destruct (rmap _ duplicates); cbn [bind] in Hde;
          [inversion Hde; eexists; reflexivity | discriminate Hde]. }
      destruct Hde' as [x ->].
      match goal with |- context [?l ++ [x]] => destruct (snoc_is_cons _ l x) as [a0 [b0 E0]]; rewrite E0 end.
      eexists; reflexivity.
    + cbn [bind]. destruct rp as [e0 | p].
      * pose proof (make_edge_parameters_inl _ _ _ Hrp) as Hne. destruct e0; [contradiction |].
        destruct (th_finish (fs_tags fs')); cbn [app]; eexists; reflexivity.
      * destruct (th_finish (fs_tags fs')); destruct (map FEFilterType (snd fv)); cbn [app]; eexists; reflexivity.
Qed.

(* ================================================================== E. documents, classes, executable schema check *)
(* the reported classes are contained in the (wider) classes excluded by front_total *)
Lemma existsb_mono : forall A (p q : A -> bool) l,
  (forall x, p x = true -> q x = true) -> existsb p l = true -> existsb q l = true.
Proof.
  intros A p q l H Hp. apply existsb_exists in Hp. destruct Hp as [x [Hin Hx]].
  apply existsb_exists. exists x. split; [exact Hin | apply H; exact Hx].
Qed.

Theorem known2_sub_strict : forall S q, known2 S q = true -> known2_strict S q = true.
Proof.
  intros S q H. unfold known2 in H. unfold known2_strict.
  repeat (apply Bool.orb_true_iff in H; destruct H as [H | H]);
    try (rewrite H; cbn; rewrite ?Bool.orb_true_r; reflexivity);
    (apply Bool.orb_true_iff; right).
  - (* enum argument *)
    unfold k_enum_argument in H. eapply existsb_mono; [| exact H].
    intros st Hst. cbv beta in Hst. unfold site_dirty. rewrite Hst. reflexivity.
  - (* double transform *)
    unfold k_double_transform in H. eapply existsb_mono; [| exact H].
    intros st Hst. cbv beta in Hst. unfold site_dirty. destruct (fc_fold (st_conn st)) as [[[g |]] |]; try discriminate Hst.
    destruct (tg_retransform g); [| discriminate Hst]. cbn. rewrite Bool.orb_true_r. reflexivity.
  - (* non-orderable variable *)
    unfold k_nonorderable_variable in H. eapply existsb_mono; [| exact H].
    intros st Hst. cbv beta in Hst. unfold site_dirty. destruct (st_def st) as [fd |]; [| discriminate Hst].
    rewrite Hst. rewrite !Bool.orb_true_r. reflexivity.
  - (* one_of at the maximal depth *)
    unfold k_one_of_max_depth in H. eapply existsb_mono; [| exact H].
    intros st Hst. cbv beta in Hst. unfold site_dirty. destruct (st_def st) as [fd |]; [| discriminate Hst].
    rewrite Hst. rewrite !Bool.orb_true_r. reflexivity.
  - (* fold-count output clash *)
    unfold k_fold_count_output_clash in H. apply Bool.andb_true_iff in H. destruct H as [H _].
    eapply existsb_mono; [| exact H].
    intros st Hst. cbv beta in Hst. unfold site_dirty. destruct (fc_fold (st_conn st)) as [[[g |]] |]; try discriminate Hst.
    destruct (tg_outputs g); [discriminate Hst |]. cbn. rewrite !Bool.orb_true_r. reflexivity.
  - (* duplicate schema parameter *)
    unfold k_schema_duplicate_parameter in H. eapply existsb_mono; [| exact H].
    intros st Hst. cbv beta in Hst. unfold site_dirty. destruct (st_def st) as [fd |]; [| discriminate Hst].
    rewrite Hst. cbn. rewrite !Bool.orb_true_r. reflexivity.
Qed.

Definition known_strict (S : schema) (d : document) : bool :=
  (known1 d || match parse_doc d with Ok (inr q) => known2_strict S q | _ => false end)%bool.

Theorem known_sub_strict : forall S d, known S d = true -> known_strict S d = true.
Proof.
  intros S d H. unfold known in H. unfold known_strict.
  apply Bool.orb_true_iff in H. destruct H as [H | H]; [rewrite H; reflexivity |].
  apply Bool.orb_true_iff. right. destruct (parse_doc d) as [[e | q] | s]; try discriminate H.
  apply known2_sub_strict. exact H.
Qed.

(* frontend::parse_doc = parse_document followed by make_ir_for_query *)
Theorem front_doc_total : forall S d,
  schema_ok S -> known_strict S d = false -> exists r, front_doc S d = Ok r.
Proof.
  intros S d HS Hk. unfold known_strict in Hk. apply Bool.orb_false_iff in Hk. destruct Hk as [H1 H2].
  destruct (parse_document_total d) as [r Hr].
  { unfold Known1. rewrite H1. discriminate. }
  unfold front_doc. rewrite Hr. rewrite Hr in H2. destruct r as [e | q]; [eexists; reflexivity |].
  destruct (front_total S q HS (parse_doc_wf d q Hr) H2) as [x Hx]. rewrite Hx.
  destruct x; eexists; reflexivity.
Qed.

(* ---------------- an executable check of schema_ok ---------------- *)
Definition arg_okb (a : arg) : bool :=
  match from_type (a_ty a) with
  | Ok t => match a_default a with
            | Default v => match ty_valid t v with Ok true => true | _ => false end
            | BadDefault => false
            | NoDefault => true
            end
  | Panic _ => false
  end.
Definition origin_okb (S : schema) (tn fn : string) : bool :=
  match omap_get (tn, fn) (s_origins S) with
  | Some (Single a) => match s_field S a fn with Some _ => true | None => false end
  | Some (Multiple _) => true
  | None => false
  end.
Definition field_okb (S : schema) (t : tdef) (f : fld) : bool :=
  ((builtin_scalar (gbase (SchemaAst.f_ty f)) || has_type (gbase (SchemaAst.f_ty f)) (s_vts S))
   && match from_type (SchemaAst.f_ty f) with Ok _ => true | Panic _ => false end
   && (negb (has_type (gbase (SchemaAst.f_ty f)) (s_vts S)) || forallb arg_okb (SchemaAst.f_args f))
   && origin_okb S (t_name t) (SchemaAst.f_name f)
   && (negb (String.eqb (t_name t) (s_qname S)) || has_type (gbase (SchemaAst.f_ty f)) (s_vts S)))%bool.
Definition schema_okb (S : schema) : bool :=
  (has_type (s_qname S) (s_vts S) && negb (has_type TYPENAME (s_vts S))
   && forallb (fun t => forallb (field_okb S t) (t_fields t)) (s_vts S))%bool.

Lemma find_type_in : forall n ts t, find_type n ts = Some t -> In t ts.
Proof.
  intros n ts t. induction ts as [| x r IH]; intros H; [discriminate H |].
  cbn [find_type] in H. destruct (String.eqb (t_name x) n); [inversion H; left; reflexivity | right; apply IH; exact H].
Qed.

Theorem schema_okb_sound : forall S, schema_okb S = true -> schema_ok S.
Proof.
  intros S H. unfold schema_okb in H.
  apply Bool.andb_true_iff in H. destruct H as [H Hall].
  apply Bool.andb_true_iff in H. destruct H as [Hroot Htn].
  rewrite forallb_forall in Hall.
  assert (Hfield : forall tn t f, find_type tn (s_vts S) = Some t -> In f (t_fields t) -> field_okb S t f = true).
  { intros tn t f Ht Hf. pose proof (Hall t (find_type_in _ _ _ Ht)) as Hx. rewrite forallb_forall in Hx. apply Hx; exact Hf. }
  constructor.
  - unfold has_type in Hroot. destruct (find_type (s_qname S) (s_vts S)) as [t |]; [exists t; reflexivity | discriminate Hroot].
  - intros tn t f Ht Hf. pose proof (Hfield tn t f Ht Hf) as Hx. unfold field_okb in Hx.
    repeat (apply Bool.andb_true_iff in Hx; destruct Hx as [Hx ?]).
    split; [apply Bool.orb_true_iff in Hx; exact Hx |]. split.
    + destruct (from_type (SchemaAst.f_ty f)) as [ty |]; [exists ty; reflexivity | discriminate].
    + intros Hv. rewrite Hv in *. cbn [negb orb] in *. rewrite Forall_forall. intros a Ha.
      match goal with Hfa : forallb arg_okb _ = true |- _ => rewrite forallb_forall in Hfa; pose proof (Hfa a Ha) as Hok end.
      unfold arg_okb in Hok. unfold arg_ok. destruct (from_type (a_ty a)) as [ty |]; [| discriminate Hok].
      exists ty. split; [reflexivity |]. destruct (a_default a) as [| | v]; [exact I | discriminate Hok |].
      destruct (ty_valid ty v) as [[|] |]; [reflexivity | discriminate Hok | discriminate Hok].
  - intros t f Ht Hf. pose proof (Hfield _ t f Ht Hf) as Hx. unfold field_okb in Hx.
    repeat (apply Bool.andb_true_iff in Hx; destruct Hx as [Hx ?]).
    rewrite (find_type_name _ _ _ Ht), String.eqb_refl in *. cbn [negb orb] in *. assumption.
  - intros tn fn Hdef. unfold s_field in Hdef.
    destruct (find_type tn (s_vts S)) as [t |] eqn:Ht; [| exfalso; apply Hdef; reflexivity].
    destruct (find_field fn (t_fields t)) as [f |] eqn:Hf; [| exfalso; apply Hdef; reflexivity].
    destruct (find_field_name _ _ _ Hf) as [Hn Hin].
    pose proof (Hfield tn t f Ht Hin) as Hx. unfold field_okb in Hx.
    repeat (apply Bool.andb_true_iff in Hx; destruct Hx as [Hx ?]).
    match goal with Ho : origin_okb _ _ _ = true |- _ => unfold origin_okb in Ho; rewrite (find_type_name _ _ _ Ht), Hn in Ho end.
    destruct (omap_get (tn, fn) (s_origins S)) as [[a | m] |]; try discriminate.
    + exists (Single a). split; [reflexivity |]. destruct (s_field S a fn); [discriminate | discriminate].
    + exists (Multiple m). split; [reflexivity | exact I].
  - apply Bool.negb_true_iff in Htn. exact Htn.
Qed.

(* the witness schema satisfies the hypotheses of front_total *)
Lemma mini_schema_ok : schema_ok mini_schema.
Proof. apply schema_okb_sound. vm_compute. reflexivity. Qed.
Lemma q_rich_not_known_strict : known_strict mini_schema q_rich = false.
Proof. vm_compute. reflexivity. Qed.
