(* Graph.v — the data source behind a contract-abiding adapter, as five pure oracles, and the
   finite dataset format the correspondence harness prints (its GraphAdapter implements exactly
   `graph_of_dataset`). *)
From TF Require Export IR.
Local Open Scope string_scope.
Local Open Scope N_scope.
Local Open Scope list_scope.

Definition vertex := N.

(* TaggedValue: a tag's value, or the marker that it comes from an @optional scope that did not exist *)
Inductive tagged := TNone (* NonexistentOptional *) | TSome (v : fv).

(* BTreeMap<FieldRef, _> as an association list (keys compared with FieldRef's Ord, see IR.v) *)
Fixpoint lookup_ref {A} (k : fieldref) (l : list (fieldref * A)) : option A :=
  match l with
  | [] => None
  | (k', a) :: r => if fieldref_eqb k k' then Some a else lookup_ref k r
  end.
(* BTreeMap::insert: replace or add *)
Fixpoint insert_ref {A} (k : fieldref) (a : A) (l : list (fieldref * A)) : list (fieldref * A) :=
  match l with
  | [] => [(k, a)]
  | (k', a') :: r => if fieldref_eqb k k' then (k, a) :: r else (k', a') :: insert_ref k a r
  end.
(* BTreeMap::remove *)
Fixpoint remove_ref {A} (k : fieldref) (l : list (fieldref * A)) : option (list (fieldref * A)) :=
  match l with
  | [] => None
  | (k', a') :: r => if fieldref_eqb k k' then Some r
                     else match remove_ref k r with Some r' => Some ((k', a') :: r') | None => None end
  end.

Record graph := mkGraph {
  g_starts : string -> params -> list vertex;                 (* resolve_starting_vertices *)
  g_prop   : string -> string -> vertex -> fv;                (* resolve_property: type, field *)
  g_nbrs   : string -> string -> params -> vertex -> list vertex;  (* resolve_neighbors: type, edge, parameters *)
  g_coerce : string -> string -> vertex -> bool               (* resolve_coercion: from type, to type *)
}.

(* ---- finite datasets ---- *)
Record dataset := mkDS {
  d_vtype  : list (N * string);                    (* concrete type of each vertex *)
  d_props  : list (N * list (string * fv));        (* property values (absent = null) *)
  d_edges  : list (N * list (string * list N));    (* vertex -> edge name -> neighbours, in order *)
  d_starts : list (string * list N);               (* entry point -> vertices, in order *)
  d_subs   : list (string * list string)           (* type -> the concrete types that are instances of it *)
}.

Definition typename_field : string := "__typename".

Definition mem_str (s : string) (l : list string) : bool := existsb (String.eqb s) l.

(* Edge / entry-point parameters act as a filter on vertex ids: a parameter whose name starts with
   "lo" keeps ids >= its value, one starting with "hi" keeps ids <= its value; null and non-integer
   values, and other parameter names, do not constrain. *)
Definition param_keeps (p : string * fv) (n : N) : bool :=
  let name := fst p in
  match snd p with
  | I64 z | U64 z =>
      if String.prefix "lo" name then Z.leb z (Z.of_N n)
      else if String.prefix "hi" name then Z.leb (Z.of_N n) z
      else true
  | _ => true
  end.
Definition params_keep (ps : params) (n : N) : bool := forallb (fun p => param_keeps p n) ps.

Definition ds_vtype (d : dataset) (v : N) : string :=
  match lookup_N v (d_vtype d) with Some t => t | None => "" end.

Definition ds_prop (d : dataset) (_ty field : string) (v : N) : fv :=
  if String.eqb field typename_field then Str (ds_vtype d v)
  else match lookup_N v (d_props d) with
       | Some ps => match lookup_str field ps with Some x => x | None => Null end
       | None => Null
       end.

Definition ds_nbrs (d : dataset) (_ty edge : string) (ps : params) (v : N) : list N :=
  match lookup_N v (d_edges d) with
  | Some es => match lookup_str edge es with
               | Some ns => filter (params_keep ps) ns
               | None => []
               end
  | None => []
  end.

Definition ds_starts (d : dataset) (name : string) (ps : params) : list N :=
  match lookup_str name (d_starts d) with
  | Some ns => filter (params_keep ps) ns
  | None => []
  end.

Definition ds_coerce (d : dataset) (_from to : string) (v : N) : bool :=
  match lookup_str to (d_subs d) with
  | Some l => mem_str (ds_vtype d v) l
  | None => false
  end.

Definition graph_of_dataset (d : dataset) : graph :=
  mkGraph (ds_starts d) (ds_prop d) (ds_nbrs d) (ds_coerce d).
