(* Hints.v — model of trustfall_core/src/interpreter/hints/{filters.rs, vertex_info.rs, mod.rs, dynamic.rs}
   (the optimisation hints adapters see through ResolveInfo / ResolveEdgeInfo / NeighborInfo / EdgeInfo /
   DynamicallyResolvedValue).  Model file: definitions only (proofs are in HintsProofs.v).

   A `VertexInfo` object is the record `vinfo`; `InternalVertexInfo`'s accessors are functions of it
   and of the query (`indexed_query.vids[..]` = comp_of_vid, `indexed_query.eids[..]` = step_of_eid).
   Candidate arithmetic is Cand.v's (`f_intersect`, `f_normalize`, `f_exclude`, `f_range_with_*`).
   Every index / expect / unreachable! / assert! of the Rust code is an explicit `Panic`.

   The last part (`trace_*`) is the Exec.v interpreter threaded with a log of what an adapter
   observes: every `resolve_property` call (C05) and, per context flowing through a
   `resolve_neighbors` call, the hints of `resolve_info.destination()` with their dynamically
   resolved candidates (C04).  It re-uses Exec.v's stage functions; only the log is new. *)
From TF Require Export Lower Graph Ops Cand Exec Sem.
From TF Require Import Ty Show.
Local Open Scope string_scope.
Local Open Scope N_scope.
Local Open Scope list_scope.

(* ====================================================================================== *)
(* IndexedQuery lookups                                                                     *)
(* ====================================================================================== *)

(* indexed_query.vids[&vid]: the component whose `vertices` holds vid *)
Fixpoint comp_of_vid (c : ir_component) (vid : N) {struct c} : option ir_component :=
  match c with
  | mkComp root vs ss outs =>
      match find_vertex vs vid with
      | Some _ => Some (mkComp root vs ss outs)
      | None =>
          (fix go (ss : list step) : option ir_component :=
             match ss with
             | [] => None
             | SEdge _ :: r => go r
             | SFold h sub :: r =>
                 match comp_of_vid sub vid with Some x => Some x | None => go r end
             end) ss
      end
  end.

(* indexed_query.eids[&eid]: EdgeKind::Regular / EdgeKind::Fold *)
Fixpoint step_of_eid (c : ir_component) (eid : N) {struct c} : option step :=
  match c with
  | mkComp _ _ ss _ =>
      (fix go (ss : list step) : option step :=
         match ss with
         | [] => None
         | SEdge e :: r => if N.eqb (e_eid e) eid then Some (SEdge e) else go r
         | SFold h sub :: r =>
             if N.eqb (fo_eid h) eid then Some (SFold h sub)
             else match step_of_eid sub eid with Some s => Some s | None => go r end
         end) ss
  end.

(* ====================================================================================== *)
(* filters.rs                                                                               *)
(* ====================================================================================== *)

(* an Operation<_, Argument> with its left operand dropped *)
Definition sfilter := (opk * option argument)%type.

(* query_variables[name] *)
Definition var_value (args : list (string * fv)) (name : string) : res fv :=
  expect_some "hints: query_variables[name]: key not found" (lookup_str name args).

(* op.right().and_then(|r| r.evaluate_statically(query_variables)) *)
Definition static_arg (args : list (string * fv)) (a : option argument) : res (option fv) :=
  match a with
  | Some (AVar x _) => do v <- var_value args x; Ok (Some v)
  | _ => Ok None
  end.

(* one element of the partition_map: Some k = Either::Left(k) (a candidate), None = Either::Right(op) *)
Definition static_part (args : list (string * fv)) (f : sfilter) : res (option (cand fv)) :=
  do av <- static_arg args (snd f);
  match fst f, av with
  | IsNull, _ => Ok (Some (Single Null))
  | IsNotNull, _ => Ok (Some (CRange range_full_non_null))
  | Equals, Some v => Ok (Some (Single v))
  | LessThan, Some v => do r <- f_range_with_end (Excl v) true; Ok (Some (CRange r))
  | LessThanOrEqual, Some v => do r <- f_range_with_end (Incl v) true; Ok (Some (CRange r))
  | GreaterThan, Some v => do r <- f_range_with_start (Excl v) true; Ok (Some (CRange r))
  | GreaterThanOrEqual, Some v => do r <- f_range_with_start (Incl v) true; Ok (Some (CRange r))
  | OneOf, Some v =>
      match v with
      | List l => Ok (Some (Multiple l))
      | _ => Panic "filters.rs: query variable was not list-typed"
      end
  | NotEquals, Some v => if fv_is_null v then Ok (Some (CRange range_full_non_null)) else Ok None
  | _, _ => Ok None
  end.

(* the values a post-processing filter disallows *)
Definition disallowed_of (args : list (string * fv)) (f : sfilter) : res (list fv) :=
  match snd f with
  | Some (AVar x _) =>
      do v <- var_value args x;
      match fst f with
      | NotEquals => Ok [v]
      | NotOneOf =>
          match v with
          | List l => Ok l
          | _ => Panic "filters.rs: not_one_of operand was not a list"
          end
      | _ => Ok []
      end
  | _ => Ok []
  end.

(* candidate_from_statically_evaluated_filters *)
Definition static_candidate (args : list (string * fv)) (fs : list sfilter) (nullable : bool)
  : res (option (cand fv)) :=
  do parts <- mapM (fun f => do p <- static_part args f; Ok (f, p)) fs;
  let cands := flat_map (fun fp => match snd fp with Some k => [k] | None => [] end) parts in
  let post := flat_map (fun fp => match snd fp with Some _ => [] | None => [fst fp] end) parts in
  match cands with
  | [] => Ok None
  | _ =>
      let initial := if nullable then All else CRange range_full_non_null in
      do c0 <- foldM (fun acc e => f_intersect acc e) cands initial;
      do c1 <- f_normalize c0;
      match post with
      | [] => Ok (Some c1)
      | _ =>
          do dis <- flat_mapM (disallowed_of args) post;
          do c2 <- foldM (fun acc d => f_exclude acc d) dis c1;
          Ok (Some c2)
      end
  end.

(* FieldValue::as_u64 *)
Definition as_u64 (v : fv) : option Z :=
  match v with
  | U64 u => Some u
  | I64 i => if (0 <=? i)%Z then Some i else None
  | _ => None
  end.
Definition u64_or_default (v : fv) : Z := match as_u64 v with Some z => z | None => 0%Z end.

(* the closure of fold_requires_at_least_one_element: do all candidate counts require >= 1 ? *)
Definition count_cand_requires_one (c : cand fv) : bool :=
  match c with
  | Impossible => false
  | Single x => (1 <=? u64_or_default x)%Z
  | Multiple l => forallb (fun x => (1 <=? u64_or_default x)%Z) l
  | CRange r =>
      match rstart r with
      | Incl inc => (1 <=? u64_or_default inc)%Z
      | Excl inc => match as_u64 inc with Some _ => true | None => false end
      | Unb => false
      end
  | All => false
  end.

Definition post_sfilters (h : fold_hdr) : list sfilter := map (fun pf => (pf_op pf, pf_arg pf)) (fo_post h).

(* fold_requires_at_least_one_element (every post-filter's left operand is Count) *)
Definition fold_requires_nonempty (args : list (string * fv)) (h : fold_hdr) : res bool :=
  do c <- static_candidate args (post_sfilters h) false;
  Ok (match c with Some k => count_cand_requires_one k | None => false end).

(* ====================================================================================== *)
(* mod.rs / vertex_info.rs                                                                  *)
(* ====================================================================================== *)

(* Bound<Vid> as used by execution_frontier (never Unbounded) *)
Inductive frontier := FIncl (v : N) | FExcl (v : N).
(* (Bound::Unbounded, frontier).contains(&x) *)
Definition resolved (f : frontier) (x : N) : bool :=
  match f with FIncl v => x <=? v | FExcl v => x <? v end.

(* ResolveInfo (vi_is_resolve = true: start = vid, not optional, not locally non-binding) or NeighborInfo *)
Record vinfo := mkVI {
  vi_is_resolve : bool;
  vi_start : N;            (* starting_vertex (ResolveInfo: current_vid) *)
  vi_vid : N;              (* current_vid / neighbor_vertex *)
  vi_front : frontier;     (* execution_frontier *)
  vi_opt : bool;           (* within_optional_scope *)
  vi_lnb : bool            (* locally_non_binding_filters *)
}.

(* ResolveInfo::new(query, vid, vertex_completed) *)
Definition resolve_info (vid : N) (completed : bool) : vinfo :=
  mkVI true vid vid (if completed then FIncl vid else FExcl vid) false false.

Inductive foldstate := FoldNone | FoldedOptional | FoldedMandatory.

Record einfo := mkEI {
  ei_eid : N; ei_params : params; ei_optional : bool; ei_rec : option recursive;
  ei_folded : foldstate; ei_dest : vinfo
}.

(* EdgeInfo::is_mandatory *)
Definition ei_mandatory (e : einfo) : bool :=
  (match ei_folded e with FoldedOptional => false | _ => true end)
  && negb (ei_optional e)
  && (match ei_rec e with None => true | Some _ => false end).

(* check_locally_non_binding_filters_for_edge *)
Definition locally_non_binding (e : ir_edge) : bool :=
  match e_rec e with Some r => 2 <=? r_depth r | None => false end.

(* dedup keeping first occurrences: `properties.filter(move |r| seen_property.insert(r.name.clone()))` *)
Fixpoint dedup_str (seen : list string) (l : list string) : list string :=
  match l with
  | [] => []
  | x :: r => if mem_str x seen then dedup_str seen r else x :: dedup_str (x :: seen) r
  end.

(* a DynamicallyResolvedValue: resolve_on_component (by its starting vertex), field, bare operation,
   initial candidate *)
Record dynv := mkDV { dv_start : N; dv_field : fieldref; dv_op : opk; dv_init : cand fv }.

Definition is_cmp_op (o : opk) : bool :=
  match o with LessThan | LessThanOrEqual | GreaterThan | GreaterThanOrEqual => true | _ => false end.
Definition dyn_supported_op (o : opk) : bool :=
  match o with
  | Equals | NotEquals | LessThan | LessThanOrEqual | GreaterThan | GreaterThanOrEqual | OneOf => true
  | _ => false
  end.

Section WithQuery.
  Variable q : ir_query.
  Variable args : list (string * fv).

  Definition comp_at (vid : N) : res ir_component :=
    expect_some "hints: indexed_query.vids[vid]: key not found" (comp_of_vid (q_comp q) vid).
  Definition current_component (vi : vinfo) : res ir_component := comp_at (vi_vid vi).
  Definition starting_component (vi : vinfo) : res ir_component := comp_at (vi_start vi).
  Definition current_vertex (vi : vinfo) : res ir_vertex :=
    do c <- current_component vi;
    expect_some "hints: component.vertices[vid]: key not found" (find_vertex (c_vertices c) (vi_vid vi)).

  Definition non_binding (vi : vinfo) : bool := vi_opt vi || vi_lnb vi.

  (* VertexInfo::coerced_to_type *)
  Definition coerced_to_type (vi : vinfo) : res (option string) :=
    do v <- current_vertex vi;
    Ok (match v_from v with Some _ => Some (v_type v) | None => None end).

  (* the third clause's scan: tags of THIS component's vertex filters that point at `vid` *)
  Definition tag_uses_of (vid : N) (vs : list ir_vertex) : list string :=
    flat_map (fun w =>
      flat_map (fun f =>
        match vf_arg f with
        | Some (ATag (FRContext cf)) => if N.eqb vid (cf_vid cf) then [cf_name cf] else []
        | _ => []
        end) (v_filters w)) vs.

  (* the fourth clause (repair of F11): per fold of THIS component, in Eid order, the context-field
     tags it imports that point at `vid`, then the tag operands of its fold-count filters that do *)
  Definition fold_tag_uses_of (vid : N) (ss : list step) : list string :=
    flat_map (fun s =>
      match s with
      | SEdge _ => []
      | SFold h _ =>
          flat_map (fun t => match t with
                             | FRContext cf => if N.eqb vid (cf_vid cf) then [cf_name cf] else []
                             | FRFold _ => []
                             end) (fo_imported h)
          ++ flat_map (fun pf => match pf_arg pf with
                                 | Some (ATag (FRContext cf)) => if N.eqb vid (cf_vid cf) then [cf_name cf] else []
                                 | _ => []
                                 end) (fo_post h)
      end) ss.

  (* VertexInfo::required_properties *)
  Definition required_properties (vi : vinfo) : res (list string) :=
    do comp <- current_component vi;
    do v <- current_vertex vi;
    let p1 := flat_map (fun o => if N.eqb (cf_vid (snd o)) (v_vid v) then [cf_name (snd o)] else []) (c_outputs comp) in
    let p2 := map vf_field (v_filters v) in
    let p3 := tag_uses_of (v_vid v) (c_vertices comp) in
    let p4 := fold_tag_uses_of (v_vid v) (c_steps comp) in
    Ok (dedup_str [] (p1 ++ p2 ++ p3 ++ p4)).

  (* filters_on_local_property *)
  Definition filters_on (v : ir_vertex) (p : string) : list vfilter :=
    filter (fun f => String.eqb (vf_field f) p) (v_filters v).

  Definition is_static_filter (f : vfilter) : bool :=
    match vf_arg f with None | Some (AVar _ _) => true | Some (ATag _) => false end.

  (* VertexInfo::statically_required_property *)
  Definition statically_required (vi : vinfo) (p : string) : res (option (cand fv)) :=
    if non_binding vi then Ok None
    else
      do v <- current_vertex vi;
      match filter is_static_filter (filters_on v p) with
      | [] => Ok None
      | f0 :: rest =>
          do c <- static_candidate args (map (fun f => (vf_op f, vf_arg f)) (f0 :: rest)) (ty_nullable (vf_fty f0));
          match c with
          | Some (CRange (mkRange Unb Unb true)) =>
              Panic "vertex_info.rs: debug_assert caught returning a completely unrestricted range"
          | _ => Ok c
          end
      end.

  Definition is_dynamic_filter (fr : frontier) (f : vfilter) : bool :=
    dyn_supported_op (vf_op f) &&
    match vf_arg f with
    | Some (ATag (FRContext cf)) => resolved fr (cf_vid cf)
    | Some (ATag (FRFold ff)) => resolved fr (ff_root ff)
    | _ => false
    end.

  Definition first_with {A} (p : A -> bool) (l : list A) : option A := List.find p l.

  (* the filter_to_use block *)
  Definition choose_filter (first_filter : vfilter) (relevant : list vfilter) : vfilter :=
    match first_with (fun f => opk_eqb (vf_op f) Equals) relevant with
    | Some f => f
    | None =>
        match first_with (fun f => opk_eqb (vf_op f) OneOf) relevant with
        | Some f => f
        | None =>
            match first_with (fun f => is_cmp_op (vf_op f)) relevant with
            | Some f => f
            | None => first_filter
            end
        end
    end.

  (* VertexInfo::dynamically_required_property *)
  Definition dynamically_required (vi : vinfo) (p : string) : res (option dynv) :=
    if non_binding vi then Ok None
    else
      do v <- current_vertex vi;
      match filter (is_dynamic_filter (vi_front vi)) (filters_on v p) with
      | [] => Ok None
      | first_filter :: rest =>
          do st <- statically_required vi p;
          let initial := match st with
                         | Some k => k
                         | None => if ty_nullable (vf_fty first_filter) then All else CRange range_full_non_null
                         end in
          let f := choose_filter first_filter (first_filter :: rest) in
          match vf_arg f with
          | None => Panic "vertex_info.rs: filter did not have an operand"
          | Some (AVar _ _) => Panic "vertex_info.rs: operand was not a tag"
          | Some (ATag field) =>
              do _ <- starting_component vi;
              Ok (Some (mkDV (vi_start vi) field (vf_op f) initial))
          end
      end.

  (* make_non_folded_edge_info: ResolveInfo marks the destination optional from the edge itself;
     NeighborInfo only propagates its own flag *)
  Definition make_non_folded (vi : vinfo) (e : ir_edge) : einfo :=
    mkEI (e_eid e) (e_params e) (e_optional e) (e_rec e) FoldNone
         (mkVI false (vi_start vi) (e_to e) (vi_front vi)
               (if vi_is_resolve vi then e_optional e else vi_opt vi)
               (locally_non_binding e)).

  (* make_folded_edge_info *)
  Definition make_folded (vi : vinfo) (h : fold_hdr) : res einfo :=
    do req <- fold_requires_nonempty args h;
    Ok (mkEI (fo_eid h) (fo_params h) false None
             (if req then FoldedMandatory else FoldedOptional)
             (mkVI false (vi_start vi) (fo_to h) (vi_front vi)
                   (if vi_is_resolve vi then negb req else vi_opt vi || negb req)
                   false)).

  (* VertexInfo::edges_with_name: regular edges first, then folds (each in Eid order) *)
  Definition edges_with_name (vi : vinfo) (name : string) : res (list einfo) :=
    do comp <- current_component vi;
    do v <- current_vertex vi;
    let cur := v_vid v in
    let regular := flat_map (fun s => match s with
                                      | SEdge e => if N.eqb (e_from e) cur && String.eqb (e_name e) name
                                                   then [make_non_folded vi e] else []
                                      | SFold _ _ => []
                                      end) (c_steps comp) in
    do folded <- flat_mapM (fun s => match s with
                                     | SFold h _ => if N.eqb (fo_from h) cur && String.eqb (fo_name h) name
                                                    then do e <- make_folded vi h; Ok [e] else Ok []
                                     | SEdge _ => Ok []
                                     end) (c_steps comp);
    Ok (regular ++ folded).

  (* VertexInfo::mandatory_edges_with_name *)
  Definition mandatory_edges_with_name (vi : vinfo) (name : string) : res (list einfo) :=
    if non_binding vi then Ok []
    else do es <- edges_with_name vi name; Ok (filter ei_mandatory es).

  Definition first_edge (vi : vinfo) (name : string) : res (option einfo) :=
    do es <- edges_with_name vi name; Ok (hd_error es).
  Definition first_mandatory_edge (vi : vinfo) (name : string) : res (option einfo) :=
    do es <- mandatory_edges_with_name vi name; Ok (hd_error es).

  (* ResolveEdgeInfo::new(query, current_vid, target_vid, crossing_eid).edge() *)
  Definition resolve_edge_info_edge (origin target eid : N) : res einfo :=
    match step_of_eid (q_comp q) eid with
    | None => Panic "hints: indexed_query.eids[eid]: key not found"
    | Some (SEdge e) =>
        if negb (N.eqb target (e_to e)) then Panic "mod.rs: debug_assert_eq!(target_vid, regular.to_vid)"
        else Ok (mkEI eid (e_params e) (e_optional e) (e_rec e) FoldNone
                      (mkVI false origin (e_to e) (FExcl target) (e_optional e) (locally_non_binding e)))
    | Some (SFold h _) =>
        if negb (N.eqb target (fo_to h)) then Panic "mod.rs: debug_assert_eq!(target_vid, fold.to_vid)"
        else Ok (mkEI eid (fo_params h) false None FoldedMandatory
                      (mkVI false origin (fo_to h) (FExcl target) false false))
    end.
  (* ResolveEdgeInfo::destination *)
  Definition resolve_edge_info_destination (origin target eid : N) : res vinfo :=
    do e <- resolve_edge_info_edge origin target eid; Ok (ei_dest e).

  (* ==================================================================================== *)
  (* dynamic.rs                                                                            *)
  (* ==================================================================================== *)

  (* compute_candidate_from_operation (nullable_ranges = true) and the match of
     resolve_fold_specific_field (nullable_ranges = false), for one (context, tagged value) pair.
     `nullable_ranges` is the null_included flag of the ranges built; it also tells the two functions
     apart: only compute_candidate_from_operation checks `matches!(value, FieldValue::Null)` first and
     yields Impossible for <, <=, >, >=, one_of (repair of F17); resolve_fold_specific_field still calls
     Range::with_end/with_start / as_slice() directly (its values are fold counts, never null).
     N.B. GreaterThanOrEqual builds Range::with_end (an UPPER bound): defect F10. *)
  Definition cand_from_op (nullable_ranges : bool) (op : opk) (initial : cand fv) (t : tagged) : res (cand fv) :=
    match op with
    | Equals | NotEquals | LessThan | LessThanOrEqual | GreaterThan | GreaterThanOrEqual | OneOf =>
        match t with
        | TNone => Ok initial
        | TSome value =>
            match op with
            | Equals => f_intersect initial (Single value)
            | NotEquals => f_exclude initial value
            | _ =>
                if nullable_ranges && fv_is_null value then Ok Impossible
                else
                  match op with
                  | LessThan => do r <- f_range_with_end (Excl value) nullable_ranges; f_intersect initial (CRange r)
                  | LessThanOrEqual => do r <- f_range_with_end (Incl value) nullable_ranges; f_intersect initial (CRange r)
                  | GreaterThan => do r <- f_range_with_start (Excl value) nullable_ranges; f_intersect initial (CRange r)
                  | GreaterThanOrEqual => do r <- f_range_with_end (Incl value) nullable_ranges; f_intersect initial (CRange r)
                  | _ (* OneOf *) =>
                      match value with
                      | List l => f_intersect initial (Multiple l)
                      | _ => Panic "dynamic.rs: field produced an invalid value when resolving @tag"
                      end
                  end
            end
        end
    | _ => Panic "dynamic.rs: unreachable unsupported 'operation'"
    end.

  Variable g : graph.

  (* DynamicallyResolvedValue::resolve, for one context *)
  Definition dyn_resolve (dv : dynv) (c : ctx) : res (cand fv) :=
    do comp <- comp_at (dv_start dv);
    match dv_field dv with
    | FRContext cf =>
        if cf_vid cf <? c_root comp then
          do t <- expect_some "ctx.imported_tags[field_ref]: key not found"
                              (lookup_ref (FRContext cf) (imported_tags c));
          cand_from_op true (dv_op dv) (dv_init dv) t
        else
          do t <- context_field_value g (c_vertices comp) cf c;
          cand_from_op true (dv_op dv) (dv_init dv) t
    | FRFold ff =>
        if ff_root ff <? c_root comp then
          do t <- expect_some "ctx.imported_tags[field_ref]: key not found"
                              (lookup_ref (FRFold ff) (imported_tags c));
          cand_from_op true (dv_op dv) (dv_init dv) t
        else
          do t <- fold_count_value (ff_eid ff) c;
          cand_from_op false (dv_op dv) (dv_init dv) t
    end.

  (* ==================================================================================== *)
  (* C05: what the engine can request, statically                                          *)
  (* ==================================================================================== *)

  (* required_properties as a function of the vid alone (it does not depend on the other fields) *)
  Definition required_of (vid : N) : list string :=
    match required_properties (resolve_info vid true) with Ok l => l | Panic _ => [] end.
End WithQuery.

(* a tag operand evaluated through compute_context_field_with_separate_value / the local shortcut
   issues resolve_property when the tagged vertex belongs to the component doing the filtering *)
Definition tag_request (vs : list ir_vertex) (a : option argument) : list (N * string) :=
  match a with
  | Some (ATag (FRContext cf)) =>
      match find_vertex vs (cf_vid cf) with Some _ => [(cf_vid cf, cf_name cf)] | None => [] end
  | _ => []
  end.

Definition import_requests (h : fold_hdr) : list (N * string) :=
  flat_map (fun t => match t with FRContext cf => [(cf_vid cf, cf_name cf)] | FRFold _ => [] end) (fo_imported h).

(* every (vid, property) the engine can pass to resolve_property while running this component:
   local filters (left operand and tag operand), outputs (construct_outputs for the root component,
   the fold-output loop of compute_fold for the others), and per fold of this component: imported
   tags (resolved at fold entry, in THIS component), tag operands of fold-count filters, and the
   fold's own component *)
Fixpoint property_requests_comp (c : ir_component) {struct c} : list (N * string) :=
  match c with
  | mkComp root vs ss outs =>
      flat_map (fun v => flat_map (fun f => (v_vid v, vf_field f) :: tag_request vs (vf_arg f)) (v_filters v)) vs
      ++ map (fun o => (cf_vid (snd o), cf_name (snd o))) outs
      ++ (fix go (ss : list step) : list (N * string) :=
            match ss with
            | [] => []
            | SEdge _ :: r => go r
            | SFold h sub :: r =>
                import_requests h
                ++ flat_map (fun pf => tag_request vs (pf_arg pf)) (fo_post h)
                ++ property_requests_comp sub ++ go r
            end) ss
  end.
Definition property_requests (q : ir_query) : list (N * string) := property_requests_comp (q_comp q).

(* ---- the two known classes (F11), as boolean predicates on the query ---- *)
Fixpoint folds_with_parent (c : ir_component) {struct c} : list (list ir_vertex * fold_hdr) :=
  match c with
  | mkComp _ vs ss _ =>
      (fix go (ss : list step) : list (list ir_vertex * fold_hdr) :=
         match ss with
         | [] => []
         | SEdge _ :: r => go r
         | SFold h sub :: r => (vs, h) :: folds_with_parent sub ++ go r
         end) ss
  end.

Definition unlisted (q : ir_query) (r : N * string) : bool := negb (mem_str (snd r) (required_of q (fst r))).

(* K-imported-tag-not-required: some @fold imports a context-field tag whose property
   required_properties does not list at the tagged vertex *)
Definition k_imported_tag_not_required (q : ir_query) : bool :=
  existsb (fun ph => existsb (unlisted q) (import_requests (snd ph))) (folds_with_parent (q_comp q)).

(* K-count-filter-tag-not-required: some fold-count filter has a tag operand (a vertex of the fold's
   parent component) whose property required_properties does not list at the tagged vertex *)
Definition k_count_filter_tag_not_required (q : ir_query) : bool :=
  existsb (fun ph => existsb (unlisted q) (flat_map (fun pf => tag_request (fst ph) (pf_arg pf)) (fo_post (snd ph))))
          (folds_with_parent (q_comp q)).


(* ---- the known classes of C04 ---- *)
Fixpoint all_vertices (c : ir_component) {struct c} : list ir_vertex :=
  match c with
  | mkComp _ vs ss _ =>
      vs ++ (fix go (ss : list step) : list ir_vertex :=
               match ss with
               | [] => []
               | SEdge _ :: r => go r
               | SFold _ sub :: r => all_vertices sub ++ go r
               end) ss
  end.

(* K-ge-tag-hint (F10): some vertex filter is `>=` against a tag (context-field or fold-count): the
   dynamic hint built from it is an UPPER bound *)
Definition ge_tag_filter (f : vfilter) : bool :=
  opk_eqb (vf_op f) GreaterThanOrEqual && match vf_arg f with Some (ATag _) => true | _ => false end.
Definition k_ge_tag_hint (q : ir_query) : bool :=
  existsb (fun v => existsb ge_tag_filter (v_filters v)) (all_vertices (q_comp q)).

(* the former class K-null-tag-hint (F17, repaired in compute_candidate_from_operation): the tag value
   a dynamic hint is resolved with is null and the chosen operator bounds a range with it
   (<, <=, >, >=) or reads it as a list (one_of).  It is still the panic condition of
   resolve_fold_specific_field, whose values (fold counts) are never null. *)
Definition k_null_tag_hint (op : opk) (w : fv) : bool :=
  fv_is_null w && (is_cmp_op op || opk_eqb op OneOf).

(* ====================================================================================== *)
(* Rendering of hints (mirrored by harness/src/bin/tfh_hints.rs)                            *)
(* ====================================================================================== *)
Definition sorted_names (l : list string) : list string := sort_names (dedup_str [] l).
Local Open Scope string_scope.   (* `++` is string append from here to the end of the Render section *)

Definition show_frontier (f : frontier) : string :=
  match f with FIncl v => "<=" ++ dn v | FExcl v => "<" ++ dn v end.

Definition show_params (ps : params) : string :=
  String.concat "," (map (fun kv => fst kv ++ "=" ++ show_fv (snd kv)) ps).

Section Render.
  Variable q : ir_query.
  Variable args : list (string * fv).
  Variable g : graph.

  (* one property of a vertex-info: "" when there is neither a static nor a dynamic hint *)
  Definition render_prop (vi : vinfo) (oc : option ctx) (p : string) : string :=
    let st := statically_required q args vi p in
    let dy := dynamically_required q args vi p in
    match st, dy with
    | Ok None, Ok None => ""
    | _, _ =>
        p ++ ":" ++ show_res (show_opt show_cand) st ++ "/" ++
        (match dy with
         | Panic _ => "PANIC"
         | Ok None => "N"
         | Ok (Some dv) =>
             match oc with
             | None => "D"
             | Some c => "D(" ++ show_res show_cand (dyn_resolve q g dv c) ++ ")"
             end
         end) ++ ";"
    end.

  (* names of the edges leaving the vertex in its component *)
  Definition edge_names_of (vi : vinfo) : list string :=
    match current_component q vi with
    | Ok comp =>
        sorted_names (flat_map (fun s => match s with
                                         | SEdge e => if N.eqb (e_from e) (vi_vid vi) then [e_name e] else []
                                         | SFold h _ => if N.eqb (fo_from h) (vi_vid vi) then [fo_name h] else []
                                         end) (c_steps comp))
    | Panic _ => []
    end.
  Definition prop_names_of (vi : vinfo) : list string :=
    match current_vertex q vi with
    | Ok v => sorted_names (map vf_field (v_filters v))
    | Panic _ => []
    end.

  (* the hints reachable from a vertex-info: properties, then per edge name every edge with its
     mandatory flag; mandatory edges are followed (look-ahead) while fuel lasts *)
  Fixpoint render_tree (fuel : nat) (vi : vinfo) (oc : option ctx) {struct fuel} : string :=
    "v" ++ dn (vi_vid vi) ++ "{" ++
    String.concat "" (map (render_prop vi oc) (prop_names_of vi)) ++
    String.concat "" (map (fun name =>
       match edges_with_name q args vi name, mandatory_edges_with_name q args vi name with
       | Ok es, Ok ms =>
           name ++ "[" ++
           String.concat "," (map (fun e =>
              "e" ++ dn (ei_eid e) ++ "(" ++ show_params (ei_params e) ++ ")" ++
              (if ei_mandatory e then "m" else "o") ++
              (if existsb (fun m => N.eqb (ei_eid m) (ei_eid e)) ms
               then "!" ++ (match fuel with
                            | O => ""
                            | S fuel' => render_tree fuel' (ei_dest e) oc
                            end)
               else "")) es) ++ "]"
       | _, _ => name ++ "[PANIC]"
       end) (edge_names_of vi)) ++
    "}".

  Definition lookahead : nat := 2.

  (* a ResolveInfo seen by resolve_starting_vertices / resolve_property / resolve_coercion *)
  Definition render_resolve_info (key : N * bool) : string :=
    "R" ++ dn (fst key) ++ (if snd key then "c" else "i") ++ "=" ++
    render_tree lookahead (resolve_info (fst key) (snd key)) None.

  Definition show_active (c : ctx) : string :=
    match active c with Some v => "a" ++ dn v | None => "a-" end.

  (* what is recorded for one context flowing through resolve_neighbors(eid) *)
  Definition render_neighbor_ctx (origin target eid : N) (c : ctx) : string :=
    match resolve_edge_info_destination q origin target eid with
    | Panic _ => "PANIC"
    | Ok vi => show_active c ++ ":" ++ render_tree lookahead vi (Some c)
    end.
End Render.

(* ====================================================================================== *)
(* The interpreter of Exec.v, threaded with the adapter-side log                            *)
(* ====================================================================================== *)
Local Open Scope list_scope.     (* `++` is list append again *)
Inductive event :=
| EProp (vid : N) (p : string)                       (* adapter.resolve_property(.., p, ResolveInfo(vid, true)) *)
| ENbr (eid level : N) (lazy_zone : bool) (records : list string).   (* one resolve_neighbors call *)

(* a fold whose elements may be pulled only partially (collect_fold_elements' early exits exist only
   when some post-filter has a variable operand); per-context observations inside such folds depend
   on the pull order and are excluded from the comparison *)
Definition lazy_fold (h : fold_hdr) : bool :=
  existsb (fun pf => match pf_arg pf with Some (AVar _ _) => true | _ => false end) (fo_post h).

(* Exec.v's collect_fold_elements with Iterator::take(m) written by recursion on the list, so that
   a 2^63 limit never becomes a unary number (HintsProofs.collect_fold_elements_z_spec: it is
   `firstn (Z.to_nat m)`) *)
Fixpoint take_zl {A} (m : Z) (l : list A) : list A :=
  match l with
  | [] => []
  | x :: r => if (0 <? m)%Z then x :: take_zl (m - 1) r else []
  end.
Definition collect_fold_elements_z {A} (elems : list A) (maxl minl : option Z) : option (list A) :=
  match maxl with
  | Some m => if Z.ltb m (Z.of_nat (List.length elems)) then None else Some elems
  | None => match minl with
            | Some m => Some (take_zl m elems)
            | None => Some elems
            end
  end.

Section Trace.
  Variable re_match : string -> string -> option bool.
  Variable g : graph.
  Variable args : list (string * fv).
  Variable q : ir_query.

  Definition tres (A : Type) := res (A * list event).

  (* requests made when the filter stages of a vertex are built *)
  Definition filter_requests (vs : list ir_vertex) (v : ir_vertex) : list event :=
    flat_map (fun f => EProp (v_vid v) (vf_field f)
                       :: map (fun r => EProp (fst r) (snd r))
                              (if opk_unary (vf_op f) then [] else tag_request vs (vf_arg f)))
             (v_filters v).

  Definition nbr_event (lz : bool) (origin target eid level : N) (cs : list ctx) : event :=
    ENbr eid level lz (map (render_neighbor_ctx q args g origin target eid) cs).

  (* recursion_rounds with the contexts of every resolve_neighbors call logged *)
  Fixpoint trace_rounds (lz : bool) (k : nat) (level : N) (endpoint_type : string) (coerce_to : option string)
           (recursing_from : string) (e : ir_edge) (cs : list ctx) : list ctx * list event :=
    match k with
    | O => (cs, [])
    | S k' =>
        let cs1 := match coerce_to with
                   | Some to => map (fun c => if resolve_coerce g endpoint_type to c then c else ensure_suspended c) cs
                   | None => cs
                   end in
        let ev := nbr_event lz (e_from e) (e_to e) (e_eid e) level cs1 in
        let (out, evs) := trace_rounds lz k' (level + 1) endpoint_type coerce_to recursing_from e
                                       (one_recursive_expansion g recursing_from e cs1) in
        (out, ev :: evs)
    end.

  Definition trace_edge (lz : bool) (vs : list ir_vertex) (ss : list step) (e : ir_edge) (cs : list ctx)
    : tres (list ctx) :=
    do from <- vertex_of vs (e_from e);
    do to <- vertex_of vs (e_to e);
    do r1 <- (match e_rec e with
              | None =>
                  do cs1 <- mapM (fun c => activate_vertex c (v_vid from)) cs;
                  do out <- expand_non_recursive_edge g from e cs;
                  Ok (out, [nbr_event lz (e_from e) (e_to e) (e_eid e) 1 cs1])
              | Some r =>
                  do cs0 <- mapM (fun c =>
                                    let c' := match active c with
                                              | None => set_suspended c (None :: suspended c)
                                              | Some _ => c
                                              end in
                                    activate_vertex c' (v_vid from)) cs;
                  let ev1 := nbr_event lz (e_from e) (e_to e) (e_eid e) 1 cs0 in
                  let cs1 := one_recursive_expansion g (v_type from) e cs0 in
                  let endpoint_type := match v_from to with Some t => t | None => v_type to end in
                  let recursing_from := match r_coerce r with Some t => t | None => endpoint_type end in
                  let (cs2, evs) := trace_rounds lz (N.to_nat (r_depth r) - 1) 2 endpoint_type (r_coerce r)
                                                 recursing_from e cs1 in
                  do out <- post_process_recursive_expansion cs2;
                  Ok (out, ev1 :: evs)
              end);
    do out <- enter_vertex re_match g args vs ss to (fst r1);
    Ok (out, snd r1 ++ filter_requests vs to).

  (* compute_fold for one fold of a component; `sub_trace lz' cs'` runs the fold's component *)
  Definition trace_fold (lz : bool) (vs : list ir_vertex) (ss : list step) (h : fold_hdr) (sub : ir_component)
             (sub_trace : bool -> list ctx -> tres (list ctx)) (cs : list ctx) : tres (list ctx) :=
    do from <- vertex_of vs (fo_from h);
    let lz' := lz || lazy_fold h in
    (* imported tags *)
    do cs1 <- foldM (fun cs t =>
               match t with
               | FRContext cf =>
                   do fvtx <- vertex_of vs (cf_vid cf);
                   mapM (fun c =>
                           do c1 <- activate_vertex c (cf_vid cf);
                           let value := resolve_prop g (v_type fvtx) (cf_name cf) c1 in
                           do ov <- vertex_at c1 (cf_vid cf);
                           let tv := match ov with Some _ => TSome value | None => TNone end in
                           Ok (set_imported c1 (insert_ref t tv (imported_tags c1)))) cs
               | FRFold ff =>
                   mapM (fun c => do tv <- fold_count_value (ff_eid ff) c;
                                  Ok (set_imported c (insert_ref t tv (imported_tags c)))) cs
               end) (fo_imported h) cs;
    let ev_imports := map (fun r => EProp (fst r) (snd r)) (import_requests h) in
    do cs2 <- mapM (fun c => activate_vertex c (fo_from h)) cs1;
    let ev_nbr := nbr_event lz (fo_from h) (fo_to h) (fo_eid h) 1 cs2 in
    do maxl <- get_max_fold_count_limit args h;
    do minl0 <- get_min_fold_count_limit args h;
    let minl := match minl0 with
                | Some m =>
                    if min_eligible vs ss h sub then Some m else None
                | None => None
                end in
    do r3 <- foldM (fun acc c =>
               let ns := resolve_nbrs g (v_type from) (fo_name h) (fo_params h) c in
               let imported := imported_tags c in
               do computed <- sub_trace lz' (map (fun n => set_imported (ctx_new (Some n)) imported) ns);
               do ov <- vertex_at c (fo_from h);
               match (match ov with
                      | Some _ => match collect_fold_elements_z (fst computed) maxl minl with
                                  | Some els => Some (Some els)
                                  | None => None
                                  end
                      | None => Some None
                      end) with
               | None => Ok (fst acc, snd acc ++ snd computed)
               | Some fold_elements =>
                   if has_key_N (fo_eid h) (folded_contexts c)
                   then Panic "execution.rs:compute_fold folded_contexts.insert_or_error"
                   else
                     let c1 := set_folded_contexts c (folded_contexts c ++ [(fo_eid h, fold_elements)]) in
                     let imp := fold_left (fun m t => match remove_ref t m with Some m' => m' | None => m end)
                                          (fo_imported h) (imported_tags c1) in
                     Ok (fst acc ++ [set_imported c1 imp], snd acc ++ snd computed)
               end) cs2 ([], []);
    let cs3 := fst r3 in
    (* post-fold filters *)
    do cs4 <- foldM (fun cs pf =>
               do cs' <- mapM (fun c => do tv <- fold_count_value (fo_eid h) c;
                                        match tv with
                                        | TSome v => Ok (push_value c v)
                                        | TNone => Ok (push_value c Null)
                                        end) cs;
               filter_stage re_match g args vs ss (fo_from h) (v_type from) (pf_op pf) (pf_arg pf) cs')
             (fo_post h) cs3;
    let ev_post := flat_map (fun pf => map (fun r => EProp (fst r) (snd r))
                                           (if opk_unary (pf_op pf) then [] else tag_request vs (pf_arg pf)))
                            (fo_post h) in
    do cs5 <- mapM (fold_outputs_one g h sub) cs4;
    (* the output loop of compute_fold runs per context whose fold is non-empty *)
    let ev_outs :=
      if existsb (fun c => match lookup_N (fo_eid h) (folded_contexts c) with
                           | Some (Some (_ :: _)) => true
                           | _ => false
                           end) cs4
      then map (fun o => EProp (cf_vid (snd o)) (cf_name (snd o))) (c_outputs sub)
      else [] in
    Ok (cs5, ev_imports ++ [ev_nbr] ++ snd r3 ++ ev_post ++ ev_outs).

  Section TraceGo.
    Variable lz : bool.
    Variable vs : list ir_vertex.
    Variable ss : list step.
    Variable sub_trace_of : ir_component -> bool -> list ctx -> tres (list ctx).
    Fixpoint trace_go (todo : list step) (cs : list ctx) (log : list event) {struct todo} : tres (list ctx) :=
      match todo with
      | [] => Ok (cs, log)
      | SEdge e :: r => do x <- trace_edge lz vs ss e cs; trace_go r (fst x) (log ++ snd x)
      | SFold h sub :: r =>
          do x <- trace_fold lz vs ss h sub (sub_trace_of sub) cs; trace_go r (fst x) (log ++ snd x)
      end.
  End TraceGo.

  Fixpoint trace_component (lz : bool) (c : ir_component) (cs : list ctx) {struct c} : tres (list ctx) :=
    match c with
    | mkComp root vs ss outs =>
        do rootv <- vertex_of vs root;
        do cs0 <- enter_vertex re_match g args vs ss rootv cs;
        (fix go (todo : list step) (cs : list ctx) (log : list event) {struct todo} : tres (list ctx) :=
           match todo with
           | [] => Ok (cs, log)
           | SEdge e :: r =>
               do x <- trace_edge lz vs ss e cs;
               go r (fst x) (log ++ snd x)
           | SFold h sub :: r =>
               do x <- trace_fold lz vs ss h sub (fun lz' cs' => trace_component lz' sub cs') cs;
               go r (fst x) (log ++ snd x)
           end) ss cs0 (filter_requests vs rootv)
    end.

  Definition trace_query :=
    let c := q_comp q in
    let starts := g_starts g (q_root_name q) (q_root_params q) in
    do x <- trace_component false c (map (fun v => ctx_new (Some v)) starts);
    do rows <- mapM (construct_output_one g c (sort_names (map fst (c_outputs c)))) (fst x);
    Ok (rows, snd x ++ map (fun o => EProp (cf_vid (snd o)) (cf_name (snd o))) (c_outputs c)).
End Trace.

(* ====================================================================================== *)
(* Entry points evaluated by the correspondence check                                       *)
(* ====================================================================================== *)

(* all vids of the folds that are lazy zones (their whole subtrees) *)
Fixpoint all_vids (c : ir_component) {struct c} : list N :=
  match c with
  | mkComp _ vs ss _ =>
      map v_vid vs ++
      (fix go (ss : list step) : list N :=
         match ss with
         | [] => []
         | SEdge _ :: r => go r
         | SFold _ sub :: r => all_vids sub ++ go r
         end) ss
  end.
Fixpoint lazy_vids (c : ir_component) {struct c} : list N :=
  match c with
  | mkComp _ _ ss _ =>
      (fix go (ss : list step) : list N :=
         match ss with
         | [] => []
         | SEdge _ :: r => go r
         | SFold h sub :: r => (if lazy_fold h then all_vids sub else lazy_vids sub) ++ go r
         end) ss
  end.

Definition memN' (x : N) (l : list N) : bool := existsb (N.eqb x) l.

(* ---- well-formedness facts about compiled queries used below (DESIGN.md A.4 #4 and #8) ---- *)
Fixpoint outputs_local (c : ir_component) {struct c} : bool :=
  match c with
  | mkComp _ vs ss outs =>
      forallb (fun o => match find_vertex vs (cf_vid (snd o)) with Some _ => true | None => false end) outs
      && (fix go (ss : list step) : bool :=
            match ss with
            | [] => true
            | SEdge _ :: r => go r
            | SFold _ sub :: r => outputs_local sub && go r
            end) ss
  end.

Fixpoint nodupN (l : list N) : bool :=
  match l with
  | [] => true
  | x :: r => negb (memN' x r) && nodupN r
  end.

Fixpoint fold_roots_ok (c : ir_component) {struct c} : bool :=
  match c with
  | mkComp _ _ ss _ =>
      (fix go (ss : list step) : bool :=
         match ss with
         | [] => true
         | SEdge _ :: r => go r
         | SFold h sub :: r => N.eqb (fo_to h) (c_root sub) && fold_roots_ok sub && go r
         end) ss
  end.

(* the context-field tags a fold imports are properties of vertices of the fold's parent component
   (IRFold::imported_tags: "tags from the directly-enclosing component"; compute_fold indexes
   parent_component.vertices with them) *)
Fixpoint imports_local (c : ir_component) {struct c} : bool :=
  match c with
  | mkComp _ vs ss _ =>
      (fix go (ss : list step) : bool :=
         match ss with
         | [] => true
         | SEdge _ :: r => go r
         | SFold h sub :: r =>
             forallb (fun t => match t with
                               | FRContext cf => match find_vertex vs (cf_vid cf) with Some _ => true | None => false end
                               | FRFold _ => true
                               end) (fo_imported h)
             && imports_local sub && go r
         end) ss
  end.

(* the boolean form, evaluated on every generated query by the correspondence run: vids are unique
   (A.4 #4), outputs name vertices of their own component (#8), a fold's to_vid is the root of its
   component (#1), imported context tags are local to the fold's parent component (#6) *)
Definition wf_hints_query (q : ir_query) : bool :=
  nodupN (all_vids (q_comp q)) && outputs_local (q_comp q) && fold_roots_ok (q_comp q) && imports_local (q_comp q).


(* insertion sort of (N * string) pairs, duplicates removed *)
Definition pair_le (a b : N * string) : bool :=
  match N.compare (fst a) (fst b) with
  | Lt => true
  | Gt => false
  | Eq => String.leb (snd a) (snd b)
  end.
Definition pair_eqb (a b : N * string) : bool := N.eqb (fst a) (fst b) && String.eqb (snd a) (snd b).
Fixpoint insert_pair (x : N * string) (l : list (N * string)) : list (N * string) :=
  match l with
  | [] => [x]
  | y :: r => if pair_eqb x y then l else if pair_le x y then x :: l else y :: insert_pair x r
  end.
Definition sort_pairs (l : list (N * string)) : list (N * string) := fold_right insert_pair [] l.
Definition show_pairs (l : list (N * string)) : string :=
  String.concat "," (map (fun p => (dn (fst p) ++ "." ++ snd p)%string) l).

Definition pair_subset (a b : list (N * string)) : bool :=
  forallb (fun x => existsb (pair_eqb x) b) a.

Definition prop_events (evs : list event) : list (N * string) :=
  flat_map (fun e => match e with EProp v p => [(v, p)] | _ => [] end) evs.

(* stable insertion of neighbour events by (eid, level) *)
Definition nbr_key_le (a b : N * N) : bool :=
  match N.compare (fst a) (fst b) with Lt => true | Gt => false | Eq => N.leb (snd a) (snd b) end.
Fixpoint insert_site (k : N * N) (recs : list string) (l : list ((N * N) * list string))
  : list ((N * N) * list string) :=
  match l with
  | [] => [(k, recs)]
  | (k', recs') :: r =>
      if N.eqb (fst k) (fst k') && N.eqb (snd k) (snd k') then (k', (recs' ++ recs)%list) :: r
      else if nbr_key_le k k' then (k, recs) :: l
      else (k', recs') :: insert_site k recs r
  end.
Definition site_table (evs : list event) : list ((N * N) * list string) :=
  fold_left (fun acc e => match e with
                          | ENbr eid level false recs => insert_site (eid, level) recs acc
                          | _ => acc
                          end) evs [].
Definition show_sites (t : list ((N * N) * list string)) : string :=
  String.concat "#" (map (fun s => ("e" ++ dn (fst (fst s)) ++ "." ++ dn (snd (fst s)) ++ "=" ++
                                    String.concat "|" (snd s))%string) t).

Definition show_required (q : ir_query) (vids : list N) : string :=
  String.concat ";" (map (fun v => (dn v ++ ":" ++
                            match required_properties q (resolve_info v true) with
                            | Ok l => String.concat "," (sort_names l)
                            | Panic _ => "PANIC"
                            end)%string) vids).

(* C05: required_properties of every vid the adapter saw; the (vid, property) requests of the run
   outside lazy zones; whether the static over-approximation covers every request of the run *)
Definition run_c05 (re : string -> string -> option bool) (d : dataset) (rq : raw_query)
           (args : list (string * fv)) (seen : list N) (observed : list (N * string)) : string :=
  match lower_query rq with
  | Panic _ => "PANIC"
  | Ok q =>
      match trace_query re (graph_of_dataset d) args q with
      | Panic _ => "PANIC"
      | Ok (_, evs) =>
          let reqs := prop_events evs in
          let lz := lazy_vids (q_comp q) in
          ("REQ:" ++ show_required q seen ++
           "@CALLS:" ++ show_pairs (sort_pairs (filter (fun p => negb (memN' (fst p) lz)) reqs)) ++
           "@SUP:" ++ show_bool (pair_subset reqs (property_requests q)) ++
           "@OBS:" ++ show_bool (pair_subset observed (property_requests q)) ++
           "@WF:" ++ show_bool (wf_hints_query q))%string
      end
  end.

(* C04: the hints of every ResolveInfo the adapter saw (keys = (vid, vertex_completed)), and per
   resolve_neighbors site the hints of destination() with the dynamic candidates resolved on every
   context, in arrival order *)
Definition run_c04 (re : string -> string -> option bool) (d : dataset) (rq : raw_query)
           (args : list (string * fv)) (keys : list (N * bool)) : string :=
  match lower_query rq with
  | Panic _ => "PANIC"
  | Ok q =>
      let g := graph_of_dataset d in
      match trace_query re g args q with
      | Panic _ => "PANIC"
      | Ok (_, evs) =>
          ("INFO:" ++ String.concat "&" (map (render_resolve_info q args g) keys) ++
           "@SITES:" ++ show_sites (site_table evs))%string
      end
  end.
