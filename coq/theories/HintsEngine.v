(* HintsEngine.v — C04 at the level of the ENGINE MODEL (Exec.v), on top of the C01 simulation
   (Sim*.v): (1) the candidate DynamicallyResolvedValue::resolve computes on a DataContext is the
   candidate computed from the row's tag values of Sem.v (`asg_of c`); (2) an interpreter whose
   adapter prunes per context (Exec.v's stages run context by context on the graph pruned for that
   context) refines the pruned specification `sem_comp_P`; hence, for admissible pruners - in
   particular the pruner built from the hints of the vertex being produced - it returns the same
   rows as the plain interpreter. *)
From Coq Require Import Lia.
From TF Require Import Values ValuesProofs Cand CandProofs Ty Hints HintsProofs.
From TF Require Import Exec Sem ExecLemmas Sim SimRec SimComp SimOut SimTop.
Local Open Scope string_scope.
Local Open Scope N_scope.
Local Open Scope list_scope.

(* ====================================================================================== *)
(* Part 1: resolve on a DataContext = resolve on the row's tag values                        *)
(* ====================================================================================== *)

(* scoping of the tag a dynamic hint refers to, relative to the component resolution starts from
   (root, vs, ss): a context-field tag defined before the component's root is not one of its vertices
   (it is imported); a fold-count tag belongs to a fold of the component iff it is not defined before
   the root.  (DESIGN.md A.4 #4/#5; true of compiled queries, where vids grow along the nesting.) *)
Definition tag_scope_ok (root : N) (vs : list ir_vertex) (ss : list step) (field : fieldref) : Prop :=
  match field with
  | FRContext cf => cf_vid cf < root -> find_vertex vs (cf_vid cf) = None
  | FRFold ff => has_fold ss (ff_eid ff) = negb (ff_root ff <? root)
  end.

Theorem dyn_resolve_agrees q g args dv c root vs ss outs cur cur_ty cand k :
  comp_at q (dv_start dv) = Ok (mkComp root vs ss outs) ->
  tag_scope_ok root vs ss (dv_field dv) ->
  (forall cf, dv_field dv = FRContext cf -> cf_vid cf <> cur) ->
  dyn_resolve q g dv c = Ok k ->
  cand_from_op (dyn_nr q dv) (dv_op dv) (dv_init dv)
    (arg_value g args vs ss (imported_tags c) (asg_of c) cur cur_ty cand (ATag (dv_field dv))) = Ok k.
Proof.
  intros Hcomp Hscope Hcur H. unfold dyn_resolve in H. rewrite Hcomp in H. cbn [bind c_root c_vertices] in H.
  unfold dyn_nr. rewrite Hcomp. cbn [c_root].
  destruct (dv_field dv) as [cf|ff] eqn:F; cbn [arg_value tag_scope_ok] in *.
  - assert (Ne : N.eqb (cf_vid cf) cur = false) by (apply N.eqb_neq; now apply Hcur).
    rewrite Ne. destruct (cf_vid cf <? root) eqn:L.
    + apply N.ltb_lt in L. invb H as t Ht. apply expect_some_ok in Ht.
      unfold context_value. rewrite (Hscope L), Ht. exact H.
    + invb H as t Ht. rewrite <- (context_field_value_spec g vs (imported_tags c) c cf t eq_refl Ht). exact H.
  - destruct (ff_root ff <? root) eqn:L; cbn [negb] in Hscope.
    + invb H as t Ht. apply expect_some_ok in Ht. unfold count_value. rewrite Hscope, Ht. exact H.
    + invb H as t Ht. destruct ff as [eid fr]. cbn [ff_eid ff_root] in *.
      rewrite <- (fold_count_value_spec ss (imported_tags c) c eid fr t Hscope Ht). exact H.
Qed.

(* ====================================================================================== *)
(* Part 2: the interpreter with a per-context pruning adapter                                 *)
(* ====================================================================================== *)
Lemma flat_mapM_ok {A B} (f : A -> res (list B)) l r :
  flat_mapM f l = Ok r -> exists rs, Forall2 (fun x y => f x = Ok y) l rs /\ r = List.concat rs.
Proof.
  revert r. induction l as [|x l IH]; cbn [flat_mapM]; intros r H.
  - injection H as <-. exists []. split; [constructor|reflexivity].
  - invb H as y Hy. invb H as ys Hys. injection H as <-. destruct (IH _ Hys) as (rs & HF & ->).
    exists (y :: rs). split; [constructor; assumption|reflexivity].
Qed.

Lemma ty_indep_gP g k : ty_indep g -> ty_indep (gP g k).
Proof. intros H t1 t2 e ps v. cbn. now rewrite (H t1 t2). Qed.

Section EngineP.
  Variable re : string -> string -> option bool.
  Variable g : graph.
  Variable args : list (string * fv).
  Variable P : pruner.
  Hypothesis Hind : ty_indep g.

  (* the neighbour filter the adapter applies for context c at an edge / a fold of component (vs, ss):
     the pruner's decision for the row the context stands for *)
  Definition k_edge (vs : list ir_vertex) (ss : list step) (e : ir_edge) (c : ctx) : vertex -> bool :=
    pr_edge P vs ss (imported_tags c) e (asg_of c).
  Definition k_fold (vs : list ir_vertex) (ss : list step) (h : fold_hdr) (c : ctx) : vertex -> bool :=
    pr_fold P vs ss (imported_tags c) h (asg_of c).

  (* Exec.v's stages are functions of the list of contexts that treat every context independently; the
     pruned stages run them context by context, the adapter answering resolve_neighbors for context c
     with the neighbours that survive c's filter.  (For @recurse to depth >= 2 the same filter is applied
     at every level; admissible pruners do not prune there at all.) *)
  Definition expand_edge_P (vs : list ir_vertex) (ss : list step) (e : ir_edge) (cs : list ctx) : res (list ctx) :=
    flat_mapM (fun c => expand_edge re (gP g (k_edge vs ss e c)) args vs ss e [c]) cs.
  Definition fold_step_P (vs : list ir_vertex) (ss : list step) (h : fold_hdr) (sub : ir_component)
             (sub_compute : list ctx -> res (list ctx)) (cs : list ctx) : res (list ctx) :=
    flat_mapM (fun c => fold_step re (gP g (k_fold vs ss h c)) args vs ss h sub sub_compute [c]) cs.

  Section StepsP.
    Variable vs : list ir_vertex.
    Variable ss : list step.
    Variable sub_compute_of : ir_component -> list ctx -> res (list ctx).
    Fixpoint exec_steps_P (todo : list step) (cs : list ctx) {struct todo} : res (list ctx) :=
      match todo with
      | [] => Ok cs
      | SEdge e :: r => do cs' <- expand_edge_P vs ss e cs; exec_steps_P r cs'
      | SFold h sub :: r => do cs' <- fold_step_P vs ss h sub (sub_compute_of sub) cs; exec_steps_P r cs'
      end.
  End StepsP.

  Fixpoint compute_component_P (c : ir_component) (cs : list ctx) {struct c} : res (list ctx) :=
    match c with
    | mkComp root vs ss outs =>
        do rootv <- vertex_of vs root;
        do cs0 <- enter_vertex re g args vs ss rootv cs;
        (fix go (todo : list step) (cs : list ctx) {struct todo} : res (list ctx) :=
           match todo with
           | [] => Ok cs
           | SEdge e :: r => do cs' <- expand_edge_P vs ss e cs; go r cs'
           | SFold h sub :: r => do cs' <- fold_step_P vs ss h sub (compute_component_P sub) cs; go r cs'
           end) ss cs0
    end.

  Lemma compute_component_P_eq root vs ss outs cs :
    compute_component_P (mkComp root vs ss outs) cs =
    (do rootv <- vertex_of vs root;
     do cs0 <- enter_vertex re g args vs ss rootv cs;
     exec_steps_P vs ss compute_component_P ss cs0).
  Proof. reflexivity. Qed.

  (* interpret_ir with the pruning adapter: starting vertices are pruned too *)
  Definition interpret_P (q : ir_query) : res (list Exec.row) :=
    let c := q_comp q in
    let starts := filter (pr_start P) (g_starts g (q_root_name q) (q_root_params q)) in
    do cs <- compute_component_P c (map (fun v => ctx_new (Some v)) starts);
    mapM (construct_output_one g c (sort_names (map fst (c_outputs c)))) cs.

  (* ---- the pruned edge stage refines the pruned specification step ---- *)
  Definition step_edge_P (vs : list ir_vertex) (ss : list step) (imp : imports) (e : ir_edge) (a : asg) : list asg :=
    step_edge re (gP g (pr_edge P vs ss imp e a)) args vs ss imp e a.

  Lemma expand_edge_P_spec vs ss imp e cs r :
    edge_ok e = true -> Forall (clean imp) cs ->
    expand_edge_P vs ss e cs = Ok r ->
    map asg_of r = flat_map (step_edge_P vs ss imp e) (map asg_of cs)
    /\ Forall (clean imp) r
    /\ Forall (fun x => exists c, In c cs /\ frame c x) r.
  Proof.
    intros Hok Hc H. unfold expand_edge_P in H. apply flat_mapM_ok in H. destruct H as (rs & HF & ->).
    revert Hc. induction HF as [|c rc cs rs Hrc _ IH]; intros Hc.
    - cbn. repeat split; constructor.
    - inversion Hc as [|? ? Hc1 Hc2]; subst.
      destruct (IH Hc2) as (E & Hcl & Hfr).
      destruct (expand_edge_spec re (gP g (k_edge vs ss e c)) args (ty_indep_gP g _ Hind) vs ss imp e [c] rc Hok
                  (Forall_cons c Hc1 (Forall_nil _)) Hrc) as (E1 & Hcl1 & Hfr1).
      cbn [List.concat map flat_map]. rewrite map_app, E, E1. cbn [map flat_map]. rewrite app_nil_r.
      split.
      + f_equal. unfold step_edge_P, k_edge. destruct Hc1 as (_ & _ & _ & ->). reflexivity.
      + split; [apply Forall_app; split; assumption|].
        apply Forall_app. split.
        * eapply Forall_impl; [|exact Hfr1]. intros x (c0 & [E0|[]] & Hf). exists c0. split; [now left|assumption].
        * eapply Forall_impl; [|exact Hfr]. intros x (c0 & Hin & Hf). exists c0. split; [now right|assumption].
  Qed.

  (* ---- fold-free components ---- *)
  Lemma exec_steps_P_edges_spec vs ss imp sc todo : forall cs r,
    edges_only todo = true -> Forall (clean imp) cs ->
    exec_steps_P vs ss sc todo cs = Ok r ->
    map asg_of r = go_steps (step_edge_P vs ss imp)
                            (fun h sub a => step_fold re (gP g (pr_fold P vs ss imp h a)) args vs ss imp h
                                                      (sem_comp_P re g args P sub) a)
                            todo (map asg_of cs)
    /\ Forall (clean imp) r
    /\ Forall (fun x => exists c, In c cs /\ frame c x) r.
  Proof.
    induction todo as [|[e|h sub] todo IH]; intros cs r Hok Hc H; cbn [exec_steps_P go_steps edges_only] in *.
    - injection H as <-. split; [reflexivity|]. split; [assumption|].
      apply Forall_forall. intros x Hx. exists x. split; [assumption|apply frame_refl].
    - apply andb_prop in Hok. destruct Hok as (Hok1 & Hok2). invb H as x Hx.
      destruct (expand_edge_P_spec vs ss imp e cs x Hok1 Hc Hx) as (E1 & Hcl & Hfr).
      destruct (IH x r Hok2 Hcl H) as (E2 & Hcl2 & Hfr2).
      split; [now rewrite E2, E1|]. split; [assumption|].
      apply Forall_forall. intros y Hy. rewrite Forall_forall in Hfr2. destruct (Hfr2 _ Hy) as (m & Hm & Fm).
      rewrite Forall_forall in Hfr. destruct (Hfr _ Hm) as (c & Hin & Fc). exists c. split; [assumption|].
      eapply frame_trans; eassumption.
    - discriminate.
  Qed.

  Lemma go_steps_nil es fs todo : (forall e, es e = es e) -> go_steps es fs todo [] = [].
  Proof. intros _. induction todo as [|[e|h s] t IHt]; cbn [go_steps flat_map]; auto. Qed.

  Lemma go_steps_app es fs todo : forall l1 l2,
    go_steps es fs todo (l1 ++ l2) = go_steps es fs todo l1 ++ go_steps es fs todo l2.
  Proof. induction todo as [|[e|h s] t IHt]; intros; cbn [go_steps]; [reflexivity| |]; now rewrite flat_map_app, IHt. Qed.

  Theorem compute_component_P_edges_spec root vs ss outs imp cs r :
    edges_only ss = true -> Forall (clean imp) cs -> Forall fresh cs ->
    compute_component_P (mkComp root vs ss outs) cs = Ok r ->
    map asg_of r = flat_map (fun c => sem_comp_P re g args P (mkComp root vs ss outs) imp (active c)) cs
    /\ Forall (clean imp) r
    /\ Forall (fun x => folded_contexts x = [] /\ folded_values x = []) r.
  Proof.
    intros Hok Hc Hf H. rewrite compute_component_P_eq in H. invb H as rv Hrv. invb H as cs0 Hcs0.
    unfold vertex_of, expect_some in Hrv. destruct (find_vertex vs root) as [rv'|] eqn:Er; [|discriminate].
    injection Hrv as <-.
    pose proof (find_vertex_vid _ _ _ Er) as Hvid.
    destruct (enter_vertex_spec re g args vs ss imp rv' cs cs0 Hc Hcs0) as (-> & Hcl0).
    destruct (exec_steps_P_edges_spec vs ss imp compute_component_P ss _ r Hok Hcl0 H) as (E & Hcl & Hfr).
    split; [|split; [assumption|]].
    - rewrite E. clear E H Hcl Hfr Hcl0 Hcs0. revert Hc Hf.
      induction cs as [|c cs IH]; intros Hc Hf; [cbn [filter map flat_map]; now apply go_steps_nil|].
      inversion Hc as [|? ? Hc1 Hc2]; inversion Hf as [|? ? (F1 & F2 & F3) Hf2]; subst.
      cbn [filter flat_map]. rewrite sem_comp_P_eq, Er.
      assert (Ha : asg_of c = Asg [] []) by (rewrite asg_of_eq, F1, F2; reflexivity).
      rewrite Ha.
      destruct (enter re g args vs ss imp (Asg [] []) rv' (active c)) eqn:Ee.
      + cbn [map]. rewrite asg_of_recorded, Ha. cbn [set_av a_v a_f app].
        match goal with |- go_steps _ _ _ (?a :: ?l) = _ => change (a :: l) with ([a] ++ l) end.
        rewrite go_steps_app. f_equal. apply IH; assumption.
      + apply IH; assumption.
    - apply Forall_forall. intros y Hy. rewrite Forall_forall in Hfr. destruct (Hfr _ Hy) as (m & Hm & (G1 & G2)).
      apply in_map_iff in Hm. destruct Hm as (c & <- & Hin). apply filter_In in Hin. destruct Hin as (Hin & _).
      rewrite Forall_forall in Hf. destruct (Hf _ Hin) as (F1 & F2 & F3).
      rewrite G1, G2. destruct c; cbn in *. split; assumption.
  Qed.

  (* the pruned interpreter refines the pruned specification (fold-free queries) *)
  Theorem interpret_P_fold_free_spec q rows :
    edges_only (c_steps (q_comp q)) = true ->
    interpret_P q = Ok rows ->
    Forall2 row_equiv rows (sem_pruned re g args P q).
  Proof.
    intros Hok H. unfold interpret_P in H. invb H as x Hx.
    destruct q as [rname rparams c vars]. cbn [q_comp q_root_name q_root_params] in *.
    destruct c as [root vs ss outs]. cbn [c_steps c_outputs] in *.
    set (starts := filter (pr_start P) (g_starts g rname rparams)) in *.
    assert (Hc : Forall (clean []) (map (fun v => ctx_new (Some v)) starts)).
    { apply Forall_forall. intros y Hy. apply in_map_iff in Hy. destruct Hy as (v & <- & _). apply ctx_new_clean. }
    assert (Hf : Forall fresh (map (fun v => ctx_new (Some v)) starts)).
    { apply Forall_forall. intros y Hy. apply in_map_iff in Hy. destruct Hy as (v & <- & _). apply ctx_new_fresh. }
    destruct (compute_component_P_edges_spec root vs ss outs [] _ x Hok Hc Hf Hx) as (E & Hcl & Hfo).
    unfold sem_pruned. cbn [q_comp q_root_name q_root_params].
    rewrite flat_map_map in E. cbn [active ctx_new] in E. fold starts. rewrite <- E.
    apply mapM_ok in H. clear E Hx Hc Hf.
    induction H as [|cx row l rows' Hrow _ IH]; [constructor|].
    inversion Hcl as [|? ? (Hv & _) Hcl2]; inversion Hfo as [|? ? (_ & Hfv) Hfo2]; subst.
    cbn [map]. constructor; [|apply IH; assumption].
    eapply construct_output_edges_spec; eauto.
  Qed.
End EngineP.

(* ====================================================================================== *)
(* Part 3: pruning is invisible to the engine model                                          *)
(* ====================================================================================== *)
Lemma row_equiv_sym r1 r2 : row_equiv r1 r2 -> row_equiv r2 r1.
Proof. intros H n. symmetry. apply H. Qed.
Lemma row_equiv_trans r1 r2 r3 : row_equiv r1 r2 -> row_equiv r2 r3 -> row_equiv r1 r3.
Proof. intros H1 H2 n. now rewrite H1. Qed.

Lemma Forall2_row_equiv_join (l1 l2 : list Exec.row) (m : list Sem.row) :
  Forall2 row_equiv l1 m -> Forall2 row_equiv l2 m -> Forall2 row_equiv l1 l2.
Proof.
  intros H1. revert l2. induction H1 as [|x y l1 m Hxy _ IH]; intros l2 H2; inversion H2; subst; constructor.
  - eapply row_equiv_trans; [exact Hxy|]. now apply row_equiv_sym.
  - now apply IH.
Qed.

(* fold-free queries (any nesting of plain / @optional / @recurse edges, coercions, filters with
   variables and tags): the engine model with an adapter pruned by ANY admissible pruner returns the rows
   of the engine model with the plain adapter (same order; rows as name -> value maps), whenever both
   return *)
Theorem engine_pruning_invisible_fold_free re g args P q rows_pruned rows_plain :
  ty_indep g -> edges_only (c_steps (q_comp q)) = true ->
  admissible re g args P q ->
  interpret_P re g args P q = Ok rows_pruned -> interpret re g args q = Ok rows_plain ->
  Forall2 row_equiv rows_pruned rows_plain.
Proof.
  intros Hind Hok Hadm H1 H2.
  pose proof (interpret_P_fold_free_spec re g args P Hind q rows_pruned Hok H1) as S1.
  rewrite (pruning_invisible_partial re g args P q Hadm) in S1.
  pose proof (interpret_fold_free_spec re g args Hind q rows_plain Hok H2) as S2.
  exact (Forall2_row_equiv_join _ _ _ S1 S2).
Qed.

(* ... in particular for the pruner built from the hints of the vertex being produced (static
   candidates, and dynamic candidates other than `>=` resolved on the tag values of the row the
   DataContext stands for - which by dyn_resolve_agrees is what resolve() computes on that context) *)
Theorem engine_pruning_by_hints_invisible_fold_free re g args q rows_pruned rows_plain :
  ty_indep g -> edges_only (c_steps (q_comp q)) = true ->
  args_wf args -> wf_hints_query q = true ->
  (forall ty f n, wf (g_prop g ty f n) = true) ->
  (forall c vtx f n,
      subcomp c (q_comp q) -> In vtx (c_vertices c) -> In f (v_filters vtx) -> ty_nullable (vf_fty f) = false ->
      match v_from vtx with Some from => g_coerce g from (v_type vtx) n = true | None => True end ->
      fv_is_null (g_prop g (v_type vtx) (vf_field f) n) = false) ->
  interpret_P re g args (hint_pruner g args q) q = Ok rows_pruned -> interpret re g args q = Ok rows_plain ->
  Forall2 row_equiv rows_pruned rows_plain.
Proof.
  intros Hind Hok Hargs Hwf Hg Hty H1 H2.
  eapply engine_pruning_invisible_fold_free; eauto.
  now apply hint_pruner_admissible.
Qed.
