(* HintsEngine.v — C04 at the level of the ENGINE MODEL (Exec.v), on top of the C01 simulation
   (Sim*.v): (1) the candidate DynamicallyResolvedValue::resolve computes on a DataContext is the
   candidate computed from the row's tag values of Sem.v (`asg_of c`); (2) an interpreter whose
   adapter prunes per context (Exec.v's stages run context by context on the graph pruned for that
   context) refines the pruned specification `sem_comp_P`; hence, for admissible pruners - in
   particular the pruner built from the hints of the vertex being produced - it returns the same
   rows as the plain interpreter. *)
From Coq Require Import Lia.
From TF Require Import Values ValuesProofs Cand CandProofs Ty Hints HintsProofs.
From TF Require Import Exec Sem ExecLemmas Sim SimRec SimComp SimOut SimTop FoldLimits SimFold FoldOut SimGen SemComplete SimFull SimFoldG.
Local Open Scope string_scope.
Local Open Scope N_scope.
Local Open Scope list_scope.

(* ====================================================================================== *)
(* Part 1: resolve on a DataContext = resolve on the row's tag values                        *)
(* ====================================================================================== *)

(* scoping of the tag a dynamic hint refers to, relative to the component resolution starts from
   (root, vs, ss): a context-field tag defined before the component's root is not one of its vertices
   (it is imported); a fold-count tag belongs to a fold of the component iff it is not defined before
   the root.  (DESIGN.md A.4 #4/#5; true of compiled queries, where vids grow along the nesting.) *)
Definition tag_scope_ok (root : N) (vs : list ir_vertex) (ss : list step) (field : fieldref) : Prop :=
  match field with
  | FRContext cf => cf_vid cf < root -> find_vertex vs (cf_vid cf) = None
  | FRFold ff => has_fold ss (ff_eid ff) = negb (ff_root ff <? root)
  end.

Theorem dyn_resolve_agrees q g args dv c root vs ss outs cur cur_ty cand k :
  comp_at q (dv_start dv) = Ok (mkComp root vs ss outs) ->
  tag_scope_ok root vs ss (dv_field dv) ->
  (forall cf, dv_field dv = FRContext cf -> cf_vid cf <> cur) ->
  dyn_resolve q g dv c = Ok k ->
  cand_from_op (dyn_nr q dv) (dv_op dv) (dv_init dv)
    (arg_value g args vs ss (imported_tags c) (asg_of c) cur cur_ty cand (ATag (dv_field dv))) = Ok k.
Proof.
  intros Hcomp Hscope Hcur H. unfold dyn_resolve in H. rewrite Hcomp in H. cbn [bind c_root c_vertices] in H.
  unfold dyn_nr. rewrite Hcomp. cbn [c_root].
  destruct (dv_field dv) as [cf|ff] eqn:F; cbn [arg_value tag_scope_ok] in *.
  - assert (Ne : N.eqb (cf_vid cf) cur = false) by (apply N.eqb_neq; now apply Hcur).
    rewrite Ne. destruct (cf_vid cf <? root) eqn:L.
    + apply N.ltb_lt in L. invb H as t Ht. apply expect_some_ok in Ht.
      unfold context_value. rewrite (Hscope L), Ht. exact H.
    + invb H as t Ht. rewrite <- (context_field_value_spec g vs (imported_tags c) c cf t eq_refl Ht). exact H.
  - destruct (ff_root ff <? root) eqn:L; cbn [negb] in Hscope.
    + invb H as t Ht. apply expect_some_ok in Ht. unfold count_value. rewrite Hscope, Ht. exact H.
    + invb H as t Ht. destruct ff as [eid fr]. cbn [ff_eid ff_root] in *.
      rewrite <- (fold_count_value_spec ss (imported_tags c) c eid fr t Hscope Ht). exact H.
Qed.

(* ====================================================================================== *)
(* Part 2: the interpreter with a per-context pruning adapter                                 *)
(* ====================================================================================== *)
Lemma flat_mapM_ok {A B} (f : A -> res (list B)) l r :
  flat_mapM f l = Ok r -> exists rs, Forall2 (fun x y => f x = Ok y) l rs /\ r = List.concat rs.
Proof.
  revert r. induction l as [|x l IH]; cbn [flat_mapM]; intros r H.
  - injection H as <-. exists []. split; [constructor|reflexivity].
  - invb H as y Hy. invb H as ys Hys. injection H as <-. destruct (IH _ Hys) as (rs & HF & ->).
    exists (y :: rs). split; [constructor; assumption|reflexivity].
Qed.

Lemma ty_indep_gP g k : ty_indep g -> ty_indep (gP g k).
Proof. intros H t1 t2 e ps v. cbn. now rewrite (H t1 t2). Qed.

Section EngineP.
  Variable re : string -> string -> option bool.
  Variable g : graph.
  Variable args : list (string * fv).
  Variable P : pruner.
  Hypothesis Hind : ty_indep g.

  (* the neighbour filter the adapter applies for context c at an edge / a fold of component (vs, ss):
     the pruner's decision for the row the context stands for *)
  Definition k_edge (vs : list ir_vertex) (ss : list step) (e : ir_edge) (c : ctx) : vertex -> bool :=
    pr_edge P vs ss (imported_tags c) e (asg_of c).
  Definition k_fold (vs : list ir_vertex) (ss : list step) (h : fold_hdr) (c : ctx) : vertex -> bool :=
    pr_fold P vs ss (imported_tags c) h (asg_of c).

  (* Exec.v's stages are functions of the list of contexts that treat every context independently; the
     pruned stages run them context by context, the adapter answering resolve_neighbors for context c
     with the neighbours that survive c's filter.  (For @recurse to depth >= 2 the same filter is applied
     at every level; admissible pruners do not prune there at all.) *)
  Definition expand_edge_P (vs : list ir_vertex) (ss : list step) (e : ir_edge) (cs : list ctx) : res (list ctx) :=
    flat_mapM (fun c => expand_edge re (gP g (k_edge vs ss e c)) args vs ss e [c]) cs.
  Definition fold_step_P (vs : list ir_vertex) (ss : list step) (h : fold_hdr) (sub : ir_component)
             (sub_compute : list ctx -> res (list ctx)) (cs : list ctx) : res (list ctx) :=
    flat_mapM (fun c => fold_step re (gP g (k_fold vs ss h c)) args vs ss h sub sub_compute [c]) cs.

  Section StepsP.
    Variable vs : list ir_vertex.
    Variable ss : list step.
    Variable sub_compute_of : ir_component -> list ctx -> res (list ctx).
    Fixpoint exec_steps_P (todo : list step) (cs : list ctx) {struct todo} : res (list ctx) :=
      match todo with
      | [] => Ok cs
      | SEdge e :: r => do cs' <- expand_edge_P vs ss e cs; exec_steps_P r cs'
      | SFold h sub :: r => do cs' <- fold_step_P vs ss h sub (sub_compute_of sub) cs; exec_steps_P r cs'
      end.
  End StepsP.

  Fixpoint compute_component_P (c : ir_component) (cs : list ctx) {struct c} : res (list ctx) :=
    match c with
    | mkComp root vs ss outs =>
        do rootv <- vertex_of vs root;
        do cs0 <- enter_vertex re g args vs ss rootv cs;
        (fix go (todo : list step) (cs : list ctx) {struct todo} : res (list ctx) :=
           match todo with
           | [] => Ok cs
           | SEdge e :: r => do cs' <- expand_edge_P vs ss e cs; go r cs'
           | SFold h sub :: r => do cs' <- fold_step_P vs ss h sub (compute_component_P sub) cs; go r cs'
           end) ss cs0
    end.

  Lemma compute_component_P_eq root vs ss outs cs :
    compute_component_P (mkComp root vs ss outs) cs =
    (do rootv <- vertex_of vs root;
     do cs0 <- enter_vertex re g args vs ss rootv cs;
     exec_steps_P vs ss compute_component_P ss cs0).
  Proof. reflexivity. Qed.

  (* interpret_ir with the pruning adapter: starting vertices are pruned too *)
  Definition interpret_P (q : ir_query) : res (list Exec.row) :=
    let c := q_comp q in
    let starts := filter (pr_start P) (g_starts g (q_root_name q) (q_root_params q)) in
    do cs <- compute_component_P c (map (fun v => ctx_new (Some v)) starts);
    mapM (construct_output_one g c (sort_names (map fst (c_outputs c)))) cs.

  (* ---- the pruned edge stage refines the pruned specification step ---- *)
  Definition step_edge_P (vs : list ir_vertex) (ss : list step) (imp : imports) (e : ir_edge) (a : asg) : list asg :=
    step_edge re (gP g (pr_edge P vs ss imp e a)) args vs ss imp e a.

  Lemma expand_edge_P_spec vs ss imp e cs r :
    edge_ok e = true -> Forall (clean imp) cs ->
    expand_edge_P vs ss e cs = Ok r ->
    map asg_of r = flat_map (step_edge_P vs ss imp e) (map asg_of cs)
    /\ Forall (clean imp) r
    /\ Forall (fun x => exists c, In c cs /\ frame c x) r.
  Proof.
    intros Hok Hc H. unfold expand_edge_P in H. apply flat_mapM_ok in H. destruct H as (rs & HF & ->).
    revert Hc. induction HF as [|c rc cs rs Hrc _ IH]; intros Hc.
    - cbn. repeat split; constructor.
    - inversion Hc as [|? ? Hc1 Hc2]; subst.
      destruct (IH Hc2) as (E & Hcl & Hfr).
      destruct (expand_edge_spec re (gP g (k_edge vs ss e c)) args (ty_indep_gP g _ Hind) vs ss imp e [c] rc Hok
                  (Forall_cons c Hc1 (Forall_nil _)) Hrc) as (E1 & Hcl1 & Hfr1).
      cbn [List.concat map flat_map]. rewrite map_app, E, E1. cbn [map flat_map]. rewrite app_nil_r.
      split.
      + f_equal. unfold step_edge_P, k_edge. destruct Hc1 as (_ & _ & _ & ->). reflexivity.
      + split; [apply Forall_app; split; assumption|].
        apply Forall_app. split.
        * eapply Forall_impl; [|exact Hfr1]. intros x (c0 & [E0|[]] & Hf). exists c0. split; [now left|assumption].
        * eapply Forall_impl; [|exact Hfr]. intros x (c0 & Hin & Hf). exists c0. split; [now right|assumption].
  Qed.

  (* ---- fold-free components ---- *)
  Lemma exec_steps_P_edges_spec vs ss imp sc todo : forall cs r,
    edges_only todo = true -> Forall (clean imp) cs ->
    exec_steps_P vs ss sc todo cs = Ok r ->
    map asg_of r = go_steps (step_edge_P vs ss imp)
                            (fun h sub a => step_fold re (gP g (pr_fold P vs ss imp h a)) args vs ss imp h
                                                      (sem_comp_P re g args P sub) a)
                            todo (map asg_of cs)
    /\ Forall (clean imp) r
    /\ Forall (fun x => exists c, In c cs /\ frame c x) r.
  Proof.
    induction todo as [|[e|h sub] todo IH]; intros cs r Hok Hc H; cbn [exec_steps_P go_steps edges_only] in *.
    - injection H as <-. split; [reflexivity|]. split; [assumption|].
      apply Forall_forall. intros x Hx. exists x. split; [assumption|apply frame_refl].
    - apply andb_prop in Hok. destruct Hok as (Hok1 & Hok2). invb H as x Hx.
      destruct (expand_edge_P_spec vs ss imp e cs x Hok1 Hc Hx) as (E1 & Hcl & Hfr).
      destruct (IH x r Hok2 Hcl H) as (E2 & Hcl2 & Hfr2).
      split; [now rewrite E2, E1|]. split; [assumption|].
      apply Forall_forall. intros y Hy. rewrite Forall_forall in Hfr2. destruct (Hfr2 _ Hy) as (m & Hm & Fm).
      rewrite Forall_forall in Hfr. destruct (Hfr _ Hm) as (c & Hin & Fc). exists c. split; [assumption|].
      eapply frame_trans; eassumption.
    - discriminate.
  Qed.

  Lemma go_steps_nil es fs todo : (forall e, es e = es e) -> go_steps es fs todo [] = [].
  Proof. intros _. induction todo as [|[e|h s] t IHt]; cbn [go_steps flat_map]; auto. Qed.

  Lemma go_steps_app es fs todo : forall l1 l2,
    go_steps es fs todo (l1 ++ l2) = go_steps es fs todo l1 ++ go_steps es fs todo l2.
  Proof. induction todo as [|[e|h s] t IHt]; intros; cbn [go_steps]; [reflexivity| |]; now rewrite flat_map_app, IHt. Qed.

  Theorem compute_component_P_edges_spec root vs ss outs imp cs r :
    edges_only ss = true -> Forall (clean imp) cs -> Forall fresh cs ->
    compute_component_P (mkComp root vs ss outs) cs = Ok r ->
    map asg_of r = flat_map (fun c => sem_comp_P re g args P (mkComp root vs ss outs) imp (active c)) cs
    /\ Forall (clean imp) r
    /\ Forall (fun x => folded_contexts x = [] /\ folded_values x = []) r.
  Proof.
    intros Hok Hc Hf H. rewrite compute_component_P_eq in H. invb H as rv Hrv. invb H as cs0 Hcs0.
    unfold vertex_of, expect_some in Hrv. destruct (find_vertex vs root) as [rv'|] eqn:Er; [|discriminate].
    injection Hrv as <-.
    pose proof (find_vertex_vid _ _ _ Er) as Hvid.
    destruct (enter_vertex_spec re g args vs ss imp rv' cs cs0 Hc Hcs0) as (-> & Hcl0).
    destruct (exec_steps_P_edges_spec vs ss imp compute_component_P ss _ r Hok Hcl0 H) as (E & Hcl & Hfr).
    split; [|split; [assumption|]].
    - rewrite E. clear E H Hcl Hfr Hcl0 Hcs0. revert Hc Hf.
      induction cs as [|c cs IH]; intros Hc Hf; [cbn [filter map flat_map]; now apply go_steps_nil|].
      inversion Hc as [|? ? Hc1 Hc2]; inversion Hf as [|? ? (F1 & F2 & F3) Hf2]; subst.
      cbn [filter flat_map]. rewrite sem_comp_P_eq, Er.
      assert (Ha : asg_of c = Asg [] []) by (rewrite asg_of_eq, F1, F2; reflexivity).
      rewrite Ha.
      destruct (enter re g args vs ss imp (Asg [] []) rv' (active c)) eqn:Ee.
      + cbn [map]. rewrite asg_of_recorded, Ha. cbn [set_av a_v a_f app].
        match goal with |- go_steps _ _ _ (?a :: ?l) = _ => change (a :: l) with ([a] ++ l) end.
        rewrite go_steps_app. f_equal. apply IH; assumption.
      + apply IH; assumption.
    - apply Forall_forall. intros y Hy. rewrite Forall_forall in Hfr. destruct (Hfr _ Hy) as (m & Hm & (G1 & G2)).
      apply in_map_iff in Hm. destruct Hm as (c & <- & Hin). apply filter_In in Hin. destruct Hin as (Hin & _).
      rewrite Forall_forall in Hf. destruct (Hf _ Hin) as (F1 & F2 & F3).
      rewrite G1, G2. destruct c; cbn in *. split; assumption.
  Qed.

  (* the pruned interpreter refines the pruned specification (fold-free queries) *)
  Theorem interpret_P_fold_free_spec q rows :
    edges_only (c_steps (q_comp q)) = true ->
    interpret_P q = Ok rows ->
    Forall2 row_equiv rows (sem_pruned re g args P q).
  Proof.
    intros Hok H. unfold interpret_P in H. invb H as x Hx.
    destruct q as [rname rparams c vars]. cbn [q_comp q_root_name q_root_params] in *.
    destruct c as [root vs ss outs]. cbn [c_steps c_outputs] in *.
    set (starts := filter (pr_start P) (g_starts g rname rparams)) in *.
    assert (Hc : Forall (clean []) (map (fun v => ctx_new (Some v)) starts)).
    { apply Forall_forall. intros y Hy. apply in_map_iff in Hy. destruct Hy as (v & <- & _). apply ctx_new_clean. }
    assert (Hf : Forall fresh (map (fun v => ctx_new (Some v)) starts)).
    { apply Forall_forall. intros y Hy. apply in_map_iff in Hy. destruct Hy as (v & <- & _). apply ctx_new_fresh. }
    destruct (compute_component_P_edges_spec root vs ss outs [] _ x Hok Hc Hf Hx) as (E & Hcl & Hfo).
    unfold sem_pruned. cbn [q_comp q_root_name q_root_params].
    rewrite flat_map_map in E. cbn [active ctx_new] in E. fold starts. rewrite <- E.
    apply mapM_ok in H. clear E Hx Hc Hf.
    induction H as [|cx row l rows' Hrow _ IH]; [constructor|].
    inversion Hcl as [|? ? (Hv & _) Hcl2]; inversion Hfo as [|? ? (_ & Hfv) Hfo2]; subst.
    cbn [map]. constructor; [|apply IH; assumption].
    eapply construct_output_edges_spec; eauto.
  Qed.
End EngineP.

(* ====================================================================================== *)
(* Part 3: pruning is invisible to the engine model                                          *)
(* ====================================================================================== *)
Lemma row_equiv_sym r1 r2 : row_equiv r1 r2 -> row_equiv r2 r1.
Proof. intros H n. symmetry. apply H. Qed.
Lemma row_equiv_trans r1 r2 r3 : row_equiv r1 r2 -> row_equiv r2 r3 -> row_equiv r1 r3.
Proof. intros H1 H2 n. now rewrite H1. Qed.

Lemma Forall2_row_equiv_join (l1 l2 : list Exec.row) (m : list Sem.row) :
  Forall2 row_equiv l1 m -> Forall2 row_equiv l2 m -> Forall2 row_equiv l1 l2.
Proof.
  intros H1. revert l2. induction H1 as [|x y l1 m Hxy _ IH]; intros l2 H2; inversion H2; subst; constructor.
  - eapply row_equiv_trans; [exact Hxy|]. now apply row_equiv_sym.
  - now apply IH.
Qed.

(* fold-free queries (any nesting of plain / @optional / @recurse edges, coercions, filters with
   variables and tags): the engine model with an adapter pruned by ANY admissible pruner returns the rows
   of the engine model with the plain adapter (same order; rows as name -> value maps), whenever both
   return *)
Theorem engine_pruning_invisible_fold_free re g args P q rows_pruned rows_plain :
  ty_indep g -> edges_only (c_steps (q_comp q)) = true ->
  admissible re g args P q ->
  interpret_P re g args P q = Ok rows_pruned -> interpret re g args q = Ok rows_plain ->
  Forall2 row_equiv rows_pruned rows_plain.
Proof.
  intros Hind Hok Hadm H1 H2.
  pose proof (interpret_P_fold_free_spec re g args P Hind q rows_pruned Hok H1) as S1.
  rewrite (pruning_invisible_partial re g args P q Hadm) in S1.
  pose proof (interpret_fold_free_spec re g args Hind q rows_plain Hok H2) as S2.
  exact (Forall2_row_equiv_join _ _ _ S1 S2).
Qed.

(* ... in particular for the pruner built from the hints of the vertex being produced (static
   candidates, and dynamic candidates other than `>=` resolved on the tag values of the row the
   DataContext stands for - which by dyn_resolve_agrees is what resolve() computes on that context) *)
Theorem engine_pruning_by_hints_invisible_fold_free re g args q rows_pruned rows_plain :
  ty_indep g -> edges_only (c_steps (q_comp q)) = true ->
  args_wf args -> wf_hints_query q = true ->
  (forall ty f n, wf (g_prop g ty f n) = true) ->
  (forall c vtx f n,
      subcomp c (q_comp q) -> In vtx (c_vertices c) -> In f (v_filters vtx) -> ty_nullable (vf_fty f) = false ->
      match v_from vtx with Some from => g_coerce g from (v_type vtx) n = true | None => True end ->
      fv_is_null (g_prop g (v_type vtx) (vf_field f) n) = false) ->
  interpret_P re g args (hint_pruner g args q) q = Ok rows_pruned -> interpret re g args q = Ok rows_plain ->
  Forall2 row_equiv rows_pruned rows_plain.
Proof.
  intros Hind Hok Hargs Hwf Hg Hty H1 H2.
  eapply engine_pruning_invisible_fold_free; eauto.
  now apply hint_pruner_admissible.
Qed.

(* ====================================================================================== *)
(* Part 4: queries with @fold (no fold eligible for the take(min) truncation)                *)
(* ====================================================================================== *)
Section EnginePFull.
  Variable re : string -> string -> option bool.
  Variable g : graph.
  Variable args : list (string * fv).
  Variable P : pruner.
  Hypothesis Hind : ty_indep g.

  (* under admissibility the pruned specification steps are the plain ones *)
  Lemma adm_step_edge_eq root vs ss outs imp e a :
    admissible_comp re g args P (mkComp root vs ss outs) -> In (SEdge e) ss ->
    step_edge re (gP g (pr_edge P vs ss imp e a)) args vs ss imp e a = step_edge re g args vs ss imp e a.
  Proof.
    intros (AE & _) He. cbn [c_steps c_vertices] in AE.
    destruct (find_vertex vs (e_to e)) as [tov|] eqn:Ft.
    2:{ unfold step_edge. rewrite Ft. destruct (find_vertex vs (e_from e)); reflexivity. }
    destruct (e_optional e) eqn:Eo.
    { apply step_edge_keep_all. intros n. destruct (pr_edge P vs ss imp e a n) eqn:K; [reflexivity|].
      destruct (AE imp e a n tov He Ft K) as (C & _). congruence. }
    destruct (e_rec e) as [r|] eqn:Er.
    - destruct (N.leb (r_depth r) 1) eqn:Ed.
      + apply N.leb_le in Ed. apply (step_edge_prune re g args _ vs ss imp e a tov Ft Eo).
        * right. eauto.
        * intros n K. now destruct (AE imp e a n tov He Ft K) as (_ & _ & C).
      + apply step_edge_keep_all. intros n. destruct (pr_edge P vs ss imp e a n) eqn:K; [reflexivity|].
        destruct (AE imp e a n tov He Ft K) as (_ & [C|(r' & C & D)] & _); [congruence|].
        rewrite Er in C. injection C as <-. apply N.leb_le in D. rewrite D in Ed. discriminate.
    - apply (step_edge_prune re g args _ vs ss imp e a tov Ft Eo); [now left|].
      intros n K. now destruct (AE imp e a n tov He Ft K) as (_ & _ & C).
  Qed.

  Lemma expand_edge_P_adm root vs ss outs imp e cs r :
    admissible_comp re g args P (mkComp root vs ss outs) -> In (SEdge e) ss ->
    edge_ok e = true -> Forall (clean imp) cs ->
    expand_edge_P re g args P vs ss e cs = Ok r ->
    map asg_of r = flat_map (step_edge re g args vs ss imp e) (map asg_of cs)
    /\ Forall (clean imp) r
    /\ Forall (fun x => exists c, In c cs /\ frame c x) r.
  Proof.
    intros Hadm He Hok Hc H. destruct (expand_edge_P_spec re g args P Hind vs ss imp e cs r Hok Hc H) as (E & H2 & H3).
    split; [|split; assumption]. rewrite E. apply flat_map_ext. intros a. unfold step_edge_P.
    eapply adm_step_edge_eq; eauto.
  Qed.

  (* the pruned fold stage, context by context, against the PLAIN specification of the fold *)
  Lemma fold_step_P_spec (Pimp : list (fieldref * tagged) -> Prop) (Q : ctx -> Prop) vs ss imp h sub sub_compute cs r :
    (forall a n, pr_fold P vs ss imp h a n = false ->
                 sem_comp re g args sub (sub_imports g vs ss imp h a) (Some n) = []) ->
    (forall imp' cs' r', Pimp imp' -> Forall (clean imp') cs' -> Forall fresh cs' -> sub_compute cs' = Ok r' ->
        map asg_of r' = flat_map (fun x => sem_comp re g args sub imp' (active x)) cs' /\ Forall Q r') ->
    (forall a, Pimp (imports_of g vs ss imp a (fo_imported h) imp)) ->
    no_min_limit args vs ss h sub ->
    Forall (key_fresh imp) (fo_imported h) ->
    Forall (clean imp) cs ->
    fold_step_P re g args P vs ss h sub sub_compute cs = Ok r ->
    exists yss, Forall2 (after_fold re g args Q vs ss imp h sub) cs yss /\
                mapM (fold_outputs_one g h sub) (List.concat yss) = Ok r.
  Proof.
    intros Hadm Hsub Hpimp Hnomin Hfresh Hc H. unfold fold_step_P in H. apply flat_mapM_ok in H.
    destruct H as (rs & HF & ->). revert Hc. induction HF as [|c rc cs rs Hrc _ IH]; intros Hc.
    - exists []. split; [constructor|reflexivity].
    - inversion Hc as [|? ? Hc1 Hc2]; subst. destruct (IH Hc2) as (yss & HF2 & Hm2).
      set (k := k_fold P vs ss h c) in *.
      destruct (fold_step_spec_gen re (gP g k) args (sem_comp re g args sub) Pimp Q vs ss imp h sub sub_compute [c] rc
                  Hsub Hpimp Hnomin Hfresh (Forall_cons c Hc1 (Forall_nil _)) Hrc) as (yss1 & HF1 & Hm1).
      inversion HF1 as [|? ys ? yss1' Haf HF1']; subst. inversion HF1'; subst.
      exists (ys :: yss). split.
      + constructor; [|exact HF2]. destruct Haf as (Ha1 & Ha2). split; [|exact Ha2].
        rewrite Ha1. unfold k, k_fold. destruct Hc1 as (_ & _ & _ & ->).
        apply step_fold_prune. intros n K. exact (Hadm (asg_of c) n K).
      + cbn [List.concat] in *. rewrite app_nil_r in Hm1. exact (mapM_app_ok _ _ _ _ _ Hm1 Hm2).
  Qed.

  (* ---------- the step loop (copy of SimGen.exec_steps_spec for the pruned stages) ---------- *)
  Definition IHsub (sub : ir_component) : Prop :=
    (forall c', subcomp c' sub -> admissible_comp re g args P c') ->
    forall outer' imp' cs r, wf_comp args outer' sub -> wf_out sub -> keys_within outer' imp' ->
      Forall (clean imp') cs -> Forall fresh cs ->
      compute_component_P re g args P sub cs = Ok r ->
      map asg_of r = flat_map (fun x => sem_comp re g args sub imp' (active x)) cs /\
      Forall (FV g sub) r /\ Forall (clean imp') r.

  Lemma exec_steps_P_spec root vs ss outs outer imp todo :
    (forall c', subcomp c' (mkComp root vs ss outs) -> admissible_comp re g args P c') ->
    Forall (Psub IHsub) todo ->
    wf_steps args outer vs ss todo -> keys_within outer imp ->
    wf_out_steps todo -> incl todo ss -> NoDup (steps_keys ss) -> NoDup (steps_eids ss) ->
    forall cs r, Forall (clean imp) cs -> Forall (FV g (mkComp root vs ss outs)) cs ->
      exec_steps_P re g args P vs ss (compute_component_P re g args P) todo cs = Ok r ->
      map asg_of r = sem_steps re g args vs ss imp todo (map asg_of cs) /\ Forall (clean imp) r /\
      Forall (FV g (mkComp root vs ss outs)) r.
  Proof.
    intros Hadm HIH. pose proof (Hadm _ (sub_here _)) as Hadm0.
    induction HIH as [|s todo Hs _ IH]; intros Hwf Hk Hwo Hincl Hkeys Heids cs r Hc Hfv H;
      cbn [exec_steps_P sem_steps wf_steps wf_out_steps] in *.
    - injection H as <-. split; [reflexivity|]. split; assumption.
    - assert (Hincl' : incl todo ss) by (intros y Hy; apply Hincl; now right).
      assert (Hin : In s ss) by (apply Hincl; now left).
      destruct s as [e|h sub].
      + destruct Hwf as (Hok & Hwf). invb H as x Hx.
        destruct (expand_edge_P_adm root vs ss outs imp e cs x Hadm0 Hin Hok Hc Hx) as (E1 & Hcl & Hfr).
        assert (Hfvx : Forall (FV g (mkComp root vs ss outs)) x).
        { rewrite Forall_forall in Hfr, Hfv. apply Forall_forall. intros y Hy. destruct (Hfr y Hy) as (c0 & Hc0 & Hf).
          eapply FV_frame; [exact Hf|auto]. }
        destruct (IH Hwf Hk Hwo Hincl' Hkeys Heids x r Hcl Hfvx H) as (E2 & Hcl2 & Hfv2).
        split; [now rewrite E2, E1|]. split; assumption.
      + destruct Hwf as ((Hnm & Hdis & Hwsub) & Hwf). destruct Hwo as (Hwosub & Hwo). invb H as x Hx.
        assert (Hfresh : Forall (key_fresh imp) (fo_imported h)) by (eapply key_fresh_of; eassumption).
        assert (Hadmsub : forall c', subcomp c' sub -> admissible_comp re g args P c').
        { intros c' Hc'. apply Hadm. econstructor; [exact Hin|exact Hc']. }
        assert (Hsub' : forall imp' cs' r', keys_within (outer ++ fo_imported h) imp' ->
                   Forall (clean imp') cs' -> Forall fresh cs' ->
                   compute_component_P re g args P sub cs' = Ok r' ->
                   map asg_of r' = flat_map (fun x => sem_comp re g args sub imp' (active x)) cs' /\
                   Forall (Qel g sub) r').
        { intros imp' cs' r' Hp Hc' Hf' Hr'. cbn [Psub] in Hs.
          destruct (Hs Hadmsub _ _ _ _ Hwsub Hwosub Hp Hc' Hf' Hr') as (E & Hfvr & _). split; [exact E|].
          apply Forall_forall. intros el Hel. split; [rewrite Forall_forall in Hfvr; auto|].
          assert (Hin' : In (asg_of el) (map asg_of r')) by now apply in_map.
          rewrite E in Hin'. apply in_flat_map in Hin'. destruct Hin' as (x0 & _ & Hx0).
          eapply sem_comp_complete; exact Hx0. }
        assert (Hp' : forall a, keys_within (outer ++ fo_imported h) (imports_of g vs ss imp a (fo_imported h) imp)).
        { intros a. now apply keys_within_imports. }
        assert (Hadmf : forall a n, pr_fold P vs ss imp h a n = false ->
                          sem_comp re g args sub (sub_imports g vs ss imp h a) (Some n) = []).
        { intros a n K. destruct Hadm0 as (_ & AF). exact (AF imp h sub a n Hin K). }
        destruct (fold_step_P_spec (keys_within (outer ++ fo_imported h)) (Qel g sub) vs ss imp h sub
                                   (compute_component_P re g args P sub) cs x Hadmf Hsub' Hp' Hnm Hfresh Hc Hx) as (yss & HF & Hout).
        assert (Hcy : Forall (clean imp) (List.concat yss)).
        { clear - HF. induction HF as [|c ys l yss (_ & Hy) _ IHf]; [constructor|]. cbn [List.concat]. apply Forall_app. split; [|assumption].
          eapply Forall_impl; [|exact Hy]. intros y (Hcl & _). exact Hcl. }
        destruct (fold_outputs_keep g imp h sub _ _ Hcy Hout) as (Ex & Hclx).
        assert (Hpre : Forall (fun y => exists c0 fe, FV g (mkComp root vs ss outs) c0 /\
                            folded_values y = folded_values c0 /\
                            folded_contexts y = folded_contexts c0 ++ [(fo_eid h, fe)] /\
                            lookup_N (fo_eid h) (folded_contexts c0) = None /\
                            match fe with Some els => Forall (Qel g sub) els | None => True end) (List.concat yss)).
        { clear - HF Hfv. revert Hfv. induction HF as [|c ys l yss (_ & Hy) _ IHf]; intros Hfv; [constructor|].
          inversion Hfv as [|? ? Hfc Hfvl]; subst. cbn [List.concat]. apply Forall_app. split; [|auto].
          eapply Forall_impl; [|exact Hy]. intros y (_ & _ & Hv & Hl & fe & Hfe & HQ). exists c, fe. auto. }
        assert (Hfvx : Forall (FV g (mkComp root vs ss outs)) x).
        { apply mapM_ok in Hout. clear - Hout Hpre Hin Hkeys Heids. induction Hout as [|y z l r Hyz _ IHo]; [constructor|].
          inversion Hpre as [|? ? (c0 & fe & Hfc0 & Hv & Hfc & Hl & HQ) Hpre']; subst. constructor; [|auto].
          eapply (fold_outputs_one_FV g root vs ss outs h sub c0 y fe z); eassumption. }
        destruct (IH Hwf Hk Hwo Hincl' Hkeys Heids x r Hclx Hfvx H) as (E2 & Hcl2 & Hfv2). split; [|split; assumption].
        rewrite E2, Ex. f_equal.
        clear - HF. induction HF as [|c ys l yss (Hy & _) _ IHf]; [reflexivity|].
        cbn [List.concat map flat_map]. now rewrite map_app, IHf, Hy.
  Qed.

  (* ---------- any component ---------- *)
  Theorem compute_component_P_full : forall c, IHsub c.
  Proof.
    induction c as [root vs ss outs IHss] using SimGen.comp_ind'. intros Hadm outer imp cs r Hwf Hwo Hk Hc Hf H.
    rewrite compute_component_P_eq in H. invb H as rv0 Hrv. invb H as cs0 Hcs0.
    unfold vertex_of, expect_some in Hrv. destruct (find_vertex vs root) as [rv|] eqn:Er; [|discriminate].
    injection Hrv as <-.
    destruct (enter_vertex_spec re g args vs ss imp rv cs cs0 Hc Hcs0) as (-> & Hcl0).
    apply wf_comp_steps in Hwf. apply (proj1 (wf_out_eq _ _ _ _)) in Hwo. destruct Hwo as (Hkeys & Heids & Hwos).
    assert (Hfv0 : Forall (FV g (mkComp root vs ss outs))
                     (map (recorded (v_vid rv)) (filter (fun c => enter re g args vs ss imp (asg_of c) rv (active c)) cs))).
    { apply Forall_forall. intros y Hy. apply in_map_iff in Hy. destruct Hy as (c0 & <- & Hc0). apply filter_In in Hc0.
      apply FV_recorded, FV_fresh. rewrite Forall_forall in Hf. apply Hf. tauto. }
    destruct (exec_steps_P_spec root vs ss outs outer imp ss Hadm IHss Hwf Hk Hwos (incl_refl _) Hkeys Heids _ r Hcl0 Hfv0 H) as (E & Hclr & Hfvr).
    split; [|split; [exact Hfvr|exact Hclr]].
    rewrite E. clear E H Hcl0 Hcs0 Hfv0 Hfvr Hclr. pose proof (find_vertex_vid _ _ _ Er) as Hvid.
    revert Hc Hf. induction cs as [|c cs IH]; intros Hc Hf; [cbn [filter map flat_map]; apply sem_steps_nil|].
    inversion Hc as [|? ? Hc1 Hc2]; inversion Hf as [|? ? (F1 & F2 & F3) Hf2]; subst.
    cbn [filter flat_map]. rewrite SimComp.sem_comp_eq, Er.
    assert (Ha : asg_of c = Asg [] []) by (rewrite asg_of_eq, F1, F2; reflexivity).
    rewrite Ha.
    destruct (enter re g args vs ss imp (Asg [] []) rv (active c)) eqn:Ee.
    - cbn [map]. rewrite asg_of_recorded, Ha. cbn [set_av a_v a_f app].
      match goal with |- sem_steps _ _ _ _ _ _ _ (?a :: ?l) = _ => change (a :: l) with ([a] ++ l) end.
      rewrite sem_steps_app. f_equal. apply IH; assumption.
    - apply IH; assumption.
  Qed.

  (* the pruned interpreter refines the (plain) specification, for admissible pruners *)
  Theorem interpret_P_spec q rows :
    admissible re g args P q ->
    wf_comp args [] (q_comp q) -> wf_out (q_comp q) -> NoDup (all_output_names (q_comp q)) ->
    interpret_P re g args P q = Ok rows ->
    Forall2 row_equiv rows (sem re g args q).
  Proof.
    intros (Astart & Acomp) Hwf Hwo Hnd H. unfold interpret_P in H. invb H as x Hx.
    destruct q as [rname rparams c vars]. cbn [q_comp q_root_name q_root_params] in *.
    set (starts := g_starts g rname rparams) in *.
    set (pstarts := filter (pr_start P) starts) in *.
    assert (Hc : Forall (clean []) (map (fun v => ctx_new (Some v)) pstarts)).
    { apply Forall_forall. intros y Hy. apply in_map_iff in Hy. destruct Hy as (v & <- & _). apply ctx_new_clean. }
    assert (Hf : Forall fresh (map (fun v => ctx_new (Some v)) pstarts)).
    { apply Forall_forall. intros y Hy. apply in_map_iff in Hy. destruct Hy as (v & <- & _). apply ctx_new_fresh. }
    assert (Hk : keys_within [] []).
    { intros k Hl. cbn in Hl. congruence. }
    destruct (compute_component_P_full c Acomp [] [] _ x Hwf Hwo Hk Hc Hf Hx) as (E & Hfv & Hcl).
    unfold sem. cbn [q_comp q_root_name q_root_params].
    assert (Hcomp : Forall (fun cx => complete c (a_f (asg_of cx))) x).
    { apply Forall_forall. intros cx Hcx. assert (Hin : In (asg_of cx) (map asg_of x)) by now apply in_map.
      rewrite E in Hin. apply in_flat_map in Hin. destruct Hin as (c0 & _ & Hin). eapply sem_comp_complete; exact Hin. }
    rewrite flat_map_map in E. cbn [active ctx_new] in E. fold starts.
    unfold pstarts in E. rewrite (flat_map_dead (pr_start P) (fun s => sem_comp re g args c [] (Some s)) starts Astart) in E.
    rewrite <- E.
    apply mapM_ok in H. clear E Hx Hc Hf.
    destruct c as [root vs ss outs]. cbn [c_outputs] in *.
    induction H as [|cx row l rows' Hrow _ IH]; [constructor|].
    inversion Hcl as [|? ? (Hv & _) Hcl2]; inversion Hfv as [|? ? Hfv1 Hfv2]; inversion Hcomp as [|? ? Hcp1 Hcp2]; subst.
    cbn [map]. constructor; [|apply IH; assumption].
    eapply construct_output_full; eauto.
  Qed.
End EnginePFull.

(* pruning is invisible to the engine model: any query (edges, @optional, @recurse, @fold with
   outputs, count outputs / tags / filters, imported tags) without a fold eligible for the take(min)
   truncation; any admissible pruner *)
Theorem engine_pruning_invisible re g args P q rows_pruned rows_plain :
  ty_indep g -> admissible re g args P q ->
  wf_comp args [] (q_comp q) -> wf_out (q_comp q) -> NoDup (all_output_names (q_comp q)) ->
  interpret_P re g args P q = Ok rows_pruned -> interpret re g args q = Ok rows_plain ->
  Forall2 row_equiv rows_pruned rows_plain.
Proof.
  intros Hind Hadm Hwf Hwo Hnd H1 H2.
  pose proof (interpret_P_spec re g args P Hind q rows_pruned Hadm Hwf Hwo Hnd H1) as S1.
  pose proof (interpret_spec re g args Hind q rows_plain Hwf Hwo Hnd H2) as S2.
  exact (Forall2_row_equiv_join _ _ _ S1 S2).
Qed.

(* ... in particular when the adapter prunes by the hints of the vertex being produced *)
Theorem engine_pruning_by_hints_invisible re g args q rows_pruned rows_plain :
  ty_indep g -> args_wf args -> wf_hints_query q = true ->
  (forall ty f n, wf (g_prop g ty f n) = true) ->
  (forall c vtx f n,
      subcomp c (q_comp q) -> In vtx (c_vertices c) -> In f (v_filters vtx) -> ty_nullable (vf_fty f) = false ->
      match v_from vtx with Some from => g_coerce g from (v_type vtx) n = true | None => True end ->
      fv_is_null (g_prop g (v_type vtx) (vf_field f) n) = false) ->
  wf_comp args [] (q_comp q) -> wf_out (q_comp q) -> NoDup (all_output_names (q_comp q)) ->
  interpret_P re g args (hint_pruner g args q) q = Ok rows_pruned -> interpret re g args q = Ok rows_plain ->
  Forall2 row_equiv rows_pruned rows_plain.
Proof.
  intros Hind Hargs Hwfq Hg Hty Hwf Hwo Hnd H1 H2.
  eapply engine_pruning_invisible; eauto. now apply hint_pruner_admissible.
Qed.

(* the same with the static side conditions as one computable test (WfCheck.spec_hyps) *)
From TF Require Import WfCheck.
Theorem engine_pruning_by_hints_invisible_checked re g args q rows_pruned rows_plain :
  ty_indep g -> args_wf args -> wf_hints_query q = true -> spec_hyps args q = true ->
  (forall ty f n, wf (g_prop g ty f n) = true) ->
  (forall c vtx f n,
      subcomp c (q_comp q) -> In vtx (c_vertices c) -> In f (v_filters vtx) -> ty_nullable (vf_fty f) = false ->
      match v_from vtx with Some from => g_coerce g from (v_type vtx) n = true | None => True end ->
      fv_is_null (g_prop g (v_type vtx) (vf_field f) n) = false) ->
  interpret_P re g args (hint_pruner g args q) q = Ok rows_pruned -> interpret re g args q = Ok rows_plain ->
  Forall2 row_equiv rows_pruned rows_plain.
Proof.
  intros Hind Hargs Hwfq Hsp Hg Hty H1 H2. destruct (spec_hyps_sound args q Hsp) as (A & B & C).
  eapply engine_pruning_by_hints_invisible; eauto.
Qed.

(* ====================================================================================== *)
(* Part 5: the dynamic candidate the adapter obtains from resolve() on the engine's context   *)
(* is the one hint_pruner uses for the row that context stands for                            *)
(* ====================================================================================== *)
Theorem dyn_resolve_agrees_destination q g args e p dv vtx c n root vs ss outs k :
  args_wf args ->
  dynamically_required q args (dest_of_edge e) p = Ok (Some dv) ->
  current_vertex q (dest_of_edge e) = Ok vtx ->
  comp_at q (e_from e) = Ok (mkComp root vs ss outs) ->
  tag_scope_ok root vs ss (dv_field dv) ->
  dyn_resolve q g dv c = Ok k ->
  cand_from_op (dyn_nr q dv) (dv_op dv) (dv_init dv)
    (sem_tagval g args vs ss (imported_tags c) (asg_of c) n vtx (dv_field dv)) = Ok k.
Proof.
  intros Hargs D Hcv Hcomp Hscope H.
  destruct (dynamic_hint_structure no_regex q args Hargs _ p dv vtx D Hcv) as (_ & Hst & (f & Hfi & Hfp & Hfo & Hfa & Hdyn) & _).
  cbn [vi_start dest_of_edge] in Hst. unfold sem_tagval.
  eapply (dyn_resolve_agrees q g args dv c root vs ss outs); eauto.
  - rewrite Hst. exact Hcomp.
  - intros cf E. unfold is_dynamic_filter in Hdyn. rewrite Hfa, E in Hdyn. apply andb_prop in Hdyn.
    destruct Hdyn as [_ Hr]. cbn [vi_front dest_of_edge resolved] in Hr. apply N.ltb_lt in Hr.
    unfold current_vertex, current_component, comp_at in Hcv. cbn [vi_vid dest_of_edge] in Hcv.
    destruct (comp_of_vid (q_comp q) (e_to e)) as [c0|]; [|discriminate]. cbn in Hcv.
    apply expect_some_ok in Hcv. apply find_vertex_some in Hcv. destruct Hcv as [_ Ev]. rewrite Ev. lia.
Qed.
