(* HintsProofs.v — proofs about the hints model (Hints.v): C05 (required_properties covers the
   engine's property requests) and C04 (hint candidates over-approximate the filters; mandatory
   edges; binding / non-binding; pruning is invisible). *)
From Coq Require Import Lia.
From TF Require Import Values ValuesProofs Ops OpsSpec OpsProofs Cand CandProofs Ty Hints.
Local Open Scope string_scope.
Local Open Scope N_scope.
Local Open Scope list_scope.

(* ====================================================================================== *)
(* Part 0: generic helpers                                                                  *)
(* ====================================================================================== *)
Lemma bind_ok' {A B} (r : res A) (f : A -> res B) y :
  bind r f = Ok y -> exists x, r = Ok x /\ f x = Ok y.
Proof. destruct r as [x|s]; cbn; [eauto|discriminate]. Qed.

Ltac invb H :=
  match type of H with
  | bind ?r ?f = Ok ?y =>
      let x := fresh "x" in let Hx := fresh "Hx" in
      apply bind_ok' in H; destruct H as (x & Hx & H)
  end.

Tactic Notation "invb" hyp(H) "as" ident(x) ident(Hx) :=
  apply bind_ok' in H; destruct H as (x & Hx & H).

Lemma expect_some_ok {A} site (o : option A) a : expect_some site o = Ok a -> o = Some a.
Proof. destruct o; cbn; congruence. Qed.

Lemma mem_str_In s l : mem_str s l = true <-> In s l.
Proof.
  unfold mem_str. rewrite existsb_exists. split.
  - intros (x & Hx & E). apply String.eqb_eq in E. now subst.
  - intros H. exists s. split; [assumption|apply String.eqb_refl].
Qed.

Lemma dedup_str_In seen l x : In x (dedup_str seen l) <-> In x l /\ ~ In x seen.
Proof.
  revert seen. induction l as [|y l IH]; intros seen; cbn.
  - tauto.
  - destruct (mem_str y seen) eqn:M.
    + apply mem_str_In in M. rewrite IH. split.
      * intros [H1 H2]. auto.
      * intros [[->|H1] H2]; [contradiction|auto].
    + assert (~ In y seen) as Ny by (intros H; apply mem_str_In in H; congruence).
      cbn. rewrite IH. cbn. split.
      * intros [->|[H1 H2]]; [auto|]. split; [auto|]. intros H. apply H2. now right.
      * intros [[->|H1] H2]; [now left|].
        destruct (String.eqb y x) eqn:E.
        -- apply String.eqb_eq in E. now left.
        -- right. split; [assumption|]. intros [->|H3]; [|contradiction].
           now rewrite String.eqb_refl in E.
Qed.

Lemma dedup_str_nil_In l x : In x (dedup_str [] l) <-> In x l.
Proof. rewrite dedup_str_In. cbn. tauto. Qed.

Lemma find_vertex_some vs vid v : find_vertex vs vid = Some v -> In v vs /\ v_vid v = vid.
Proof.
  induction vs as [|w vs IH]; cbn; [discriminate|].
  destruct (N.eqb (v_vid w) vid) eqn:E.
  - intros [= <-]. apply N.eqb_eq in E. auto.
  - intros H. destruct (IH H). auto.
Qed.

Lemma find_vertex_none vs vid : find_vertex vs vid = None -> forall v, In v vs -> v_vid v <> vid.
Proof.
  induction vs as [|w vs IH]; cbn; [intros _ v []|].
  destruct (N.eqb (v_vid w) vid) eqn:E; [discriminate|].
  intros H v [<-|Hv]; [now apply N.eqb_neq in E|now apply IH].
Qed.

Lemma find_vertex_unique vs v : NoDup (map v_vid vs) -> In v vs -> find_vertex vs (v_vid v) = Some v.
Proof.
  induction vs as [|w vs IH]; cbn; [intros _ []|].
  intros ND [->|Hv].
  - now rewrite N.eqb_refl.
  - inversion ND as [|? ? Nin ND']; subst.
    destruct (N.eqb (v_vid w) (v_vid v)) eqn:E.
    + apply N.eqb_eq in E. exfalso. apply Nin. rewrite E. now apply in_map.
    + now apply IH.
Qed.

(* ---- components: nested induction, sub-components ---- *)
Section CompInd.
  Variable P : ir_component -> Prop.
  Hypothesis H : forall root vs ss outs,
    Forall (fun s => match s with SFold _ sub => P sub | SEdge _ => True end) ss ->
    P (mkComp root vs ss outs).
  Fixpoint comp_ind' (c : ir_component) : P c :=
    match c with
    | mkComp root vs ss outs =>
        H root vs ss outs
          ((fix go (ss : list step)
              : Forall (fun s => match s with SFold _ sub => P sub | SEdge _ => True end) ss :=
              match ss with
              | [] => Forall_nil _
              | SEdge e :: r => Forall_cons (SEdge e) I (go r)
              | SFold h sub :: r => Forall_cons (SFold h sub) (comp_ind' sub) (go r)
              end) ss)
    end.
End CompInd.

(* `subcomp c top`: c is top or (transitively) the component of one of its folds *)
Inductive subcomp : ir_component -> ir_component -> Prop :=
| sub_here c : subcomp c c
| sub_fold c root vs ss outs h sub :
    In (SFold h sub) ss -> subcomp c sub -> subcomp c (mkComp root vs ss outs).

Lemma subcomp_trans a b c : subcomp a b -> subcomp b c -> subcomp a c.
Proof.
  intros Hab Hbc. induction Hbc as [|c root vs ss outs h sub Hin Hbc IH]; [assumption|].
  econstructor; eauto.
Qed.

(* the folds-part of all_vids, as a function of the steps *)
Fixpoint fold_vids (ss : list step) : list N :=
  match ss with
  | [] => []
  | SEdge _ :: r => fold_vids r
  | SFold _ sub :: r => all_vids sub ++ fold_vids r
  end.

Lemma all_vids_eq root vs ss outs :
  all_vids (mkComp root vs ss outs) = map v_vid vs ++ fold_vids ss.
Proof.
  reflexivity.
Qed.

Lemma fold_vids_in ss h sub x : In (SFold h sub) ss -> In x (all_vids sub) -> In x (fold_vids ss).
Proof.
  induction ss as [|[e|h' sub'] r IH]; cbn; [intros []| |].
  - intros [E|Hin] Hx; [discriminate|auto].
  - intros [E|Hin] Hx; apply in_or_app.
    + left. injection E as -> ->. assumption.
    + right. auto.
Qed.

Lemma subcomp_vids c top : subcomp c top -> forall x, In x (all_vids c) -> In x (all_vids top).
Proof.
  induction 1 as [|c root vs ss outs h sub Hin Hsub IH]; [auto|].
  intros x Hx. rewrite all_vids_eq. apply in_or_app. right. eapply fold_vids_in; eauto.
Qed.

Definition vids_unique (c : ir_component) : Prop := NoDup (all_vids c).

Lemma NoDup_app_l {A} (l1 l2 : list A) : NoDup (l1 ++ l2) -> NoDup l1.
Proof. induction l1 as [|x l1 IH]; cbn; [constructor|]. intros H. inversion H as [|? ? Hn Hd]; subst. constructor; [|auto].
  intros Hin. apply Hn. apply in_or_app. now left. Qed.
Lemma NoDup_app_r {A} (l1 l2 : list A) : NoDup (l1 ++ l2) -> NoDup l2.
Proof. induction l1 as [|x l1 IH]; cbn; [auto|]. intros H. inversion H as [|? ? Hn Hd]; subst. auto. Qed.
Lemma NoDup_app_disj {A} (l1 l2 : list A) x : NoDup (l1 ++ l2) -> In x l1 -> In x l2 -> False.
Proof.
  induction l1 as [|y l1 IH]; cbn; [intros _ []|]. intros H [->|H1] H2; inversion H as [|? ? Hn Hd]; subst.
  - apply Hn. apply in_or_app. now right.
  - eauto.
Qed.

Lemma fold_vids_unique_sub ss h sub : NoDup (fold_vids ss) -> In (SFold h sub) ss -> NoDup (all_vids sub).
Proof.
  induction ss as [|[e|h' sub'] r IH]; cbn; [intros _ []| |].
  - intros ND [E|Hin]; [discriminate|auto].
  - intros ND [E|Hin].
    + injection E as -> ->. eapply NoDup_app_l; eauto.
    + apply IH; [eapply NoDup_app_r; eauto|assumption].
Qed.

Lemma vids_unique_sub c top : subcomp c top -> vids_unique top -> vids_unique c.
Proof.
  unfold vids_unique. induction 1 as [|c root vs ss outs h sub Hin Hsub IH]; [auto|].
  intros ND. apply IH. rewrite all_vids_eq in ND. apply NoDup_app_r in ND.
  eapply fold_vids_unique_sub; eauto.
Qed.

(* comp_of_vid over the steps *)
Fixpoint comp_of_vid_steps (ss : list step) (vid : N) : option ir_component :=
  match ss with
  | [] => None
  | SEdge _ :: r => comp_of_vid_steps r vid
  | SFold h sub :: r => match comp_of_vid sub vid with Some x => Some x | None => comp_of_vid_steps r vid end
  end.

Lemma comp_of_vid_eq root vs ss outs vid :
  comp_of_vid (mkComp root vs ss outs) vid =
  match find_vertex vs vid with
  | Some _ => Some (mkComp root vs ss outs)
  | None => comp_of_vid_steps ss vid
  end.
Proof.
  cbn. destruct (find_vertex vs vid); [reflexivity|].
  induction ss as [|[e|h sub] r IH]; cbn; [reflexivity|assumption|].
  destruct (comp_of_vid sub vid); [reflexivity|assumption].
Qed.

Lemma comp_of_vid_none c : forall vid, comp_of_vid c vid = None -> ~ In vid (all_vids c).
Proof.
  induction c as [root vs ss outs IH] using comp_ind'. intros vid. rewrite comp_of_vid_eq, all_vids_eq.
  destruct (find_vertex vs vid) eqn:F; [discriminate|].
  intros Hs Hin. apply in_app_or in Hin. destruct Hin as [Hin|Hin].
  - apply in_map_iff in Hin. destruct Hin as (v & E & Hv). eapply find_vertex_none; eauto.
  - clear F. induction ss as [|[e|h sub] r IHr]; cbn in *; [assumption| |].
    + inversion IH; subst. auto.
    + inversion IH as [|? ? Hsub Hr]; subst.
      destruct (comp_of_vid sub vid) eqn:C; [discriminate|].
      apply in_app_or in Hin. destruct Hin as [Hin|Hin]; [eapply Hsub; eauto|auto].
Qed.

Lemma comp_of_vid_some_in c : forall vid c0, comp_of_vid c vid = Some c0 -> In vid (all_vids c).
Proof.
  induction c as [root vs ss outs IH] using comp_ind'. intros vid c0.
  rewrite comp_of_vid_eq, all_vids_eq. destruct (find_vertex vs vid) eqn:F.
  - intros _. apply find_vertex_some in F. destruct F as [Fi <-]. apply in_or_app. left. now apply in_map.
  - intros Hs. apply in_or_app. right. clear F.
    induction ss as [|[e|h sub] r IHr]; cbn in *; [discriminate| |].
    + inversion IH; subst. auto.
    + inversion IH as [|? ? Hsub Hr]; subst. apply in_or_app.
      destruct (comp_of_vid sub vid) eqn:C; [left; eapply Hsub; eauto|right; auto].
Qed.

(* with unique vids, the lookup finds exactly the sub-component that owns the vertex *)
Lemma comp_of_vid_sub top : forall c v,
  vids_unique top -> subcomp c top -> In v (c_vertices c) -> comp_of_vid top (v_vid v) = Some c.
Proof.
  induction top as [root vs ss outs IH] using comp_ind'. intros c v ND Hsub Hv.
  rewrite comp_of_vid_eq. unfold vids_unique in ND. rewrite all_vids_eq in ND.
  inversion Hsub as [|c' root' vs' ss' outs' h sub Hin Hsub']; subst.
  - cbn in Hv. rewrite (find_vertex_unique vs v); [reflexivity| |assumption].
    eapply NoDup_app_l; eauto.
  - assert (Hx : In (v_vid v) (all_vids sub)).
    { eapply subcomp_vids; eauto. destruct c as [r' vs' ss' o']. rewrite all_vids_eq. apply in_or_app. left.
      now apply in_map. }
    destruct (find_vertex vs (v_vid v)) eqn:F.
    { exfalso. apply find_vertex_some in F. destruct F as [Fi Fe].
      eapply (NoDup_app_disj _ _ (v_vid v) ND).
      - rewrite <- Fe. now apply in_map.
      - eapply fold_vids_in; eauto. }
    clear F Hsub. apply NoDup_app_r in ND.
    induction ss as [|[e|h' sub'] r IHr]; cbn in *; [contradiction| |].
    + destruct Hin as [E|Hin]; [discriminate|]. inversion IH; subst. auto.
    + inversion IH as [|? ? Hs Hr]; subst. destruct Hin as [E|Hin].
      * injection E as -> ->. rewrite (Hs c v); auto. eapply NoDup_app_l; eauto.
      * destruct (comp_of_vid sub' (v_vid v)) eqn:C.
        -- exfalso. apply comp_of_vid_some_in in C.
           eapply (NoDup_app_disj _ _ (v_vid v) ND); [eassumption|]. eapply fold_vids_in; eauto.
        -- apply IHr; auto. eapply NoDup_app_r; eauto.
Qed.

Lemma vids_unique_vertices c top : vids_unique top -> subcomp c top -> NoDup (map v_vid (c_vertices c)).
Proof.
  intros ND Hsub. pose proof (vids_unique_sub _ _ Hsub ND) as H. unfold vids_unique in H.
  destruct c as [root vs ss outs]. rewrite all_vids_eq in H. cbn. eapply NoDup_app_l; eauto.
Qed.

(* ====================================================================================== *)
(* Part 1: C05                                                                              *)
(* ====================================================================================== *)

(* what one component requests by itself (property_requests_comp without the recursion) *)
Definition fold_local_requests (vs : list ir_vertex) (h : fold_hdr) : list (N * string) :=
  import_requests h ++ flat_map (fun pf => tag_request vs (pf_arg pf)) (fo_post h).
Definition filter_requests_of (vs : list ir_vertex) : list (N * string) :=
  flat_map (fun v => flat_map (fun f => (v_vid v, vf_field f) :: tag_request vs (vf_arg f)) (v_filters v)) vs.
Definition output_requests_of (outs : list (string * ctxfield)) : list (N * string) :=
  map (fun o => (cf_vid (snd o), cf_name (snd o))) outs.

Fixpoint fold_requests_steps (vs : list ir_vertex) (ss : list step) : list (N * string) :=
  match ss with
  | [] => []
  | SEdge _ :: r => fold_requests_steps vs r
  | SFold h sub :: r => fold_local_requests vs h ++ property_requests_comp sub ++ fold_requests_steps vs r
  end.

Lemma property_requests_comp_eq root vs ss outs :
  property_requests_comp (mkComp root vs ss outs) =
  filter_requests_of vs ++ output_requests_of outs ++ fold_requests_steps vs ss.
Proof.
  cbn. unfold filter_requests_of, output_requests_of. do 2 f_equal.
  induction ss as [|[e|h sub] r IH]; cbn; [reflexivity|assumption|].
  unfold fold_local_requests. rewrite <- !app_assoc. now rewrite IH.
Qed.

Inductive local_request : ir_component -> N * string -> Prop :=
| lr_filter root vs ss outs r : In r (filter_requests_of vs) -> local_request (mkComp root vs ss outs) r
| lr_output root vs ss outs r : In r (output_requests_of outs) -> local_request (mkComp root vs ss outs) r
| lr_fold root vs ss outs h sub r :
    In (SFold h sub) ss -> In r (fold_local_requests vs h) -> local_request (mkComp root vs ss outs) r.

Lemma property_requests_char top : forall r,
  In r (property_requests_comp top) -> exists c, subcomp c top /\ local_request c r.
Proof.
  induction top as [root vs ss outs IH] using comp_ind'. intros r. rewrite property_requests_comp_eq.
  intros Hin. apply in_app_or in Hin. destruct Hin as [Hin|Hin].
  { eexists. split; [constructor|]. now apply lr_filter. }
  apply in_app_or in Hin. destruct Hin as [Hin|Hin].
  { eexists. split; [constructor|]. now apply lr_output. }
  assert (K : forall ss', (forall s, In s ss' -> In s ss) ->
              Forall (fun s => match s with SFold _ sub => forall r, In r (property_requests_comp sub) ->
                                   exists c, subcomp c sub /\ local_request c r | SEdge _ => True end) ss' ->
              In r (fold_requests_steps vs ss') ->
              exists c, subcomp c (mkComp root vs ss outs) /\ local_request c r).
  { clear Hin IH. induction ss' as [|[e|h sub] r' IHr]; cbn; intros Hincl HF Hin; [contradiction| |].
    - inversion HF as [|? ? Hsub Hr]; subst.
      apply IHr; [intros s Hs; apply Hincl; now right|assumption|assumption].
    - inversion HF as [|? ? Hsub Hr]; subst.
      apply in_app_or in Hin. destruct Hin as [Hin|Hin].
      { eexists. split; [constructor|]. eapply lr_fold; [apply Hincl; now left|assumption]. }
      apply in_app_or in Hin. destruct Hin as [Hin|Hin].
      { destruct (Hsub _ Hin) as (c & Hc & Hl). exists c. split; [|assumption].
        eapply sub_fold; [apply Hincl; now left|assumption]. }
      apply IHr; [intros s Hs; apply Hincl; now right|assumption|assumption]. }
  apply (K ss); auto.
Qed.

Lemma memN'_In x l : memN' x l = true <-> In x l.
Proof.
  unfold memN'. rewrite existsb_exists. split.
  - intros (y & Hy & E). apply N.eqb_eq in E. now subst.
  - intros H. exists x. split; [assumption|apply N.eqb_refl].
Qed.

Lemma nodupN_NoDup l : nodupN l = true -> NoDup l.
Proof.
  induction l as [|x r IH]; cbn; [constructor|].
  intros H. apply andb_prop in H. destruct H as [H1 H2]. constructor; [|auto].
  intros Hin. apply memN'_In in Hin. now rewrite Hin in H1.
Qed.

Lemma outputs_local_sub c top : subcomp c top -> outputs_local top = true -> outputs_local c = true.
Proof.
  induction 1 as [|c root vs ss outs h sub Hin Hsub IH]; [auto|].
  intros H. apply IH. cbn in H. apply andb_prop in H. destruct H as [_ H].
  induction ss as [|[e|h' sub'] r IHr]; cbn in *; [contradiction| |].
  - destruct Hin as [E|Hin]; [discriminate|auto].
  - apply andb_prop in H. destruct H as [H1 H2]. destruct Hin as [E|Hin]; [injection E as -> ->; assumption|auto].
Qed.

Fixpoint folds_with_parent_steps (vs : list ir_vertex) (ss : list step) : list (list ir_vertex * fold_hdr) :=
  match ss with
  | [] => []
  | SEdge _ :: r => folds_with_parent_steps vs r
  | SFold h sub :: r => (vs, h) :: folds_with_parent sub ++ folds_with_parent_steps vs r
  end.
Lemma folds_with_parent_eq root vs ss outs :
  folds_with_parent (mkComp root vs ss outs) = folds_with_parent_steps vs ss.
Proof. cbn. induction ss as [|[e|h sub] r IH]; cbn; [reflexivity|assumption|now rewrite IH]. Qed.

Lemma folds_with_parent_sub c top : subcomp c top ->
  forall ph, In ph (folds_with_parent c) -> In ph (folds_with_parent top).
Proof.
  induction 1 as [|c root vs ss outs h sub Hin Hsub IH]; [auto|].
  intros ph Hph. specialize (IH ph Hph). rewrite folds_with_parent_eq. clear Hph.
  induction ss as [|[e|h' sub'] r IHr]; cbn in *; [contradiction| |].
  - destruct Hin as [E|Hin]; [discriminate|auto].
  - right. apply in_or_app. destruct Hin as [E|Hin]; [left; injection E as -> ->; assumption|right; auto].
Qed.

Lemma folds_with_parent_here root vs ss outs h sub :
  In (SFold h sub) ss -> In (vs, h) (folds_with_parent (mkComp root vs ss outs)).
Proof.
  rewrite folds_with_parent_eq. induction ss as [|[e|h' sub'] r IH]; cbn; [intros []| |].
  - intros [E|Hin]; [discriminate|auto].
  - intros [E|Hin]; [left; injection E as -> ->; reflexivity|right; apply in_or_app; right; auto].
Qed.

Lemma folds_with_parent_requests t : forall vs h, In (vs, h) (folds_with_parent t) ->
  forall r, In r (fold_local_requests vs h) -> In r (property_requests_comp t).
Proof.
  induction t as [root vs0 ss outs IH] using comp_ind'. intros vs h Hph r Hr.
  rewrite folds_with_parent_eq in Hph. rewrite property_requests_comp_eq.
  apply in_or_app. right. apply in_or_app. right.
  induction ss as [|[e|h' sub'] rest IHr]; cbn in *; [contradiction| |].
  - inversion IH; subst. auto.
  - inversion IH as [|? ? Hs Hrest]; subst. destruct Hph as [E|Hph].
    + injection E as -> ->. apply in_or_app. now left.
    + apply in_or_app. right. apply in_app_or in Hph. apply in_or_app.
      destruct Hph as [Hph|Hph]; [left; eapply Hs; eauto|right; auto].
Qed.

Lemma wf_hints_query_parts q : wf_hints_query q = true ->
  nodupN (all_vids (q_comp q)) = true /\ outputs_local (q_comp q) = true /\
  fold_roots_ok (q_comp q) = true /\ imports_local (q_comp q) = true.
Proof.
  unfold wf_hints_query. intros H. apply andb_prop in H. destruct H as [H H4].
  apply andb_prop in H. destruct H as [H H3]. apply andb_prop in H. destruct H as [H1 H2]. auto.
Qed.

Lemma imports_local_here root vs ss outs h sub :
  imports_local (mkComp root vs ss outs) = true -> In (SFold h sub) ss ->
  (forall cf, In (FRContext cf) (fo_imported h) -> exists u, find_vertex vs (cf_vid cf) = Some u) /\
  imports_local sub = true.
Proof.
  cbn. induction ss as [|[e|h' sub'] r IH]; cbn; [intros _ []| |].
  - intros H [E|Hin]; [discriminate|auto].
  - intros H [E|Hin].
    + injection E as -> ->. apply andb_prop in H. destruct H as [H _]. apply andb_prop in H. destruct H as [H1 H2].
      split; [|assumption]. intros cf Hcf. rewrite forallb_forall in H1. specialize (H1 _ Hcf). cbn in H1.
      destruct (find_vertex vs (cf_vid cf)); [eauto|discriminate].
    + apply andb_prop in H. destruct H as [_ H]. auto.
Qed.

Lemma imports_local_sub c top : subcomp c top -> imports_local top = true -> imports_local c = true.
Proof.
  induction 1 as [|c root vs ss outs h sub Hin Hsub IH]; [auto|].
  intros H. apply IH. now destruct (imports_local_here _ _ _ _ _ _ H Hin).
Qed.

Section C05.
  Variable q : ir_query.
  Hypothesis Hwf : wf_hints_query q = true.

  Let top := q_comp q.
  Lemma top_unique : vids_unique top.
  Proof. destruct (wf_hints_query_parts q Hwf) as (H & _). now apply nodupN_NoDup. Qed.
  Lemma top_outputs : outputs_local top = true.
  Proof. now destruct (wf_hints_query_parts q Hwf) as (_ & H & _). Qed.
  Lemma top_imports : imports_local top = true.
  Proof. now destruct (wf_hints_query_parts q Hwf) as (_ & _ & _ & H). Qed.

  (* required_properties at a vertex of a sub-component, computed *)
  Lemma required_of_sub c v :
    subcomp c top -> In v (c_vertices c) ->
    forall p, In p (required_of q (v_vid v)) <->
      In p (flat_map (fun o => if N.eqb (cf_vid (snd o)) (v_vid v) then [cf_name (snd o)] else []) (c_outputs c)
            ++ map vf_field (v_filters v) ++ tag_uses_of (v_vid v) (c_vertices c)
            ++ fold_tag_uses_of (v_vid v) (c_steps c)).
  Proof.
    intros Hsub Hv p. unfold required_of, required_properties, current_vertex, current_component, comp_at.
    cbn [vi_vid resolve_info].
    fold top. rewrite (comp_of_vid_sub top c v top_unique Hsub Hv). cbn [expect_some bind].
    rewrite (find_vertex_unique (c_vertices c) v (vids_unique_vertices c top top_unique Hsub) Hv).
    cbn [expect_some bind]. apply dedup_str_nil_In.
  Qed.

  Lemma tag_uses_of_In vid vs w f cf :
    In w vs -> In f (v_filters w) -> vf_arg f = Some (ATag (FRContext cf)) -> cf_vid cf = vid ->
    In (cf_name cf) (tag_uses_of vid vs).
  Proof.
    intros Hw Hf Ha <-. unfold tag_uses_of. apply in_flat_map. exists w. split; [assumption|].
    apply in_flat_map. exists f. split; [assumption|]. rewrite Ha, N.eqb_refl. now left.
  Qed.

  Lemma tag_request_listed c w f r :
    subcomp c top -> In w (c_vertices c) -> In f (v_filters w) ->
    In r (tag_request (c_vertices c) (vf_arg f)) -> In (snd r) (required_of q (fst r)).
  Proof.
    intros Hsub Hw Hf Hr. unfold tag_request in Hr.
    destruct (vf_arg f) as [[[cf|ff]|x t]|] eqn:A; try contradiction.
    destruct (find_vertex (c_vertices c) (cf_vid cf)) as [u|] eqn:F; [|contradiction].
    destruct Hr as [<-|[]]. cbn [fst snd].
    apply find_vertex_some in F. destruct F as [Hu Eu]. rewrite <- Eu.
    apply (required_of_sub c u Hsub Hu). apply in_or_app. right. apply in_or_app. right. apply in_or_app. left.
    apply (tag_uses_of_In (v_vid u) (c_vertices c) w f cf Hw Hf A). now symmetry.
  Qed.

  (* C05, unconditionally (F11 repaired: the fourth clause of required_properties lists the tags a fold of
     the component imports and the tag operands of its fold-count filters) *)
  Theorem requested_subset_required_all :
    forall r, In r (property_requests q) -> In (snd r) (required_of q (fst r)).
  Proof.
    intros r Hr. unfold property_requests in Hr. fold top in Hr.
    destruct (property_requests_char top r Hr) as (c & Hsub & Hl).
    inversion Hl as [root vs ss outs r0 Hin|root vs ss outs r0 Hin|root vs ss outs h sub r0 Hfold Hin]; subst.
    - (* a filter's left operand, or its tag operand *)
      unfold filter_requests_of in Hin. apply in_flat_map in Hin. destruct Hin as (v & Hv & Hin).
      apply in_flat_map in Hin. destruct Hin as (f & Hf & Hin). destruct Hin as [<-|Hin].
      + cbn [fst snd]. apply (required_of_sub _ v Hsub Hv). apply in_or_app. right. apply in_or_app. left.
        now apply in_map.
      + eapply (tag_request_listed _ v f r Hsub); eauto.
    - (* an output *)
      unfold output_requests_of in Hin. apply in_map_iff in Hin. destruct Hin as (o & <- & Ho). cbn [fst snd].
      pose proof (outputs_local_sub _ _ Hsub top_outputs) as OL. cbn in OL. apply andb_prop in OL.
      destruct OL as [OL _]. rewrite forallb_forall in OL. specialize (OL o Ho).
      destruct (find_vertex vs (cf_vid (snd o))) as [u|] eqn:F; [|discriminate].
      apply find_vertex_some in F. destruct F as [Hu Eu]. rewrite <- Eu.
      apply (required_of_sub _ u Hsub Hu). apply in_or_app. left. cbn [c_outputs].
      apply in_flat_map. exists o. split; [assumption|]. rewrite Eu, N.eqb_refl. now left.
    - (* an imported tag / the tag operand of a fold-count filter: the fourth clause *)
      assert (K : forall cf u, find_vertex vs (cf_vid cf) = Some u ->
                    In (cf_name cf) (fold_tag_uses_of (cf_vid cf) ss) ->
                    In (cf_name cf) (required_of q (cf_vid cf))).
      { intros cf u F Huse. apply find_vertex_some in F. destruct F as [Hu Eu]. rewrite <- Eu.
        apply (required_of_sub _ u Hsub Hu). apply in_or_app. right. apply in_or_app. right. apply in_or_app. right.
        cbn [c_steps]. now rewrite Eu. }
      unfold fold_local_requests in Hin. apply in_app_or in Hin. destruct Hin as [Hin|Hin].
      + unfold import_requests in Hin. apply in_flat_map in Hin. destruct Hin as (t & Ht & Hin).
        destruct t as [cf|ff]; [|contradiction]. destruct Hin as [<-|[]]. cbn [fst snd].
        pose proof (imports_local_sub _ _ Hsub top_imports) as IL.
        destruct (imports_local_here _ _ _ _ _ _ IL Hfold) as [Hloc _]. destruct (Hloc cf Ht) as [u F].
        apply (K cf u F). unfold fold_tag_uses_of. apply in_flat_map. exists (SFold h sub). split; [assumption|].
        apply in_or_app. left. apply in_flat_map. exists (FRContext cf). split; [assumption|].
        rewrite N.eqb_refl. now left.
      + apply in_flat_map in Hin. destruct Hin as (pf & Hpf & Hin). unfold tag_request in Hin.
        destruct (pf_arg pf) as [[[cf|ff]|x t]|] eqn:A; try contradiction.
        destruct (find_vertex vs (cf_vid cf)) as [u|] eqn:F; [|contradiction].
        destruct Hin as [<-|[]]. cbn [fst snd].
        apply (K cf u F). unfold fold_tag_uses_of. apply in_flat_map. exists (SFold h sub). split; [assumption|].
        apply in_or_app. right. apply in_flat_map. exists pf. split; [assumption|].
        rewrite A, N.eqb_refl. now left.
  Qed.

  (* the former conditional form (the two classes of F11 are not needed any more) *)
  Theorem requested_subset_required_outside :
    k_imported_tag_not_required q = false -> k_count_filter_tag_not_required q = false ->
    forall r, In r (property_requests q) -> In (snd r) (required_of q (fst r)).
  Proof. intros _ _. exact requested_subset_required_all. Qed.

  (* ... and those classes are empty *)
  Theorem f11_classes_empty :
    k_imported_tag_not_required q = false /\ k_count_filter_tag_not_required q = false.
  Proof.
    split.
    - destruct (k_imported_tag_not_required q) eqn:K; [exfalso|reflexivity].
      unfold k_imported_tag_not_required in K. apply existsb_exists in K. destruct K as ((vs & h) & Hph & K).
      apply existsb_exists in K. destruct K as (r & Hr & U). unfold unlisted in U. apply negb_true_iff in U.
      assert (H : In (snd r) (required_of q (fst r))); [|apply mem_str_In in H; congruence].
      apply requested_subset_required_all. unfold property_requests.
      apply (folds_with_parent_requests _ vs h Hph). unfold fold_local_requests. apply in_or_app. now left.
    - destruct (k_count_filter_tag_not_required q) eqn:K; [exfalso|reflexivity].
      unfold k_count_filter_tag_not_required in K. apply existsb_exists in K. destruct K as ((vs & h) & Hph & K).
      apply existsb_exists in K. destruct K as (r & Hr & U). unfold unlisted in U. apply negb_true_iff in U.
      assert (H : In (snd r) (required_of q (fst r))); [|apply mem_str_In in H; congruence].
      apply requested_subset_required_all. unfold property_requests.
      apply (folds_with_parent_requests _ vs h Hph). unfold fold_local_requests. apply in_or_app. now right.
  Qed.
End C05.

(* ====================================================================================== *)
(* Part 2: C04 — operators vs candidates                                                    *)
(* ====================================================================================== *)
Definition cmp_of (op : opk) : option cmp_op :=
  match op with
  | LessThan => Some OpLt | LessThanOrEqual => Some OpLe
  | GreaterThan => Some OpGt | GreaterThanOrEqual => Some OpGe
  | _ => None
  end.

(* the set of values a binary filter `v op a` admits, as a candidate: what the hints SHOULD report *)
Definition op_cand (nr : bool) (op : opk) (a : fv) : option (cand fv) :=
  match op with
  | Equals => Some (Single a)
  | LessThan => Some (CRange (mkRange Unb (Excl a) nr))
  | LessThanOrEqual => Some (CRange (mkRange Unb (Incl a) nr))
  | GreaterThan => Some (CRange (mkRange (Excl a) Unb nr))
  | GreaterThanOrEqual => Some (CRange (mkRange (Incl a) Unb nr))
  | OneOf => match a with List l => Some (Multiple l) | _ => None end
  | _ => None
  end.

Definition args_wf (args : list (string * fv)) : Prop := Forall (fun kv => wf (snd kv) = true) args.

Lemma args_wf_lookup args x w : args_wf args -> lookup_str x args = Some w -> wf w = true.
Proof.
  induction 1 as [|[k a] r Ha _ IH]; cbn; [discriminate|].
  destruct (String.eqb x k); [intros [= <-]; exact Ha|exact IH].
Qed.

Lemma spec_compare_cmpT l r c :
  spec_compare l r = Some c -> cmpT l r = c /\ fv_is_null l = false /\ fv_is_null r = false.
Proof.
  destruct l; try discriminate; destruct r; try discriminate; cbn [spec_compare]; intros [= <-];
    (split; [|split; reflexivity]); try (apply cmpT_ints; reflexivity); reflexivity.
Qed.

Lemma cmp_fn_true o v a :
  wf v = true -> wf a = true -> cmp_fn o v a = Ok true ->
  fv_is_null v = false /\ fv_is_null a = false /\ ord_op o (cmpT v a) = true.
Proof.
  intros Wv Wa H. destruct (cmp_defined v a) eqn:D.
  - destruct (cmp_defined_cases v a D) as [->|[->|[c Hc]]].
    + rewrite cmp_null_l in H. discriminate.
    + rewrite cmp_null_r in H. discriminate.
    + rewrite (spec_compare_fn o v a c Wv Wa Hc) in H. injection H as H.
      destruct (spec_compare_cmpT v a c Hc) as (E & N1 & N2). rewrite E. auto.
  - destruct (cmp_panics_outside o v a D) as [s Hs]. congruence.
Qed.

Section Ops.
  Variable re : string -> string -> option bool.

  Lemma holds_equals v a : wf v = true -> wf a = true -> holds re Equals v a = eqT v a.
  Proof. intros Wv Wa. unfold holds. cbn. now rewrite (equals_ok v a Wv Wa). Qed.

  Lemma holds_not_equals v a : wf v = true -> wf a = true -> holds re NotEquals v a = negb (eqT v a).
  Proof. intros Wv Wa. unfold holds. cbn. unfold not_. now rewrite (equals_ok v a Wv Wa). Qed.

  Lemma holds_cmp op o v a : cmp_of op = Some o ->
    holds re op v a = match cmp_fn o v a with Ok b => b | Panic _ => false end.
  Proof. destruct op; cbn; intros [= <-]; reflexivity. Qed.

  Lemma holds_cmp_true op o v a : cmp_of op = Some o -> wf v = true -> wf a = true ->
    holds re op v a = true ->
    fv_is_null v = false /\ fv_is_null a = false /\ ord_op o (cmpT v a) = true.
  Proof.
    intros Ho Wv Wa H. rewrite (holds_cmp op o v a Ho) in H.
    destruct (cmp_fn o v a) as [b|s] eqn:E; [|discriminate]. subst b. now apply cmp_fn_true.
  Qed.

  Lemma holds_one_of_list v l : wf v = true -> forallb wf l = true ->
    holds re OneOf v (List l) = existsb (eqT v) l.
  Proof. intros Wv Wl. unfold holds. cbn -[one_of]. now rewrite (one_of_list v l Wv Wl). Qed.

  Lemma holds_one_of_shape v a : holds re OneOf v a = true -> exists l, a = List l.
  Proof. unfold holds. destruct a; cbn; try discriminate. eauto. Qed.

  Lemma holds_not_one_of_list v l : wf v = true -> forallb wf l = true ->
    holds re NotOneOf v (List l) = negb (existsb (eqT v) l).
  Proof. intros Wv Wl. unfold holds. cbn -[one_of]. unfold not_. now rewrite (one_of_list v l Wv Wl). Qed.

  Lemma existsb_eqT_vec_contains l v : wf v = true -> forallb wf l = true ->
    vec_contains eq_t l v = existsb (eqT v) l.
  Proof.
    intros Wv. unfold vec_contains. induction l as [|x l IH]; cbn; [reflexivity|].
    intros Wl. apply andb_prop in Wl. destruct Wl as [Wx Wl].
    rewrite (eq_t_eqT x v Wx Wv), (eqT_sym x v), IH by assumption. reflexivity.
  Qed.

  Lemma range_mem_nonnull (r : range fv) v : fv_is_null v = false ->
    f_mem (CRange r) v =
      (match rstart r with Incl s => t_le cmp_t s v | Excl s => t_lt cmp_t s v | Unb => true end)
      && (match rend r with Incl e => t_le cmp_t v e | Excl e => t_lt cmp_t v e | Unb => true end).
  Proof. intros N. unfold f_mem, Cand.mem, Cand.contains. now rewrite N. Qed.

  (* candidate_sound: a value for which the operator holds lies in the operator's candidate *)
  Theorem candidate_sound nr op v a k :
    wf v = true -> wf a = true -> op_cand nr op a = Some k -> holds re op v a = true -> f_mem k v = true.
  Proof.
    intros Wv Wa Hk Hh.
    destruct op; cbn [op_cand] in Hk; try discriminate.
    - (* = *) injection Hk as <-. rewrite (holds_equals v a Wv Wa) in Hh.
      unfold f_mem, mem. now rewrite (eq_t_eqT v a Wv Wa).
    - (* < *) injection Hk as <-.
      destruct (holds_cmp_true LessThan OpLt v a eq_refl Wv Wa Hh) as (N1 & N2 & O).
      rewrite range_mem_nonnull by assumption. cbn [rstart rend andb]. unfold t_lt.
      rewrite (cmp_t_cmpT v a Wv Wa). cbn in O. destruct (cmpT v a); congruence.
    - (* <= *) injection Hk as <-.
      destruct (holds_cmp_true LessThanOrEqual OpLe v a eq_refl Wv Wa Hh) as (N1 & N2 & O).
      rewrite range_mem_nonnull by assumption. cbn [rstart rend andb]. unfold t_le.
      rewrite (cmp_t_cmpT v a Wv Wa). cbn in O. destruct (cmpT v a); congruence.
    - (* > *) injection Hk as <-.
      destruct (holds_cmp_true GreaterThan OpGt v a eq_refl Wv Wa Hh) as (N1 & N2 & O).
      rewrite range_mem_nonnull by assumption. cbn [rstart rend]. rewrite andb_true_r. unfold t_lt.
      rewrite (cmp_t_cmpT a v Wa Wv), (cmpT_antisym v a). cbn in O. destruct (cmpT v a); cbn; congruence.
    - (* >= *) injection Hk as <-.
      destruct (holds_cmp_true GreaterThanOrEqual OpGe v a eq_refl Wv Wa Hh) as (N1 & N2 & O).
      rewrite range_mem_nonnull by assumption. cbn [rstart rend]. rewrite andb_true_r. unfold t_le.
      rewrite (cmp_t_cmpT a v Wa Wv), (cmpT_antisym v a). cbn in O. destruct (cmpT v a); cbn; congruence.
    - (* one_of *) destruct a as [| | | | | | |l]; try discriminate. injection Hk as <-.
      cbn [wf] in Wa. rewrite (holds_one_of_list v l Wv Wa) in Hh.
      unfold f_mem, mem. now rewrite existsb_eqT_vec_contains.
  Qed.

  (* ... and that candidate is well formed (its bounds are the non-null operand) *)
  Lemma op_cand_ok nr op v a k :
    wf v = true -> wf a = true -> op_cand nr op a = Some k -> holds re op v a = true -> f_cand_ok k = true.
  Proof.
    intros Wv Wa Hk Hh.
    assert (C : forall o, cmp_of op = Some o -> fv_is_null a = false).
    { intros o Ho. now destruct (holds_cmp_true op o v a Ho Wv Wa Hh) as (_ & N & _). }
    destruct op; cbn [op_cand] in Hk; try discriminate;
      try (injection Hk as <-; unfold f_cand_ok, f_wf_cand, wf_cand, wf_range, cand_vals_wf; cbn;
           try rewrite (C _ eq_refl); cbn; now rewrite ?Wa).
    destruct a as [| | | | | | |l]; try discriminate. injection Hk as <-.
    unfold f_cand_ok. cbn. exact Wa.
  Qed.

  (* unary operators *)
  Lemma holds_is_null v : holds_unary IsNull v = true -> f_mem (Single Null) v = true.
  Proof. unfold holds_unary. cbn. destruct v; cbn; try discriminate. reflexivity. Qed.
  Lemma holds_is_not_null v : holds_unary IsNotNull v = true -> f_mem (CRange range_full_non_null) v = true.
  Proof. unfold holds_unary. cbn. destruct v; cbn; try discriminate; reflexivity. Qed.

  Lemma holds_ne_null v : wf v = true -> holds re NotEquals v Null = true -> fv_is_null v = false.
  Proof. intros Wv. rewrite (holds_not_equals v Null Wv eq_refl). destruct v; cbn; try discriminate; reflexivity. Qed.
End Ops.

(* ====================================================================================== *)
(* Part 3: C04 — the static candidate over-approximates the variable filters                *)
(* ====================================================================================== *)
Lemma mapM_In {A B} (f : A -> res B) l r y : mapM f l = Ok r -> In y r -> exists x, In x l /\ f x = Ok y.
Proof.
  revert r. induction l as [|x l IH]; cbn; intros r H Hy.
  - injection H as <-. contradiction.
  - invb H as y0 Hy0. invb H as ys Hys. injection H as <-. destruct Hy as [<-|Hy]; [eauto|].
    destruct (IH _ Hys Hy) as (x2 & H1 & H2). eauto.
Qed.

Lemma flat_mapM_In {A B} (f : A -> res (list B)) l r y :
  flat_mapM f l = Ok r -> In y r -> exists x ys, In x l /\ f x = Ok ys /\ In y ys.
Proof.
  revert r. induction l as [|x l IH]; cbn; intros r H Hy.
  - injection H as <-. contradiction.
  - invb H as y0 Hy0. invb H as ys0 Hys. injection H as <-. apply in_app_or in Hy. destruct Hy as [Hy|Hy]; [eauto 6|].
    destruct (IH _ Hys Hy) as (x2 & ys & H1 & H2 & H3). eauto 7.
Qed.

Lemma f_intersect_det a b c : f_cand_ok a = true -> f_cand_ok b = true -> f_intersect a b = Ok c -> f_cand_ok c = true.
Proof. intros Ha Hb H. destruct (f_intersect_total a b Ha Hb) as (c' & E & Hc). congruence. Qed.
Lemma f_normalize_det a c : f_cand_ok a = true -> f_normalize a = Ok c -> f_cand_ok c = true.
Proof. intros Ha H. destruct (f_normalize_total a) as (c' & E & Hc). rewrite E in H. injection H as <-. auto. Qed.
Lemma f_exclude_det a v c : f_cand_ok a = true -> f_exclude a v = Ok c -> f_cand_ok c = true.
Proof. intros Ha H. destruct (f_exclude_total a v) as (c' & E & Hc). rewrite E in H. injection H as <-. auto. Qed.

Lemma foldM_intersect_sound v cands : wf v = true ->
  Forall (fun k => f_cand_ok k = true /\ f_mem k v = true) cands ->
  forall init c, f_cand_ok init = true -> f_mem init v = true ->
    foldM (fun acc e => f_intersect acc e) cands init = Ok c -> f_cand_ok c = true /\ f_mem c v = true.
Proof.
  intros Wv. induction 1 as [|k cands [Hk1 Hk2] _ IH]; cbn [foldM]; intros init c Hi Hm H.
  - injection H as <-. auto.
  - invb H as x Hx. apply (IH x); [exact (f_intersect_det init k x Hi Hk1 Hx)| |assumption].
    rewrite (f_mem_intersect init k x v Hi Hk1 Wv Hx). now rewrite Hm, Hk2.
Qed.

Lemma foldM_intersect_ok cands :
  Forall (fun k => f_cand_ok k = true) cands ->
  forall init c, f_cand_ok init = true ->
    foldM (fun acc e => f_intersect acc e) cands init = Ok c -> f_cand_ok c = true.
Proof.
  induction 1 as [|k cands Hk1 _ IH]; cbn [foldM]; intros init c Hi H.
  - injection H as <-. auto.
  - invb H as x Hx. apply (IH x); [exact (f_intersect_det init k x Hi Hk1 Hx)|assumption].
Qed.

Lemma foldM_exclude_sound v dis : wf v = true ->
  Forall (fun d => wf d = true /\ eq_t v d = false) dis ->
  forall init c, f_cand_ok init = true -> f_mem init v = true ->
    foldM (fun acc d => f_exclude acc d) dis init = Ok c -> f_cand_ok c = true /\ f_mem c v = true.
Proof.
  intros Wv. induction 1 as [|d dis [Hd1 Hd2] _ IH]; cbn [foldM]; intros init c Hi Hm H.
  - injection H as <-. auto.
  - invb H as x Hx. apply (IH x); [exact (f_exclude_det init d x Hi Hx)| |assumption].
    exact (f_exclude_sup init d x v Hi Hd1 Wv Hx Hm Hd2).
Qed.

Lemma foldM_exclude_ok dis : forall init c, f_cand_ok init = true ->
    foldM (fun acc d => f_exclude acc d) dis init = Ok c -> f_cand_ok c = true.
Proof.
  induction dis as [|d dis IH]; cbn [foldM]; intros init c Hi H.
  - injection H as <-. auto.
  - invb H as x Hx. apply (IH x); [exact (f_exclude_det init d x Hi Hx)|assumption].
Qed.

Lemma range_with_end_ok b n r : f_range_with_end b n = Ok r ->
  r = mkRange Unb b n /\ bound_not_null fv_is_null b = true.
Proof.
  unfold f_range_with_end, range_with_end, assert_bound_not_null.
  destruct b as [x|x|]; cbn; try (destruct (fv_is_null x); cbn; [discriminate|]); intros [= <-]; auto.
Qed.
Lemma range_with_start_ok b n r : f_range_with_start b n = Ok r ->
  r = mkRange b Unb n /\ bound_not_null fv_is_null b = true.
Proof.
  unfold f_range_with_start, range_with_start, assert_bound_not_null.
  destruct b as [x|x|]; cbn; try (destruct (fv_is_null x); cbn; [discriminate|]); intros [= <-]; auto.
Qed.

Lemma cand_ok_range s e n :
  bound_not_null fv_is_null s = true -> bound_not_null fv_is_null e = true ->
  bound_vals_wf s = true -> bound_vals_wf e = true -> f_cand_ok (CRange (mkRange s e n)) = true.
Proof. intros H1 H2 H3 H4. unfold f_cand_ok, f_wf_cand, wf_cand, wf_range, cand_vals_wf. cbn. now rewrite H1, H2, H3, H4. Qed.

Section Static.
  Variable re : string -> string -> option bool.
  Variable args : list (string * fv).
  Hypothesis Hargs : args_wf args.

  (* the Sem.v meaning of a filter whose operand (if any) is a query variable *)
  Definition static_passes (f : sfilter) (v : fv) : bool :=
    if opk_unary (fst f) then holds_unary (fst f) v
    else match snd f with
         | Some (AVar x _) => match lookup_str x args with Some w => holds re (fst f) v w | None => true end
         | _ => true
         end.

  Lemma static_arg_ok a av : static_arg args a = Ok av ->
    match a with
    | Some (AVar x _) => exists w, av = Some w /\ lookup_str x args = Some w /\ wf w = true
    | _ => av = None
    end.
  Proof.
    destruct a as [[r|x t]|]; cbn; try (intros [= <-]; reflexivity).
    intros H. invb H as x0 Hx. injection H as <-. unfold var_value in Hx. apply expect_some_ok in Hx.
    exists x0. split; [reflexivity|]. split; [assumption|]. eapply args_wf_lookup; eauto.
  Qed.

  Lemma static_part_sound f k v : wf v = true -> static_part args f = Ok (Some k) ->
    f_cand_ok k = true /\ (static_passes f v = true -> f_mem k v = true).
  Proof.
    intros Wv H. destruct f as [op arg]. unfold static_part in H. cbn [fst snd] in H. invb H as x Hx.
    apply static_arg_ok in Hx. unfold static_passes. cbn [fst snd].
    destruct arg as [[r|y t]|].
    - (* tag operand: only the unary operators contribute *)
      subst x. destruct op; try discriminate; injection H as <-; (split; [reflexivity|]); cbn [opk_unary].
      + apply holds_is_null.
      + apply holds_is_not_null.
    - destruct Hx as (w & -> & Hl & Ww). rewrite Hl.
      destruct op; try discriminate; cbn [opk_unary].
      + injection H as <-. split; [reflexivity|apply holds_is_null].
      + injection H as <-. split; [reflexivity|apply holds_is_not_null].
      + (* = *) injection H as <-. split; [unfold f_cand_ok; cbn; exact Ww|].
        intros Hh. exact (candidate_sound re true Equals v _ _ Wv Ww eq_refl Hh).
      + (* != null *) destruct (fv_is_null w) eqn:Nw; [|discriminate]. injection H as <-. split; [reflexivity|].
        intros Hh. destruct w; try discriminate. apply (holds_ne_null re v Wv) in Hh.
        unfold f_mem, Cand.mem, Cand.contains. now rewrite Hh.
      + (* < *) invb H as rr Hr. injection H as <-. apply range_with_end_ok in Hr. destruct Hr as [-> Hb].
        split; [apply cand_ok_range; auto|].
        intros Hh. exact (candidate_sound re true LessThan v _ _ Wv Ww eq_refl Hh).
      + (* <= *) invb H as rr Hr. injection H as <-. apply range_with_end_ok in Hr. destruct Hr as [-> Hb].
        split; [apply cand_ok_range; auto|].
        intros Hh. exact (candidate_sound re true LessThanOrEqual v _ _ Wv Ww eq_refl Hh).
      + (* > *) invb H as rr Hr. injection H as <-. apply range_with_start_ok in Hr. destruct Hr as [-> Hb].
        split; [apply cand_ok_range; auto|].
        intros Hh. exact (candidate_sound re true GreaterThan v _ _ Wv Ww eq_refl Hh).
      + (* >= *) invb H as rr Hr. injection H as <-. apply range_with_start_ok in Hr. destruct Hr as [-> Hb].
        split; [apply cand_ok_range; auto|].
        intros Hh. exact (candidate_sound re true GreaterThanOrEqual v _ _ Wv Ww eq_refl Hh).
      + (* one_of *) destruct w as [| | | | | | |l]; try discriminate. injection H as <-.
        split; [unfold f_cand_ok; cbn; exact Ww|].
        intros Hh. exact (candidate_sound re true OneOf v _ _ Wv Ww eq_refl Hh).
    - subst x. destruct op; try discriminate; injection H as <-; (split; [reflexivity|]); cbn [opk_unary].
      + apply holds_is_null.
      + apply holds_is_not_null.
  Qed.

  Lemma disallowed_sound f ds v d : wf v = true -> disallowed_of args f = Ok ds -> In d ds ->
    static_passes f v = true -> wf d = true /\ eq_t v d = false.
  Proof.
    intros Wv H Hd Hp. destruct f as [op arg]. unfold disallowed_of in H. unfold static_passes in Hp.
    cbn [fst snd] in *. destruct arg as [[r|y t]|]; try (injection H as <-; contradiction).
    invb H as x Hx. unfold var_value in Hx. apply expect_some_ok in Hx. rewrite Hx in Hp.
    pose proof (args_wf_lookup args y x Hargs Hx) as Wx.
    destruct op; try (injection H as <-; contradiction); cbn [opk_unary] in Hp.
    - injection H as <-. destruct Hd as [<-|[]]. split; [assumption|].
      rewrite (holds_not_equals re v x Wv Wx) in Hp. rewrite (eq_t_eqT v x Wv Wx).
      now destruct (eqT v x).
    - destruct x as [| | | | | | |l]; try discriminate. injection H as <-. cbn [wf] in Wx.
      rewrite (holds_not_one_of_list re v l Wv Wx) in Hp.
      assert (Wd : wf d = true) by (rewrite forallb_forall in Wx; auto).
      split; [assumption|]. rewrite (eq_t_eqT v d Wv Wd).
      destruct (eqT v d) eqn:E; [|reflexivity]. exfalso.
      assert (existsb (eqT v) l = true) by (apply existsb_exists; eauto). rewrite H in Hp. discriminate.
  Qed.

  (* candidate_from_statically_evaluated_filters is an over-approximation *)
  Theorem static_candidate_sound fs nullable c v :
    wf v = true -> (nullable = false -> fv_is_null v = false) ->
    static_candidate args fs nullable = Ok (Some c) ->
    f_cand_ok c = true /\ ((forall f, In f fs -> static_passes f v = true) -> f_mem c v = true).
  Proof.
    intros Wv Hnull H. unfold static_candidate in H. invb H as x Hx.
    set (cands := flat_map (fun fp : sfilter * option (cand fv) => match snd fp with Some k => [k] | None => [] end) x) in *.
    set (post := flat_map (fun fp : sfilter * option (cand fv) => match snd fp with Some _ => [] | None => [fst fp] end) x) in *.
    assert (Hparts : forall fp, In fp x -> In (fst fp) fs /\ static_part args (fst fp) = Ok (snd fp)).
    { intros fp Hfp. destruct (mapM_In _ _ _ _ Hx Hfp) as (f & Hf & E). invb E as pp Hpp. injection E as <-. auto. }
    assert (Hc : Forall (fun k => f_cand_ok k = true /\
                                  ((forall f, In f fs -> static_passes f v = true) -> f_mem k v = true)) cands).
    { apply Forall_forall. intros k Hk. unfold cands in Hk. apply in_flat_map in Hk.
      destruct Hk as (fp & Hfp & Hk). destruct (Hparts fp Hfp) as [Hin Hsp].
      destruct (snd fp) as [k'|] eqn:E; [|contradiction]. destruct Hk as [<-|[]].
      destruct (static_part_sound (fst fp) k' v Wv Hsp) as [Ok1 Snd]. split; [assumption|]. auto. }
    assert (Hpost : forall f, In f post -> In f fs).
    { intros f Hf. unfold post in Hf. apply in_flat_map in Hf. destruct Hf as (fp & Hfp & Hf).
      destruct (snd fp); [contradiction|]. destruct Hf as [<-|[]]. now apply Hparts. }
    set (initial := if nullable then All else CRange range_full_non_null) in *.
    assert (Hi1 : f_cand_ok initial = true) by (unfold initial; destruct nullable; reflexivity).
    assert (Hi2 : f_mem initial v = true).
    { unfold initial. destruct nullable; [reflexivity|]. unfold f_mem, Cand.mem, Cand.contains.
      now rewrite Hnull. }
    destruct cands as [|k0 cands'] eqn:Ec; [discriminate|]. rewrite <- Ec in *. clear Ec k0 cands'.
    invb H as x0 Hx0. invb H as x1 Hx1.
    assert (Okc0 : f_cand_ok x0 = true).
    { eapply (foldM_intersect_ok cands); [|exact Hi1|exact Hx0]. eapply Forall_impl; [|exact Hc]. now intros a [? _]. }
    pose proof (f_normalize_det _ _ Okc0 Hx1) as Okc1.
    destruct post as [|p0 post'] eqn:Ep.
    - injection H as <-. split; [assumption|]. intros Hall.
      rewrite (f_mem_normalize x0 x1 v Okc0 Wv Hx1).
      eapply (foldM_intersect_sound v cands Wv); [|exact Hi1|exact Hi2|exact Hx0].
      eapply Forall_impl; [|exact Hc]. intros a [? K]. auto.
    - rewrite <- Ep in *. clear Ep p0 post'. invb H as x2 Hx2. invb H as x3 Hx3. injection H as <-.
      split; [eapply foldM_exclude_ok; eauto|]. intros Hall.
      eapply (foldM_exclude_sound v x2 Wv); [|exact Okc1| |exact Hx3].
      + apply Forall_forall. intros d Hd. destruct (flat_mapM_In _ _ _ _ Hx2 Hd) as (f & ds & Hf & Hds & Hdd).
        eapply disallowed_sound; eauto.
      + rewrite (f_mem_normalize x0 x1 v Okc0 Wv Hx1).
        eapply (foldM_intersect_sound v cands Wv); [|exact Hi1|exact Hi2|exact Hx0].
        eapply Forall_impl; [|exact Hc]. intros a [? K]. auto.
  Qed.
End Static.

(* ====================================================================================== *)
(* Part 4: C04 — hints at a vertex: static, dynamic, mandatory edges, binding               *)
(* ====================================================================================== *)
Lemma debug_assert_passthrough (c0 r : option (cand fv)) s :
  match c0 with
  | Some (CRange (mkRange Unb Unb true)) => Panic s
  | _ => Ok c0
  end = Ok r -> c0 = r.
Proof.
  destruct c0 as [[|x|l|[[?|?|] [?|?|] []]|]|]; cbn; intros H; try discriminate; now injection H.
Qed.

Lemma filter_In_fst {A} (p : A -> bool) l x r : filter p l = x :: r -> In x l /\ p x = true.
Proof. intros H. assert (In x (filter p l)) by (rewrite H; now left). now apply filter_In in H0. Qed.

Section Vertex.
  Variable re : string -> string -> option bool.
  Variable q : ir_query.
  Variable args : list (string * fv).
  Hypothesis Hargs : args_wf args.

  (* filter_passes (Sem.v) with ANY operand value implies the static reading of the filter *)
  Lemma filter_passes_static op arg v (av : argument -> tagged) :
    (forall x t, av (AVar x t) = TSome (match lookup_str x args with Some w => w | None => Null end)) ->
    filter_passes re op true v (option_map av arg) = true -> static_passes re args (op, arg) v = true.
  Proof.
    intros Hav. unfold filter_passes, static_passes. cbn [negb fst snd].
    destruct (opk_unary op); [auto|].
    destruct arg as [[r|x t]|]; cbn [option_map]; try reflexivity.
    rewrite Hav. destruct (lookup_str x args); auto.
  Qed.

  Definition nullability_respected (vtx : ir_vertex) (p : string) (v : fv) : Prop :=
    forall f, In f (v_filters vtx) -> vf_field f = p -> ty_nullable (vf_fty f) = false -> fv_is_null v = false.

  Definition static_filters_pass (vtx : ir_vertex) (p : string) (v : fv) : Prop :=
    forall f, In f (v_filters vtx) -> vf_field f = p -> is_static_filter f = true ->
      static_passes re args (vf_op f, vf_arg f) v = true.

  Lemma filters_on_In vtx p f : In f (filters_on vtx p) <-> In f (v_filters vtx) /\ vf_field f = p.
  Proof. unfold filters_on. rewrite filter_In. now rewrite String.eqb_eq. Qed.

  (* statically_required_property reports a candidate only where filters bind ... *)
  Lemma static_hint_binding vi p c : statically_required q args vi p = Ok (Some c) -> non_binding vi = false.
  Proof. unfold statically_required. destruct (non_binding vi); [discriminate|reflexivity]. Qed.

  (* ... and the candidate contains every value passing all the variable-operand filters on p *)
  Theorem static_hint_sound vi p c vtx v :
    wf v = true -> statically_required q args vi p = Ok (Some c) -> current_vertex q vi = Ok vtx ->
    nullability_respected vtx p v -> static_filters_pass vtx p v ->
    f_cand_ok c = true /\ f_mem c v = true.
  Proof.
    intros Wv H Hv Hn Hp. unfold statically_required in H. destruct (non_binding vi); [discriminate|].
    rewrite Hv in H. cbn [bind] in H.
    destruct (filter is_static_filter (filters_on vtx p)) as [|f0 rest] eqn:F; [discriminate|].
    invb H as c0 Hc0. apply debug_assert_passthrough in H. subst c0.
    destruct (filter_In_fst _ _ _ _ F) as [Hf0 _]. apply filters_on_In in Hf0. destruct Hf0 as [Hf0a Hf0b].
    destruct (static_candidate_sound re args Hargs _ _ c v Wv (Hn f0 Hf0a Hf0b) Hc0) as [Okc Hm].
    split; [assumption|]. apply Hm. intros f Hf. apply in_map_iff in Hf. destruct Hf as (f' & <- & Hf').
    rewrite <- F in Hf'. apply filter_In in Hf'. destruct Hf' as [Hf1 Hf2]. apply filters_on_In in Hf1.
    destruct Hf1. now apply Hp.
  Qed.

  (* ---- dynamic ---- *)
  Lemma cand_from_op_sound nr op init t k v :
    wf v = true -> (forall w, t = TSome w -> wf w = true) -> f_cand_ok init = true ->
    op <> GreaterThanOrEqual ->
    cand_from_op nr op init t = Ok k -> f_mem init v = true ->
    filter_passes re op true v (Some t) = true ->
    f_cand_ok k = true /\ f_mem k v = true.
  Proof.
    intros Wv Wt Hi Hge H Hm Hp.
    destruct t as [|w].
    { destruct op; cbn in H; try discriminate; injection H as <-; auto. }
    specialize (Wt w eq_refl). unfold filter_passes in Hp. cbn [negb] in Hp.
    assert (R : forall b n, f_range_with_end b n = Ok (mkRange Unb b n) \/ exists s, f_range_with_end b n = Panic s).
    { intros b n. unfold f_range_with_end, range_with_end, assert_bound_not_null.
      destruct b as [x|x|]; cbn; try (destruct (fv_is_null x); cbn); eauto. }
    assert (INT : forall op' c', op_cand nr op' w = Some c' -> holds re op' v w = true ->
              f_intersect init c' = Ok k -> f_cand_ok k = true /\ f_mem k v = true).
    { intros op' c' Hc Hh Hint.
      pose proof (op_cand_ok re nr op' v w c' Wv Wt Hc Hh) as Okc.
      split; [exact (f_intersect_det init c' k Hi Okc Hint)|].
      rewrite (f_mem_intersect init c' k v Hi Okc Wv Hint), Hm.
      exact (candidate_sound re nr op' v w c' Wv Wt Hc Hh). }
    destruct op; cbn [opk_unary] in Hp; cbn [cand_from_op] in H; try discriminate; try congruence.
    - (* = *) eapply (INT Equals); eauto. reflexivity.
    - (* != *) split; [exact (f_exclude_det init w k Hi H)|].
      eapply f_exclude_sup; eauto. rewrite (holds_not_equals re v w Wv Wt) in Hp.
      rewrite (eq_t_eqT v w Wv Wt). now destruct (eqT v w).
    - (* < *) destruct (holds_cmp_true re LessThan OpLt v w eq_refl Wv Wt Hp) as (_ & Nw & _).
      rewrite Nw, andb_false_r in H. invb H as r Hr. apply range_with_end_ok in Hr. destruct Hr as [-> _].
      eapply (INT LessThan); eauto. reflexivity.
    - (* <= *) destruct (holds_cmp_true re LessThanOrEqual OpLe v w eq_refl Wv Wt Hp) as (_ & Nw & _).
      rewrite Nw, andb_false_r in H. invb H as r Hr. apply range_with_end_ok in Hr. destruct Hr as [-> _].
      eapply (INT LessThanOrEqual); eauto. reflexivity.
    - (* > *) destruct (holds_cmp_true re GreaterThan OpGt v w eq_refl Wv Wt Hp) as (_ & Nw & _).
      rewrite Nw, andb_false_r in H. invb H as r Hr. apply range_with_start_ok in Hr. destruct Hr as [-> _].
      eapply (INT GreaterThan); eauto. reflexivity.
    - (* one_of *) destruct (holds_one_of_shape re v w Hp) as [l ->]. cbn [fv_is_null] in H. rewrite andb_false_r in H.
      eapply (INT OneOf); eauto. reflexivity.
  Qed.

  Lemma choose_filter_In first relevant : In first relevant -> In (choose_filter first relevant) relevant.
  Proof.
    intros Hf. unfold choose_filter, first_with.
    destruct (find _ relevant) eqn:F1; [now apply find_some in F1|].
    destruct (find (fun f => opk_eqb (vf_op f) OneOf) relevant) eqn:F2; [now apply find_some in F2|].
    destruct (find (fun f => is_cmp_op (vf_op f)) relevant) eqn:F3; [now apply find_some in F3|assumption].
  Qed.

  (* the DynamicallyResolvedValue describes one tag-operand filter of the vertex on p, and its initial
     candidate is a sound static candidate *)
  Theorem dynamic_hint_structure vi p dv vtx :
    dynamically_required q args vi p = Ok (Some dv) -> current_vertex q vi = Ok vtx ->
    non_binding vi = false /\ dv_start dv = vi_start vi /\
    (exists f, In f (v_filters vtx) /\ vf_field f = p /\ vf_op f = dv_op dv /\
               vf_arg f = Some (ATag (dv_field dv)) /\ is_dynamic_filter (vi_front vi) f = true) /\
    (forall v, wf v = true -> nullability_respected vtx p v -> static_filters_pass vtx p v ->
               f_cand_ok (dv_init dv) = true /\ f_mem (dv_init dv) v = true).
  Proof.
    intros H Hv. unfold dynamically_required in H. destruct (non_binding vi) eqn:NB; [discriminate|].
    rewrite Hv in H. cbn [bind] in H.
    destruct (filter (is_dynamic_filter (vi_front vi)) (filters_on vtx p)) as [|first rest] eqn:F; [discriminate|].
    invb H as st Hst.
    set (f := choose_filter first (first :: rest)) in *.
    assert (Hf : In f (first :: rest)) by (apply choose_filter_In; now left).
    rewrite <- F in Hf. apply filter_In in Hf. destruct Hf as [Hf1 Hf2]. apply filters_on_In in Hf1.
    destruct Hf1 as [Hf1a Hf1b].
    destruct (vf_arg f) as [[field|x t]|] eqn:A; try discriminate.
    invb H as sc Hsc. injection H as <-. cbn [dv_start dv_field dv_op dv_init].
    split; [reflexivity|]. split; [reflexivity|]. split; [exists f; auto|].
    intros v Wv Hn Hp. destruct st as [k|].
    - eapply static_hint_sound; eauto.
    - destruct (filter_In_fst _ _ _ _ F) as [Hfi _]. apply filters_on_In in Hfi. destruct Hfi as [Hfa Hfb].
      destruct (ty_nullable (vf_fty first)) eqn:Nu; [split; reflexivity|].
      split; [reflexivity|]. unfold f_mem, Cand.mem, Cand.contains. now rewrite (Hn first Hfa Hfb Nu).
  Qed.

  (* dynamic_hint_sound: outside `>=` (F10) the resolved candidate contains every value that passes the
     variable filters on p and the chosen tag filter, whatever the tag's value t is *)
  Theorem dynamic_hint_sound vi p dv vtx nr t k v :
    dynamically_required q args vi p = Ok (Some dv) -> current_vertex q vi = Ok vtx ->
    dv_op dv <> GreaterThanOrEqual ->
    wf v = true -> (forall w, t = TSome w -> wf w = true) ->
    nullability_respected vtx p v -> static_filters_pass vtx p v ->
    filter_passes re (dv_op dv) true v (Some t) = true ->
    cand_from_op nr (dv_op dv) (dv_init dv) t = Ok k ->
    f_cand_ok k = true /\ f_mem k v = true.
  Proof.
    intros H Hv Hge Wv Wt Hn Hp Hpass Hk.
    destruct (dynamic_hint_structure vi p dv vtx H Hv) as (_ & _ & _ & Hinit).
    destruct (Hinit v Wv Hn Hp) as [Oki Hmi].
    eapply cand_from_op_sound; eauto.
  Qed.

  (* no panic when the tag value has the shape the operator expects (the complement of K-null-tag-hint) *)
  Theorem cand_from_op_total nr op init w :
    f_cand_ok init = true -> wf w = true -> dyn_supported_op op = true ->
    (is_cmp_op op = true -> fv_is_null w = false) -> (op = OneOf -> exists l, w = List l) ->
    exists k, cand_from_op nr op init (TSome w) = Ok k /\ f_cand_ok k = true.
  Proof.
    intros Hi Ww Hs Hc Ho.
    assert (RE : forall b n, bound_not_null fv_is_null b = true -> f_range_with_end b n = Ok (mkRange Unb b n)).
    { intros b n Hb. unfold f_range_with_end, range_with_end, assert_bound_not_null.
      destruct b as [x|x|]; cbn in *; try (apply negb_true_iff in Hb; rewrite Hb); reflexivity. }
    assert (RS : forall b n, bound_not_null fv_is_null b = true -> f_range_with_start b n = Ok (mkRange b Unb n)).
    { intros b n Hb. unfold f_range_with_start, range_with_start, assert_bound_not_null.
      destruct b as [x|x|]; cbn in *; try (apply negb_true_iff in Hb; rewrite Hb); reflexivity. }
    assert (I : forall c, f_cand_ok c = true -> exists k, f_intersect init c = Ok k /\ f_cand_ok k = true)
      by (intros c Hc'; apply f_intersect_total; assumption).
    destruct op; try discriminate; cbn [cand_from_op].
    - apply I. unfold f_cand_ok. cbn. exact Ww.
    - destruct (f_exclude_total init w) as (k & E & Hk). eauto.
    - specialize (Hc eq_refl). rewrite Hc, andb_false_r. rewrite RE by (cbn; now rewrite Hc). cbn [bind].
      apply I. apply cand_ok_range; cbn; auto. now rewrite Hc.
    - specialize (Hc eq_refl). rewrite Hc, andb_false_r. rewrite RE by (cbn; now rewrite Hc). cbn [bind].
      apply I. apply cand_ok_range; cbn; auto. now rewrite Hc.
    - specialize (Hc eq_refl). rewrite Hc, andb_false_r. rewrite RS by (cbn; now rewrite Hc). cbn [bind].
      apply I. apply cand_ok_range; cbn; auto. now rewrite Hc.
    - specialize (Hc eq_refl). rewrite Hc, andb_false_r. rewrite RE by (cbn; now rewrite Hc). cbn [bind].
      apply I. apply cand_ok_range; cbn; auto. now rewrite Hc.
    - destruct (Ho eq_refl) as [l ->]. cbn [fv_is_null]. rewrite andb_false_r. apply I. unfold f_cand_ok. cbn. exact Ww.
  Qed.

  (* F17 repaired: compute_candidate_from_operation answers a null tag value with Impossible for the
     operators that bound a range with it or read it as a list ... *)
  Theorem cand_from_op_null_impossible op init :
    is_cmp_op op = true \/ op = OneOf -> cand_from_op true op init (TSome Null) = Ok Impossible.
  Proof. intros [H| ->]; [destruct op; try discriminate H|]; reflexivity. Qed.

  (* ... which is a sound candidate: against a null operand these filters hold for no value *)
  Theorem null_tag_filter_fails op v :
    is_cmp_op op = true \/ op = OneOf -> filter_passes re op true v (Some (TSome Null)) = false.
  Proof.
    intros H. unfold filter_passes. cbn [negb].
    destruct H as [H| ->]; [destruct op; try discriminate H|]; cbn [opk_unary]; unfold holds; cbn.
    all: destruct v; reflexivity.
  Qed.

  (* so compute_candidate_from_operation (nullable_ranges = true) cannot panic on any well-typed tag
     value (a one_of operand is a list or null) *)
  Theorem cand_from_op_total_true op init w :
    f_cand_ok init = true -> wf w = true -> dyn_supported_op op = true ->
    (op = OneOf -> w = Null \/ exists l, w = List l) ->
    exists k, cand_from_op true op init (TSome w) = Ok k /\ f_cand_ok k = true.
  Proof.
    intros Hi Ww Hs Ho. destruct (fv_is_null w) eqn:Nw.
    - destruct w; try discriminate Nw.
      destruct (is_cmp_op op) eqn:C.
      + exists Impossible. split; [apply cand_from_op_null_impossible; now left|reflexivity].
      + destruct op; try discriminate; cbn [cand_from_op andb fv_is_null].
        * apply f_intersect_total; [assumption|reflexivity].
        * destruct (f_exclude_total init Null) as (k & E & Hk). eauto.
        * exists Impossible. split; reflexivity.
    - apply cand_from_op_total; auto.
      intros E. destruct (Ho E) as [->|H]; [discriminate|assumption].
  Qed.

  (* ---- binding / non-binding ---- *)
  Theorem non_binding_no_hints vi p name : non_binding vi = true ->
    statically_required q args vi p = Ok None /\ dynamically_required q args vi p = Ok None /\
    mandatory_edges_with_name q args vi name = Ok [].
  Proof.
    intros H. unfold statically_required, dynamically_required, mandatory_edges_with_name. now rewrite H.
  Qed.

  (* the destination of the edge being resolved is non-binding exactly for @optional edges and
     @recurse to depth >= 2; the destination of a fold being resolved always binds *)
  Theorem destination_binding_edge origin e :
    step_of_eid (q_comp q) (e_eid e) = Some (SEdge e) ->
    exists vi, resolve_edge_info_destination q origin (e_to e) (e_eid e) = Ok vi /\
               vi_vid vi = e_to e /\ vi_start vi = origin /\ vi_front vi = FExcl (e_to e) /\
               non_binding vi = e_optional e || match e_rec e with Some r => 2 <=? r_depth r | None => false end.
  Proof.
    intros H. unfold resolve_edge_info_destination, resolve_edge_info_edge. rewrite H, N.eqb_refl. cbn.
    eexists. split; [reflexivity|]. cbn. unfold non_binding, locally_non_binding. cbn. auto.
  Qed.

  Theorem destination_binding_fold origin h sub :
    step_of_eid (q_comp q) (fo_eid h) = Some (SFold h sub) ->
    exists vi, resolve_edge_info_destination q origin (fo_to h) (fo_eid h) = Ok vi /\
               vi_vid vi = fo_to h /\ vi_start vi = origin /\ vi_front vi = FExcl (fo_to h) /\ non_binding vi = false.
  Proof.
    intros H. unfold resolve_edge_info_destination, resolve_edge_info_edge. rewrite H, N.eqb_refl. cbn.
    eexists. split; [reflexivity|]. cbn. auto.
  Qed.

  (* what mandatory_edges_with_name lists: non-optional non-recursive edges of the vertex, and folds
     required to be non-empty; the hints keep binding across them (and only across them) *)
  Theorem mandatory_edge_structure vi name ms m :
    mandatory_edges_with_name q args vi name = Ok ms -> In m ms ->
    non_binding vi = false /\ non_binding (ei_dest m) = false /\
    vi_start (ei_dest m) = vi_start vi /\ vi_front (ei_dest m) = vi_front vi /\
    exists comp, current_component q vi = Ok comp /\
      ((exists e, In (SEdge e) (c_steps comp) /\ e_eid e = ei_eid m /\ e_from e = vi_vid vi /\ e_name e = name /\
                  e_params e = ei_params m /\ vi_vid (ei_dest m) = e_to e /\
                  e_optional e = false /\ e_rec e = None) \/
       (exists h sub, In (SFold h sub) (c_steps comp) /\ fo_eid h = ei_eid m /\ fo_from h = vi_vid vi /\
                  fo_name h = name /\ fo_params h = ei_params m /\ vi_vid (ei_dest m) = fo_to h /\
                  fold_requires_nonempty args h = Ok true)).
  Proof.
    intros H Hm. unfold mandatory_edges_with_name in H. destruct (non_binding vi) eqn:NB; [injection H as <-; contradiction|].
    invb H as es Hes. injection H as <-. apply filter_In in Hm. destruct Hm as [Hm Hmand].
    unfold edges_with_name in Hes. invb Hes as comp Hcomp. invb Hes as v Hv. invb Hes as folded Hfolded.
    injection Hes as <-.
    assert (Ev : v_vid v = vi_vid vi).
    { unfold current_vertex in Hv. rewrite Hcomp in Hv. cbn [bind] in Hv. apply expect_some_ok in Hv.
      now apply find_vertex_some in Hv. }
    unfold non_binding in NB. apply orb_false_iff in NB. destruct NB as [NB1 NB2].
    split; [reflexivity|].
    apply in_app_or in Hm. destruct Hm as [Hm|Hm].
    - apply in_flat_map in Hm. destruct Hm as (s & Hs & Hm). destruct s as [e|h sub]; [|contradiction].
      destruct (N.eqb (e_from e) (v_vid v) && String.eqb (e_name e) name) eqn:C; [|contradiction].
      destruct Hm as [<-|[]]. apply andb_prop in C. destruct C as [C1 C2].
      apply N.eqb_eq in C1. apply String.eqb_eq in C2.
      unfold ei_mandatory in Hmand. cbn in Hmand. apply andb_prop in Hmand. destruct Hmand as [Hopt Hrec].
      apply negb_true_iff in Hopt. destruct (e_rec e) eqn:R; [discriminate|].
      cbn. unfold non_binding, locally_non_binding. cbn. rewrite R, Hopt, NB1.
      destruct (vi_is_resolve vi); (split; [reflexivity|]); (split; [reflexivity|]); (split; [reflexivity|]);
        exists comp; (split; [exact Hcomp|]); left; exists e; rewrite <- Ev; auto 10.
    - destruct (flat_mapM_In _ _ _ _ Hfolded Hm) as (s & ys & Hs & Hys & Hmy).
      destruct s as [e|h sub]; [injection Hys as <-; contradiction|].
      destruct (N.eqb (fo_from h) (v_vid v) && String.eqb (fo_name h) name) eqn:C; [|injection Hys as <-; contradiction].
      invb Hys as e0 He0. injection Hys as <-. destruct Hmy as [<-|[]].
      apply andb_prop in C. destruct C as [C1 C2]. apply N.eqb_eq in C1. apply String.eqb_eq in C2.
      unfold make_folded in He0. invb He0 as req Hreq. injection He0 as <-.
      unfold ei_mandatory in Hmand. cbn in Hmand. destruct req; [|discriminate].
      cbn. unfold non_binding. cbn. rewrite NB1.
      destruct (vi_is_resolve vi); (split; [reflexivity|]); (split; [reflexivity|]); (split; [reflexivity|]);
        exists comp; (split; [exact Hcomp|]); right; exists h, sub; rewrite <- Ev; auto 10.
  Qed.
End Vertex.

(* ====================================================================================== *)
(* Part 5: C04 — in the declarative semantics (Sem.v)                                        *)
(* ====================================================================================== *)
Lemma eq_t_u64_zero_ge1 x : (1 <=? u64_or_default x)%Z = true -> eq_t x (U64 0) = false /\ eq_t (U64 0) x = false.
Proof.
  unfold u64_or_default, as_u64. destruct x; cbn; try discriminate.
  - destruct (0 <=? z)%Z eqn:E; [|discriminate]. intros H. apply Z.leb_le in H.
    unfold eq_t. cbn. unfold compare_i64_to_u64. cbn.
    destruct (Z.compare_spec z 0) as [C|C|C]; try (split; reflexivity). exfalso; clear - C H; lia.
  - intros H. apply Z.leb_le in H. split; [apply Z.eqb_neq; lia|destruct z; [lia|reflexivity|reflexivity]].
Qed.

Lemma requires_one_excludes_zero k :
  f_cand_ok k = true -> count_cand_requires_one k = true -> f_mem k (U64 0) = false.
Proof.
  intros Hok H. destruct k as [|x|l|r|]; cbn in H; try discriminate.
  - unfold f_mem, Cand.mem. now apply eq_t_u64_zero_ge1.
  - unfold f_mem, Cand.mem, vec_contains. clear Hok. induction l as [|x l IH]; cbn in *; [reflexivity|].
    apply andb_prop in H. destruct H as [H1 H2]. rewrite (proj1 (eq_t_u64_zero_ge1 x H1)). cbn. now apply IH.
  - unfold f_mem, Cand.mem, Cand.contains. cbn [fv_is_null].
    unfold f_cand_ok, f_wf_cand, wf_cand, wf_range, cand_vals_wf in Hok.
    destruct r as [s e n]. cbn in *. destruct s as [inc|inc|]; [| |discriminate].
    + assert (t_le cmp_t inc (U64 0) = false) as K; [|now rewrite K].
      unfold u64_or_default, as_u64 in H. unfold t_le, cmp_t. destruct inc; cbn in *; try discriminate.
      * destruct (0 <=? z)%Z eqn:E; [|discriminate]. apply Z.leb_le in H. unfold compare_i64_to_u64. cbn.
        destruct (Z.compare_spec z 0) as [C|C|C]; [exfalso; clear - C H; lia|exfalso; clear - C H; lia|reflexivity].
      * apply Z.leb_le in H.
        destruct (Z.compare_spec z 0) as [C|C|C]; [exfalso; clear - C H; lia|exfalso; clear - C H; lia|reflexivity].
    + assert (t_lt cmp_t inc (U64 0) = false) as K; [|now rewrite K].
      unfold as_u64 in H. unfold t_lt, cmp_t. destruct inc; cbn in *; try discriminate.
      * destruct (0 <=? z)%Z eqn:E; [|discriminate]. apply Z.leb_le in E. unfold compare_i64_to_u64. cbn.
        destruct (Z.compare_spec z 0) as [C|C|C]; try reflexivity. exfalso; clear - C E; lia.
      * apply andb_prop in Hok. destruct Hok as [_ Hok]. apply andb_prop in Hok. destruct Hok as [Hw _].
        apply andb_prop in Hw. destruct Hw as [Hw _]. apply Z.leb_le in Hw.
        destruct (Z.compare_spec z 0) as [C|C|C]; try reflexivity. exfalso; clear - C Hw; lia.
Qed.

Lemma flat_map_dead {A B} (k : A -> bool) (F : A -> list B) l :
  (forall x, k x = false -> F x = []) -> flat_map F (filter k l) = flat_map F l.
Proof.
  intros H. induction l as [|x l IH]; cbn; [reflexivity|].
  destruct (k x) eqn:E; cbn; [now rewrite IH|]. now rewrite (H x E), IH.
Qed.

Lemma filter_all_true {A} (k : A -> bool) l : (forall x, k x = true) -> filter k l = l.
Proof. intros H. induction l as [|x l IH]; cbn; [reflexivity|]. now rewrite H, IH. Qed.

Section SemPrune.
  Variable re : string -> string -> option bool.
  Variable g : graph.
  Variable args : list (string * fv).

  (* ---- mandatory edges: a vertex without the edge contributes no row ---- *)
  Theorem mandatory_edge_no_row vs ss imported e a v fromv :
    e_optional e = false -> e_rec e = None ->
    find_vertex vs (e_from e) = Some fromv -> lookup_N (e_from e) (a_v a) = Some (Some v) ->
    g_nbrs g (v_type fromv) (e_name e) (e_params e) v = [] ->
    step_edge re g args vs ss imported e a = [].
  Proof.
    intros Ho Hr Hf Hl Hn. unfold step_edge. rewrite Hf, Hl, Hr, Hn, Ho.
    destruct (find_vertex vs (e_to e)); reflexivity.
  Qed.

  Theorem mandatory_fold_no_row vs ss imported h sub_sem a v fromv :
    args_wf args -> fold_requires_nonempty args h = Ok true ->
    find_vertex vs (fo_from h) = Some fromv -> lookup_N (fo_from h) (a_v a) = Some (Some v) ->
    (forall imp, flat_map (fun n => sub_sem imp (Some n)) (g_nbrs g (v_type fromv) (fo_name h) (fo_params h) v) = []) ->
    step_fold re g args vs ss imported h sub_sem a = [].
  Proof.
    intros Hargs Hreq Hf Hl Hn. unfold step_fold. rewrite Hf, Hl, Hn. cbn [List.length Z.of_nat].
    match goal with |- (if ?b then _ else _) = _ => destruct b eqn:B end; [exfalso|reflexivity].
    unfold fold_requires_nonempty in Hreq. invb Hreq as c Hc. injection Hreq as Hreq.
    destruct c as [k|]; [|discriminate].
    destruct (static_candidate_sound re args Hargs _ false k (U64 0) eq_refl (fun _ => eq_refl) Hc) as [Okk Hm].
    rewrite (requires_one_excludes_zero k Okk Hreq) in Hm. enough (false = true) by discriminate. apply Hm.
    intros f Hf'. unfold post_sfilters in Hf'. apply in_map_iff in Hf'. destruct Hf' as (pf & <- & Hpf).
    rewrite forallb_forall in B. specialize (B pf Hpf).
    eapply (filter_passes_static re args); [|exact B]. intros x t. reflexivity.
  Qed.

  (* ---- pruning neighbours ---- *)
  (* the graph seen through an adapter that drops the neighbours rejected by `k` *)
  Definition gP (k : vertex -> bool) : graph :=
    mkGraph (g_starts g) (g_prop g) (fun ty e ps v => filter k (g_nbrs g ty e ps v)) (g_coerce g).

  Lemma rec_from_keep_all k fuel : (forall n, k n = true) ->
    forall first oty rf ety co edge ps v,
      rec_from (gP k) fuel first oty rf ety co edge ps v = rec_from g fuel first oty rf ety co edge ps v.
  Proof.
    intros Hk. induction fuel as [|fuel IH]; intros; cbn; [reflexivity|].
    f_equal. rewrite (filter_all_true k _ Hk).
    destruct (first || match co with Some to => g_coerce g ety to v | None => true end); [|reflexivity].
    apply flat_map_ext. intros x. apply IH.
  Qed.

  Lemma step_edge_keep_all k vs ss imported e a : (forall n, k n = true) ->
    step_edge re (gP k) args vs ss imported e a = step_edge re g args vs ss imported e a.
  Proof.
    intros Hk. unfold step_edge.
    destruct (find_vertex vs (e_from e)) as [fromv|]; [|reflexivity].
    destruct (find_vertex vs (e_to e)) as [tov|]; [|reflexivity].
    destruct (lookup_N (e_from e) (a_v a)) as [[v|]|]; try reflexivity.
    destruct (e_rec e) as [r|].
    - now rewrite (rec_from_keep_all k _ Hk).
    - cbn [g_nbrs gP]. now rewrite (filter_all_true k _ Hk).
  Qed.

  Lemma map_some_match {A} (l : list A) : match l with [] => [] | x :: l' => map Some (x :: l') end = map Some l.
  Proof. destruct l; reflexivity. Qed.

  Lemma flat_map_map {A B C} (f : A -> B) (F : B -> list C) l : flat_map F (map f l) = flat_map (fun x => F (f x)) l.
  Proof. induction l as [|x l IH]; cbn; [reflexivity|]. now rewrite IH. Qed.

  Lemma flat_map_single {A} (l : list A) : flat_map (fun x => [x]) l = l.
  Proof. induction l as [|x l IH]; cbn; [reflexivity|]. now rewrite IH. Qed.

  (* dropping neighbours that would fail the destination's entry test is invisible on a mandatory
     (non-optional) edge that is not recursive or recurses to depth 1 *)
  Lemma step_edge_prune k vs ss imported e a tov :
    find_vertex vs (e_to e) = Some tov ->
    e_optional e = false -> (e_rec e = None \/ exists r, e_rec e = Some r /\ r_depth r <= 1) ->
    (forall n, k n = false -> enter re g args vs ss imported a tov (Some n) = false) ->
    step_edge re (gP k) args vs ss imported e a = step_edge re g args vs ss imported e a.
  Proof.
    intros Ht Ho Hr Hk. unfold step_edge. rewrite Ht.
    destruct (find_vertex vs (e_from e)) as [fromv|]; [|reflexivity].
    destruct (lookup_N (e_from e) (a_v a)) as [[v|]|]; try reflexivity.
    set (F := fun c : option vertex => if enter re g args vs ss imported a tov c then [set_av a (e_to e) c] else []).
    change (fun c : option vertex => if enter re (gP k) args vs ss imported a tov c then [set_av a (e_to e) c] else []) with F.
    assert (D : forall l, flat_map F (map Some (filter k l)) = flat_map F (map Some l)).
    { intros l. rewrite !flat_map_map. apply flat_map_dead. intros n Hn. unfold F. now rewrite (Hk n Hn). }
    destruct Hr as [Hr|(r & Hr & Hd)]; rewrite Hr.
    - rewrite Ho. cbn [g_nbrs gP]. cbv iota. rewrite !map_some_match. apply D.
    - assert (Hd' : r_depth r = 0 \/ r_depth r = 1) by lia. destruct Hd' as [Hd'|Hd']; rewrite Hd'.
      + reflexivity.
      + change (N.to_nat 1) with 1%nat. cbn [rec_from orb g_nbrs gP].
        rewrite !flat_map_single. cbn [map flat_map]. f_equal. apply D.
  Qed.

  Lemma step_fold_ext vs ss imported h (f f' : imports -> option vertex -> list asg) G a :
    (forall i r, f i r = f' i r) -> step_fold re G args vs ss imported h f a = step_fold re G args vs ss imported h f' a.
  Proof.
    intros E. unfold step_fold.
    destruct (find_vertex vs (fo_from h)); [|reflexivity].
    destruct (lookup_N (fo_from h) (a_v a)) as [[v|]|]; try reflexivity.
    assert (E' : forall j l, flat_map (fun n => f j (Some n)) l = flat_map (fun n => f' j (Some n)) l)
      by (intros j l; apply flat_map_ext; intros n; apply E).
    now rewrite E'.
  Qed.

  (* the imports a fold's component runs with (as computed by step_fold) *)
  Definition sub_imports (vs : list ir_vertex) (ss : list step) (imported : imports) (h : fold_hdr) (a : asg) : imports :=
    fold_left (fun m t => insert_ref t (import_value g vs ss imported a t) m) (fo_imported h) imported.

  (* dropping fold neighbours that yield no fold element is invisible *)
  Lemma step_fold_prune k vs ss imported h sub_sem a :
    (forall n, k n = false -> sub_sem (sub_imports vs ss imported h a) (Some n) = []) ->
    step_fold re (gP k) args vs ss imported h sub_sem a = step_fold re g args vs ss imported h sub_sem a.
  Proof.
    intros Hk. unfold step_fold.
    destruct (find_vertex vs (fo_from h)) as [fromv|]; [|reflexivity].
    destruct (lookup_N (fo_from h) (a_v a)) as [[v|]|]; try reflexivity.
    cbn [g_nbrs gP]. fold (sub_imports vs ss imported h a).
    now rewrite (flat_map_dead k (fun n => sub_sem (sub_imports vs ss imported h a) (Some n)) _ Hk).
  Qed.

  (* ---- the pruned semantics ---- *)
  Record pruner := mkPr {
    pr_start : vertex -> bool;
    pr_edge : list ir_vertex -> list step -> imports -> ir_edge -> asg -> vertex -> bool;
    pr_fold : list ir_vertex -> list step -> imports -> fold_hdr -> asg -> vertex -> bool
  }.

  Section Go.
    Variable vs : list ir_vertex.
    Variable ss : list step.
    Variable imported : imports.
    Variable edge_step : ir_edge -> asg -> list asg.
    Variable fold_step : fold_hdr -> ir_component -> asg -> list asg.
    Fixpoint go_steps (todo : list step) (rows : list asg) {struct todo} : list asg :=
      match todo with
      | [] => rows
      | SEdge e :: r => go_steps r (flat_map (edge_step e) rows)
      | SFold h sub :: r => go_steps r (flat_map (fold_step h sub) rows)
      end.
  End Go.

  Lemma go_steps_ext es es' fs fs' todo : forall rows,
    (forall e a, In (SEdge e) todo -> es e a = es' e a) ->
    (forall h sub a, In (SFold h sub) todo -> fs h sub a = fs' h sub a) ->
    go_steps es fs todo rows = go_steps es' fs' todo rows.
  Proof.
    induction todo as [|[e|h sub] r IH]; intros rows He Hf; cbn; [reflexivity| |].
    - rewrite (flat_map_ext _ _ (fun a => He e a (or_introl eq_refl))).
      apply IH; intros; [apply He|apply Hf]; now right.
    - rewrite (flat_map_ext _ _ (fun a => Hf h sub a (or_introl eq_refl))).
      apply IH; intros; [apply He|apply Hf]; now right.
  Qed.

  Lemma sem_comp_eq rootvid vs ss outs imported root :
    sem_comp re g args (mkComp rootvid vs ss outs) imported root =
    match find_vertex vs rootvid with
    | None => []
    | Some rv =>
        if enter re g args vs ss imported (Asg [] []) rv root
        then go_steps (step_edge re g args vs ss imported)
                      (fun h sub => step_fold re g args vs ss imported h (sem_comp re g args sub))
                      ss [Asg [(rootvid, root)] []]
        else []
    end.
  Proof. reflexivity. Qed.

  Fixpoint sem_comp_P (P : pruner) (c : ir_component) (imported : imports) (root : option vertex) {struct c} : list asg :=
    match c with
    | mkComp rootvid vs ss outs =>
        match find_vertex vs rootvid with
        | None => []
        | Some rv =>
            if enter re g args vs ss imported (Asg [] []) rv root then
              (fix go (todo : list step) (rows : list asg) {struct todo} : list asg :=
                 match todo with
                 | [] => rows
                 | SEdge e :: r =>
                     go r (flat_map (fun a => step_edge re (gP (pr_edge P vs ss imported e a)) args vs ss imported e a) rows)
                 | SFold h sub :: r =>
                     go r (flat_map (fun a => step_fold re (gP (pr_fold P vs ss imported h a)) args vs ss imported h
                                                        (sem_comp_P P sub) a) rows)
                 end) ss [Asg [(rootvid, root)] []]
            else []
        end
    end.

  Lemma sem_comp_P_eq P rootvid vs ss outs imported root :
    sem_comp_P P (mkComp rootvid vs ss outs) imported root =
    match find_vertex vs rootvid with
    | None => []
    | Some rv =>
        if enter re g args vs ss imported (Asg [] []) rv root
        then go_steps (fun e a => step_edge re (gP (pr_edge P vs ss imported e a)) args vs ss imported e a)
                      (fun h sub a => step_fold re (gP (pr_fold P vs ss imported h a)) args vs ss imported h
                                                (sem_comp_P P sub) a)
                      ss [Asg [(rootvid, root)] []]
        else []
    end.
  Proof. reflexivity. Qed.

  (* sem with the adapter pruned by P: starting vertices, neighbours of edges, neighbours of folds *)
  Definition sem_pruned (P : pruner) (q : ir_query) : list Sem.row :=
    let c := q_comp q in
    map (fun a => sort_row (project g c a))
        (flat_map (fun s => sem_comp_P P c [] (Some s))
                  (filter (pr_start P) (g_starts g (q_root_name q) (q_root_params q)))).

  (* admissibility of a pruner at the sites of one component: a neighbour may be dropped only
     - on an edge that is not @optional and is either not recursive or recurses to depth <= 1, when the
       neighbour fails the destination vertex' entry test (coercion + filters) for the row at hand;
     - on a fold edge, when the neighbour yields no fold element *)
  Definition admissible_comp (P : pruner) (c : ir_component) : Prop :=
    (forall imported e a n tov,
        In (SEdge e) (c_steps c) -> find_vertex (c_vertices c) (e_to e) = Some tov ->
        pr_edge P (c_vertices c) (c_steps c) imported e a n = false ->
        e_optional e = false /\ (e_rec e = None \/ exists r, e_rec e = Some r /\ r_depth r <= 1) /\
        enter re g args (c_vertices c) (c_steps c) imported a tov (Some n) = false) /\
    (forall imported h sub a n,
        In (SFold h sub) (c_steps c) ->
        pr_fold P (c_vertices c) (c_steps c) imported h a n = false ->
        sem_comp re g args sub (sub_imports (c_vertices c) (c_steps c) imported h a) (Some n) = []).

  Definition admissible (P : pruner) (q : ir_query) : Prop :=
    (forall s, pr_start P s = false -> sem_comp re g args (q_comp q) [] (Some s) = []) /\
    (forall c, subcomp c (q_comp q) -> admissible_comp P c).

  Lemma sem_comp_P_invisible P : forall c,
    (forall c', subcomp c' c -> admissible_comp P c') ->
    forall imported root, sem_comp_P P c imported root = sem_comp re g args c imported root.
  Proof.
    induction c as [rootvid vs ss outs IH] using comp_ind'. intros Hadm imported root.
    rewrite sem_comp_P_eq, sem_comp_eq.
    destruct (find_vertex vs rootvid) as [rv|]; [|reflexivity].
    destruct (enter re g args vs ss imported (Asg [] []) rv root); [|reflexivity].
    destruct (Hadm _ (sub_here _)) as [AE AF]. cbn [c_steps c_vertices] in AE, AF.
    apply go_steps_ext.
    - intros e a He.
      destruct (find_vertex vs (e_to e)) as [tov|] eqn:Ft.
      2:{ unfold step_edge. rewrite Ft. destruct (find_vertex vs (e_from e)); reflexivity. }
      destruct (e_optional e) eqn:Eo.
      { apply step_edge_keep_all. intros n. destruct (pr_edge P vs ss imported e a n) eqn:K; [reflexivity|].
        destruct (AE imported e a n tov He Ft K) as (C & _). congruence. }
      destruct (e_rec e) as [r|] eqn:Er.
      + destruct (N.leb (r_depth r) 1) eqn:Ed.
        * apply N.leb_le in Ed. apply (step_edge_prune _ vs ss imported e a tov Ft Eo).
          -- right. eauto.
          -- intros n K. now destruct (AE imported e a n tov He Ft K) as (_ & _ & C).
        * apply step_edge_keep_all. intros n. destruct (pr_edge P vs ss imported e a n) eqn:K; [reflexivity|].
          destruct (AE imported e a n tov He Ft K) as (_ & [C|(r' & C & D)] & _); [congruence|].
          rewrite Er in C. injection C as <-. apply N.leb_le in D. rewrite D in Ed. discriminate.
      + apply (step_edge_prune _ vs ss imported e a tov Ft Eo); [now left|].
        intros n K. now destruct (AE imported e a n tov He Ft K) as (_ & _ & C).
    - intros h sub a Hf.
      rewrite (step_fold_ext vs ss imported h (sem_comp_P P sub) (sem_comp re g args sub)).
      + apply step_fold_prune. intros n K. exact (AF imported h sub a n Hf K).
      + intros i r. rewrite Forall_forall in IH. apply (IH (SFold h sub) Hf).
        intros c' Hc'. apply Hadm. econstructor; eauto.
  Qed.

  (* pruning_invisible (partial): an adapter that prunes, at every resolution point, only as the
     admissibility conditions above allow returns the same rows, in the same order *)
  Theorem pruning_invisible_partial P q : admissible P q -> sem_pruned P q = sem re g args q.
  Proof.
    intros [As Ac]. unfold sem_pruned, sem. f_equal.
    rewrite (flat_map_ext _ _ (fun s => sem_comp_P_invisible P (q_comp q) Ac [] (Some s))).
    apply flat_map_dead. exact As.
  Qed.
End SemPrune.

(* ====================================================================================== *)
(* Part 6: C04 — the pruner built from the hints of destination() is admissible              *)
(* ====================================================================================== *)
Lemma fold_roots_ok_here root vs ss outs h sub :
  fold_roots_ok (mkComp root vs ss outs) = true -> In (SFold h sub) ss ->
  fo_to h = c_root sub /\ fold_roots_ok sub = true.
Proof.
  cbn. induction ss as [|[e|h' sub'] r IH]; cbn; [intros _ []| |].
  - intros H [E|Hin]; [discriminate|auto].
  - intros H [E|Hin].
    + injection E as -> ->. apply andb_prop in H. destruct H as [H _]. apply andb_prop in H. destruct H as [H1 H2].
      apply N.eqb_eq in H1. auto.
    + apply andb_prop in H. destruct H as [_ H]. auto.
Qed.

Lemma fold_roots_ok_sub c top : subcomp c top -> fold_roots_ok top = true -> fold_roots_ok c = true.
Proof.
  induction 1 as [|c root vs ss outs h sub Hin Hsub IH]; [auto|].
  intros H. apply IH. now destruct (fold_roots_ok_here _ _ _ _ _ _ H Hin).
Qed.

Section HintPruner.
  Variable re : string -> string -> option bool.
  Variable g : graph.
  Variable args : list (string * fv).
  Variable q : ir_query.

  Hypothesis Hargs : args_wf args.
  Hypothesis Hwfq : wf_hints_query q = true.
  (* the data source returns well-formed values ... *)
  Hypothesis Hgwf : forall ty f n, wf (g_prop g ty f n) = true.
  (* ... and respects the schema's nullability: a property the query filters at a type where it is
     non-nullable is not null on vertices that are of (pass the coercion to) that type *)
  Hypothesis Htyped : forall c vtx f n,
    subcomp c (q_comp q) -> In vtx (c_vertices c) -> In f (v_filters vtx) -> ty_nullable (vf_fty f) = false ->
    match v_from vtx with Some from => g_coerce g from (v_type vtx) n = true | None => True end ->
    fv_is_null (g_prop g (v_type vtx) (vf_field f) n) = false.

  Let top := q_comp q.

  (* null_included flag used when a dynamic hint is resolved (compute_candidate_from_operation: true,
     resolve_fold_specific_field: false) *)
  Definition dyn_nr (dv : dynv) : bool :=
    match dv_field dv with
    | FRContext _ => true
    | FRFold ff => match comp_at q (dv_start dv) with Ok comp => ff_root ff <? c_root comp | Panic _ => true end
    end.

  (* does the produced vertex n agree with every hint of `vi` (static candidates, and dynamic
     candidates resolved with the tag values `tagval`)?  `>=`-with-tag hints (F10) and ill-formed /
     panicking resolutions (F17) are not used. *)
  Definition hint_keeps (vi : vinfo) (tagval : ir_vertex -> fieldref -> tagged) (n : vertex) : bool :=
    match current_vertex q vi with
    | Panic _ => true
    | Ok vtx =>
        forallb (fun p =>
          let v := g_prop g (v_type vtx) p n in
          (match statically_required q args vi p with Ok (Some c) => f_mem c v | _ => true end) &&
          (match dynamically_required q args vi p with
           | Ok (Some dv) =>
               if opk_eqb (dv_op dv) GreaterThanOrEqual then true
               else match tagval vtx (dv_field dv) with
                    | TSome w => if wf w then
                                   match cand_from_op (dyn_nr dv) (dv_op dv) (dv_init dv) (TSome w) with
                                   | Ok k => f_mem k v
                                   | Panic _ => true
                                   end
                                 else true
                    | TNone => match cand_from_op (dyn_nr dv) (dv_op dv) (dv_init dv) TNone with
                               | Ok k => f_mem k v
                               | Panic _ => true
                               end
                    end
           | _ => true
           end)) (map vf_field (v_filters vtx))
    end.

  (* destination() of the ResolveEdgeInfo of an edge / a fold (see destination_binding_edge/_fold) *)
  Definition dest_of_edge (e : ir_edge) : vinfo :=
    mkVI false (e_from e) (e_to e) (FExcl (e_to e)) (e_optional e) (locally_non_binding e).
  Definition dest_of_fold (h : fold_hdr) : vinfo :=
    mkVI false (fo_from h) (fo_to h) (FExcl (fo_to h)) false false.

  (* the tag values of the row being built, as Sem.v defines them *)
  Definition sem_tagval (vs : list ir_vertex) (ss : list step) (imported : imports) (a : asg) (n : vertex)
    : ir_vertex -> fieldref -> tagged :=
    fun vtx field => arg_value g args vs ss imported a (v_vid vtx) (v_type vtx) (Some n) (ATag field).

  Definition hint_pruner : pruner :=
    mkPr (fun s => hint_keeps (resolve_info (c_root top) false)
                              (sem_tagval (c_vertices top) (c_steps top) [] (Asg [] []) s) s)
         (fun vs ss imported e a n => hint_keeps (dest_of_edge e) (sem_tagval vs ss imported a n) n)
         (fun vs ss imported h a n =>
            match comp_at q (fo_to h) with
            | Ok sub => hint_keeps (dest_of_fold h)
                                   (sem_tagval (c_vertices sub) (c_steps sub) (sub_imports g vs ss imported h a) (Asg [] []) n) n
            | Panic _ => true
            end).

  Lemma top_unique' : vids_unique top.
  Proof. apply top_unique. exact Hwfq. Qed.

  Lemma enter_true_inv vs ss imported a vtx n :
    enter re g args vs ss imported a vtx (Some n) = true ->
    match v_from vtx with Some from => g_coerce g from (v_type vtx) n = true | None => True end /\
    forall f, In f (v_filters vtx) ->
      filter_passes re (vf_op f) true (g_prop g (v_type vtx) (vf_field f) n)
        (option_map (arg_value g args vs ss imported a (v_vid vtx) (v_type vtx) (Some n)) (vf_arg f)) = true.
  Proof.
    unfold enter. intros H. apply andb_prop in H. destruct H as [H1 H2]. split.
    - destruct (v_from vtx); auto.
    - rewrite forallb_forall in H2. exact H2.
  Qed.

  (* the key step: a vertex that passes the entry test of the hinted vertex agrees with all its hints *)
  Lemma hint_keeps_sound c vi vtx vs ss imported a n :
    subcomp c top -> In vtx (c_vertices c) -> current_vertex q vi = Ok vtx ->
    enter re g args vs ss imported a vtx (Some n) = true ->
    hint_keeps vi (sem_tagval vs ss imported a n) n = true.
  Proof.
    intros Hsub Hin Hcv He. unfold hint_keeps. rewrite Hcv. apply forallb_forall. intros p Hp.
    destruct (enter_true_inv _ _ _ _ _ _ He) as [Hco Hf].
    set (v := g_prop g (v_type vtx) p n).
    assert (Wv : wf v = true) by apply Hgwf.
    assert (Hn : nullability_respected vtx p v).
    { intros f Hfi <- Hnu. unfold v. eapply Htyped; eauto. }
    assert (Hs : static_filters_pass re args vtx p v).
    { intros f Hfi <- _. unfold v. eapply (filter_passes_static re args); [|exact (Hf f Hfi)].
      intros x t. reflexivity. }
    apply andb_true_intro. split.
    - destruct (statically_required q args vi p) as [[c0|]|] eqn:S; try reflexivity.
      now destruct (static_hint_sound re q args Hargs vi p c0 vtx v Wv S Hcv Hn Hs).
    - destruct (dynamically_required q args vi p) as [[dv|]|] eqn:D; try reflexivity.
      destruct (opk_eqb (dv_op dv) GreaterThanOrEqual) eqn:G; [reflexivity|].
      assert (Hge : dv_op dv <> GreaterThanOrEqual) by (intros E; rewrite E in G; discriminate).
      destruct (dynamic_hint_structure re q args Hargs vi p dv vtx D Hcv) as (_ & _ & (f & Hfi & Hfp & Hfo & Hfa & _) & _).
      specialize (Hf f Hfi). rewrite Hfa, Hfo, Hfp in Hf. cbn [option_map] in Hf. fold v in Hf.
      unfold sem_tagval.
      destruct (arg_value g args vs ss imported a (v_vid vtx) (v_type vtx) (Some n) (ATag (dv_field dv))) as [|w] eqn:T.
      + destruct (cand_from_op (dyn_nr dv) (dv_op dv) (dv_init dv) TNone) as [k|] eqn:K; [|reflexivity].
        refine (proj2 (dynamic_hint_sound re q args Hargs vi p dv vtx _ TNone k v D Hcv Hge Wv _ Hn Hs Hf K)).
        intros w E. discriminate.
      + destruct (wf w) eqn:Ww; [|reflexivity].
        destruct (cand_from_op (dyn_nr dv) (dv_op dv) (dv_init dv) (TSome w)) as [k|] eqn:K; [|reflexivity].
        refine (proj2 (dynamic_hint_sound re q args Hargs vi p dv vtx _ (TSome w) k v D Hcv Hge Wv _ Hn Hs Hf K)).
        intros w' E. injection E as <-. exact Ww.
  Qed.

  (* hints that reject something come from a binding vertex-info *)
  Lemma hint_keeps_false_binding vi tv n : hint_keeps vi tv n = false -> non_binding vi = false.
  Proof.
    unfold hint_keeps. destruct (current_vertex q vi) as [vtx|]; [|discriminate].
    intros H. destruct (non_binding vi) eqn:NB; [|reflexivity]. exfalso.
    rewrite (proj2 (forallb_forall _ _)) in H; [discriminate|].
    intros p _. destruct (non_binding_no_hints q args vi p p NB) as (S & D & _). now rewrite S, D.
  Qed.

  Lemma current_vertex_sub c v vi : subcomp c top -> In v (c_vertices c) -> vi_vid vi = v_vid v ->
    current_vertex q vi = Ok v /\ current_component q vi = Ok c.
  Proof.
    intros Hsub Hv E. unfold current_vertex, current_component, comp_at. rewrite E. fold top.
    rewrite (comp_of_vid_sub top c v top_unique' Hsub Hv). cbn.
    now rewrite (find_vertex_unique (c_vertices c) v (vids_unique_vertices c top top_unique' Hsub) Hv).
  Qed.

  Theorem hint_pruner_admissible : admissible re g args hint_pruner q.
  Proof.
    split.
    - (* starting vertices *)
      intros s K. cbn [pr_start hint_pruner] in K. fold top. destruct top as [root vs ss outs] eqn:Et.
      rewrite sem_comp_eq. destruct (find_vertex vs root) as [rv|] eqn:F; [|reflexivity].
      destruct (enter re g args vs ss [] (Asg [] []) rv (Some s)) eqn:E; [exfalso|reflexivity].
      apply find_vertex_some in F. destruct F as [Fi Fe].
      assert (Hsub : subcomp (mkComp root vs ss outs) top) by (rewrite Et; constructor).
      destruct (current_vertex_sub _ rv (resolve_info root false) Hsub Fi (eq_sym Fe)) as [Hcv _].
      cbn [c_root c_vertices c_steps] in K.
      rewrite (hint_keeps_sound _ _ rv vs ss [] (Asg [] []) s Hsub Fi Hcv E) in K. discriminate.
    - intros c Hsub. split.
      + (* edges *)
        intros imported e a n tov He Ft K. cbn [pr_edge hint_pruner] in K.
        pose proof (hint_keeps_false_binding _ _ _ K) as NB. unfold non_binding, dest_of_edge, locally_non_binding in NB.
        cbn in NB. apply orb_false_iff in NB. destruct NB as [NB1 NB2].
        split; [assumption|]. split.
        { destruct (e_rec e) as [r|]; [right|now left]. exists r. split; [reflexivity|].
          apply N.leb_gt in NB2. lia. }
        destruct (enter re g args (c_vertices c) (c_steps c) imported a tov (Some n)) eqn:E; [exfalso|reflexivity].
        apply find_vertex_some in Ft. destruct Ft as [Fi Fe].
        destruct (current_vertex_sub c tov (dest_of_edge e) Hsub Fi (eq_sym Fe)) as [Hcv _].
        rewrite (hint_keeps_sound c _ tov _ _ imported a n Hsub Fi Hcv E) in K. discriminate.
      + (* folds *)
        intros imported h sub a n Hf K. cbn [pr_fold hint_pruner] in K.
        assert (Hsub' : subcomp sub top).
        { eapply subcomp_trans; [|exact Hsub]. destruct c as [r0 vs0 ss0 o0]. econstructor; [exact Hf|constructor]. }
        assert (FR : fo_to h = c_root sub).
        { destruct (wf_hints_query_parts q Hwfq) as (_ & _ & W & _).
          pose proof (fold_roots_ok_sub c top Hsub W) as Wc. destruct c as [r0 vs0 ss0 o0].
          now destruct (fold_roots_ok_here _ _ _ _ _ _ Wc Hf). }
        destruct sub as [root vs ss outs] eqn:Es. rewrite sem_comp_eq.
        destruct (find_vertex vs root) as [rv|] eqn:F; [|reflexivity].
        match goal with |- (if ?b then _ else _) = _ => destruct b eqn:E end; [exfalso|reflexivity].
        apply find_vertex_some in F. destruct F as [Fi Fe]. cbn [c_root] in FR.
        assert (Ev : vi_vid (dest_of_fold h) = v_vid rv) by (cbn; congruence).
        destruct (current_vertex_sub _ rv (dest_of_fold h) Hsub' Fi Ev) as [Hcv Hcc].
        unfold current_component in Hcc. cbn [vi_vid dest_of_fold] in Hcc. rewrite Hcc in K.
        cbn [c_vertices c_steps] in K.
        rewrite (hint_keeps_sound _ _ rv vs ss _ (Asg [] []) n Hsub' Fi Hcv E) in K. discriminate.
  Qed.

  (* pruning by the hints of the vertex being produced (static candidates, and dynamic candidates other
     than `>=`, resolved on the row's tag values) is invisible *)
  Theorem pruning_by_destination_hints_invisible :
    sem_pruned re g args hint_pruner q = sem re g args q.
  Proof. apply pruning_invisible_partial. exact hint_pruner_admissible. Qed.
End HintPruner.

(* ====================================================================================== *)
(* Part 7: known defects — witnesses, and the statements outside the classes                *)
(* ====================================================================================== *)
Definition no_regex : string -> string -> option bool := fun _ _ => None.
Definition q_of (rq : raw_query) : ir_query :=
  match lower_query rq with Ok q => q | Panic _ => mkQ "" [] (mkComp 0 [] [] []) [] end.
Definition has_request (r : res (list Exec.row * list event)) (vid : N) (p : string) : bool :=
  match r with
  | Ok (_, evs) => existsb (fun e => match e with EProp v p' => N.eqb v vid && String.eqb p' p | _ => false end) evs
  | Panic _ => false
  end.

(* ---- F10: `>=` against a tag yields an upper bound ---- *)
(* full statement (FALSE of the model, as of the code):
     forall nr init t k v, f_cand_ok init -> f_mem init v = true ->
       filter_passes re GreaterThanOrEqual true v (Some t) = true ->
       cand_from_op nr GreaterThanOrEqual init t = Ok k -> f_mem k v = true              *)
Theorem dynamic_hint_ge_tag_refuted_lemma :
  exists init w v k,
    f_cand_ok init = true /\ wf w = true /\ wf v = true /\ f_mem init v = true /\
    filter_passes no_regex GreaterThanOrEqual true v (Some (TSome w)) = true /\
    cand_from_op true GreaterThanOrEqual init (TSome w) = Ok k /\ f_mem k v = false.
Proof.
  exists (CRange range_full_non_null), (U64 1), (U64 2), (CRange (mkRange Unb (Incl (U64 1)) false)).
  vm_compute. repeat split; reflexivity.
Qed.

(* the same on a compiled query (numbers-free version of DESIGN.md's witness, accepted by the real
   frontend and confirmed on the real engine):
     query { Thing { id @tag(name: "t") @output link { id @filter(op: ">=", value: ["%t"]) @output(name: "o2") } } } *)
Definition ty_int_nn : ty := mkTy "Int" 1.
Definition ty_int : ty := mkTy "Int" 0.
Definition ty_str : ty := mkTy "String" 0.
Definition rq_f10 : raw_query :=
  mkRQ "Thing" [("hi", Null); ("lo", Null)]
    (RComp 1 [mkV 1 "Thing" None [];
              mkV 2 "Thing" None [mkVF GreaterThanOrEqual "id" ty_int_nn (Some (ATag (FRContext (mkCF 1 "id" ty_int_nn))))]]
           [mkE 1 1 2 "link" [] false None] []
           [("id", mkCF 1 "id" ty_int_nn); ("o2", mkCF 2 "id" ty_int_nn)]) [].
(* vertex 1 (id 1) links to vertex 2 (id 2) and to itself *)
Definition ds_f10 : dataset :=
  mkDS [(1, "Gadget"); (2, "Box")] [(1, [("id", U64 1)]); (2, [("id", U64 2)])]
       [(1, [("link", [2; 1])]); (2, [("link", [2; 1])])]
       [("Thing", [1; 2])] [("Thing", ["Box"; "Leaf"; "Gadget"])].

Definition ctx_f10 : ctx := mkCtx (Some 1) [(1, Some 1)] [] [] [] [] None [].
Theorem dynamic_hint_ge_tag_refuted_query :
  let q := q_of rq_f10 in
  let vi := mkVI false 1 2 (FExcl 2) false false in
  let dv := mkDV 1 (FRContext (mkCF 1 "id" ty_int_nn)) GreaterThanOrEqual (CRange range_full_non_null) in
  let k := CRange (mkRange Unb (Incl (U64 1)) false) in
    lower_query rq_f10 = Ok q /\ k_ge_tag_hint q = true /\
    resolve_edge_info_destination q 1 2 1 = Ok vi /\
    dynamically_required q [] vi "id" = Ok (Some dv) /\
    (* resolved for the row whose vertex 1 is dataset vertex 1 (tag value 1) *)
    dyn_resolve q (graph_of_dataset ds_f10) dv ctx_f10 = Ok k /\
    (* neighbour 2 has id 2: the filter `2 >= 1` holds, yet the hint excludes it *)
    holds no_regex GreaterThanOrEqual (ds_prop ds_f10 "Thing" "id" 2) (U64 1) = true /\
    f_mem k (ds_prop ds_f10 "Thing" "id" 2) = false /\
    (* and the row (id = 1, o2 = 2) is a result of the query *)
    sem no_regex (graph_of_dataset ds_f10) [] q =
      [[("id", U64 1); ("o2", U64 2)]; [("id", U64 1); ("o2", U64 1)]; [("id", U64 2); ("o2", U64 2)]].
Proof. vm_compute. repeat split; reflexivity. Qed.

(* ---- F17 (repaired in /repo 9aed43b): a null tag value used to panic in Range::with_end / with_start,
   or in as_slice() for one_of; compute_candidate_from_operation now yields Impossible.  Regression
   statements on the former witnesses. ---- *)
Theorem dynamic_hint_null_tag_regression_lemma :
  cand_from_op true LessThan All (TSome Null) = Ok Impossible /\
  cand_from_op true GreaterThan All (TSome Null) = Ok Impossible /\
  cand_from_op true GreaterThanOrEqual All (TSome Null) = Ok Impossible /\
  cand_from_op true OneOf All (TSome Null) = Ok Impossible.
Proof. repeat split; reflexivity. Qed.

(*   query { Thing { score @tag(name: "t") id @output link { score @filter(op: "<", value: ["%t"]) @output(name: "o2") } } }
   on a dataset where the tagged vertex has no score *)
Definition rq_f17 : raw_query :=
  mkRQ "Thing" [("hi", Null); ("lo", Null)]
    (RComp 1 [mkV 1 "Thing" None [];
              mkV 2 "Thing" None [mkVF LessThan "score" ty_int (Some (ATag (FRContext (mkCF 1 "score" ty_int))))]]
           [mkE 1 1 2 "link" [] false None] []
           [("id", mkCF 1 "id" ty_int_nn); ("o2", mkCF 2 "score" ty_int)]) [].

Theorem dynamic_hint_null_tag_regression_query :
  let q := q_of rq_f17 in
  let vi := mkVI false 1 2 (FExcl 2) false false in
  let dv := mkDV 1 (FRContext (mkCF 1 "score" ty_int)) LessThan All in
    lower_query rq_f17 = Ok q /\
    resolve_edge_info_destination q 1 2 1 = Ok vi /\
    dynamically_required q [] vi "score" = Ok (Some dv) /\
    (* ds_f10's vertices have no score: the tag value is null *)
    dyn_resolve q (graph_of_dataset ds_f10) dv ctx_f10 = Ok Impossible.
Proof. vm_compute. repeat split; reflexivity. Qed.

(* outside K-null-tag-hint resolving never panics (one_of operands are lists or null by typing) *)
Theorem dynamic_hint_no_panic_outside nr op init w :
  f_cand_ok init = true -> wf w = true -> dyn_supported_op op = true ->
  k_null_tag_hint op w = false -> (op = OneOf -> w = Null \/ exists l, w = List l) ->
  exists k, cand_from_op nr op init (TSome w) = Ok k /\ f_cand_ok k = true.
Proof.
  intros Hi Ww Hs Hk Ho. unfold k_null_tag_hint in Hk.
  apply (cand_from_op_total nr op init w Hi Ww Hs).
  - intros Hc. rewrite Hc in Hk. cbn in Hk. now rewrite andb_true_r in Hk.
  - intros ->. destruct (Ho eq_refl) as [->|H]; [discriminate|assumption].
Qed.
(* compute_candidate_from_operation (every context-field or imported tag) never panics on a well-typed
   tag value: no class is excluded any more *)
Theorem dynamic_hint_no_panic op init w :
  f_cand_ok init = true -> wf w = true -> dyn_supported_op op = true ->
  (op = OneOf -> w = Null \/ exists l, w = List l) ->
  exists k, cand_from_op true op init (TSome w) = Ok k /\ f_cand_ok k = true.
Proof. exact (cand_from_op_total_true op init w). Qed.
Theorem dynamic_hint_no_panic_none nr op init :
  dyn_supported_op op = true -> cand_from_op nr op init TNone = Ok init.
Proof. destruct op; try discriminate; reflexivity. Qed.

(* the class predicate is what the theorems exclude: without a `>=`-tag filter no dynamic hint has
   operation `>=` *)
Lemma all_vertices_sub c top : subcomp c top -> forall v, In v (c_vertices c) -> In v (all_vertices top).
Proof.
  induction 1 as [[r vs ss o]|c root vs ss outs h sub Hin Hsub IH]; intros v Hv.
  - cbn in *. apply in_or_app. now left.
  - specialize (IH v Hv). cbn. apply in_or_app. right. clear Hv.
    induction ss as [|[e|h' sub'] r IHr]; cbn in *; [contradiction| |].
    + destruct Hin as [E|Hin]; [discriminate|auto].
    + apply in_or_app. destruct Hin as [E|Hin]; [left; injection E as -> ->; assumption|right; auto].
Qed.

Lemma comp_of_vid_subcomp top : forall vid c, comp_of_vid top vid = Some c -> subcomp c top.
Proof.
  induction top as [root vs ss outs IH] using comp_ind'. intros vid c. rewrite comp_of_vid_eq.
  destruct (find_vertex vs vid); [intros [= <-]; constructor|].
  assert (K : forall ss', (forall s, In s ss' -> In s ss) ->
              Forall (fun s => match s with SFold _ sub => forall vid c, comp_of_vid sub vid = Some c -> subcomp c sub
                                          | SEdge _ => True end) ss' ->
              comp_of_vid_steps ss' vid = Some c -> subcomp c (mkComp root vs ss outs)).
  { induction ss' as [|[e|h sub] r IHr]; cbn; intros Hincl HF H; [discriminate| |].
    - inversion HF as [|? ? _ Hr]; subst. apply IHr; [intros s Hs; apply Hincl; now right|assumption|assumption].
    - inversion HF as [|? ? Hs Hr]; subst. destruct (comp_of_vid sub vid) eqn:C.
      + injection H as <-. econstructor; [apply Hincl; left; reflexivity|]. eapply Hs; eauto.
      + apply IHr; [intros s Hs'; apply Hincl; now right|assumption|assumption]. }
  apply K; auto.
Qed.

Theorem no_ge_tag_no_ge_hint q args vi p dv :
  args_wf args -> k_ge_tag_hint q = false ->
  dynamically_required q args vi p = Ok (Some dv) -> dv_op dv <> GreaterThanOrEqual.
Proof.
  intros Hargs K D E.
  destruct (current_vertex q vi) as [vtx|s] eqn:Hcv.
  2:{ unfold dynamically_required in D. destruct (non_binding vi); [discriminate|]. rewrite Hcv in D. discriminate. }
  destruct (dynamic_hint_structure no_regex q args Hargs vi p dv vtx D Hcv) as (_ & _ & (f & Hfi & Hfp & Hfo & Hfa & _) & _).
  unfold current_vertex, current_component, comp_at in Hcv.
  destruct (comp_of_vid (q_comp q) (vi_vid vi)) as [c|] eqn:C; [|discriminate]. cbn in Hcv.
  apply expect_some_ok in Hcv. apply find_vertex_some in Hcv. destruct Hcv as [Hin _].
  pose proof (all_vertices_sub c (q_comp q) (comp_of_vid_subcomp _ _ _ C) vtx Hin) as Hall.
  assert (k_ge_tag_hint q = true); [|congruence].
  unfold k_ge_tag_hint. apply existsb_exists. exists vtx. split; [assumption|].
  apply existsb_exists. exists f. split; [assumption|]. unfold ge_tag_filter. now rewrite Hfo, E, Hfa.
Qed.

(* ---- F11 (repaired in /repo 45c56fc): properties resolved for imported tags / fold-count filter tags
   used not to be listed ---- *)
(* formerly false (F11), now requested_subset_required_all; the former witnesses as regressions *)
(*   query { Thing { name @tag(name: "t") id @output link @fold { name @filter(op: "=", value: ["%t"]) id @output(name: "ids") } } } *)
Definition rq_f11a : raw_query :=
  mkRQ "Thing" [("hi", Null); ("lo", Null)]
    (RComp 1 [mkV 1 "Thing" None []] []
       [RFold (mkFH 1 1 2 "link" [] [FRContext (mkCF 1 "name" ty_str)] [] [])
              (RComp 2 [mkV 2 "Thing" None [mkVF Equals "name" ty_str (Some (ATag (FRContext (mkCF 1 "name" ty_str))))]]
                     [] [] [("ids", mkCF 2 "id" ty_int_nn)])]
       [("id", mkCF 1 "id" ty_int_nn)]) [].
(*   query { Thing { score @tag(name: "t") id @output
                     link @fold @transform(op: "count") @filter(op: ">=", value: ["%t"]) { id @output(name: "ids") } } } *)
Definition rq_f11b : raw_query :=
  mkRQ "Thing" [("hi", Null); ("lo", Null)]
    (RComp 1 [mkV 1 "Thing" None []] []
       [RFold (mkFH 1 1 2 "link" [] [] [] [mkPF GreaterThanOrEqual (Some (ATag (FRContext (mkCF 1 "score" ty_int))))])
              (RComp 2 [mkV 2 "Thing" None []] [] [] [("ids", mkCF 2 "id" ty_int_nn)])]
       [("id", mkCF 1 "id" ty_int_nn)]) [].

Theorem requested_subset_required_imported_regression :
  let q := q_of rq_f11a in
    lower_query rq_f11a = Ok q /\ wf_hints_query q = true /\
    existsb (pair_eqb (1, "name")) (property_requests q) = true /\
    has_request (trace_query no_regex (graph_of_dataset ds_f10) [] q) 1 "name" = true /\
    (* F11 repaired: the imported tag's property is listed now *)
    required_of q 1 = ["id"; "name"] /\ k_imported_tag_not_required q = false.
Proof. vm_compute. repeat split; reflexivity. Qed.

Theorem requested_subset_required_count_tag_regression :
  let q := q_of rq_f11b in
    lower_query rq_f11b = Ok q /\ wf_hints_query q = true /\
    existsb (pair_eqb (1, "score")) (property_requests q) = true /\
    has_request (trace_query no_regex (graph_of_dataset ds_f10) [] q) 1 "score" = true /\
    required_of q 1 = ["id"; "score"] /\ k_count_filter_tag_not_required q = false.
Proof. vm_compute. repeat split; reflexivity. Qed.

(* the statement as worded in the property (with the __typename escape) *)
Theorem requested_subset_required q :
  wf_hints_query q = true ->
  k_imported_tag_not_required q = false -> k_count_filter_tag_not_required q = false ->
  forall r, In r (property_requests q) -> snd r = "__typename" \/ In (snd r) (required_of q (fst r)).
Proof. intros W K1 K2 r Hr. right. exact (requested_subset_required_outside q W K1 K2 r Hr). Qed.

(* ... and without excluding anything (F11 repaired) *)
Theorem requested_subset_required_unconditional q :
  wf_hints_query q = true ->
  forall r, In r (property_requests q) -> snd r = "__typename" \/ In (snd r) (required_of q (fst r)).
Proof. intros W r Hr. right. exact (requested_subset_required_all q W r Hr). Qed.

(* ====================================================================================== *)
(* Part 8: C05 — the logged interpreter only requests what property_requests lists           *)
(* ====================================================================================== *)
Lemma foldM_inv {A S} (f : S -> A -> res S) (P : S -> Prop) l : forall s0 r,
  (forall s x s', In x l -> P s -> f s x = Ok s' -> P s') -> P s0 -> foldM f l s0 = Ok r -> P r.
Proof.
  induction l as [|x l IH]; cbn [foldM]; intros s0 r Hstep H0 H.
  - injection H as <-. exact H0.
  - invb H as s1 Hs1. apply (IH s1 r); [|eapply Hstep; eauto; now left|assumption].
    intros s y s' Hy. apply Hstep. now right.
Qed.

Definition ev_ok (c : ir_component) (e : event) : Prop :=
  match e with
  | EProp v p => In (v, p) (property_requests_comp c)
  | ENbr _ _ _ _ => True
  end.

Lemma sub_requests_in_parent root vs ss outs h sub r :
  In (SFold h sub) ss -> In r (property_requests_comp sub) -> In r (property_requests_comp (mkComp root vs ss outs)).
Proof.
  intros Hin Hr. rewrite property_requests_comp_eq. apply in_or_app. right. apply in_or_app. right.
  induction ss as [|[e|h' sub'] rest IH]; cbn in *; [contradiction| |].
  - destruct Hin as [E|Hin]; [discriminate|auto].
  - apply in_or_app. right. apply in_or_app. destruct Hin as [E|Hin]; [left; injection E as -> ->; assumption|right; auto].
Qed.

Lemma fold_local_in_parent root vs ss outs h sub r :
  In (SFold h sub) ss -> In r (fold_local_requests vs h) -> In r (property_requests_comp (mkComp root vs ss outs)).
Proof.
  intros Hin Hr. rewrite property_requests_comp_eq. apply in_or_app. right. apply in_or_app. right.
  induction ss as [|[e|h' sub'] rest IH]; cbn in *; [contradiction| |].
  - destruct Hin as [E|Hin]; [discriminate|auto].
  - apply in_or_app. destruct Hin as [E|Hin]; [left; injection E as -> ->; assumption|right; apply in_or_app; right; auto].
Qed.

Lemma vertex_of_In vs vid v : vertex_of vs vid = Ok v -> In v vs.
Proof. unfold vertex_of. intros H. apply expect_some_ok in H. now apply find_vertex_some in H. Qed.

Section TraceListed.
  Variable re : string -> string -> option bool.
  Variable g : graph.
  Variable args : list (string * fv).
  Variable q : ir_query.

  Lemma filter_requests_ok root vs ss outs v :
    In v vs -> Forall (ev_ok (mkComp root vs ss outs)) (filter_requests vs v).
  Proof.
    intros Hv. apply Forall_forall. intros e He. unfold filter_requests in He. apply in_flat_map in He.
    destruct He as (f & Hf & He).
    assert (K : forall r, In r ((v_vid v, vf_field f) :: tag_request vs (vf_arg f)) ->
                          In r (property_requests_comp (mkComp root vs ss outs))).
    { intros r Hr. rewrite property_requests_comp_eq. apply in_or_app. left. unfold filter_requests_of.
      apply in_flat_map. exists v. split; [assumption|]. apply in_flat_map. exists f. auto. }
    destruct He as [<-|He]; [apply K; now left|].
    apply in_map_iff in He. destruct He as (r & <- & Hr). cbn. rewrite <- surjective_pairing. apply K. right.
    destruct (opk_unary (vf_op f)); [contradiction|assumption].
  Qed.

  Lemma trace_edge_ok lz root vs ss outs e cs out evs :
    trace_edge re g args q lz vs ss e cs = Ok (out, evs) -> Forall (ev_ok (mkComp root vs ss outs)) evs.
  Proof.
    unfold trace_edge. intros H. invb H as from Hfrom. invb H as to Hto. invb H as r1 Hr1. invb H as o Ho.
    injection H as _ <-. apply Forall_app. split.
    - destruct (e_rec e) as [r|].
      + invb Hr1 as cs0 Hcs0. destruct (trace_rounds g args q lz _ _ _ _ _ e _) as [cs2 evs2] eqn:T.
        invb Hr1 as o2 Ho2. injection Hr1 as <-. cbn [snd]. constructor; [exact I|].
        clear - T. revert T. generalize 2 at 1.
        generalize (one_recursive_expansion g (v_type from) e cs0). generalize (N.to_nat (r_depth r) - 1)%nat.
        intros k. revert cs2 evs2. induction k as [|k IH]; intros cs2 evs2 l lvl T; cbn in T.
        * injection T as _ <-. constructor.
        * destruct (trace_rounds g args q lz k _ _ _ _ e _) as [o' e'] eqn:T'. injection T as _ <-.
          constructor; [exact I|]. eapply IH; eauto.
      + invb Hr1 as cs1 Hcs1. invb Hr1 as o2 Ho2. injection Hr1 as <-. cbn. constructor; [exact I|constructor].
    - apply filter_requests_ok. eapply vertex_of_In; eauto.
  Qed.

  Lemma trace_fold_ok lz root vs ss outs h sub sub_trace cs out evs :
    In (SFold h sub) ss ->
    (forall lz' cs' o l, sub_trace lz' cs' = Ok (o, l) -> Forall (ev_ok sub) l) ->
    trace_fold re g args q lz vs ss h sub sub_trace cs = Ok (out, evs) ->
    Forall (ev_ok (mkComp root vs ss outs)) evs.
  Proof.
    intros Hin Hsub H. unfold trace_fold in H.
    invb H as from Hfrom. invb H as cs1 Hcs1. invb H as cs2 Hcs2. invb H as maxl Hmaxl. invb H as minl0 Hminl0.
    invb H as r3 Hr3. invb H as cs4 Hcs4. invb H as cs5 Hcs5. injection H as _ <-.
    assert (Up : forall l, Forall (ev_ok sub) l -> Forall (ev_ok (mkComp root vs ss outs)) l).
    { intros l Hl. eapply Forall_impl; [|exact Hl]. intros [v p|? ? ? ?]; cbn; [|auto].
      now apply (sub_requests_in_parent root vs ss outs h sub). }
    apply Forall_app. split.
    { apply Forall_forall. intros e He. apply in_map_iff in He. destruct He as (r & <- & Hr). cbn.
      rewrite <- surjective_pairing. eapply (fold_local_in_parent root vs ss outs h sub); eauto. unfold fold_local_requests.
      apply in_or_app. now left. }
    constructor; [exact I|]. apply Forall_app. split.
    { refine (foldM_inv _ (fun acc => Forall (ev_ok (mkComp root vs ss outs)) (snd acc)) _ _ _ _ _ Hr3); [|constructor].
      intros acc c acc' _ Hacc Hstep. invb Hstep as computed Hcomp. invb Hstep as ov Hov.
      destruct computed as [o l]. apply Hsub in Hcomp. apply Up in Hcomp.
      destruct (match ov with Some _ => _ | None => _ end) as [fe|].
      - destruct (has_key_N (fo_eid h) (folded_contexts c)); [discriminate|]. injection Hstep as <-. cbn [snd].
        apply Forall_app. auto.
      - injection Hstep as <-. cbn [snd]. apply Forall_app. auto. }
    apply Forall_app. split.
    { apply Forall_forall. intros e He. apply in_flat_map in He. destruct He as (pf & Hpf & He).
      apply in_map_iff in He. destruct He as (r & <- & Hr). cbn. rewrite <- surjective_pairing.
      eapply (fold_local_in_parent root vs ss outs h sub); eauto. unfold fold_local_requests. apply in_or_app. right.
      apply in_flat_map. exists pf. split; [assumption|]. destruct (opk_unary (pf_op pf)); [contradiction|assumption]. }
    match goal with |- context [existsb ?f cs4] => destruct (existsb f cs4) end; [|constructor].
    apply Up. apply Forall_forall. intros e He. apply in_map_iff in He. destruct He as (o & <- & Ho). cbn.
    destruct sub as [r' vs' ss' outs']. rewrite property_requests_comp_eq. apply in_or_app. right. apply in_or_app. left.
    unfold output_requests_of. cbn [c_outputs] in Ho. now apply in_map with (f := fun o : string * ctxfield => (cf_vid (snd o), cf_name (snd o))).
  Qed.

  Lemma trace_component_eq lz root vs ss outs cs :
    trace_component re g args q lz (mkComp root vs ss outs) cs =
    (do rootv <- vertex_of vs root;
     do cs0 <- enter_vertex re g args vs ss rootv cs;
     trace_go re g args q lz vs ss (fun sub lz' cs' => trace_component re g args q lz' sub cs') ss cs0
              (filter_requests vs rootv)).
  Proof. reflexivity. Qed.

  (* every resolve_property call of the logged interpreter is in the static list *)
  Theorem trace_requests_listed : forall c lz cs out log,
    trace_component re g args q lz c cs = Ok (out, log) -> Forall (ev_ok c) log.
  Proof.
    induction c as [root vs ss outs IH] using comp_ind'. intros lz cs out log H.
    rewrite trace_component_eq in H. invb H as rootv Hrootv. invb H as cs0 Hcs0.
    assert (K : forall todo, (forall s, In s todo -> In s ss) ->
                forall cs1 log1 out1 logr, Forall (ev_ok (mkComp root vs ss outs)) log1 ->
                  trace_go re g args q lz vs ss (fun sub lz' cs' => trace_component re g args q lz' sub cs')
                           todo cs1 log1 = Ok (out1, logr) ->
                  Forall (ev_ok (mkComp root vs ss outs)) logr).
    { induction todo as [|[e|h sub] r IHr]; intros Hincl cs1 log1 out1 logr Hl Hgo; cbn [trace_go] in Hgo.
      - injection Hgo as _ <-. exact Hl.
      - invb Hgo as x Hx. destruct x as [o evs].
        eapply (IHr (fun s Hs => Hincl s (or_intror Hs))); [|exact Hgo]. cbn [fst snd]. apply Forall_app. split; [exact Hl|].
        eapply trace_edge_ok; eauto.
      - invb Hgo as x Hx. destruct x as [o evs].
        eapply (IHr (fun s Hs => Hincl s (or_intror Hs))); [|exact Hgo]. cbn [fst snd]. apply Forall_app. split; [exact Hl|].
        eapply trace_fold_ok; [apply Hincl; now left| |exact Hx].
        intros lz' cs' o' l' Hs. rewrite Forall_forall in IH. exact (IH (SFold h sub) (Hincl _ (or_introl eq_refl)) lz' cs' o' l' Hs). }
    eapply (K ss (fun s Hs => Hs)); [|exact H]. apply filter_requests_ok. eapply vertex_of_In; eauto.
  Qed.

  Theorem trace_query_requests_listed rows evs :
    trace_query re g args q = Ok (rows, evs) ->
    forall v p, In (EProp v p) evs -> In (v, p) (property_requests q).
  Proof.
    unfold trace_query. intros H v p Hin. invb H as x Hx. invb H as rws Hrws. injection H as _ <-.
    destruct x as [o l]. apply trace_requests_listed in Hx. cbn [snd] in Hin. apply in_app_or in Hin.
    destruct Hin as [Hin|Hin].
    - rewrite Forall_forall in Hx. exact (Hx _ Hin).
    - apply in_map_iff in Hin. destruct Hin as (o' & E & Ho). injection E as <- <-. unfold property_requests.
      destruct (q_comp q) as [r' vs' ss' outs']. rewrite property_requests_comp_eq. apply in_or_app. right.
      apply in_or_app. left. unfold output_requests_of. cbn [c_outputs] in Ho.
      now apply in_map with (f := fun o : string * ctxfield => (cf_vid (snd o), cf_name (snd o))).
  Qed.
End TraceListed.

(* C05 for runs: outside the F11 classes every resolve_property call of a (logged) run is listed *)
Theorem run_requests_required re g args q rows evs :
  wf_hints_query q = true ->
  k_imported_tag_not_required q = false -> k_count_filter_tag_not_required q = false ->
  trace_query re g args q = Ok (rows, evs) ->
  forall v p, In (EProp v p) evs -> In p (required_of q v).
Proof.
  intros W K1 K2 H v p Hin.
  exact (requested_subset_required_outside q W K1 K2 (v, p) (trace_query_requests_listed re g args q rows evs H v p Hin)).
Qed.

Theorem run_requests_required_all re g args q rows evs :
  wf_hints_query q = true ->
  trace_query re g args q = Ok (rows, evs) ->
  forall v p, In (EProp v p) evs -> In p (required_of q v).
Proof.
  intros W H v p Hin.
  exact (requested_subset_required_all q W (v, p) (trace_query_requests_listed re g args q rows evs H v p Hin)).
Qed.

(* the list-recursive take used by the logged interpreter is firstn (Z.to_nat m), i.e. the logged
   interpreter's collect_fold_elements_z is execution.rs::collect_fold_elements as modelled in Exec.v *)
Lemma take_zl_firstn {A} (l : list A) : forall m, take_zl m l = firstn (Z.to_nat m) l.
Proof.
  induction l as [|x l IH]; intros m; cbn [take_zl].
  - now destruct (Z.to_nat m).
  - destruct (0 <? m)%Z eqn:E.
    + apply Z.ltb_lt in E. replace (Z.to_nat m) with (S (Z.to_nat (m - 1))) by lia. cbn. now rewrite IH.
    + apply Z.ltb_ge in E. replace (Z.to_nat m) with 0%nat by lia. reflexivity.
Qed.
Lemma collect_fold_elements_z_spec {A} (l : list A) maxl minl :
  collect_fold_elements_z l maxl minl =
  match maxl with
  | Some m => if Z.ltb m (Z.of_nat (List.length l)) then None else Some l
  | None => match minl with Some m => Some (firstn (Z.to_nat m) l) | None => Some l end
  end.
Proof. unfold collect_fold_elements_z. destruct maxl, minl; try reflexivity. now rewrite take_zl_firstn. Qed.
