(* IR.v — model of trustfall_core/src/ir/mod.rs (the compiled query), definitions only.
   `raw_*` mirrors the Rust structs one-to-one (BTreeMaps as key-sorted lists, as serde prints them);
   `ir_component` is the same data with each component's edges and folds merged in Eid order,
   which is the order `compute_component`'s merge loop processes them (see Lower.v). *)
From TF Require Export Values TyDef OpK.
Local Open Scope string_scope.
Local Open Scope N_scope.
Local Open Scope list_scope.

Record ctxfield := mkCF { cf_vid : N; cf_name : string; cf_ty : ty }.
(* FoldSpecificField; `kind` is always Count (the only FoldSpecificFieldKind) *)
Record foldfield := mkFF { ff_eid : N; ff_root : N }.
Inductive fieldref := FRContext (c : ctxfield) | FRFold (f : foldfield).
Inductive argument := ATag (r : fieldref) | AVar (name : string) (t : ty).

(* Operation<LocalField, Argument>: kind, left = LocalField{name,type}, right (None for unary ops) *)
Record vfilter := mkVF { vf_op : opk; vf_field : string; vf_fty : ty; vf_arg : option argument }.
(* Operation<FoldSpecificFieldKind, Argument>: left is always Count *)
Record pfilter := mkPF { pf_op : opk; pf_arg : option argument }.

Record ir_vertex := mkV { v_vid : N; v_type : string; v_from : option string; v_filters : list vfilter }.
Record recursive := mkRec { r_depth : N; r_coerce : option string }.
Definition params := list (string * fv).
Record ir_edge := mkE { e_eid : N; e_from : N; e_to : N; e_name : string; e_params : params;
                        e_optional : bool; e_rec : option recursive }.

(* everything of IRFold except its component *)
Record fold_hdr := mkFH { fo_eid : N; fo_from : N; fo_to : N; fo_name : string; fo_params : params;
                          fo_imported : list fieldref;
                          fo_fsout : list string;        (* fold_specific_outputs keys (all Count), sorted *)
                          fo_post : list pfilter }.

(* --- raw: as in Rust --- *)
Inductive raw_comp :=
  RComp (root : N) (vertices : list ir_vertex) (edges : list ir_edge) (folds : list raw_fold)
        (outputs : list (string * ctxfield))
with raw_fold := RFold (h : fold_hdr) (c : raw_comp).

Record raw_query := mkRQ { rq_root_name : string; rq_root_params : params; rq_comp : raw_comp;
                           rq_vars : list (string * ty) }.

(* --- lowered: steps in processing order --- *)
Inductive ir_component :=
  mkComp (root : N) (vertices : list ir_vertex) (steps : list step) (outputs : list (string * ctxfield))
with step := SEdge (e : ir_edge) | SFold (h : fold_hdr) (c : ir_component).

Definition c_root (c : ir_component) := match c with mkComp r _ _ _ => r end.
Definition c_vertices (c : ir_component) := match c with mkComp _ v _ _ => v end.
Definition c_steps (c : ir_component) := match c with mkComp _ _ s _ => s end.
Definition c_outputs (c : ir_component) := match c with mkComp _ _ _ o => o end.

Record ir_query := mkQ { q_root_name : string; q_root_params : params; q_comp : ir_component;
                         q_vars : list (string * ty) }.

(* ---- small helpers shared by Exec / Sem ---- *)
Fixpoint find_vertex (vs : list ir_vertex) (vid : N) : option ir_vertex :=
  match vs with
  | [] => None
  | v :: r => if N.eqb (v_vid v) vid then Some v else find_vertex r vid
  end.

Definition step_eid (s : step) : N := match s with SEdge e => e_eid e | SFold h _ => fo_eid h end.

(* does this component own a fold with this eid?  (component.folds.contains_key) *)
Fixpoint has_fold (ss : list step) (eid : N) : bool :=
  match ss with
  | [] => false
  | SFold h _ :: r => N.eqb (fo_eid h) eid || has_fold r eid
  | SEdge _ :: r => has_fold r eid
  end.

(* Ord for FieldRef compares ContextFields by (vertex_id, field_name) and fold fields by
   (fold_eid, kind): BTreeMap<FieldRef, _> keys are equal exactly when these keys are *)
Definition fieldref_eqb (a b : fieldref) : bool :=
  match a, b with
  | FRContext x, FRContext y => N.eqb (cf_vid x) (cf_vid y) && String.eqb (cf_name x) (cf_name y)
  | FRFold x, FRFold y => N.eqb (ff_eid x) (ff_eid y)
  | _, _ => false
  end.

Fixpoint lookup_str {A} (k : string) (l : list (string * A)) : option A :=
  match l with
  | [] => None
  | (k', a) :: r => if String.eqb k k' then Some a else lookup_str k r
  end.

Fixpoint lookup_N {A} (k : N) (l : list (N * A)) : option A :=
  match l with
  | [] => None
  | (k', a) :: r => if N.eqb k k' then Some a else lookup_N k r
  end.
