(* Indexed.v — model of trustfall_core/src/ir/indexed.rs (IndexedQuery::try_from and its helpers)
   over the Rust-shaped IR of IR.v.  Model file: definitions only.

   Conventions
   * `InvalidIRQueryError::GetBetterVariant(n)` is the integer n (`ierr`); an indexing run is
     `res (ierr + state)`: Ok (inr _) = Ok(..), Ok (inl n) = Err(GetBetterVariant(n)), Panic = a panic
     (the only reachable one is Type::new_list_type at 30 list levels, kept from Ty.v);
   * the three BTreeMaps under construction are association lists in INSERTION order (lookup = first
     match; an insert that finds the key is the error return of the Rust code, so no key is ever
     bound twice); renderers sort by key where BTreeMap iteration order matters;
   * `vids : Vid -> Arc<IRQueryComponent>` is only ever used through `ptr::eq` with the current
     component; a component is identified by its root Vid.  This is faithful: two distinct components
     that both got past their vertex loop have inserted their roots (check -1 + the loop), so their
     roots differ (otherwise the second insert returned error 0);
   * `are_folds_optional: &mut Vec<bool>` is passed functionally as a stack, LAST pushed element
     first (the order `.iter().rev()` visits); push = cons for the recursive call, so the
     `pop().expect(..)` after the call trivially succeeds and has no Panic outcome here;
   * BTreeMap keys are taken to agree with the `vid`/`eid` fields of their values (IR.v keeps only
     the values; the harness checks the agreement on every IR it prints);
   * `usize::from(eid.0) + 1` is computed in N (ids below usize::MAX). *)
From TF Require Export Lower Ty.
From TF Require Import Values Show.
Local Open Scope string_scope.
Local Open Scope N_scope.
Local Open Scope list_scope.

Definition ierr := Z.

Notation out_entry := (string * (ty * N))%type.      (* Output { name, value_type, vid } *)
Record ixstate := mkSt {
  st_vids : list (N * N);          (* vid -> identity (root vid) of the owning component *)
  st_eids : list (N * bool);       (* eid -> EdgeKind: false = Regular, true = Fold *)
  st_outs : list out_entry
}.

Definition ires (A : Type) := res (ierr + A).

Definition has_key_N {A} (k : N) (l : list (N * A)) : bool :=
  match lookup_N k l with Some _ => true | None => false end.
Definition has_key_str {A} (k : string) (l : list (string * A)) : bool :=
  match lookup_str k l with Some _ => true | None => false end.

(* fn get_optional_vertices_in_component: one pass over component.edges in Eid order *)
Fixpoint optional_vertices_from (es : list ir_edge) (acc : list N) : list N :=
  match es with
  | [] => acc
  | e :: r =>
      optional_vertices_from r (if e_optional e || memN (e_from e) acc then e_to e :: acc else acc)
  end.
Definition optional_vertices (es : list ir_edge) : list N := optional_vertices_from es [].

(* the loop `for is_fold_optional in are_folds_optional.iter().rev()`; `stack` is already reversed *)
Fixpoint wrap_lists (t : ty) (stack : list bool) : res ty :=
  match stack with
  | [] => Ok t
  | b :: r => do t' <- ty_list t b; wrap_lists t' r
  end.

(* fn get_output_type *)
Definition get_output_type (output_at : N) (field_type : ty) (opt : list N) (stack : list bool) : res ty :=
  let t := if memN output_at opt then ty_with_nullability field_type true else field_type in
  wrap_lists t stack.

(* FoldSpecificFieldKind::Count.field_type() = "Int!" *)
Definition count_type : ty := ty_named "Int" false.

(* ---- the loop over component.vertices ---- *)
(* one filter: only Argument::Variable on the right-hand side is looked at *)
Definition check_filter_var (vars : list (string * ty)) (f : vfilter) : option ierr :=
  match vf_arg f with
  | Some (AVar x t) =>
      match lookup_str x vars with
      | Some var_type => if negb (ty_sub t var_type) then Some (-2)%Z else None
      | None => Some (-3)%Z
      end
  | _ => None
  end.
Fixpoint check_filters_vars (vars : list (string * ty)) (fs : list vfilter) : option ierr :=
  match fs with
  | [] => None
  | f :: r => match check_filter_var vars f with Some e => Some e | None => check_filters_vars vars r end
  end.

Fixpoint add_vertices (root : N) (vars : list (string * ty)) (vs : list ir_vertex) (vids : list (N * N))
  : ierr + list (N * N) :=
  match vs with
  | [] => inr vids
  | v :: r =>
      if has_key_N (v_vid v) vids then inl 0%Z
      else match check_filters_vars vars (v_filters v) with
           | Some e => inl e
           | None => add_vertices root vars r (vids ++ [(v_vid v, root)])
           end
  end.

(* `vids.get(&v)` followed by `ptr::eq(component, that)`: the two error numbers of each such pair *)
Definition owner_check (root : N) (vids : list (N * N)) (v : N) (missing other : ierr) : option ierr :=
  match lookup_N v vids with
  | None => Some missing
  | Some r => if negb (N.eqb r root) then Some other else None
  end.

(* ---- the loop over component.outputs ---- *)
Fixpoint add_outputs (root : N) (opt : list N) (stack : list bool) (outs : list (string * ctxfield))
         (vids : list (N * N)) (acc : list out_entry) : ires (list out_entry) :=
  match outs with
  | [] => Ok (inr acc)
  | (name, cf) :: r =>
      match owner_check root vids (cf_vid cf) 1%Z 2%Z with
      | Some e => Ok (inl e)
      | None =>
          do t <- get_output_type (cf_vid cf) (cf_ty cf) opt stack;
          if has_key_str name acc then Ok (inl 3%Z)
          else add_outputs root opt stack r vids (acc ++ [(name, (t, cf_vid cf))])
      end
  end.

(* ---- the loop over component.edges ---- *)
Fixpoint add_edges (root : N) (es : list ir_edge) (vids : list (N * N)) (eids : list (N * bool))
  : ierr + list (N * bool) :=
  match es with
  | [] => inr eids
  | e :: r =>
      if negb (N.eqb (e_eid e + 1) (e_to e)) then inl 4%Z
      else match owner_check root vids (e_from e) 5%Z 6%Z with
           | Some x => inl x
           | None =>
               match owner_check root vids (e_to e) 7%Z 8%Z with
               | Some x => inl x
               | None =>
                   if has_key_N (e_eid e) eids then inl 9%Z
                   else add_edges root r vids (eids ++ [(e_eid e, false)])
               end
           end
  end.

(* fold.fold_specific_outputs: all of kind Count; `vid: fold.to_vid` *)
Fixpoint add_fsouts (h : fold_hdr) (opt : list N) (stack : list bool) (names : list string)
         (acc : list out_entry) : ires (list out_entry) :=
  match names with
  | [] => Ok (inr acc)
  | name :: r =>
      do t <- get_output_type (fo_from h) count_type opt stack;
      if has_key_str name acc then Ok (inl 15%Z)
      else add_fsouts h opt stack r (acc ++ [(name, (t, fo_to h))])
  end.

Definition raw_root (c : raw_comp) : N := match c with RComp r _ _ _ _ => r end.
Definition raw_vertices (c : raw_comp) := match c with RComp _ v _ _ _ => v end.
Definition raw_edges (c : raw_comp) := match c with RComp _ _ e _ _ => e end.
Definition raw_folds (c : raw_comp) := match c with RComp _ _ _ f _ => f end.
Definition raw_outputs (c : raw_comp) := match c with RComp _ _ _ _ o => o end.
Definition rf_hdr (f : raw_fold) := match f with RFold h _ => h end.
Definition rf_comp (f : raw_fold) := match f with RFold _ c => c end.

(* the loop over component.folds, parameterised by what happens to each fold *)
Section FoldLoop.
  Context {S : Type}.
  Variable body : fold_hdr -> raw_comp -> S -> ires S.
  Fixpoint fold_loop (fs : list raw_fold) (st : S) : ires S :=
    match fs with
    | [] => Ok (inr st)
    | RFold h sub :: r =>
        do x <- body h sub st;
        match x with
        | inl e => Ok (inl e)
        | inr st' => fold_loop r st'
        end
    end.
End FoldLoop.

(* the part of one iteration of the folds loop that precedes the recursive call *)
Definition fold_header (root : N) (opt : list N) (stack : list bool) (h : fold_hdr) (sub : raw_comp)
           (st : ixstate) : ires ixstate :=
  if negb (N.eqb (fo_eid h + 1) (fo_to h)) then Ok (inl 10%Z)
  else match owner_check root (st_vids st) (fo_from h) 11%Z 12%Z with
       | Some x => Ok (inl x)
       | None =>
           if negb (N.eqb (fo_to h) (raw_root sub)) then Ok (inl 13%Z)
           else if has_key_N (fo_eid h) (st_eids st) then Ok (inl 14%Z)
           else
             do ro <- add_fsouts h opt stack (fo_fsout h) (st_outs st);
             match ro with
             | inl x => Ok (inl x)
             | inr outs' => Ok (inr (mkSt (st_vids st) (st_eids st ++ [(fo_eid h, true)]) outs'))
             end
       end.

(* fn add_data_from_component *)
Fixpoint add_data_from_component (vars : list (string * ty)) (c : raw_comp) (stack : list bool)
         (st : ixstate) {struct c} : ires ixstate :=
  match c with
  | RComp root vs es fs outs =>
      let opt := optional_vertices es in
      if negb (match find_vertex vs root with Some _ => true | None => false end) then Ok (inl (-1)%Z)
      else
        match add_vertices root vars vs (st_vids st) with
        | inl e => Ok (inl e)
        | inr vids =>
            do ro <- add_outputs root opt stack outs vids (st_outs st);
            match ro with
            | inl e => Ok (inl e)
            | inr outs1 =>
                match add_edges root es vids (st_eids st) with
                | inl e => Ok (inl e)
                | inr eids1 =>
                    fold_loop
                      (fun h sub st1 =>
                         do rh <- fold_header root opt stack h sub st1;
                         match rh with
                         | inl e => Ok (inl e)
                         | inr st2 =>
                             add_data_from_component vars sub (memN (fo_from h) opt :: stack) st2
                         end)
                      fs (mkSt vids eids1 outs1)
                end
            end
        end
  end.

Record indexed := mkIx {
  ix_vids : list (N * N);
  ix_eids : list (N * bool);
  ix_outputs : list out_entry
}.

(* impl TryFrom<IRQuery> for IndexedQuery *)
Definition index_query (q : raw_query) : ires indexed :=
  do r <- add_data_from_component (rq_vars q) (rq_comp q) [] (mkSt [] [] []);
  match r with
  | inl e => Ok (inl e)
  | inr st => Ok (inr (mkIx (st_vids st) (st_eids st) (st_outs st)))
  end.

(* IndexedQuery.outputs as (name, type, vid), or nothing when indexing fails *)
Definition outputs_of (q : raw_query) : option (list out_entry) :=
  match index_query q with Ok (inr ix) => Some (ix_outputs ix) | _ => None end.

(* ---------- rendering for the correspondence check (BTreeMap iteration = key order) ---------- *)
Section SortKeys.
  Context {K V : Type}.
  Variable leb : K -> K -> bool.
  Fixpoint insert_key (k : K) (v : V) (l : list (K * V)) : list (K * V) :=
    match l with
    | [] => [(k, v)]
    | (k', v') :: t => if leb k k' then (k, v) :: l else (k', v') :: insert_key k v t
    end.
  Definition sort_keys (l : list (K * V)) : list (K * V) :=
    fold_right (fun kv acc => insert_key (fst kv) (snd kv) acc) [] l.
End SortKeys.

Local Open Scope string_scope.
Definition show_out_entry (o : out_entry) : string :=
  hex (fst o) ++ ":" ++ show_ty_hex (fst (snd o)) ++ "@" ++ dn (snd (snd o)).
Definition show_outputs (l : list out_entry) : string :=
  String.concat "," (map show_out_entry (sort_keys String.leb l)).
Definition show_indexed (ix : indexed) : string :=
  "OK V:" ++ String.concat "," (map (fun p : N * N => dn (fst p) ++ ">" ++ dn (snd p)) (sort_keys N.leb (ix_vids ix)))
  ++ " E:" ++ String.concat "," (map (fun p : N * bool => dn (fst p) ++ (if snd p then "F" else "R")) (sort_keys N.leb (ix_eids ix)))
  ++ " O:" ++ show_outputs (ix_outputs ix).
Definition show_index (q : raw_query) : string :=
  match index_query q with
  | Panic _ => "PANIC"
  | Ok (inl e) => "ERR" ++ dz e
  | Ok (inr ix) => show_indexed ix
  end.
Definition show_outputs_of (q : raw_query) : string :=
  match outputs_of q with Some l => show_outputs l | None => "NONE" end.
