(* Interact.v — C15: the interpreter as a deterministic interaction tree; recording and replaying.

   MODEL FILE: definitions only (proofs are in InteractProofs.v).

   Abstraction (trustfall_core/src/interpreter/{trace.rs, replay.rs}):
   * The engine is a deterministic program that talks to its adapter: every adapter-facing step is a
     REQUEST with an ANSWER.  Requests: `Call(FunctionCall)` (a resolver is constructed),
     advancing an output iterator of call `opid` (answers `YieldFrom(value)` / `OutputIteratorExhausted`),
     and - seen from the adapter - `AdvanceInputIterator` (answers `YieldInto(ctx)` /
     `InputIteratorExhausted`).  Between requests the engine may produce result rows
     (`ProduceQueryResult`).  What the engine does next is a function of the answers so far: [Ask q k].
   * `AdapterTap` + `tap_results` run the same program against the real adapter and append every
     request/answer pair and every produced row to `Trace.ops` (a BTreeMap keyed by
     `Opid(len + 1)`, so iteration order = recording order: [trace_of]).  [record].
   * `TraceReaderAdapter` + `assert_interpreted_results(trace, rows, complete = true)` run the same
     program against the trace: each request must be the next operation (`assert_eq!` on the call's
     vid / type / field, on the parent opid, on the context), its answer is the recorded one; every
     produced row must equal the recorded `ProduceQueryResult` and the expected row; any mismatch or
     an exhausted trace is a panic.  [replay] (no oracle argument: no data source is consulted).

   The programs are finite (inductive) trees; [prog] has one continuation per possible answer.
   Not modelled: how execution.rs + a concrete adapter give rise to the tree (Rust iterators and
   closures); the serde round trip of the trace (C16). *)
From Coq Require Import String DecimalString List Arith Bool ZArith.
Import ListNotations.

Section Interact.
Variables Req Ans Row : Type.

Inductive prog :=
| Ret
| Yield (r : Row) (k : prog)
| Ask (q : Req) (k : Ans -> prog).

Inductive event :=
| EvAsk (q : Req) (a : Ans)
| EvRow (r : Row).

(* ---------------------------------------------------------------- running against a data source *)
Section Oracle.
Variable O : Type.                         (* state of the adapter + data source *)
Variable answer : O -> Req -> Ans * O.

Fixpoint run (p : prog) (o : O) : list Row :=
  match p with
  | Ret => []
  | Yield r k => r :: run k o
  | Ask q k => let (a, o') := answer o q in run (k a) o'
  end.

(* the tapped run: same program, same oracle, every event appended to the trace in order *)
Fixpoint record (p : prog) (o : O) : list Row * list event :=
  match p with
  | Ret => ([], [])
  | Yield r k => let (rows, log) := record k o in (r :: rows, EvRow r :: log)
  | Ask q k => let (a, o') := answer o q in
               let (rows, log) := record (k a) o' in (rows, EvAsk q a :: log)
  end.
End Oracle.

(* `Trace::record`: opid = ops.len() + 1; replay iterates the BTreeMap in key order *)
Definition trace_of (log : list event) : list (nat * event) := combine (seq 1 (length log)) log.

(* ---------------------------------------------------------------- replaying a trace *)
Variable req_eqb : Req -> Req -> bool.
Variable row_eqb : Row -> Row -> bool.

Inductive rres :=
| ROk (rows : list Row)
| RMismatch (pos : nat)        (* assert_eq! / unreachable!() in a TraceReader iterator *)
| RTraceEnded (pos : nat)      (* "Expected to have an item but found none." *)
| RLeftover (pos : nat).       (* operations left after the program finished *)

Definition rcons (r : Row) (x : rres) : rres :=
  match x with ROk rows => ROk (r :: rows) | e => e end.

Fixpoint replay_at (pos : nat) (p : prog) (log : list event) : rres :=
  match p with
  | Ret => match log with [] => ROk [] | _ :: _ => RLeftover pos end
  | Yield r k =>
      match log with
      | [] => RTraceEnded pos
      | EvRow r' :: log' => if row_eqb r r' then rcons r (replay_at (S pos) k log') else RMismatch pos
      | EvAsk _ _ :: _ => RMismatch pos
      end
  | Ask q k =>
      match log with
      | [] => RTraceEnded pos
      | EvAsk q' a :: log' => if req_eqb q q' then replay_at (S pos) (k a) log' else RMismatch pos
      | EvRow _ :: _ => RMismatch pos
      end
  end.

Definition replay (p : prog) (log : list event) : rres := replay_at 0 p log.

Definition answers_of (log : list event) : list Ans :=
  flat_map (fun e => match e with EvAsk _ a => [a] | EvRow _ => [] end) log.
Definition rows_of (log : list event) : list Row :=
  flat_map (fun e => match e with EvAsk _ _ => [] | EvRow r => [r] end) log.

End Interact.

Arguments Ret {Req Ans Row}.
Arguments Yield {Req Ans Row} r k.
Arguments Ask {Req Ans Row} q k.
Arguments EvAsk {Req Ans Row} q a.
Arguments EvRow {Req Ans Row} r.
Arguments run {Req Ans Row O} answer p o.
Arguments record {Req Ans Row O} answer p o.
Arguments trace_of {Req Ans Row} log.
Arguments ROk {Row} rows.
Arguments RMismatch {Row} pos.
Arguments RTraceEnded {Row} pos.
Arguments RLeftover {Row} pos.
Arguments replay_at {Req Ans Row} req_eqb row_eqb pos p log.
Arguments replay {Req Ans Row} req_eqb row_eqb p log.
Arguments answers_of {Req Ans Row} log.
Arguments rows_of {Req Ans Row} log.

(* ---------------------------------------------------------------- a resolver-shaped program
   One adapter call followed by the consumer loop "advance the output iterator until it is
   exhausted, producing one row per element" (requests are numbers: 0 = the Call, 1 = advance;
   answers: None = exhausted).  The loop is bounded by fuel because [prog] is finite. *)
Fixpoint pump (fuel : nat) : prog nat (option Z) Z :=
  match fuel with
  | O => Ret
  | S f => Ask 1%nat (fun a => match a with Some v => Yield v (pump f) | None => Ret end)
  end.
Definition call_and_pump (fuel : nat) : prog nat (option Z) Z := Ask 0%nat (fun _ => pump fuel).
(* the data source: a list of remaining values *)
Definition list_oracle (o : list Z) (q : nat) : option Z * list Z :=
  match q with
  | O => (None, o)
  | _ => match o with [] => (None, []) | v :: r => (Some v, r) end
  end.

(* ---------------------------------------------------------------- the instance used by the tie
   (harness/src/bin/tfh_pull.rs interprets the same little programs in direct style against an
   oracle object, a recording wrapper around it, and a trace reader) *)
Local Open Scope Z_scope.

Inductive expr := EConst (z : Z) | EVar (i : nat) | EAdd (a b : expr) | EMul (a b : expr).
Fixpoint eval (env : list Z) (e : expr) : Z :=
  match e with
  | EConst z => z
  | EVar i => nth i env 0
  | EAdd a b => eval env a + eval env b
  | EMul a b => eval env a * eval env b
  end.

Inductive sprog :=
| PRet
| PYield (e : expr) (k : sprog)
| PAsk (e : expr) (k : sprog)            (* the answer becomes variable 0 *)
| PIfPos (e : expr) (a b : sprog).

Fixpoint compile (p : sprog) (env : list Z) : prog Z Z Z :=
  match p with
  | PRet => Ret
  | PYield e k => Yield (eval env e) (compile k env)
  | PAsk e k => Ask (eval env e) (fun a => compile k (a :: env))
  | PIfPos e a b => if Z.ltb 0 (eval env e) then compile a env else compile b env
  end.

(* a deterministic stateful data source *)
Definition tie_oracle (o : Z) (q : Z) : Z * Z := (Z.modulo (o * 31 + q * 7 + 3) 11 - 3, o + q + 1).

Inductive tamper := TNone | TDropLast | TExtra (e : event Z Z Z) | TSet (i : nat) (e : event Z Z Z).

Fixpoint set_nth {X} (i : nat) (x : X) (l : list X) : list X :=
  match l, i with
  | [], _ => []
  | _ :: r, O => x :: r
  | y :: r, S i => y :: set_nth i x r
  end.

Definition apply_tamper (t : tamper) (log : list (event Z Z Z)) : list (event Z Z Z) :=
  match t with
  | TNone => log
  | TDropLast => removelast log
  | TExtra e => log ++ [e]
  | TSet i e => set_nth i e log
  end.

Local Open Scope string_scope.

Definition show_zi (z : Z) : string := DecimalString.NilZero.string_of_int (Z.to_int z).
Definition show_nat (n : nat) : string := show_zi (Z.of_nat n).
Definition show_event (e : event Z Z Z) : string :=
  match e with
  | EvAsk q a => "?" ++ show_zi q ++ "=" ++ show_zi a
  | EvRow r => "!" ++ show_zi r
  end.
Definition show_rres (r : rres Z) : string :=
  match r with
  | ROk rows => "OK:" ++ String.concat "," (map show_zi rows)
  | RMismatch p => "MISMATCH@" ++ show_nat p
  | RTraceEnded p => "ENDED@" ++ show_nat p
  | RLeftover p => "LEFTOVER@" ++ show_nat p
  end.

(* run, record, replay the (possibly tampered) recording *)
Definition interact_show (p : sprog) (seed : Z) (t : tamper) : string :=
  let pr := compile p [] in
  let rows := run tie_oracle pr seed in
  let rec := record tie_oracle pr seed in
  "RUN:" ++ String.concat "," (map show_zi rows) ++
  "|TAP:" ++ String.concat "," (map show_zi (fst rec)) ++
  "|LOG:" ++ String.concat " " (map show_event (snd rec)) ++
  "|REPLAY:" ++ show_rres (replay Z.eqb Z.eqb pr (apply_tamper t (snd rec))).
