(* InteractProofs.v — C15: recording is transparent, replaying a recording reproduces the rows and
   consumes the trace exactly, and nothing but the trace is consulted. *)
From Coq Require Import String List Arith Bool Lia ZArith.
From TF Require Import Interact.
Import ListNotations.
Local Open Scope list_scope.

Section InteractProofs.
Variables Req Ans Row : Type.
Variable req_eqb : Req -> Req -> bool.
Variable row_eqb : Row -> Row -> bool.
Hypothesis req_eqb_spec : forall a b, req_eqb a b = true <-> a = b.
Hypothesis row_eqb_spec : forall a b, row_eqb a b = true <-> a = b.

Notation prog := (prog Req Ans Row).
Notation event := (event Req Ans Row).

Lemma req_eqb_refl : forall a, req_eqb a a = true.
Proof. intros. apply req_eqb_spec. reflexivity. Qed.
Lemma row_eqb_refl : forall a, row_eqb a a = true.
Proof. intros. apply row_eqb_spec. reflexivity. Qed.

Section WithOracle.
Variable O : Type.
Variable answer : O -> Req -> Ans * O.

(* AdapterTap + tap_results do not change the rows *)
Lemma tap_transparent : forall (p : prog) o, fst (record answer p o) = run answer p o.
Proof.
  induction p as [| r k IH | q k IH]; intros o; cbn.
  - reflexivity.
  - specialize (IH o). destruct (record answer k o) as [rows log]. cbn in *. rewrite IH. reflexivity.
  - destruct (answer o q) as [a o']. specialize (IH a o').
    destruct (record answer (k a) o') as [rows log]. cbn in *. exact IH.
Qed.

(* the ProduceQueryResult entries of the trace are exactly the rows, in order *)
Lemma record_log_rows : forall (p : prog) o, rows_of (snd (record answer p o)) = run answer p o.
Proof.
  induction p as [| r k IH | q k IH]; intros o; cbn.
  - reflexivity.
  - specialize (IH o). destruct (record answer k o) as [rows log]. cbn in *. rewrite IH. reflexivity.
  - destruct (answer o q) as [a o']. specialize (IH a o').
    destruct (record answer (k a) o') as [rows log]. cbn in *. exact IH.
Qed.

Lemma replay_at_faithful : forall (p : prog) o pos,
  replay_at req_eqb row_eqb pos p (snd (record answer p o)) = ROk (run answer p o).
Proof.
  induction p as [| r k IH | q k IH]; intros o pos; cbn.
  - reflexivity.
  - specialize (IH o (S pos)). destruct (record answer k o) as [rows log]. cbn in *.
    rewrite row_eqb_refl, IH. reflexivity.
  - destruct (answer o q) as [a o']. specialize (IH a o' (S pos)).
    destruct (record answer (k a) o') as [rows log]. cbn in *.
    rewrite req_eqb_refl. exact IH.
Qed.

Lemma replay_faithful : forall (p : prog) o,
  replay req_eqb row_eqb p (snd (record answer p o)) = ROk (run answer p o).
Proof. intros. apply replay_at_faithful. Qed.

(* the trace is consumed exactly: anything appended is left over ... *)
Lemma replay_at_extra : forall (p : prog) o pos e l,
  replay_at req_eqb row_eqb pos p (snd (record answer p o) ++ e :: l)
  = RLeftover (pos + length (snd (record answer p o))).
Proof.
  induction p as [| r k IH | q k IH]; intros o pos e l; cbn.
  - rewrite Nat.add_0_r. reflexivity.
  - specialize (IH o (S pos) e l). destruct (record answer k o) as [rows log]. cbn in *.
    rewrite row_eqb_refl, IH. cbn. f_equal. lia.
  - destruct (answer o q) as [a o']. specialize (IH a o' (S pos) e l).
    destruct (record answer (k a) o') as [rows log]. cbn in *.
    rewrite req_eqb_refl, IH. f_equal. lia.
Qed.

Lemma replay_extra : forall (p : prog) o e l,
  replay req_eqb row_eqb p (snd (record answer p o) ++ e :: l)
  = RLeftover (length (snd (record answer p o))).
Proof. intros. unfold replay. rewrite replay_at_extra. reflexivity. Qed.

(* ... and every strict prefix ends too early *)
Lemma replay_at_prefix : forall (p : prog) o pos l1 e l2,
  snd (record answer p o) = l1 ++ e :: l2 ->
  replay_at req_eqb row_eqb pos p l1 = RTraceEnded (pos + length l1).
Proof.
  induction p as [| r k IH | q k IH]; intros o pos l1 e l2 H; cbn in *.
  - destruct l1; discriminate H.
  - specialize (IH o (S pos)). destruct (record answer k o) as [rows log]. cbn in *.
    destruct l1 as [| x l1]; cbn in *.
    + rewrite Nat.add_0_r. reflexivity.
    + inversion H; subst. rewrite row_eqb_refl. rewrite (IH l1 e l2 eq_refl). cbn. f_equal. lia.
  - destruct (answer o q) as [a o']. specialize (IH a o' (S pos)).
    destruct (record answer (k a) o') as [rows log]. cbn in *.
    destruct l1 as [| x l1]; cbn in *.
    + rewrite Nat.add_0_r. reflexivity.
    + inversion H; subst. rewrite req_eqb_refl. rewrite (IH l1 e l2 eq_refl). f_equal. lia.
Qed.

Lemma replay_prefix : forall (p : prog) o l1 e l2,
  snd (record answer p o) = l1 ++ e :: l2 ->
  replay req_eqb row_eqb p l1 = RTraceEnded (length l1).
Proof. intros. unfold replay. erewrite replay_at_prefix by eassumption. reflexivity. Qed.

End WithOracle.

(* whatever the trace is: a successful replay returns the rows recorded in it *)
Lemma rcons_ok : forall (r : Row) (x : rres Row) rows, rcons Row r x = ROk rows ->
  exists rows', x = ROk rows' /\ rows = r :: rows'.
Proof. intros r [rows' | | |] rows H; cbn in H; try discriminate H. inversion H. eauto. Qed.

Lemma replay_at_ok_rows : forall (p : prog) pos log rows,
  replay_at req_eqb row_eqb pos p log = ROk rows -> rows = rows_of log.
Proof.
  induction p as [| r k IH | q k IH]; intros pos log rows H; cbn in H.
  - destruct log; [inversion H; reflexivity | discriminate H].
  - destruct log as [| [q' a | r'] log]; try discriminate H.
    destruct (row_eqb r r') eqn:E; [| discriminate H].
    apply row_eqb_spec in E. subst r'.
    apply rcons_ok in H. destruct H as (rows' & H & ->). cbn. f_equal. eapply IH. exact H.
  - destruct log as [| [q' a | r'] log]; try discriminate H.
    destruct (req_eqb q q'); [| discriminate H]. cbn. eapply IH. exact H.
Qed.

Lemma replay_ok_rows : forall (p : prog) log rows,
  replay req_eqb row_eqb p log = ROk rows -> rows = rows_of log.
Proof. intros p log rows H. eapply replay_at_ok_rows. exact H. Qed.

(* given the answers, at most one trace is accepted: a changed request or row is detected *)
Lemma replay_at_unique : forall (p : prog) pos pos' l l' rows rows',
  replay_at req_eqb row_eqb pos p l = ROk rows ->
  replay_at req_eqb row_eqb pos' p l' = ROk rows' ->
  answers_of l = answers_of l' -> l = l'.
Proof.
  induction p as [| r k IH | q k IH]; intros pos pos' l l' rows rows' H H' Ha; cbn in H, H'.
  - destruct l; [| discriminate H]. destruct l'; [reflexivity | discriminate H'].
  - destruct l as [| [q1 a1 | r1] l]; try discriminate H.
    destruct l' as [| [q2 a2 | r2] l']; try discriminate H'.
    destruct (row_eqb r r1) eqn:E1; [| discriminate H].
    destruct (row_eqb r r2) eqn:E2; [| discriminate H'].
    apply row_eqb_spec in E1. apply row_eqb_spec in E2. subst r1 r2.
    apply rcons_ok in H. destruct H as (x & H & _).
    apply rcons_ok in H'. destruct H' as (x' & H' & _).
    f_equal. eapply IH; [exact H | exact H' | exact Ha].
  - destruct l as [| [q1 a1 | r1] l]; try discriminate H.
    destruct l' as [| [q2 a2 | r2] l']; try discriminate H'.
    destruct (req_eqb q q1) eqn:E1; [| discriminate H].
    destruct (req_eqb q q2) eqn:E2; [| discriminate H'].
    apply req_eqb_spec in E1. apply req_eqb_spec in E2. subst q1 q2.
    cbn in Ha. inversion Ha; subst. f_equal. eapply IH; [exact H | exact H' | assumption].
Qed.

Lemma replay_unique : forall (p : prog) l l' rows rows',
  replay req_eqb row_eqb p l = ROk rows -> replay req_eqb row_eqb p l' = ROk rows' ->
  answers_of l = answers_of l' -> l = l'.
Proof. intros p l l' rows rows' H H' Ha. eapply replay_at_unique; eassumption. Qed.

(* replay consults nothing but the trace: two data sources (of any kind) that produce the same trace
   produce the same rows *)
Lemma rows_determined_by_trace : forall (O1 O2 : Type) (a1 : O1 -> Req -> Ans * O1) (a2 : O2 -> Req -> Ans * O2)
  (p : prog) o1 o2,
  snd (record a1 p o1) = snd (record a2 p o2) -> run a1 p o1 = run a2 p o2.
Proof.
  intros O1 O2 a1 a2 p o1 o2 H.
  rewrite <- (record_log_rows O1 a1 p o1), <- (record_log_rows O2 a2 p o2), H. reflexivity.
Qed.

(* the engine is deterministic: the rows are a function of the answers *)
Lemma run_deterministic : forall (O : Type) (a1 a2 : O -> Req -> Ans * O) (p : prog) o,
  (forall o q, a1 o q = a2 o q) -> run a1 p o = run a2 p o /\ record a1 p o = record a2 p o.
Proof.
  intros O a1 a2 p. induction p as [| r k IH | q k IH]; intros o He; cbn.
  - split; reflexivity.
  - destruct (IH o He) as [E1 E2]. rewrite E1, E2. split; reflexivity.
  - rewrite <- He. destruct (a1 o q) as [a o']. destruct (IH a o' He) as [E1 E2]. rewrite E1, E2. split; reflexivity.
Qed.

(* `Trace.ops` is keyed by 1, 2, 3, ... in recording order *)
Lemma combine_fst_snd : forall X Y (l1 : list X) (l2 : list Y), length l1 = length l2 ->
  map fst (combine l1 l2) = l1 /\ map snd (combine l1 l2) = l2.
Proof.
  induction l1 as [| x l1 IH]; intros [| y l2] H; cbn in *; try discriminate H; auto.
  destruct (IH l2) as [E1 E2]; [congruence |]. rewrite E1, E2. auto.
Qed.

Lemma trace_of_opids : forall log : list event,
  map fst (trace_of log) = seq 1 (length log) /\ map snd (trace_of log) = log.
Proof. intros log. unfold trace_of. apply combine_fst_snd. apply seq_length. Qed.

End InteractProofs.

Lemma replay_consumes_exactly :
  forall (Req Ans Row : Type) (req_eqb : Req -> Req -> bool) (row_eqb : Row -> Row -> bool),
    (forall a b, req_eqb a b = true <-> a = b) ->
    (forall a b, row_eqb a b = true <-> a = b) ->
    forall (O : Type) (answer : O -> Req -> Ans * O) (p : prog Req Ans Row) (o : O),
      (forall e l, replay req_eqb row_eqb p (snd (record answer p o) ++ e :: l)
                   = RLeftover (length (snd (record answer p o)))) /\
      (forall l1 e l2, snd (record answer p o) = l1 ++ e :: l2 ->
                       replay req_eqb row_eqb p l1 = RTraceEnded (length l1)).
Proof.
  intros Req Ans Row req_eqb row_eqb H1 H2 O answer p o. split.
  - exact (replay_extra Req Ans Row req_eqb row_eqb H1 H2 O answer p o).
  - exact (replay_prefix Req Ans Row req_eqb row_eqb H1 H2 O answer p o).
Qed.

Lemma trace_shape :
  forall (Req Ans Row O : Type) (answer : O -> Req -> Ans * O) (p : prog Req Ans Row) (o : O),
    rows_of (snd (record answer p o)) = run answer p o /\
    map fst (trace_of (snd (record answer p o))) = seq 1 (length (snd (record answer p o))) /\
    map snd (trace_of (snd (record answer p o))) = snd (record answer p o).
Proof.
  intros Req Ans Row O answer p o. split.
  - exact (record_log_rows Req Ans Row O answer p o).
  - exact (trace_of_opids Req Ans Row (snd (record answer p o))).
Qed.

(* the resolver-shaped program against a list: one row per element, every element asked for once *)
Lemma pump_rows : forall l fuel, length l < fuel -> run list_oracle (pump fuel) l = l.
Proof.
  induction l as [| v l IH]; intros [| fuel] H; cbn in *; try lia; try reflexivity.
  rewrite IH by lia. reflexivity.
Qed.
