(* Introspect.v — model of trustfall_core/src/schema/adapter/mod.rs: `SchemaAdapter`, the adapter that
   answers queries over the meta-schema (schema/adapter/schema.graphql) about a given `Schema`.
   Model file: definitions only, no proofs (proofs are in IntrospectProofs.v).

   Function-by-function transcription.  Every expect/unwrap/unreachable!/panic! is an explicit
   `Panic site`.  Iterators are lists; a panic raised lazily while an iterator is pulled is the
   `Panic` of the whole result.

   The `Schema` value is represented by what the adapter reads from it: the query type's name, the
   `vertex_types` map (an association list in document order with first-match lookup: names are
   unique in every schema Schema::new accepts) and the query type's fields.
   HashMap ITERATION order (`schema.vertex_types.values()` in `vertex_type_iter`, defect F14) is NOT
   modelled: the model enumerates in document order and every statement about that enumeration is
   invariant under permutation (Permutation / In); the correspondence check compares sorted rows.
   `Schema::subtypes` sorts by name (`sorted_by_key`), which IS modelled (`sort_types` of SchemaNew.v).

   Not represented: descriptions (`docs` properties): SchemaAst.v drops them, so the model answers Null,
   which is the implementation's answer exactly for definitions without a description.
   Float tokens inside the JSON text of a parameter default (serde_json/ryu shortest round-trip decimal)
   are abstracted to `f<bits>` (`float_text`); every other character of the JSON text is modelled. *)
From TF Require Export SchemaAst SchemaNew.
From TF Require Import Show.
Local Open Scope list_scope.
Local Open Scope string_scope.

(* ---------- the parts of `Schema` the adapter reads ---------- *)
Record schema := mkSchema {
  sc_query : string;          (* schema.query_type_name() *)
  sc_types : list tdef        (* schema.vertex_types : name -> TypeDefinition *)
}.
(* the Schema that Schema::new builds from an accepted document *)
Definition schema_of_doc (d : doc) : schema :=
  mkSchema (match doc_schemas d with Some q :: _ => q | _ => "" end) (doc_types d).

(* schema.vertex_types.get(name) *)
Definition sget (s : schema) (n : string) : option tdef := find_type n (sc_types s).
(* schema.vertex_types.contains_key(name) *)
Definition shas (s : schema) (n : string) : bool := has_type n (sc_types s).
(* schema.query_type.fields *)
Definition root_fields (s : schema) : list fld :=
  match sget s (sc_query s) with Some t => t_fields t | None => [] end.

(* ---------- SchemaVertex ---------- *)
Inductive svertex :=
| SVType (t : tdef)                                   (* VertexType { defn } *)
| SVProp (parent : tdef) (name : string) (pty : ty)   (* Property { parent, name, docs, type_ } *)
| SVEdge (f : fld)                                    (* Edge { defn } *)
| SVParam (a : arg)                                   (* EdgeParameter { defn } *)
| SVSchema.                                           (* Schema *)

(* impl Typename for SchemaVertex *)
Definition typename (v : svertex) : string :=
  match v with
  | SVType _ => "VertexType"
  | SVProp _ _ _ => "Property"
  | SVEdge _ => "Edge"
  | SVParam _ => "EdgeParameter"
  | SVSchema => "Schema"
  end.

(* ---------- panic sites ---------- *)
Definition site_conv : string := "helpers/mod.rs accessor_property!/field_property!: conversion failed, unexpected vertex kind".
Definition site_not_vertex_type : string := "schema/adapter/mod.rs expect: not a VertexType".
Definition site_not_edge : string := "schema/adapter/mod.rs expect: not an Edge".
Definition site_not_param : string := "schema/adapter/mod.rs:350 expect: not an EdgeParameter".
Definition site_const_value : string := "schema/adapter/mod.rs:357 expect: failed to convert ConstValue".
Definition site_name_not_string : string := "schema/adapter/mod.rs:97 expect: vertex type name was not a string".
Definition site_subtypes : string := "schema/adapter/mod.rs:488 expect: input type was not part of this schema".
Definition site_start_edge : string := "schema/adapter/mod.rs:294 unreachable!: unexpected starting edge".
Definition site_prop_name : string := "schema/adapter/mod.rs unreachable!: unexpected property name on type".
Definition site_type_name : string := "schema/adapter/mod.rs unreachable!: unexpected type name".
Definition site_edge_name : string := "schema/adapter/mod.rs unreachable!: unexpected edge name on type".
Definition site_coercion : string := "schema/adapter/mod.rs:457 unreachable!: unexpected type coercion".

(* SchemaVertex::as_vertex_type etc. followed by the macro's unwrap_or_else(panic!) / the resolvers' expect *)
Definition as_vertex_type (site : string) (v : svertex) : res tdef :=
  match v with SVType t => Ok t | _ => Panic site end.
Definition as_property (v : svertex) : res (tdef * string * ty) :=
  match v with SVProp p n t => Ok (p, n, t) | _ => Panic site_conv end.
Definition as_edge (site : string) (v : svertex) : res fld :=
  match v with SVEdge f => Ok f | _ => Panic site end.
Definition as_edge_parameter (site : string) (v : svertex) : res arg :=
  match v with SVParam a => Ok a | _ => Panic site end.

(* ---------- statically_required_property("name") as seen by vertex_type_iter ---------- *)
Inductive name_hint :=
| HNone                        (* None: no static filter on `name` *)
| HSingleStr (n : string)      (* Some(CandidateValue::Single(FieldValue::String(n))) *)
| HMultiple (l : list fv)      (* Some(CandidateValue::Multiple(l)) *)
| HOther.                      (* any other Some(..): Impossible, All, Range, Single(non-string) *)

Definition is_root (s : schema) (t : tdef) : bool := String.eqb (t_name t) (sc_query s).
Definition not_root (s : schema) (t : tdef) : bool := negb (is_root s t).

(* vertex_types.get(name).filter(|v| v.name != root_query_type) *)
Definition get_non_root (s : schema) (n : string) : list svertex :=
  match sget s n with
  | Some t => if not_root s t then [SVType t] else []
  | None => []
  end.

(* fn vertex_type_iter *)
Definition vertex_type_iter (s : schema) (h : name_hint) : res (list svertex) :=
  match h with
  | HSingleStr n => Ok (get_non_root s n)
  | HMultiple l =>
      rflat (fun v => match v with
                      | Str n => Ok (get_non_root s n)          (* name.as_arc_str() *)
                      | _ => Panic site_name_not_string
                      end) l
  | _ => Ok (map SVType (filter (not_root s) (sc_types s)))    (* vertex_types.values(): hash order, see header *)
  end.

(* fn entrypoints_iter *)
Definition entrypoints_iter (s : schema) : list svertex := map SVEdge (root_fields s).

(* ---------- resolve_starting_vertices ---------- *)
Definition starts (s : schema) (edge_name : string) (h : name_hint) : res (list svertex) :=
  if String.eqb edge_name "VertexType" then vertex_type_iter s h
  else if String.eqb edge_name "Entrypoint" then Ok (entrypoints_iter s)
  else if String.eqb edge_name "Schema" then Ok [SVSchema]
  else Panic site_start_edge.

(* ---------- JSON text of a default value: serde_json::to_string(&TransparentValue::from(v)) ---------- *)
Definition chr (n : N) : string := String (ascii_of_N n) EmptyString.
(* serde_json's ESCAPE table: backslash-escapes for the double quote, the backslash, BS FF LF CR TAB,
   \u00XX (lower-case hex) for the other control bytes, everything else verbatim *)
Definition json_escape_byte (n : N) : string :=
  if N.eqb n 34 then chr 92 ++ chr 34
  else if N.eqb n 92 then chr 92 ++ chr 92
  else if N.eqb n 8 then chr 92 ++ "b"
  else if N.eqb n 12 then chr 92 ++ "f"
  else if N.eqb n 10 then chr 92 ++ "n"
  else if N.eqb n 13 then chr 92 ++ "r"
  else if N.eqb n 9 then chr 92 ++ "t"
  else if N.ltb n 32 then chr 92 ++ "u00" ++ String (hexdigit (N.div n 16)) (String (hexdigit (N.modulo n 16)) EmptyString)
  else chr n.
Fixpoint json_escape (s : string) : string :=
  match s with
  | EmptyString => EmptyString
  | String a r => json_escape_byte (N_of_ascii a) ++ json_escape r
  end.
Definition json_string (s : string) : string := chr 34 ++ json_escape s ++ chr 34.
(* ABSTRACTION: the decimal text ryu prints for a finite binary64 is represented by its bit pattern *)
Definition float_text (bits : N) : string := "f" ++ dn bits.
(* TransparentValue is #[serde(untagged)]: every variant serialises as its payload; a non-finite float as null *)
Fixpoint json_text (v : fv) : string :=
  match v with
  | Null => "null"
  | I64 z => dz z
  | U64 z => dz z
  | F64 b => if f64_finite b then float_text b else "null"
  | Str x => json_string x
  | Boolv b => if b then "true" else "false"
  | Enum x => json_string x
  | List l => "[" ++ String.concat "," (map json_text l) ++ "]"
  end.

(* ---------- resolve_property ---------- *)
(* Option<String> -> FieldValue *)
Definition opt_str (o : option string) : fv := match o with Some x => Str x | None => Null end.

(* the closure of the "default" arm *)
Definition param_default (a : arg) : res (option fv) :=
  match a_default a with
  | Default v => Ok (Some v)                                        (* value.clone().try_into().expect(..) *)
  | BadDefault => Panic site_const_value
  | NoDefault => Ok (if gnullable (a_ty a) then Some Null else None)   (* nullable => implicit null default *)
  end.
Definition default_text (a : arg) : res fv :=
  do o <- param_default a;
  Ok (opt_str (match o with Some v => Some (json_text v) | None => None end)).

(* Edge::to_many / Edge::at_least_one *)
Definition g_is_list (g : gty) : bool := match g with GList _ _ => true | GNamed _ _ => false end.
Definition edge_to_many (f : fld) : bool := g_is_list (f_ty f).
Definition edge_at_least_one (f : fld) : bool := negb (gnullable (f_ty f)).
Definition is_interface (t : tdef) : bool := match t_kind t with VInterface => true | VObject => false end.

(* The dispatch on (type_name, property_name) happens when resolve_property is CALLED (outer res);
   the returned closure runs once per context that has an active vertex (inner res). *)
Definition property_resolver (type_name property_name : string) : res (svertex -> res fv) :=
  if String.eqb property_name "__typename" then Ok (fun v => Ok (Str (typename v)))
  else if String.eqb type_name "VertexType" then
    if String.eqb property_name "name" then Ok (fun v => do t <- as_vertex_type site_conv v; Ok (Str (t_name t)))
    else if String.eqb property_name "docs" then Ok (fun v => do t <- as_vertex_type site_conv v; Ok Null)
    else if String.eqb property_name "is_interface" then
      Ok (fun v => do t <- as_vertex_type site_conv v; Ok (Boolv (is_interface t)))
    else Panic site_prop_name
  else if String.eqb type_name "Property" then
    if String.eqb property_name "name" then Ok (fun v => do p <- as_property v; Ok (Str (snd (fst p))))
    else if String.eqb property_name "docs" then Ok (fun v => do p <- as_property v; Ok Null)
    else if String.eqb property_name "type" then Ok (fun v => do p <- as_property v; Ok (Str (ty_display (snd p))))
    else Panic site_prop_name
  else if String.eqb type_name "Edge" then
    if String.eqb property_name "name" then Ok (fun v => do f <- as_edge site_conv v; Ok (Str (f_name f)))
    else if String.eqb property_name "docs" then Ok (fun v => do f <- as_edge site_conv v; Ok Null)
    else if String.eqb property_name "to_many" then Ok (fun v => do f <- as_edge site_conv v; Ok (Boolv (edge_to_many f)))
    else if String.eqb property_name "at_least_one" then
      Ok (fun v => do f <- as_edge site_conv v; Ok (Boolv (edge_at_least_one f)))
    else Panic site_prop_name
  else if String.eqb type_name "EdgeParameter" then
    if String.eqb property_name "name" then Ok (fun v => do a <- as_edge_parameter site_conv v; Ok (Str (a_name a)))
    else if String.eqb property_name "docs" then Ok (fun v => do a <- as_edge_parameter site_conv v; Ok Null)
    else if String.eqb property_name "type" then
      Ok (fun v => do a <- as_edge_parameter site_conv v; Ok (Str (gty_text (a_ty a))))   (* parser's Display *)
    else if String.eqb property_name "default" then
      Ok (fun v => do a <- as_edge_parameter site_not_param v; default_text a)
    else Panic site_prop_name
  else Panic site_type_name.

(* the value of one property of one vertex *)
Definition prop_value (type_name property_name : string) (v : svertex) : res fv :=
  do f <- property_resolver type_name property_name; f v.

(* ---------- resolve_neighbors ---------- *)
(* fn resolve_vertex_type_implements_edge *)
Definition implements_edge (s : schema) (v : svertex) : res (list svertex) :=
  do t <- as_vertex_type site_not_vertex_type v;
  Ok (flat_map (fun n => match sget s n with Some d => [SVType d] | None => [] end) (t_impl t)).

(* Schema::subtypes: the names, sorted, of the types equal to or implementing `n`; None if undefined *)
Definition subtypes (s : schema) (n : string) : option (list string) :=
  if shas s n
  then Some (map t_name (filter (fun d => String.eqb (t_name d) n || mem n (t_impl d)) (sort_types (sc_types s))))
  else None.

(* fn resolve_vertex_type_implementer_edge *)
Definition implementer_edge (s : schema) (v : svertex) : res (list svertex) :=
  do t <- as_vertex_type site_not_vertex_type v;
  match subtypes s (t_name t) with
  | None => Panic site_subtypes
  | Some names =>
      (* .filter(move |implementer_type| *implementer_type != own_name): subtypes() includes the type itself *)
      Ok (flat_map (fun n => match sget s n with Some d => [SVType d] | None => [] end)
                   (filter (fun n => negb (String.eqb n (t_name t))) names))
  end.

(* Type::from_type(&field.ty.node) and whether its base names a vertex type *)
Definition field_kind (s : schema) (f : fld) : res (ty * bool) :=
  do ft <- from_type (f_ty f); Ok (ft, shas s (ty_base_type ft)).

(* fn resolve_vertex_type_property_edge *)
Definition property_edge (s : schema) (v : svertex) : res (list svertex) :=
  do t <- as_vertex_type site_not_vertex_type v;
  rflat (fun f => do k <- field_kind s f;
                  Ok (if snd k then [] else [SVProp t (f_name f) (fst k)])) (t_fields t).

(* fn resolve_vertex_type_edge_edge *)
Definition edge_edge (s : schema) (v : svertex) : res (list svertex) :=
  do t <- as_vertex_type site_not_vertex_type v;
  rflat (fun f => do k <- field_kind s f;
                  Ok (if snd k then [SVEdge f] else [])) (t_fields t).

(* the "target" closure *)
Definition target_edge (s : schema) (v : svertex) : res (list svertex) :=
  do f <- as_edge site_not_edge v;
  do ft <- from_type (f_ty f);
  Ok (match sget s (ty_base_type ft) with Some d => [SVType d] | None => [] end).

(* the "parameter" closure *)
Definition parameter_edge (v : svertex) : res (list svertex) :=
  do f <- as_edge site_not_edge v; Ok (map SVParam (f_args f)).

(* dispatch at call time (outer res), closure per active vertex (inner res); `dest` is
   resolve_info.destination().statically_required_property("name"), read only by Schema.vertex_type *)
Definition neighbor_resolver (s : schema) (type_name edge_name : string) (dest : name_hint)
  : res (svertex -> res (list svertex)) :=
  if String.eqb type_name "VertexType" then
    if String.eqb edge_name "implements" then Ok (implements_edge s)
    else if String.eqb edge_name "implementer" then Ok (implementer_edge s)
    else if String.eqb edge_name "property" then Ok (property_edge s)
    else if String.eqb edge_name "edge" then Ok (edge_edge s)
    else Panic site_edge_name
  else if String.eqb type_name "Edge" then
    if String.eqb edge_name "target" then Ok (target_edge s)
    else if String.eqb edge_name "parameter" then Ok parameter_edge
    else Panic site_edge_name
  else if String.eqb type_name "Schema" then
    if String.eqb edge_name "vertex_type" then Ok (fun _ => vertex_type_iter s dest)
    else if String.eqb edge_name "entrypoint" then Ok (fun _ => Ok (entrypoints_iter s))
    else Panic site_edge_name
  else Panic site_type_name.

(* the neighbours of one vertex along one edge *)
Definition nbrs (s : schema) (type_name edge_name : string) (dest : name_hint) (v : svertex) : res (list svertex) :=
  do f <- neighbor_resolver s type_name edge_name dest; f v.

(* ---------- the resolvers on contexts: helpers::resolve_*_with ---------- *)
(* a DataContext as far as a resolver is concerned: an opaque payload C and the active vertex *)
Definition ctx (C : Type) : Type := (C * option svertex)%type.

Fixpoint rmap {A B} (f : A -> res B) (l : list A) : res (list B) :=
  match l with
  | [] => Ok []
  | x :: r => do y <- f x; do ys <- rmap f r; Ok (y :: ys)
  end.

(* fn resolve_property_with: contexts.map(|ctx| match active_vertex { None => (ctx, Null), Some(v) => (ctx, f(v)) }) *)
Definition resolve_property_with {C} (f : svertex -> res fv) (cs : list (ctx C)) : res (list (ctx C * fv)) :=
  rmap (fun c => match snd c with
                 | None => Ok (c, Null)
                 | Some v => do x <- f v; Ok (c, x)
                 end) cs.
(* fn resolve_neighbors_with *)
Definition resolve_neighbors_with {C} (f : svertex -> res (list svertex)) (cs : list (ctx C))
  : res (list (ctx C * list svertex)) :=
  rmap (fun c => match snd c with
                 | None => Ok (c, [])
                 | Some v => do x <- f v; Ok (c, x)
                 end) cs.

Definition resolve_property {C} (type_name property_name : string) (cs : list (ctx C)) : res (list (ctx C * fv)) :=
  do f <- property_resolver type_name property_name; resolve_property_with f cs.
Definition resolve_neighbors {C} (s : schema) (type_name edge_name : string) (dest : name_hint) (cs : list (ctx C))
  : res (list (ctx C * list svertex)) :=
  do f <- neighbor_resolver s type_name edge_name dest; resolve_neighbors_with f cs.
(* fn resolve_coercion: unreachable!(..) (the meta-schema has no interfaces) *)
Definition resolve_coercion {C} (type_name coerce_to : string) (cs : list (ctx C)) : res (list (ctx C * bool)) :=
  Panic site_coercion.

(* ====================================================================================== *)
(* Canonical introspection queries: the rows the engine computes from the oracles          *)
(* (one row = the list of @output values in the order written below).                      *)
(* ====================================================================================== *)
Definition row := list fv.
(* the listed properties of v *)
Definition cols (type_name : string) (names : list string) (v : svertex) : res row :=
  rmap (fun pn => prop_value type_name pn v) names.
(* rows of a sub-query prefixed with this vertex's columns *)
Definition join (pre : res row) (sub : res (list row)) : res (list row) :=
  do p <- pre; do rs <- sub; Ok (map (app p) rs).
Definition leaf (r : res row) : res (list row) := do x <- r; Ok [x].
(* expand edge `en` of v and run k on every neighbour *)
Definition via (s : schema) (type_name en : string) (k : svertex -> res (list row)) (v : svertex) : res (list row) :=
  do ns <- nbrs s type_name en HNone v; rflat k ns.
Definition from_start (s : schema) (entry : string) (h : name_hint) (k : svertex -> res (list row)) : res (list row) :=
  do vs <- starts s entry h; rflat k vs.

(* { VertexType { name @output is_interface @output } } *)
Definition types_body (v : svertex) : res (list row) := leaf (cols "VertexType" ["name"; "is_interface"] v).
Definition q_types (s : schema) : res (list row) := from_start s "VertexType" HNone types_body.
(* the same under a static hint on `name` (the engine re-applies the filter to what the adapter returns) *)
Definition q_types_hinted (s : schema) (h : name_hint) : res (list row) := from_start s "VertexType" h types_body.
(* the engine applies the @filter on `name` itself to whatever the adapter returned *)
Definition engine_filter (allowed : string -> bool) (rows : list row) : list row :=
  filter (fun r => match r with Str n :: _ => allowed n | _ => false end) rows.
(* { VertexType { name @filter(..) @output is_interface @output } }: adapter enumerates under hint h, engine filters *)
Definition q_types_filtered (s : schema) (h : name_hint) (allowed : string -> bool) : res (list row) :=
  do rows <- q_types_hinted s h; Ok (engine_filter allowed rows).
(* { VertexType { name @output implements { name @output } } } *)
Definition q_implements (s : schema) : res (list row) :=
  from_start s "VertexType" HNone (fun v =>
    join (cols "VertexType" ["name"] v)
         (via s "VertexType" "implements" (fun i => leaf (cols "VertexType" ["name"] i)) v)).
(* { VertexType { name @output implementer { name @output } } } *)
Definition q_implementer (s : schema) : res (list row) :=
  from_start s "VertexType" HNone (fun v =>
    join (cols "VertexType" ["name"] v)
         (via s "VertexType" "implementer" (fun i => leaf (cols "VertexType" ["name"] i)) v)).
(* { VertexType { name @output property { name @output type @output } } } *)
Definition q_properties (s : schema) : res (list row) :=
  from_start s "VertexType" HNone (fun v =>
    join (cols "VertexType" ["name"] v)
         (via s "VertexType" "property" (fun p => leaf (cols "Property" ["name"; "type"] p)) v)).
(* the Edge part shared by type edges and entry points:
   name to_many at_least_one @output, target { name @output } *)
Definition edge_body (s : schema) (e : svertex) : res (list row) :=
  join (cols "Edge" ["name"; "to_many"; "at_least_one"] e)
       (via s "Edge" "target" (fun t => leaf (cols "VertexType" ["name"] t)) e).
(* name @output, parameter { name type default @output } *)
Definition param_body (s : schema) (e : svertex) : res (list row) :=
  join (cols "Edge" ["name"] e)
       (via s "Edge" "parameter" (fun p => leaf (cols "EdgeParameter" ["name"; "type"; "default"] p)) e).
(* { VertexType { name @output edge { <edge_body> } } } *)
Definition q_edges (s : schema) : res (list row) :=
  from_start s "VertexType" HNone (fun v =>
    join (cols "VertexType" ["name"] v) (via s "VertexType" "edge" (edge_body s) v)).
(* { VertexType { name @output edge { <param_body> } } } *)
Definition q_params (s : schema) : res (list row) :=
  from_start s "VertexType" HNone (fun v =>
    join (cols "VertexType" ["name"] v) (via s "VertexType" "edge" (param_body s) v)).
(* { Entrypoint { <edge_body> } } and { Entrypoint { <param_body> } } *)
Definition q_entrypoints (s : schema) : res (list row) := from_start s "Entrypoint" HNone (edge_body s).
Definition q_entry_params (s : schema) : res (list row) := from_start s "Entrypoint" HNone (param_body s).
(* { Schema { vertex_type { name @output is_interface @output } } } and { Schema { entrypoint { <edge_body> } } } *)
Definition q_schema_types (s : schema) : res (list row) :=
  from_start s "Schema" HNone (via s "Schema" "vertex_type" types_body).
Definition q_schema_entrypoints (s : schema) : res (list row) :=
  from_start s "Schema" HNone (via s "Schema" "entrypoint" (edge_body s)).

(* ====================================================================================== *)
(* Specification: the same relations written directly from the schema AST                   *)
(* (no vertices, no resolvers, no converted types, no panics).                              *)
(* ====================================================================================== *)
(* the vertex types a query can enumerate: every object / interface definition except the root query type *)
Definition visible_types (s : schema) : list tdef := filter (not_root s) (sc_types s).
(* a field is a property when its innermost type is a built-in scalar, otherwise an edge *)
Definition fld_is_property (f : fld) : bool := builtin_scalar (gbase (f_ty f)).
Definition type_properties (t : tdef) : list fld := filter fld_is_property (t_fields t).
Definition type_edges (t : tdef) : list fld := filter (fun f => negb (fld_is_property f)) (t_fields t).

Definition spec_types (s : schema) : list row :=
  map (fun t => [Str (t_name t); Boolv (is_interface t)]) (visible_types s).
Definition spec_implements (s : schema) : list row :=
  flat_map (fun t => map (fun i => [Str (t_name t); Str i]) (t_impl t)) (visible_types s).
(* DOCUMENTED (schema.graphql): "Subtypes of this vertex type.  If this is not an interface type,
   this edge is guaranteed to be empty." *)
Definition spec_implementer_documented (s : schema) : list row :=
  flat_map (fun t => if is_interface t
                     then map (fun u => [Str (t_name t); Str (t_name u)])
                              (filter (fun u => mem (t_name t) (t_impl u)) (sc_types s))
                     else []) (visible_types s).
(* ACTUAL (what the code computes, whatever the kind of the type): the types OTHER than the type itself
   that list it in their `implements` (`Schema::subtypes` minus the own name; since the repair of F18 the
   type itself is filtered out).  On schemas Schema::new accepts this IS the documented relation
   (IntrospectProofs.implementer_actual_eq_documented). *)
Definition spec_implementer_actual (s : schema) : list row :=
  flat_map (fun t => map (fun u => [Str (t_name t); Str (t_name u)])
                         (filter (fun u => negb (String.eqb (t_name u) (t_name t)) && mem (t_name t) (t_impl u)) (sc_types s)))
           (visible_types s).
Definition spec_properties (s : schema) : list row :=
  flat_map (fun t => map (fun f => [Str (t_name t); Str (f_name f); Str (gty_text (f_ty f))]) (type_properties t))
           (visible_types s).
Definition spec_edge_row (f : fld) : row :=
  [Str (f_name f); Boolv (g_is_list (f_ty f)); Boolv (negb (gnullable (f_ty f))); Str (gbase (f_ty f))].
Definition spec_edges (s : schema) : list row :=
  flat_map (fun t => map (fun f => Str (t_name t) :: spec_edge_row f) (type_edges t)) (visible_types s).
(* the JSON text of the default: the declared one, else "null" for a nullable parameter, else none *)
Definition spec_default (a : arg) : fv :=
  match a_default a with
  | Default v => Str (json_text v)
  | _ => if gnullable (a_ty a) then Str "null" else Null
  end.
Definition spec_param_rows (f : fld) : list row :=
  map (fun a => [Str (f_name f); Str (a_name a); Str (gty_text (a_ty a)); spec_default a]) (f_args f).
Definition spec_params (s : schema) : list row :=
  flat_map (fun t => flat_map (fun f => map (cons (Str (t_name t))) (spec_param_rows f)) (type_edges t))
           (visible_types s).
Definition spec_entrypoints (s : schema) : list row := map spec_edge_row (root_fields s).
Definition spec_entry_params (s : schema) : list row := flat_map spec_param_rows (root_fields s).

(* what a static hint on `name` denotes as a filter on names (what the engine re-checks anyway) *)
Definition hint_allows (h : name_hint) (n : string) : bool :=
  match h with
  | HSingleStr m => String.eqb m n
  | HMultiple l => existsb (fun v => match v with Str m => String.eqb m n | _ => false end) l
  | _ => true
  end.
Definition hint_strings (h : name_hint) : Prop :=
  match h with HMultiple l => forall v, In v l -> exists n, v = Str n | _ => True end.

(* ---------- the meta-schema (schema/adapter/schema.graphql) as an AST ---------- *)
Definition nn (n : string) : gty := GNamed n false.           (* N!  *)
Definition nl (n : string) : gty := GNamed n true.            (* N   *)
Definition meta_doc : doc :=
  [ DSchema (Some "RootSchemaQuery");
    DType (mkT "RootSchemaQuery" VObject []
      [ mkFld "VertexType" [] (GList (nn "VertexType") false);
        mkFld "Entrypoint" [] (GList (nn "Edge") false);
        mkFld "Schema" [] (nn "Schema") ]);
    DType (mkT "Schema" VObject []
      [ mkFld "vertex_type" [] (GList (nn "VertexType") false);
        mkFld "entrypoint" [] (GList (nn "Edge") false) ]);
    DType (mkT "VertexType" VObject []
      [ mkFld "name" [] (nn "String");
        mkFld "docs" [] (nl "String");
        mkFld "is_interface" [] (nn "Boolean");
        mkFld "implements" [] (GList (nn "VertexType") true);
        mkFld "implementer" [] (GList (nn "VertexType") true);
        mkFld "property" [] (GList (nn "Property") true);
        mkFld "edge" [] (GList (nn "Edge") true) ]);
    DType (mkT "Property" VObject []
      [ mkFld "name" [] (nn "String");
        mkFld "docs" [] (nl "String");
        mkFld "type" [] (nn "String") ]);
    DType (mkT "Edge" VObject []
      [ mkFld "name" [] (nn "String");
        mkFld "docs" [] (nl "String");
        mkFld "to_many" [] (nn "Boolean");
        mkFld "at_least_one" [] (nn "Boolean");
        mkFld "target" [] (nn "VertexType");
        mkFld "parameter" [] (GList (nn "EdgeParameter") true) ]);
    DType (mkT "EdgeParameter" VObject []
      [ mkFld "name" [] (nn "String");
        mkFld "docs" [] (nl "String");
        mkFld "type" [] (nn "String");
        mkFld "default" [] (nl "String") ]) ].

(* ---------- rendering for the correspondence check (mirrored by harness/src/bin/tfh_intro.rs) ---------- *)
Definition show_row (r : row) : string := String.concat "," (map show_fv r).
(* insertion sort of the rendered rows (byte-wise order = Rust's str order): rows are compared as multisets *)
Fixpoint sins (x : string) (l : list string) : list string :=
  match l with
  | [] => [x]
  | y :: r => if String.leb x y then x :: l else y :: sins x r
  end.
Definition ssort (l : list string) : list string := fold_right sins [] l.
Definition show_rows (r : res (list row)) : string :=
  match r with
  | Panic _ => "PANIC"
  | Ok rows => String.concat "|" (ssort (map show_row rows))
  end.
Definition show_spec (rows : list row) : string := show_rows (Ok rows).
